(** C07.Run — case decoding, model run, and the specification evaluated on the
    implementation's outcome.

    Wire format: see harness/src/c07.rs.  The implementation's outcome carries, next to the
    resolved state, the *oracle*: what lib.rs learns about each event from other anchored
    code (content accessors, [auth_types_for_event], and the [auth_check] verdict for every
    combination of candidate auth events).  The model and the specification take
    [auth]/[auth_types] from that table, so a change of the authorization rules in ruma
    changes both sides alike and C07 keeps checking state resolution only.  The model's
    outcome echoes the oracle so that outcomes compare textually.

    A verdict missing from the table is read once as [false] and once as [true]; if that
    makes a difference the answer is marked ([SN (-4)]) instead of guessed. *)
From Base Require Import Prelude Sx.
From C07 Require Import Event Model Spec.

(** * Decoding *)
Definition as_key (x : sx) : option key :=
  match x with SL [SS a; SS b] => Some (a, b) | _ => None end.

Definition as_user_level (x : sx) : option (str * Z) :=
  match x with SL [SS u; SN l] => Some (u, l) | _ => None end.

Definition as_pl (x : sx) : option (option (option (list (str * Z)) * option (option Z))) :=
  match x with
  | SL [] => Some None
  | SL [users; def] =>
      match as_opt (as_list_of as_user_level) users, as_opt (as_opt as_Z) def with
      | Some u, Some d => Some (Some (u, d))
      | _, _ => None
      end
  | _ => None
  end.

Definition as_verdict (x : sx) : option (list (option id) * bool) :=
  match x with
  | SL [row; v] =>
      match as_list_of (as_opt as_str) row, as_bool v with
      | Some r, Some b => Some (r, b)
      | _, _ => None
      end
  | _ => None
  end.

Definition dec_event (x o : sx) : option event :=
  match x, o with
  | SL [SS i; SS ty; sk; SS sender; SN ts; au; SS _], SL [mem; cre; pl; aty; ver] =>
      match as_opt as_str sk, as_list_of as_str au, as_opt as_str mem,
            as_opt (as_opt as_str) cre, as_pl pl, as_opt (as_list_of as_key) aty,
            as_list_of as_verdict ver with
      | Some sk, Some au, Some mem, Some cre, Some pl, Some aty, Some ver =>
          Some (mkEvent i ty sk sender ts au mem cre pl aty ver)
      | _, _, _, _, _, _, _ => None
      end
  | _, _ => None
  end.

Fixpoint dec_events (xs os : list sx) : option (list event) :=
  match xs, os with
  | [], [] => Some []
  | x :: xs', o :: os' =>
      match dec_event x o, dec_events xs' os' with
      | Some e, Some r => Some (e :: r)
      | _, _ => None
      end
  | _, _ => None
  end.

Definition as_entry (x : sx) : option (key * id) :=
  match x with SL [SS a; SS b; SS i] => Some ((a, b), i) | _ => None end.

(** * auth_check / auth_types_for_event from the recorded table *)
Definition row_eqb (a b : list (option id)) : bool :=
  (List.length a =? List.length b)%nat && forallb (fun p => opt_id_eqb (fst p) (snd p)) (combine a b).

Definition auth_tbl (dflt : bool) (e : event) (f : key -> option event) : bool :=
  match e_atypes e with
  | Some keys =>
      let row := map (fun k => option_map e_id (f k)) keys in
      match find (fun r => row_eqb (fst r) row) (e_verdicts e) with
      | Some r => snd r
      | None => dflt
      end
  | None => dflt
  end.

(** * Canonical form of a state map: sorted by key, first match wins *)
Definition key_ltb (a b : key) : bool :=
  if str_ltb (fst a) (fst b) then true
  else if str_eqb (fst a) (fst b) then str_ltb (snd a) (snd b) else false.

Fixpoint canon_insert (kv : key * id) (m : smap) : smap :=
  match m with
  | [] => [kv]
  | (k, v) :: m' =>
      if key_eqb (fst kv) k then kv :: m'
      else if key_ltb (fst kv) k then kv :: m
      else (k, v) :: canon_insert kv m'
  end.

Definition canon (m : smap) : smap := fold_right canon_insert [] m.

Definition sx_smap (m : smap) : sx :=
  SL (map (fun kv => SL [SS (fst (fst kv)); SS (snd (fst kv)); SS (snd kv)]) (canon m)).

Definition smap_eqb (a b : smap) : bool :=
  let ca := canon a in let cb := canon b in
  (List.length ca =? List.length cb)%nat
  && forallb (fun p => key_eqb (fst (fst p)) (fst (snd p)) && str_eqb (snd (fst p)) (snd (snd p)))
             (combine ca cb).

(** * Well-formedness of a case (the hypotheses of the theorems, as booleans) *)
Fixpoint nodup_ids (l : list id) : bool :=
  match l with [] => true | x :: l' => negb (mem_str x l') && nodup_ids l' end.

Fixpoint nodup_keys (l : list key) : bool :=
  match l with [] => true | k :: l' => negb (existsb (key_eqb k) l') && nodup_keys l' end.

(** Every event has a state key, well-formed content, and cites only events listed before
    it (so the store is in topological order), at most one per state key. *)
Fixpoint store_ok (earlier : list event) (later : list event) : bool :=
  match later with
  | [] => true
  | e :: r =>
      is_some (e_skey e)
      && negb (known earlier (e_id e))
      && forallb (known earlier) (e_auth e)
      && nodup_ids (e_auth e)
      && nodup_keys (flat_map (fun a => match fetch earlier a with
                                        | Some x => match key_of x with Some k => [k] | None => [] end
                                        | None => [] end) (e_auth e))
      && (if str_eqb (e_type e) t_power_levels
          then match e_pl e with Some (Some _, Some _) => true | _ => false end else true)
      && (if str_eqb (e_type e) t_create
          then match e_creator e with Some (Some _) => true | _ => false end else true)
      && store_ok (earlier ++ [e]) r
  end.

Definition is_create (e : event) : bool :=
  str_eqb (e_type e) t_create && match e_skey e with Some [] => true | _ => false end.

(** H_create: one create event, cited by every other event of the full conflicted set. *)
Definition h_create (st : store) (full : list id) : bool :=
  match filter is_create st with
  | [c] => forallb (fun i => match fetch st i with
                             | Some e => is_create e || mem_str (e_id c) (e_auth e)
                             | None => true end) full
  | _ => false
  end.

Definition inputs_ok (sets : list smap) (chains : list (list id)) : bool :=
  forallb (fun s => nodup_keys (map fst s)) sets && forallb nodup_ids chains.

(** Every event id occurring in a state set is known to the store. *)
Definition sets_known (st : store) (sets : list smap) : bool :=
  forallb (fun s => forallb (fun kv => known st (snd kv)) s) sets.

(** * Running one case *)
Definition sx_res (r : outcome smap) (oracle : sx) : sx :=
  match r with
  | Ok m => SL [SN 0; sx_smap m; oracle]
  | Err _ => SL [SN 1; SN 0; oracle]
  | Panic _ => SL [SN 2]
  end.

Definition outcome_smap_eqb (a b : outcome smap) : bool :=
  match a, b with
  | Ok x, Ok y => smap_eqb x y
  | Err _, Err _ => true
  | Panic _, Panic _ => true
  | _, _ => false
  end.

Definition model_resolve (o : oracles) (dflt : bool) (st : store) (sets : list smap)
           (chains : list (list id)) : outcome smap :=
  resolve st (auth_tbl dflt) e_atypes o sets chains.

Definition spec_lit (dflt : bool) st sets chains := resolve_spec st (auth_tbl dflt) e_atypes true true sets chains.
Definition spec_dev (dflt : bool) st sets chains := resolve_spec st (auth_tbl dflt) e_atypes false false sets chains.

Definition impl_is (impl : sx) (expected : option smap) : bool :=
  match expected, impl with
  | Some m, SL [SN 0; r; _] =>
      match as_list_of as_entry r with Some r => smap_eqb r m | None => false end
  | _, _ => false
  end.

Definition in_known_class (dflt : bool) st sets chains : bool :=
  class_chain st sets chains
  || class_mainline st (auth_tbl dflt) e_atypes false sets chains.

Definition case_ok (st : store) (sets : list smap) (chains : list (list id)) : bool :=
  store_ok [] st && inputs_ok sets chains && sets_known st sets
  && h_create st (full_conflicted st sets chains)
  && (negb (is_nil (conflicted_events sets)) || is_nil (auth_difference chains)).

Definition spec_ok_resolve (st : store) (sets : list smap) (chains : list (list id)) (impl : sx) : bool :=
  if case_ok st sets chains then
    forallb (fun dflt =>
      impl_is impl (spec_lit dflt st sets chains)
      || (in_known_class dflt st sets chains && impl_is impl (spec_dev dflt st sets chains)))
      [false; true]
  else true.

Definition run_resolve (evs setsx chainsx impl : sx) : sx :=
  let oracle := match impl with SL [SN _; _; orc] => Some orc | _ => None end in
  match oracle with
  | None => SL [SL [SN 2]; sx_bool false]     (* panic or malformed outcome: no oracle to run with *)
  | Some orc =>
      match evs, orc with
      | SL xs, SL os =>
          match dec_events xs os, as_list_of (as_list_of as_entry) setsx,
                as_list_of (as_list_of as_str) chainsx with
          | Some st, Some sets, Some chains =>
              let m0 := model_resolve id_oracles false st sets chains in
              let m1 := model_resolve id_oracles true st sets chains in
              if outcome_smap_eqb m0 m1
              then SL [sx_res m0 orc; sx_bool (spec_ok_resolve st sets chains impl)]
              else SL [SL [SN (-4)]; sx_bool false]
          | _, _, _ => sx_bad
          end
      | _, _ => sx_bad
      end
  end.

(** * The exposed sort *)
Definition as_node (x : sx) : option (id * list id) :=
  match x with SL [SS n; es] => match as_list_of as_str es with Some l => Some (n, l) | None => None end
  | _ => None end.
Definition as_keyrow (x : sx) : option (id * (Z * Z)) :=
  match x with SL [SS n; SN p; SN t] => Some (n, (p, t)) | _ => None end.

Definition sx_ids (r : outcome (list id)) : sx :=
  sx_outcome (fun l => SL (map SS l)) (match r with Err _ => Err 0%N | x => x end).

Definition spec_ok_sort (g : graph) (keys : list (id * (Z * Z))) (impl : sx) : bool :=
  if nodup_ids (map fst g) && forallb (fun ne => nodup_ids (snd ne)) g then
    let expected :=
      spec_sort (map fst g) (fun n => match ilookup n g with Some es => es | None => [] end)
                (fun n => match ilookup n keys with Some (p, t) => Some (p, t, n) | None => None end) in
    match expected, impl with
    | Some l, SL [SN 0; SL r] =>
        match map_opt as_str r with
        | Some r => (List.length r =? List.length l)%nat
                    && forallb (fun p => str_eqb (fst p) (snd p)) (combine r l)
        | None => false
        end
    | None, SL [SN 1; _] => true
    | _, _ => false
    end
  else true.

Definition run_sort (gx kx impl : sx) : sx :=
  match as_list_of as_node gx, as_list_of as_keyrow kx with
  | Some g, Some keys =>
      SL [sx_ids (lexico_topo_sort id_oracles (fun n => ilookup n keys) g);
          sx_bool (spec_ok_sort g keys impl)]
  | _, _ => sx_bad
  end.

Definition run (x : sx) : sx :=
  match x with
  | SL [SL [SN 0; SN _; evs; sets; chains]; impl] => run_resolve evs sets chains impl
  | SL [SL [SN 1; g; k]; impl] => run_sort g k impl
  | _ => sx_bad
  end.

(** Diagnostics for replays (not part of the check): which hypotheses and classes hold. *)
Definition diag (x : sx) : sx :=
  match x with
  | SL [SL [SN 0; SN _; SL xs; setsx; chainsx]; (SL [SN _; _; SL os]) as impl] =>
      match dec_events xs os, as_list_of (as_list_of as_entry) setsx,
            as_list_of (as_list_of as_str) chainsx with
      | Some st, Some sets, Some chains =>
          SL [sx_bool (store_ok [] st); sx_bool (inputs_ok sets chains);
              sx_bool (h_create st (full_conflicted st sets chains));
              sx_bool (class_chain st sets chains);
              sx_bool (class_mainline st (auth_tbl false) e_atypes false sets chains);
              sx_bool (impl_is impl (spec_lit false st sets chains));
              sx_bool (impl_is impl (spec_dev false st sets chains));
              sx_N (N.of_nat (List.length (full_conflicted st sets chains)));
              sx_N (N.of_nat (List.length (power_closure st false (full_conflicted st sets chains))))]
      | _, _, _ => sx_bad
      end
  | _ => sx_bad
  end.
