(** C07.ProofsAuth — the iterative auth check of the model is the specification's. *)
From Coq Require Import Permutation.
From Base Require Import Prelude.
From C07 Require Import Event Model Spec ProofsSort ProofsSets.

Lemma fetch_id st i e : fetch st i = Some e -> e_id e = i.
Proof. unfold fetch. intros H. apply find_some in H as [_ H]. now apply str_eqb_eq. Qed.

Lemma fetch_In st i e : fetch st i = Some e -> In e st.
Proof. unfold fetch. intros H. now apply find_some in H as [H _]. Qed.

Section IterAuth.
  Variable st : store.
  Variable auth : event -> (key -> option event) -> bool.
  Variable auth_types : event -> option (list key).

  (** Every event of the store is a state event. *)
  Definition all_state_events : Prop := forall e, In e st -> e_skey e <> None.

  (** The auth events of [e] known to the store have pairwise different state keys. *)
  Definition auth_keys_unique (e : event) : Prop :=
    forall a b xa xb, In a (e_auth e) -> In b (e_auth e) ->
      fetch st a = Some xa -> fetch st b = Some xb -> key_of xa = key_of xb -> xa = xb.

  (** [auth_check] looks only at the auth events selected by [auth_types_for_event]
      (the non-interference half of C09). *)
  Definition auth_local : Prop :=
    forall e keys f g, auth_types e = Some keys ->
      (forall k, In k keys -> f k = g k) -> auth e f = auth e g.

  Hypothesis Hstate : all_state_events.

  Lemma key_of_some e : In e st -> exists k, key_of e = Some k.
  Proof.
    intros H. unfold key_of. destruct (e_skey e) eqn:E; [eauto|]. exfalso. eapply Hstate; eauto.
  Qed.

  Lemma own_auth_map_ok : forall auths acc,
    exists m, own_auth_map st auths acc = Ok m
      /\ (forall k x, klookup k m = Some x ->
            klookup k acc = Some x \/ exists a, In a auths /\ fetch st a = Some x /\ key_of x = Some k)
      /\ (forall k, klookup k m = None ->
            klookup k acc = None /\ forall a x, In a auths -> fetch st a = Some x -> key_of x <> Some k).
  Proof.
    induction auths as [|a auths IH]; intros acc; cbn [own_auth_map].
    - exists acc. split; [reflexivity|]. split; [auto|]. intros k H. split; [exact H|intros a x []].
    - destruct (fetch st a) as [x0|] eqn:Ef.
      + destruct (key_of_some x0 (fetch_In _ _ _ Ef)) as (k0 & Ek). rewrite Ek.
        destruct (IH ((k0, x0) :: acc)) as (m & Em & H1 & H2). exists m. split; [exact Em|]. split.
        * intros k x Hl. destruct (H1 k x Hl) as [Hacc|(b & Hb & Hfb & Hkb)].
          -- cbn [klookup] in Hacc. destruct (key_eqb_spec k0 k) as [E|E].
             ++ inversion Hacc; subst. right. exists a. split; [now left|auto].
             ++ now left.
          -- right. exists b. split; [now right|auto].
        * intros k Hl. destruct (H2 k Hl) as [Hacc Hno]. cbn [klookup] in Hacc.
          destruct (key_eqb_spec k0 k) as [E|E]; [discriminate|]. split; [exact Hacc|].
          intros b x [<-|Hb] Hfb; [|eapply Hno; eauto]. rewrite Ef in Hfb. inversion Hfb; subst. congruence.
      + destruct (IH acc) as (m & Em & H1 & H2). exists m. split; [exact Em|]. split.
        * intros k x Hl. destruct (H1 k x Hl) as [Hacc|(b & Hb & Hfb & Hkb)]; [now left|].
          right. exists b. split; [now right|auto].
        * intros k Hl. destruct (H2 k Hl) as [Hacc Hno]. split; [exact Hacc|].
          intros b x [<-|Hb] Hfb; [congruence|eapply Hno; eauto].
  Qed.

  Lemma own_auth_some e k x : own_auth st e k = Some x ->
    exists a, In a (e_auth e) /\ fetch st a = Some x /\ key_of x = Some k.
  Proof.
    unfold own_auth, ev. destruct (find _ (e_auth e)) as [a|] eqn:Ef; [|discriminate].
    intros Hx. apply find_some in Ef as [Hin Hc]. rewrite Hx in Hc.
    destruct (key_of x) as [k'|] eqn:Ek; [|discriminate]. apply key_eqb_eq in Hc. subst k'.
    exists a. auto.
  Qed.

  Lemma own_auth_none e k : own_auth st e k = None ->
    forall a x, In a (e_auth e) -> fetch st a = Some x -> key_of x <> Some k.
  Proof.
    unfold own_auth, ev. destruct (find _ (e_auth e)) as [a0|] eqn:Ef.
    - intros Hx. apply find_some in Ef as [Hin Hc]. rewrite Hx in Hc. discriminate.
    - intros _ a x Hin Hfa Hk. pose proof (find_none _ _ Ef a Hin) as Hc. cbn beta in Hc.
      rewrite Hfa, Hk, key_eqb_refl in Hc. discriminate.
  Qed.

  (** When an event cites several auth events for one slot, the one listed LAST decides (before
      the partial state is laid over it): a function of the list order, which is input - no
      enumeration of a hash container enters.  No uniqueness hypothesis.  (Seeded C06-9 collected
      the IDs into a HashSet first; the correspondence runs report it on duplicate-slot events.) *)
  Definition own_step (k : key) (acc : option event) (a : id) : option event :=
    match fetch st a with
    | Some x => match key_of x with
                | Some k' => if key_eqb k' k then Some x else acc
                | None => acc
                end
    | None => acc
    end.

  Fixpoint own_last_from (k : key) (auths : list id) (init : option event) : option event :=
    match auths with
    | [] => init
    | a :: r => own_last_from k r (own_step k init a)
    end.

  Lemma own_last_from_init k : forall auths init,
    own_last_from k auths init
    = match own_last_from k auths None with Some x => Some x | None => init end.
  Proof.
    induction auths as [|a r IH]; intros init; cbn [own_last_from]; [reflexivity|].
    unfold own_step. destruct (fetch st a) as [x|]; [|apply IH].
    destruct (key_of x) as [k'|]; [|apply IH]. destruct (key_eqb k' k); [|apply IH].
    rewrite (IH (Some x)). destruct (own_last_from k r None); reflexivity.
  Qed.

  Theorem own_auth_map_last_wins : forall auths acc m,
    own_auth_map st auths acc = Ok m ->
    forall k, klookup k m = match own_last_from k auths None with Some x => Some x | None => klookup k acc end.
  Proof.
    induction auths as [|a r IH]; intros acc m Hm k; cbn [own_auth_map] in Hm.
    - inversion Hm; subst m. reflexivity.
    - cbn [own_last_from]. unfold own_step.
      destruct (fetch st a) as [x|]; [|exact (IH acc m Hm k)].
      destruct (key_of x) as [k'|]; [|discriminate].
      rewrite (IH _ m Hm k). cbn [klookup]. destruct (key_eqb k' k).
      + rewrite (own_last_from_init k r (Some x)). destruct (own_last_from k r None); reflexivity.
      + reflexivity.
  Qed.

  Lemma own_map_eq e m : auth_keys_unique e -> own_auth_map st (e_auth e) [] = Ok m ->
    forall k, klookup k m = own_auth st e k.
  Proof.
    intros Hu Em k. destruct (own_auth_map_ok (e_auth e) []) as (m' & Em' & H1 & H2).
    rewrite Em in Em'. inversion Em'; subst m'.
    destruct (klookup k m) as [x|] eqn:El.
    - destruct (H1 k x El) as [Hacc|(a & Ha & Hfa & Hka)]; [discriminate|].
      destruct (own_auth st e k) as [y|] eqn:Eo.
      + apply own_auth_some in Eo as (b & Hb & Hfb & Hkb). f_equal. apply (Hu a b x y Ha Hb Hfa Hfb). congruence.
      + exfalso. eapply own_auth_none; eauto.
    - destruct (H2 k El) as [_ Hno]. destruct (own_auth st e k) as [y|] eqn:Eo; [|reflexivity].
      apply own_auth_some in Eo as (b & Hb & Hfb & Hkb). exfalso. eapply Hno; eauto.
  Qed.

  Lemma overlay_lookup state : forall keys amap k,
    klookup k (overlay_state st state keys amap) =
    match (if existsb (key_eqb k) keys
           then match klookup k state with Some i => fetch st i | None => None end else None) with
    | Some e => Some e
    | None => klookup k amap
    end.
  Proof.
    unfold overlay_state. induction keys as [|k0 keys IH]; intros amap k; cbn [fold_left existsb]; [reflexivity|].
    rewrite IH. destruct (key_eqb_spec k k0) as [E|E]; cbn [orb].
    - subst k0. destruct (existsb (key_eqb k) keys).
      + destruct (klookup k state) as [i|]; [|reflexivity]. destruct (fetch st i) as [e'|]; reflexivity.
      + destruct (klookup k state) as [i|]; [|reflexivity]. destruct (fetch st i) as [e'|]; [|reflexivity].
        cbn [klookup]. now rewrite key_eqb_refl.
    - assert (Hm : forall (m' : list (key * event)),
                klookup k (match klookup k0 state with
                           | Some i => match fetch st i with Some e' => (k0, e') :: m' | None => m' end
                           | None => m' end) = klookup k m').
      { intros m'. destruct (klookup k0 state) as [i|]; [|reflexivity]. destruct (fetch st i); [|reflexivity].
        cbn [klookup]. destruct (key_eqb_spec k0 k); [congruence|reflexivity]. }
      rewrite Hm. reflexivity.
  Qed.

  Hypothesis Hlocal : auth_local.

  Theorem iterative_auth_eq_spec : forall events state,
    (forall i, In i events -> exists e, fetch st i = Some e /\ auth_keys_unique e) ->
    iterative_auth_check st auth auth_types events state
    = Ok (iterative_auth st auth auth_types events state).
  Proof.
    induction events as [|i events IH]; intros state Hev; cbn [iterative_auth_check iterative_auth]; [reflexivity|].
    destruct (Hev i (or_introl eq_refl)) as (e & Ef & Hu). unfold ev. rewrite Ef.
    assert (IH' : forall s, iterative_auth_check st auth auth_types events s
                            = Ok (iterative_auth st auth auth_types events s)).
    { intros s. apply IH. intros j Hj. apply Hev. now right. }
    destruct (key_of_some e (fetch_In _ _ _ Ef)) as (k & Ek). unfold key_of in Ek |- *.
    destruct (e_skey e) as [sk|] eqn:Esk; [|discriminate]. inversion Ek; subst k.
    destruct (own_auth_map_ok (e_auth e) []) as (m & Em & _). rewrite Em.
    unfold allowed_in. destruct (auth_types e) as [keys|] eqn:Et; [|apply IH'].
    assert (Ha : auth e (fun k => klookup k (overlay_state st state keys m))
                 = auth e (auth_env st state e keys)).
    { apply (Hlocal e keys _ _ Et). intros k Hk. rewrite overlay_lookup. unfold auth_env, ev.
      assert (Hex : existsb (key_eqb k) keys = true) by (apply existsb_exists; exists k; split; [exact Hk|apply key_eqb_refl]).
      rewrite Hex. rewrite (own_map_eq e m Hu Em k).
      destruct (klookup k state) as [j|]; [|reflexivity]. destruct (fetch st j); reflexivity. }
    rewrite Ha. destruct (auth e (auth_env st state e keys)); apply IH'.
  Qed.
End IterAuth.
