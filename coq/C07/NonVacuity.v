(** C07.NonVacuity — the hypotheses of [C07_resolve_eq_spec] (and of C06's determinism theorem)
    are satisfiable by a non-trivial input: a room with a power-levels event and two forks that
    set the topic; the sort's hypotheses by a three-node graph. *)
From Coq Require Import Permutation.
From Base Require Import Prelude.
From C07 Require Import Event Model Spec ProofsSort ProofsSets ProofsAuth ProofsGraph ProofsPower
  ProofsMainline ProofsClosure ProofsResolve ProofsFuel ProofsClasses Witness.
Local Open Scope string_scope.

Definition ce_nv : event := create_ev "$c" "@alice:a" 1.
Definition st_nv : store :=
  [ ce_nv;
    member_ev "$ja" "@alice:a" "@alice:a" "join" 2 ["$c"];
    pl_ev "$p1" "@alice:a" 3 ["$c"; "$ja"] [("@alice:a", 100%Z)];
    ev0 "$t1" "m.room.topic" "" "@alice:a" 5 ["$c"; "$ja"; "$p1"];
    ev0 "$t2" "m.room.topic" "" "@alice:a" 4 ["$c"; "$ja"; "$p1"] ].
Definition sets_nv : list smap :=
  [ state_of st_nv ["$c"; "$ja"; "$p1"; "$t1"]; state_of st_nv ["$c"; "$ja"; "$p1"; "$t2"] ].
Definition chains_nv : list (list id) := [ ids ["$c"; "$ja"; "$p1"]; ids ["$c"; "$ja"; "$p1"] ].

(** position of an event in the store: a rank that decreases along auth edges *)
Fixpoint idx (l : store) (i : id) : nat :=
  match l with
  | [] => 0%nat
  | e :: l' => if str_eqb (e_id e) i then 0%nat else S (idx l' i)
  end.
Definition rank_nv (i : id) : nat := idx st_nv i.

Ltac store_cases H :=
  apply fetch_In in H; cbn [st_nv In] in H;
  repeat (destruct H as [H|H]; [subst|]); [..|destruct H].

Lemma nv_fetch_cases i e : fetch st_nv i = Some e -> In e st_nv /\ e_id e = i.
Proof. intros H. split; [eapply fetch_In; eauto|eapply fetch_id; eauto]. Qed.

Example resolve_hypotheses_satisfiable :
  exists m R, resolve st_nv allow_all no_types id_oracles sets_nv chains_nv = Ok m
              /\ resolve_spec st_nv allow_all no_types true true sets_nv chains_nv = Some R
              /\ (forall k, klookup k m = klookup k R)
              /\ klookup k_topic m = Some (bytes_of_string "$t1").
Proof.
  assert (Hcases : forall i e, fetch st_nv i = Some e -> In e st_nv /\ e_id e = i) by apply nv_fetch_cases.
  destruct (resolve_eq_spec st_nv allow_all no_types rank_nv (bytes_of_string "$c") ce_nv (bytes_of_string "@alice:a")
              sets_nv chains_nv id_oracles) as (m & R & Em & ER & HmR).
  - intros i e a Hf Ha. destruct (Hcases i e Hf) as [Hin <-]. cbn [st_nv In] in Hin.
    repeat (destruct Hin as [<-|Hin]; [cbn in Ha; repeat (destruct Ha as [<-|Ha]; [vm_compute; lia|]); destruct Ha|]).
    destruct Hin.
  - intros i Hk. unfold known in Hk. destruct (fetch st_nv i) as [e|] eqn:Ef; [|discriminate].
    destruct (Hcases i e Ef) as [Hin <-]. cbn [st_nv In] in Hin.
    repeat (destruct Hin as [<-|Hin]; [vm_compute; lia|]). destruct Hin.
  - intros i e a Hf Ha. destruct (Hcases i e Hf) as [Hin <-]. cbn [st_nv In] in Hin.
    repeat (destruct Hin as [<-|Hin]; [cbn in Ha; repeat (destruct Ha as [<-|Ha]; [reflexivity|]); destruct Ha|]).
    destruct Hin.
  - intros e Hin. cbn [st_nv In] in Hin. repeat (destruct Hin as [<-|Hin]; [discriminate|]). destruct Hin.
  - intros i e Hf a b xa xb Ha Hb Hfa Hfb Hk. destruct (Hcases i e Hf) as [Hin <-]. cbn [st_nv In] in Hin.
    repeat (destruct Hin as [<-|Hin];
      [cbn in Ha, Hb;
       repeat (destruct Ha as [<-|Ha]; [|]); try (destruct Ha);
       repeat (destruct Hb as [<-|Hb]; [|]); try (destruct Hb);
       vm_compute in Hfa, Hfb; inversion Hfa; inversion Hfb; subst; try reflexivity; vm_compute in Hk; discriminate|]).
    destruct Hin.
  - intros e keys f g Ht _. reflexivity.
  - constructor; try reflexivity. intros i e Hf Hc. destruct (Hcases i e Hf) as [Hin <-]. cbn [st_nv In] in Hin.
    repeat (destruct Hin as [<-|Hin]; [first [reflexivity|vm_compute in Hc; discriminate]|]). destruct Hin.
  - intros e Hin Hp. cbn [st_nv In] in Hin.
    repeat (destruct Hin as [<-|Hin]; [first [vm_compute in Hp; discriminate|eexists; eexists; reflexivity]|]). destruct Hin.
  - intros i e Hf Hne. destruct (Hcases i e Hf) as [Hin <-]. cbn [st_nv In] in Hin.
    repeat (destruct Hin as [<-|Hin]; [first [exfalso; apply Hne; reflexivity|cbn; auto]|]). destruct Hin.
  - intros s Hs. cbn [sets_nv In] in Hs. repeat (destruct Hs as [<-|Hs]; [vm_compute; repeat constructor; cbn; intuition discriminate|]). destruct Hs.
  - intros ch Hc. cbn [chains_nv In] in Hc. repeat (destruct Hc as [<-|Hc]; [vm_compute; repeat constructor; cbn; intuition discriminate|]). destruct Hc.
  - intros s k i Hs Hin. cbn [sets_nv In] in Hs.
    repeat (destruct Hs as [<-|Hs]; [vm_compute in Hin; repeat (destruct Hin as [Hin|Hin]; [inversion Hin; subst; reflexivity|]); destruct Hin|]).
    destruct Hs.
  - intros _. reflexivity.
  - apply id_oracles_perm.
  - reflexivity.
  - reflexivity.
  - exists m, R. split; [exact Em|]. split; [exact ER|]. split; [exact HmR|].
    vm_compute in Em. inversion Em; subst m. reflexivity.
Qed.

(** The sort: a closed acyclic three-node graph with keys. *)
Example sort_hypotheses_satisfiable :
  let g : graph := [ (bytes_of_string "$a", []); (bytes_of_string "$b", [bytes_of_string "$a"]);
                     (bytes_of_string "$c", [bytes_of_string "$a"]) ] in
  let key_fn := fun n => if str_eqb n (bytes_of_string "$c") then Some (100%Z, 5%Z) else Some (0%Z, 1%Z) in
  lexico_topo_sort rev_oracles key_fn g = Ok (ids ["$a"; "$c"; "$b"]).
Proof. reflexivity. Qed.
