(** C07.ProofsPower — sender power levels ([get_power_level_for_sender] with its creator
    lock) under H_create, and the reverse topological power sort. *)
From Coq Require Import Permutation.
From Base Require Import Prelude.
From C07 Require Import Event Model Spec ProofsSort ProofsSets ProofsAuth ProofsGraph.

Section Power.
  Variable st : store.

  (** ** H_create and well-formedness of what the power levels are read from *)
  Variable c : id.          (* the create event *)
  Variable ce : event.
  Variable cr : str.        (* the room creator *)

  Definition is_pl (x : event) : bool := is_type_and_key x t_power_levels [].
  Definition is_cr (x : event) : bool := is_type_and_key x t_create [].

  Record h_create : Prop := {
    hc_fetch : fetch st c = Some ce;
    hc_type : is_cr ce = true;
    hc_creator : e_creator ce = Some (Some cr);
    hc_noauth : e_auth ce = [];
    hc_single : forall i e, fetch st i = Some e -> is_cr e = true -> e = ce
  }.

  (** Well-formed power-levels content everywhere in the store. *)
  Definition pl_wf : Prop :=
    forall e, In e st -> is_pl e = true -> exists users d, e_pl e = Some (Some users, Some d).

  (** A node of the power graph: a known event that cites the create event and at most one
      power-levels event. *)
  Definition good_node (n : id) : Prop :=
    exists e, fetch st n = Some e /\ auth_keys_unique st e /\ (n <> c -> In c (e_auth e)).

  Hypothesis Hc : h_create.
  Hypothesis Hwf : pl_wf.

  Definition hasb (p : event -> bool) (auths : list id) : bool :=
    existsb (fun a => match fetch st a with Some x => p x | None => false end) auths.

  Lemma is_pl_key x : is_pl x = true -> key_of x = Some (t_power_levels, []).
  Proof.
    unfold is_pl, is_type_and_key, skey_is, key_of. intros H. apply andb_true_iff in H as [H1 H2].
    apply str_eqb_eq in H1. destruct (e_skey x) as [k|]; [|discriminate]. apply str_eqb_eq in H2. subst k. now rewrite H1.
  Qed.

  Lemma is_pl_not_cr x : is_pl x = true -> is_cr x = false.
  Proof.
    unfold is_pl, is_cr, is_type_and_key. intros H. apply andb_true_iff in H as [H1 _].
    apply str_eqb_eq in H1. rewrite H1. reflexivity.
  Qed.

  (** ** The scan of the auth events *)
  Lemma pl_scan_spec (ls : bool) (pe : event) : forall auths plev cre,
    (plev = None \/ plev = Some pe) -> (cre = None \/ cre = Some ce) ->
    (forall a x, In a auths -> fetch st a = Some x -> is_pl x = true -> x = pe) ->
    fst (pl_scan st ls auths plev cre) = (if is_some plev || hasb is_pl auths then Some pe else None)
    /\ snd (pl_scan st ls auths plev cre)
       = (if ls then cre else if is_some cre || hasb is_cr auths then Some ce else None).
  Proof.
    induction auths as [|a r IH]; intros plev cre Hp Hq Hu; cbn [pl_scan hasb existsb].
    - cbn [fst snd]. rewrite !orb_false_r. split.
      + destruct Hp; subst; reflexivity.
      + destruct ls; [reflexivity|]. destruct Hq; subst; reflexivity.
    - assert (Hu' : forall a' x, In a' r -> fetch st a' = Some x -> is_pl x = true -> x = pe)
        by (intros a' x Ha'; apply Hu; now right).
      fold (hasb is_pl r). fold (hasb is_cr r).
      destruct (fetch st a) as [aev|] eqn:Ef.
      2:{ cbn [orb]. apply IH; auto. }
      fold (is_pl aev). fold (is_cr aev).
      destruct (is_pl aev) eqn:Epl.
      + assert (aev = pe) by (eapply Hu; eauto; now left). subst aev.
        rewrite (is_pl_not_cr _ Epl). cbn [fst snd orb]. rewrite orb_true_r.
        destruct (IH (Some pe) cre (or_intror eq_refl) Hq Hu') as [H1 H2]. rewrite H1, H2. cbn [is_some orb]. split; reflexivity.
      + destruct (negb ls && is_cr aev) eqn:Ec.
        * apply andb_true_iff in Ec as [Els Ecr]. apply negb_true_iff in Els. subst ls.
          assert (aev = ce) by (eapply (hc_single Hc); eauto). subst aev. rewrite Ecr.
          cbn [fst snd orb]. rewrite !orb_true_r.
          destruct (IH plev (Some ce) Hp (or_intror eq_refl) Hu') as [H1 H2]. rewrite H1, H2. cbn [is_some orb]. split; reflexivity.
        * cbn [fst snd orb].
          assert (Hcr : ls = false -> is_cr aev = false).
          { intros ->. cbn [negb andb] in Ec. exact Ec. }
          destruct (IH plev cre Hp Hq Hu') as [H1 H2]. rewrite H1, H2. split; [reflexivity|].
          destruct ls; [reflexivity|]. now rewrite (Hcr eq_refl).
  Qed.

  (** ** One call of get_power_level_for_sender *)
  Lemma hasb_true p auths : hasb p auths = true <-> exists a x, In a auths /\ fetch st a = Some x /\ p x = true.
  Proof.
    unfold hasb. rewrite existsb_exists. split.
    - intros (a & Ha & Hp). destruct (fetch st a) as [x|] eqn:E; [|discriminate]. exists a, x. auto.
    - intros (a & x & Ha & Hf & Hp). exists a. rewrite Hf. auto.
  Qed.

  Lemma hasb_false p auths : hasb p auths = false -> forall a x, In a auths -> fetch st a = Some x -> p x = false.
  Proof.
    intros H a x Ha Hf. destruct (p x) eqn:E; [|reflexivity].
    assert (hasb p auths = true) by (apply hasb_true; eauto). congruence.
  Qed.

  Lemma find_auth_spec e ty :
    match find_auth st e ty with
    | Some x => exists a, In a (e_auth e) /\ fetch st a = Some x /\ is_type_and_key x ty [] = true
    | None => hasb (fun x => is_type_and_key x ty []) (e_auth e) = false
    end.
  Proof.
    unfold find_auth, ev. destruct (find _ (e_auth e)) as [a|] eqn:Ef.
    - apply find_some in Ef as [Ha Hcond]. destruct (fetch st a) as [x|] eqn:Ex; [|discriminate].
      exists a. split; [exact Ha|]. split; [exact Ex|exact Hcond].
    - unfold hasb. destruct (existsb _ (e_auth e)) eqn:Ee; [|reflexivity].
      apply existsb_exists in Ee as (a & Ha & Hcond). pose proof (find_none _ _ Ef a Ha) as Hn. cbn beta in Hn.
      destruct (fetch st a) as [x|]; [|discriminate]. unfold is_type_and_key, skey_is in Hcond.
      unfold has_skey in Hn. congruence.
  Qed.

  Lemma pl_user_level_eq pe u :
    pl_user_level pe u = match level_in pe u with Some l => Ok l | None => Err 0 end.
  Proof.
    unfold pl_user_level, level_in, users_default_or_0.
    destruct (e_pl pe) as [[[users|] d]|]; try reflexivity.
    destruct (ilookup u users); [reflexivity|]. destruct d as [[x|]|]; reflexivity.
  Qed.

  Lemma level_in_wf pe u : In pe st -> is_pl pe = true -> level_in pe u <> None.
  Proof.
    intros Hin Hp. destruct (Hwf pe Hin Hp) as (users & d & E). unfold level_in. rewrite E.
    destruct (ilookup u users); [discriminate|]. destruct d; discriminate.
  Qed.

  (** All power-levels events among the auth events of a node are one event. *)
  Lemma pl_unique e : auth_keys_unique st e ->
    forall a b xa xb, In a (e_auth e) -> In b (e_auth e) -> fetch st a = Some xa -> fetch st b = Some xb ->
      is_pl xa = true -> is_pl xb = true -> xa = xb.
  Proof.
    intros Hu a b xa xb Ha Hb Hfa Hfb Hpa Hpb. apply (Hu a b xa xb Ha Hb Hfa Hfb).
    now rewrite (is_pl_key _ Hpa), (is_pl_key _ Hpb).
  Qed.

  Lemma sender_power_create : sender_power st ce = Some (if str_eqb (e_sender ce) cr then 100%Z else 0%Z).
  Proof.
    unfold sender_power. pose proof (find_auth_spec ce t_power_levels) as H.
    destruct (find_auth st ce t_power_levels) as [x|].
    - destruct H as (a & Ha & _). rewrite (hc_noauth Hc) in Ha. destruct Ha.
    - unfold room_creator. pose proof (hc_type Hc) as Ht. unfold is_cr, is_type_and_key, skey_is in Ht.
      unfold has_skey. rewrite Ht. now rewrite (hc_creator Hc).
  Qed.

  Lemma room_creator_node n e : fetch st n = Some e -> n <> c -> In c (e_auth e) -> room_creator st e = Some cr.
  Proof.
    intros Hf Hn Hcite. unfold room_creator.
    assert (Hnot : str_eqb (e_type e) t_create && has_skey e [] = false).
    { destruct (str_eqb (e_type e) t_create && has_skey e []) eqn:E; [|reflexivity]. exfalso.
      assert (e = ce) by (eapply (hc_single Hc); eauto). subst e.
      apply fetch_id in Hf. pose proof (fetch_id _ _ _ (hc_fetch Hc)). congruence. }
    rewrite Hnot.
    assert (Hfa : find_auth st e t_create = Some ce).
    { pose proof (find_auth_spec e t_create) as H. destruct (find_auth st e t_create) as [x|].
      - destruct H as (a & Ha & Hfa & Ht). f_equal. eapply (hc_single Hc); eauto.
      - exfalso. pose proof (hasb_false _ _ H c ce Hcite (hc_fetch Hc)) as T. cbn beta in T.
        pose proof (hc_type Hc) as T2. unfold is_cr in T2. congruence. }
    rewrite Hfa. now rewrite (hc_creator Hc).
  Qed.

  Lemma sender_power_some e : sender_power st e <> None.
  Proof.
    unfold sender_power. pose proof (find_auth_spec e t_power_levels) as H.
    destruct (find_auth st e t_power_levels) as [pe|].
    - destruct H as (a & Ha & Hf & Ht). apply level_in_wf; [eapply fetch_In; eauto|exact Ht].
    - destruct (room_creator st e); discriminate.
  Qed.

  Lemma hasb_create e : In c (e_auth e) -> hasb is_cr (e_auth e) = true.
  Proof. intros H. apply hasb_true. exists c, ce. split; [exact H|]. split; [apply (hc_fetch Hc)|apply (hc_type Hc)]. Qed.

  Lemma plfs_node n e lock :
    fetch st n = Some e -> n <> c -> In c (e_auth e) -> auth_keys_unique st e ->
    (lock = None \/ lock = Some cr) ->
    power_level_for_sender st lock n
    = match sender_power st e with Some l => Ok (l, Some cr) | None => Err 0 end.
  Proof.
    intros Hf Hn Hcite Hu Hlock. unfold power_level_for_sender. rewrite Hf.
    pose proof (hasb_create e Hcite) as Hhc.
    destruct (hasb is_pl (e_auth e)) eqn:Ehp.
    - apply hasb_true in Ehp as (a & pe & Ha & Hfa & Hpa).
      assert (Huniq : forall a' x, In a' (e_auth e) -> fetch st a' = Some x -> is_pl x = true -> x = pe).
      { intros a' x Ha' Hfx Hpx. exact (pl_unique e Hu a' a x pe Ha' Ha Hfx Hfa Hpx Hpa). }
      assert (Hhp : hasb is_pl (e_auth e) = true) by (apply hasb_true; eauto).
      destruct (pl_scan_spec (is_some lock) pe (e_auth e) None None (or_introl eq_refl) (or_introl eq_refl) Huniq)
        as [H1 H2]. rewrite Hhp in H1. rewrite Hhc in H2. cbn [is_some orb] in H1, H2.
      assert (Hsp : sender_power st e = level_in pe (e_sender e)).
      { unfold sender_power. pose proof (find_auth_spec e t_power_levels) as H.
        destruct (find_auth st e t_power_levels) as [x|].
        - destruct H as (a' & Ha' & Hfa' & Ht'). now rewrite (Huniq a' x Ha' Hfa' Ht').
        - pose proof (hasb_false _ _ H a pe Ha Hfa) as T. cbn beta in T. unfold is_pl in Hpa. congruence. }
      rewrite Hsp, H1. destruct Hlock as [-> | ->]; cbn [is_some] in *; rewrite ?H2.
      + rewrite (hc_creator Hc). rewrite pl_user_level_eq. destruct (level_in pe (e_sender e)); reflexivity.
      + rewrite pl_user_level_eq. destruct (level_in pe (e_sender e)); reflexivity.
    - assert (Huniq : forall a' x, In a' (e_auth e) -> fetch st a' = Some x -> is_pl x = true -> x = ce).
      { intros a' x Ha' Hfx Hpx. pose proof (hasb_false _ _ Ehp a' x Ha' Hfx). congruence. }
      destruct (pl_scan_spec (is_some lock) ce (e_auth e) None None (or_introl eq_refl) (or_introl eq_refl) Huniq)
        as [H1 H2]. rewrite Ehp in H1. rewrite Hhc in H2. cbn [is_some orb] in H1, H2.
      assert (Hsp : sender_power st e = Some (if str_eqb (e_sender e) cr then 100%Z else 0%Z)).
      { unfold sender_power. pose proof (find_auth_spec e t_power_levels) as H.
        destruct (find_auth st e t_power_levels) as [x|].
        - destruct H as (a' & Ha' & Hfa' & Ht'). pose proof (hasb_false _ _ Ehp a' x Ha' Hfa'). unfold is_pl in *. congruence.
        - now rewrite (room_creator_node n e Hf Hn Hcite). }
      rewrite Hsp, H1. destruct Hlock as [-> | ->]; cbn [is_some] in *; rewrite ?H2.
      + rewrite (hc_creator Hc). reflexivity.
      + reflexivity.
  Qed.

  (** ** The level does not depend on the creator cache - for EVERY event that cites the create
      event, also one that cites several power-levels events (no [auth_keys_unique] here).  This is
      the statement the repair 2da10dd of /repo established: before it the scan stopped as soon as
      it had a power-levels event and knew the creator, and this lemma was false. *)
  Lemma pl_scan_fst_indep : forall auths ls1 ls2 plev cre1 cre2,
    fst (pl_scan st ls1 auths plev cre1) = fst (pl_scan st ls2 auths plev cre2).
  Proof.
    induction auths as [|a r IH]; intros ls1 ls2 plev cre1 cre2; cbn [pl_scan]; [reflexivity|].
    destruct (fetch st a) as [aev|]; [|apply IH].
    destruct (is_type_and_key aev t_power_levels []).
    - cbn [fst snd]. apply IH.
    - destruct (negb ls1 && is_type_and_key aev t_create []), (negb ls2 && is_type_and_key aev t_create []);
        cbn [fst snd]; apply IH.
  Qed.

  Lemma pl_scan_snd_unlocked : forall auths plev cre, (cre = None \/ cre = Some ce) ->
    snd (pl_scan st false auths plev cre) = if is_some cre || hasb is_cr auths then Some ce else None.
  Proof.
    induction auths as [|a r IH]; intros plev cre Hq; cbn [pl_scan hasb existsb].
    - cbn [snd]. rewrite orb_false_r. destruct Hq; subst; reflexivity.
    - fold (hasb is_cr r). destruct (fetch st a) as [aev|] eqn:Ef; [|cbn [orb]; apply IH; exact Hq].
      fold (is_pl aev). fold (is_cr aev). destruct (is_pl aev) eqn:Epl.
      + rewrite (is_pl_not_cr _ Epl). cbn [fst snd orb]. apply IH; exact Hq.
      + cbn [negb andb]. destruct (is_cr aev) eqn:Ecr; cbn [fst snd].
        * assert (aev = ce) by (eapply (hc_single Hc); eauto). subst aev.
          rewrite (IH plev (Some ce) (or_intror eq_refl)). cbn [is_some orb]. now rewrite orb_true_r.
        * cbn [orb]. apply IH; exact Hq.
  Qed.

  Definition level_of (o : outcome (Z * option str)) : outcome Z :=
    match o with Ok (l, _) => Ok l | Err e => Err e | Panic s => Panic s end.

  Theorem plfs_cache_independent n e :
    fetch st n = Some e -> In c (e_auth e) ->
    level_of (power_level_for_sender st None n) = level_of (power_level_for_sender st (Some cr) n).
  Proof.
    intros Hf Hcite. unfold power_level_for_sender. rewrite Hf. cbn [is_some].
    rewrite (pl_scan_snd_unlocked (e_auth e) None None (or_introl eq_refl)).
    rewrite (hasb_create e Hcite). cbn [is_some orb]. rewrite (hc_creator Hc).
    rewrite (pl_scan_fst_indep (e_auth e) false true None None None).
    destruct (fst (pl_scan st true (e_auth e) None None)) as [pe|]; [|reflexivity].
    destruct (pl_user_level pe (e_sender e)); reflexivity.
  Qed.

  Lemma plfs_create lock : (lock = None \/ lock = Some cr) ->
    exists l, power_level_for_sender st lock c = Ok (l, lock).
  Proof.
    intros Hlock. unfold power_level_for_sender. rewrite (hc_fetch Hc), (hc_noauth Hc). cbn [pl_scan fst snd].
    destruct Hlock as [-> | ->]; cbn; eauto.
  Qed.

  (** ** The loop over graph.keys() *)
  Lemma event_to_pl_spec : forall keys lock acc,
    (lock = None \/ lock = Some cr) -> (forall n, In n keys -> good_node n) ->
    exists pls, event_to_pl st keys lock acc = Ok pls
      /\ map fst pls = rev keys ++ map fst acc
      /\ (forall n e, In n keys -> n <> c -> fetch st n = Some e ->
                      exists l, sender_power st e = Some l /\ In (n, l) pls)
      /\ (forall x, In x acc -> In x pls).
  Proof.
    induction keys as [|n keys IH]; intros lock acc Hlock Hgood; cbn [event_to_pl].
    - exists acc. split; [reflexivity|]. split; [reflexivity|]. split; [intros n e []|auto].
    - destruct (Hgood n (or_introl eq_refl)) as (e & Hf & Hu & Hcite).
      assert (Hgood' : forall n', In n' keys -> good_node n') by (intros n' Hn'; apply Hgood; now right).
      destruct (str_eqb_spec n c) as [E|E].
      + subst n. destruct (plfs_create lock Hlock) as (l & El). rewrite El.
        destruct (IH lock ((c, l) :: acc) Hlock Hgood') as (pls & Ep & Hfst & Hlev & Hacc).
        exists pls. split; [exact Ep|]. split; [|split].
        * rewrite Hfst. cbn [rev map fst]. now rewrite <- app_assoc.
        * intros n' e' [<-|Hn'] Hne Hf'; [congruence|eauto].
        * intros x Hx. apply Hacc. now right.
      + rewrite (plfs_node n e lock Hf E (Hcite E) Hu Hlock).
        destruct (sender_power st e) as [l|] eqn:Esp; [|exfalso; eapply sender_power_some; eauto].
        destruct (IH (Some cr) ((n, l) :: acc) (or_intror eq_refl) Hgood') as (pls & Ep & Hfst & Hlev & Hacc).
        exists pls. split; [exact Ep|]. split; [|split].
        * rewrite Hfst. cbn [rev map fst]. now rewrite <- app_assoc.
        * intros n' e' [<-|Hn'] Hne Hf'; [|eauto].
          rewrite Hf in Hf'. inversion Hf'; subst e'. exists l. split; [exact Esp|]. apply Hacc. now left.
        * intros x Hx. apply Hacc. now right.
  Qed.
End Power.

(** * The key of a node every other node depends on is irrelevant *)
Section KeyIrrelevant.
  Variable nodes : list id.
  Variable edges : id -> list id.
  Variables tk tk' : id -> option tkey.
  Variable c : id.
  Hypothesis Hagree : forall n, In n nodes -> n <> c -> tk n = tk' n.
  Variables k k' : tkey.
  Hypothesis Hk : tk c = Some k.
  Hypothesis Hk' : tk' c = Some k'.
  Hypothesis Hks : snd k = c.
  Hypothesis Hks' : snd k' = c.
  Hypothesis Hdep : forall n, In n nodes -> n <> c -> In c (edges n).

  Lemma ready_keys_agree l em :
    (forall n, In n l -> ready edges em n = true -> tk n = tk' n) ->
    ready_keys edges tk l em = ready_keys edges tk' l em.
  Proof.
    induction l as [|n l IH]; intros H; cbn [ready_keys]; [reflexivity|].
    rewrite IH by (intros n' Hn'; apply H; now right).
    destruct (ready edges em n) eqn:Er; [|reflexivity]. now rewrite (H n (or_introl eq_refl) Er).
  Qed.

  Lemma ready_keys_only_c (tk0 : id -> option tkey) k0 em : tk0 c = Some k0 -> forall l,
    NoDup l -> (forall n, In n l -> n <> c -> ready edges em n = false) ->
    ready_keys edges tk0 l em = Some (if mem_str c l && ready edges em c then [k0] else []).
  Proof.
    intros H0. induction l as [|n l IH]; intros Hnd Hno; cbn [ready_keys mem_str]; [reflexivity|].
    apply NoDup_cons_iff in Hnd as [Hn Hl].
    destruct (str_eqb_spec c n) as [E|E].
    - subst n. cbn [orb andb]. rewrite IH by (auto; intros n' Hn'; apply Hno; now right).
      apply mem_str_false in Hn. rewrite Hn. cbn [andb].
      destruct (ready edges em c); [now rewrite H0|reflexivity].
    - cbn [orb]. rewrite (Hno n (or_introl eq_refl)) by congruence.
      apply IH; auto. intros n' Hn'. apply Hno. now right.
  Qed.

  Hypothesis Hnd : NoDup nodes.

  Lemma emit_key_irrelevant : forall f em,
    emit nodes edges tk f em = emit nodes edges tk' f em.
  Proof.
    induction f as [|f IH]; intros em; cbn [emit]; [reflexivity|].
    destruct (mem_str c em) eqn:Ec.
    - rewrite (ready_keys_agree nodes em).
      + destruct (ready_keys edges tk' nodes em) as [ks|]; [|reflexivity].
        destruct (least ks) as [[[p t] n]|]; [|reflexivity]. now rewrite IH.
      + intros n Hn Hr. apply Hagree; [exact Hn|]. intros ->. unfold ready in Hr. rewrite Ec in Hr. discriminate.
    - assert (Hno : forall n, In n nodes -> n <> c -> ready edges em n = false).
      { intros n Hn Hne. unfold ready. apply andb_false_iff. right.
        destruct (forallb (fun d => mem_str d em) (edges n)) eqn:Ef; [|reflexivity].
        rewrite forallb_forall in Ef. specialize (Ef c (Hdep n Hn Hne)). congruence. }
      rewrite (ready_keys_only_c tk k em Hk nodes Hnd Hno), (ready_keys_only_c tk' k' em Hk' nodes Hnd Hno).
      destruct (mem_str c nodes && ready edges em c); [|reflexivity].
      cbn [least fold_left]. destruct k as [[p t] n], k' as [[p' t'] n']. cbn [snd] in Hks, Hks'. subst n n'.
      now rewrite IH.
  Qed.

  Lemma spec_sort_key_irrelevant : spec_sort nodes edges tk = spec_sort nodes edges tk'.
  Proof. apply emit_key_irrelevant. Qed.
End KeyIrrelevant.

(** * reverse_topological_power_sort *)
Lemma reaches_allowed st allowed i j : reaches st allowed i j -> allowed j = true.
Proof. induction 1; assumption. Qed.

Section RTPS.
  Variable st : store.
  Variable c : id.
  Variable ce : event.
  Variable cr : str.
  Hypothesis Hc : h_create st c ce cr.
  Hypothesis Hwf : pl_wf st.
  Variable o : oracles.
  Hypothesis Ho : perm_oracles o.
  Variables full control : list id.
  Variable g : graph.
  Hypothesis Hg : build_graph st full control = Some g.
  Hypothesis Hgood : forall n, In n (map fst g) -> good_node st c n.
  Hypothesis Hcf : incl control full.

  Definition spec_edges (n : id) : list id := filter (fun a => mem_str a full) (auths_of st n).

  Lemma nodes_in_full n : In n (map fst g) -> In n full.
  Proof.
    intros Hn. destruct (build_graph_spec st full control g Hg) as (_ & Hnodes & _).
    apply Hnodes in Hn as [Hn|(r & _ & Hr)]; [now apply Hcf|].
    apply reaches_allowed in Hr. now apply mem_str_In.
  Qed.

  Theorem rtps_spec :
    reverse_topological_power_sort st o control full =
    match spec_sort (map fst g) spec_edges (power_key st) with Some l => Ok l | None => Err 0 end.
  Proof.
    destruct (build_graph_spec st full control g Hg) as (Hnd & Hnodes & Hedges).
    unfold reverse_topological_power_sort. rewrite Hg.
    set (keys := o s_gkeys _ (map fst g)).
    assert (Hkp : Permutation keys (map fst g)) by apply Ho.
    assert (Hkin : forall n, In n keys <-> In n (map fst g)).
    { intros n; split; apply Permutation_in; [exact Hkp|now apply Permutation_sym]. }
    assert (Hknd : NoDup keys) by (eapply Permutation_NoDup; [apply Permutation_sym; exact Hkp|exact Hnd]).
    destruct (event_to_pl_spec st c ce cr Hc Hwf keys None [] (or_introl eq_refl))
      as (pls & Epl & Hfst & Hlev & _); [intros n Hn; apply Hgood; now apply Hkin|].
    rewrite Epl. rewrite app_nil_r in Hfst.
    assert (Hpnd : NoDup (map fst pls)).
    { rewrite Hfst. eapply Permutation_NoDup; [apply Permutation_rev|exact Hknd]. }
    rewrite (kahn_eq_spec o (sort_key st pls) g Ho Hnd).
    (* edges *)
    rewrite (spec_sort_ext (map fst g) (map fst g) (edges_of g) spec_edges _ (Permutation_refl _)).
    2:{ intros n d Hn. rewrite Hedges. unfold spec_edges. rewrite filter_In, mem_str_In.
        rewrite auth_ids_eq. tauto. }
    (* keys of the nodes other than the create event *)
    assert (Hagree : forall n, In n (map fst g) -> n <> c -> tkey_of (sort_key st pls) n = power_key st n).
    { intros n Hn Hne. destruct (Hgood n Hn) as (e & Hf & _).
      destruct (Hlev n e (proj2 (Hkin n) Hn) Hne Hf) as (l & Hsp & Hin).
      unfold tkey_of, sort_key, power_key, ev. rewrite Hf, Hsp, (In_ilookup pls n l Hpnd Hin). reflexivity. }
    destruct (in_dec (list_eq_dec N.eq_dec) c (map fst g)) as [Hcn|Hcn].
    - assert (Hcin : In c (map fst pls)) by (rewrite Hfst, <- in_rev; now apply Hkin).
      destruct (ilookup c pls) as [l0|] eqn:El0; [|apply ilookup_None in El0; contradiction].
      rewrite (spec_sort_key_irrelevant (map fst g) spec_edges (tkey_of (sort_key st pls)) (power_key st) c Hagree
                 (l0, e_ts ce, c) ((if str_eqb (e_sender ce) cr then 100%Z else 0%Z), e_ts ce, c)); auto.
      + unfold tkey_of, sort_key. now rewrite (hc_fetch _ _ _ _ Hc), El0.
      + unfold power_key, ev. now rewrite (hc_fetch _ _ _ _ Hc), (sender_power_create st c ce cr Hc).
      + intros n Hn Hne. destruct (Hgood n Hn) as (e & Hf & _ & Hcite).
        unfold spec_edges, auths_of, ev. rewrite Hf. apply filter_In. split; [now apply Hcite|].
        apply mem_str_In. now apply nodes_in_full.
    - rewrite (spec_sort_keys_agree (map fst g) spec_edges (tkey_of (sort_key st pls)) (power_key st)); [reflexivity|].
      intros n Hn. apply Hagree; [exact Hn|]. intros ->. contradiction.
  Qed.
End RTPS.
