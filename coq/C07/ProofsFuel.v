(** C07.ProofsFuel — the fuel of the graph traversal suffices: [build_graph] never returns
    [None].  The argument is the one for an explicit-stack depth-first search: a node popped a
    second time pushes nothing, because everything its first visit pushed lies above its other
    occurrences on the stack and has been visited by then. *)
From Coq Require Import Permutation.
From Base Require Import Prelude.
From C07 Require Import Event Model Spec ProofsSort ProofsSets ProofsAuth ProofsGraph.
From Coq Require Import ZifyBool ZifyNat ZifyN.

Section Fuel.
  Variable st : store.
  Variable full : list id.

  Definition weight (e : event) : nat := S (List.length (e_auth e)).

  (** Total weight of the events not yet in the graph. *)
  Fixpoint unvisited (l : store) (g : graph) : nat :=
    match l with
    | [] => 0%nat
    | e :: l' => ((if g_mem (e_id e) g then 0 else weight e) + unvisited l' g)%nat
    end.

  Lemma dfs_fuel_eq : dfs_fuel st = S (unvisited st []).
  Proof.
    unfold dfs_fuel. f_equal.
    assert (G : forall l n, fold_left (fun n e => (n + S (List.length (e_auth e)))%nat) l n = (n + unvisited l [])%nat).
    { induction l as [|e l IH]; intros n; cbn [fold_left unvisited]; [lia|]. rewrite IH. unfold g_mem. cbn. unfold weight. lia. }
    now rewrite G.
  Qed.

  Lemma unvisited_mono l g g' : (forall x, In x (map fst g) -> In x (map fst g')) ->
    (unvisited l g' <= unvisited l g)%nat.
  Proof.
    intros H. induction l as [|e l IH]; cbn [unvisited]; [lia|].
    destruct (g_mem (e_id e) g) eqn:E1.
    - apply g_mem_In, H, g_mem_In in E1. rewrite E1. lia.
    - destruct (g_mem (e_id e) g'); lia.
  Qed.

  Lemma unvisited_le_total l g : (unvisited l g <= unvisited l [])%nat.
  Proof. apply unvisited_mono. intros x []. Qed.

  (** Visiting a new, known node pays for its pushes. *)
  Lemma unvisited_visit l g g' eid e :
    (forall x, In x (map fst g) -> In x (map fst g')) -> In eid (map fst g') -> ~ In eid (map fst g) ->
    find (fun x => str_eqb (e_id x) eid) l = Some e ->
    (unvisited l g' + weight e <= unvisited l g)%nat.
  Proof.
    intros Hsub Hin Hnot. induction l as [|x l IH]; cbn [find unvisited]; [discriminate|].
    destruct (str_eqb_spec (e_id x) eid) as [E|E].
    - intros [= ->]. rewrite E. apply g_mem_In in Hin. rewrite Hin.
      assert (g_mem eid g = false) by (destruct (g_mem eid g) eqn:Eg; [apply g_mem_In in Eg; contradiction|reflexivity]).
      rewrite H. pose proof (unvisited_mono l g g' Hsub). lia.
    - intros Hf. specialize (IH Hf).
      destruct (g_mem (e_id x) g) eqn:E1.
      + apply g_mem_In, Hsub, g_mem_In in E1. rewrite E1. lia.
      + destruct (g_mem (e_id x) g'); lia.
  Qed.

  (** ** What a visit pushes *)
  Lemma visit_pushes eid : forall (auths stk : list id) (g : graph),
    In eid (map fst g) ->
    exists pushed, fst (fold_left (visit_step full eid) auths (stk, g)) = pushed ++ stk
      /\ (List.length pushed <= List.length auths)%nat
      /\ (forall x, In x pushed -> ~ In x (map fst g))
      /\ (forall d, In d auths -> In d full -> In d (map fst g) \/ In d pushed)
      /\ ((forall d, In d auths -> In d full -> In d (map fst g)) -> pushed = []).
  Proof.
    induction auths as [|a auths IH]; intros stk g Heid; cbn [fold_left].
    - exists []. cbn [fst List.length app]. split; [reflexivity|]. split; [lia|]. split; [intros x []|]. split; [intros d []|reflexivity].
    - destruct (mem_str a full) eqn:Ea.
      + assert (Hs : visit_step full eid (stk, g) a
                     = (if g_mem a g then stk else a :: stk, g_add_edge eid a g))
          by (unfold visit_step; cbn [fst snd]; now rewrite Ea).
        rewrite Hs. clear Hs. set (g1 := g_add_edge eid a g).
        assert (Hfst1 : map fst g1 = map fst g) by apply g_add_edge_fst.
        destruct (g_mem a g) eqn:Eg.
        * destruct (IH stk g1) as (pushed & Hp & Hlen & Hnot & Hall & Hnil); [now rewrite Hfst1|].
          exists pushed. split; [exact Hp|]. split; [cbn [List.length]; lia|]. split; [|split].
          -- intros x Hx. rewrite <- Hfst1. now apply Hnot.
          -- intros d [<-|Hd] Hf; [left; now apply g_mem_In|]. rewrite <- Hfst1. now apply Hall.
          -- intros H. apply Hnil. intros d Hd Hf. rewrite Hfst1. apply H; [now right|exact Hf].
        * destruct (IH (a :: stk) g1) as (pushed & Hp & Hlen & Hnot & Hall & Hnil); [now rewrite Hfst1|].
          exists (pushed ++ [a]). split; [rewrite Hp, <- app_assoc; reflexivity|].
          split; [rewrite app_length; cbn [List.length]; lia|]. split; [|split].
          -- intros x Hx. apply in_app_or in Hx as [Hx|[<-|[]]]; [rewrite <- Hfst1; now apply Hnot|].
             intros Hin. apply g_mem_In in Hin. congruence.
          -- intros d [<-|Hd] Hf; [right; apply in_or_app; right; now left|].
             destruct (Hall d Hd Hf) as [H|H]; [left; now rewrite <- Hfst1|right; apply in_or_app; now left].
          -- intros H. exfalso. apply mem_str_In in Ea. specialize (H a (or_introl eq_refl) Ea).
             apply g_mem_In in H. congruence.
      + assert (Hs : visit_step full eid (stk, g) a = (stk, g)) by (unfold visit_step; now rewrite Ea).
        rewrite Hs. clear Hs.
        destruct (IH stk g Heid) as (pushed & Hp & Hlen & Hnot & Hall & Hnil).
        exists pushed. split; [exact Hp|]. split; [cbn [List.length]; lia|]. split; [exact Hnot|]. split.
        * intros d [<-|Hd] Hf; [apply mem_str_In in Hf; congruence|now apply Hall].
        * intros H. apply Hnil. intros d Hd Hf. apply H; [now right|exact Hf].
  Qed.

  Lemma visit_nodes eid stk g x :
    In x (map fst (snd (visit st full eid stk g))) <-> x = eid \/ In x (map fst g).
  Proof.
    rewrite visit_eq.
    assert (Heid : In eid (map fst (g_entry eid g))) by (apply g_entry_nodes; now left).
    destruct (visit_fold full eid (auth_ids st eid) stk (g_entry eid g) Heid) as (H1 & _).
    cbn zeta in H1. rewrite H1. apply g_entry_nodes.
  Qed.

  (** ** The stack discipline *)
  Definition above (stack : list id) (n a : id) : Prop :=
    In a stack /\ forall s1 s2, stack = s1 ++ n :: s2 -> In a s1.

  Definition disciplined (stack : list id) (g : graph) : Prop :=
    forall n a, In n (map fst g) -> In a (auth_ids st n) -> In a full ->
                In a (map fst g) \/ above stack n a.

  Lemma prefix_split (p r s1 s2 : list id) n :
    p ++ r = s1 ++ n :: s2 -> ~ In n p -> exists t, s1 = p ++ t /\ r = t ++ n :: s2.
  Proof.
    revert s1; induction p as [|x p IH]; intros s1 E Hn; cbn [app] in E.
    - exists s1. auto.
    - destruct s1 as [|y s1]; cbn [app] in E.
      + inversion E; subst. exfalso. apply Hn. now left.
      + inversion E; subst. destruct (IH s1 H1) as (t & -> & Hr); [intros H; apply Hn; now right|].
        exists t. auto.
  Qed.

  Lemma dfs_total : forall fuel stack g,
    disciplined stack g -> (unvisited st g + List.length stack <= fuel)%nat ->
    exists gf, dfs st fuel full stack g = Some gf /\ disciplined [] gf.
  Proof.
    induction fuel as [|f IH]; intros stack g HJ Hm.
    - destruct stack as [|eid rest]; [|cbn [List.length] in Hm; lia]. exists g. split; [reflexivity|exact HJ].
    - destruct stack as [|eid rest]; [exists g; split; [reflexivity|exact HJ]|].
      cbn [dfs]. cbn [List.length] in Hm. apply IH.
      + (* the discipline is preserved *)
        rewrite visit_eq.
        assert (Heid : In eid (map fst (g_entry eid g))) by (apply g_entry_nodes; now left).
        destruct (visit_pushes eid (auth_ids st eid) rest (g_entry eid g) Heid) as (pushed & Hp & _ & Hnot & Hall & _).
        destruct (visit_fold full eid (auth_ids st eid) rest (g_entry eid g) Heid) as (H1 & _).
        cbn zeta in H1. set (r := fold_left (visit_step full eid) (auth_ids st eid) (rest, g_entry eid g)) in *.
        assert (Hnodes : forall x, In x (map fst (snd r)) <-> x = eid \/ In x (map fst g))
          by (intros x; rewrite H1; apply g_entry_nodes).
        intros n a Hn Ha Hf. rewrite Hp.
        destruct (in_dec (list_eq_dec N.eq_dec) a (map fst (snd r))) as [Hin|Hnin]; [now left|right].
        assert (Hane : a <> eid) by (intros ->; apply Hnin, Hnodes; now left).
        apply Hnodes in Hn as [->|Hn].
        * (* the node just visited: what is missing was pushed, above everything else *)
          destruct (Hall a Ha Hf) as [H|H]; [exfalso; apply Hnin; now rewrite H1|].
          split; [apply in_or_app; now left|]. intros s1 s2 E.
          destruct (prefix_split pushed rest s1 s2 eid E) as (t & -> & _).
          { intros Hx. apply (Hnot eid Hx). exact Heid. }
          apply in_or_app. now left.
        * destruct (HJ n a Hn Ha Hf) as [H|[Hs Hab]]; [exfalso; apply Hnin, Hnodes; now right|].
          destruct Hs as [E|Hs]; [congruence|]. split; [apply in_or_app; now right|].
          intros s1 s2 E. destruct (prefix_split pushed rest s1 s2 n E) as (t & -> & Hr).
          { intros Hx. apply (Hnot n Hx). apply g_entry_nodes. now right. }
          apply in_or_app. right. specialize (Hab (eid :: t) s2). cbn [app] in Hab. rewrite Hr in Hab.
          destruct (Hab eq_refl) as [E'|H]; [congruence|exact H].
      + (* the measure decreases *)
        rewrite visit_eq.
        assert (Heid : In eid (map fst (g_entry eid g))) by (apply g_entry_nodes; now left).
        destruct (visit_pushes eid (auth_ids st eid) rest (g_entry eid g) Heid) as (pushed & Hp & Hlen & _ & _ & Hnil).
        destruct (visit_fold full eid (auth_ids st eid) rest (g_entry eid g) Heid) as (H1 & _).
        cbn zeta in H1. set (r := fold_left (visit_step full eid) (auth_ids st eid) (rest, g_entry eid g)) in *.
        rewrite Hp, app_length.
        assert (Hsub : forall x, In x (map fst g) -> In x (map fst (snd r))).
        { intros x Hx. rewrite H1. apply g_entry_nodes. now right. }
        destruct (in_dec (list_eq_dec N.eq_dec) eid (map fst g)) as [Hold|Hnew].
        * (* second visit: nothing is pushed *)
          assert (pushed = []).
          { apply Hnil. intros d Hd Hf. apply g_entry_nodes. right.
            destruct (HJ eid d Hold Hd Hf) as [H|[_ Hab]]; [exact H|].
            destruct (Hab [] rest eq_refl). }
          subst pushed. cbn [List.length]. pose proof (unvisited_mono st g (snd r) Hsub). lia.
        * assert (Hin : In eid (map fst (snd r))) by (rewrite H1; exact Heid).
          unfold auth_ids in Hlen. unfold fetch in Hlen.
          destruct (find (fun e => str_eqb (e_id e) eid) st) as [e|] eqn:Ef.
          -- pose proof (unvisited_visit st g (snd r) eid e Hsub Hin Hnew Ef). unfold weight in H. lia.
          -- cbn [List.length] in Hlen. pose proof (unvisited_mono st g (snd r) Hsub). lia.
  Qed.

  Theorem build_graph_total events : build_graph st full events <> None.
  Proof.
    unfold build_graph.
    assert (G : forall evs g, disciplined [] g ->
              fold_left (fun og i => match og with Some g => dfs st (dfs_fuel st) full [i] g | None => None end)
                        evs (Some g) <> None).
    { induction evs as [|i evs IH]; intros g HJ; cbn [fold_left]; [discriminate|].
      destruct (dfs_total (dfs_fuel st) [i] g) as (gf & E & HJf).
      - intros n a Hn Ha Hf. destruct (HJ n a Hn Ha Hf) as [H|[[] _]]. now left.
      - rewrite dfs_fuel_eq. cbn [List.length]. pose proof (unvisited_le_total st g). lia.
      - rewrite E. now apply IH. }
    apply G. intros n a [].
  Qed.
End Fuel.
