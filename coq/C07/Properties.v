(** C07.Properties — placeholder while the development is being built. *)
From Base Require Import Prelude.
