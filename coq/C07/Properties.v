(** C07.Properties — the theorems that decide C07, and nothing else.
    Each is closed by [exact] and followed by [Print Assumptions].

    Vocabulary (see Event.v, Model.v, Spec.v, Proofs*.v):
    - [perm_oracles o]: every enumeration oracle of the model permutes its argument;
    - [spec_sort nodes edges key]: "repeatedly emit the least ready node";
      [emits_least nodes edges key [] l]: every element of [l] was, when emitted, a ready node
      (not yet emitted, all dependencies emitted) with the least (power, ts, id) key;
    - [resolve_spec st auth auth_types lit_chain lit_mainline]: state resolution v2, literal text
      for [true true], with the two deviations of the open findings for [false false];
    - [class_chain], [class_mainline]: the exact classes of inputs of the two open findings. *)
From Coq Require Import Permutation.
From Base Require Import Prelude.
From C07 Require Import Event Model Spec ProofsSort ProofsSets ProofsAuth ProofsGraph ProofsPower
  ProofsMainline ProofsClosure ProofsResolve ProofsFuel ProofsClasses Witness.

(** ** The exposed sort *)

(** For every graph (duplicate-free node list), key function and enumeration: the heap /
    out-degree loop returns exactly the specification's sequence, and an error exactly when a
    node that becomes ready has no key. *)
Theorem C07_kahn_eq_spec :
  forall (o : oracles) key_fn g, perm_oracles o -> NoDup (map fst g) ->
  lexico_topo_sort o key_fn g =
    match spec_sort (map fst g) (edges_of g) (tkey_of key_fn) with Some l => Ok l | None => Err 0 end.
Proof. exact kahn_eq_spec. Qed.
Eval compute in "PA:C07_kahn_eq_spec"%string.
Print Assumptions C07_kahn_eq_spec.

(** Closed acyclic graphs, every node keyed: a permutation of the nodes, each emitted node
    the least ready one (hence dependencies first, greatest power, then earliest timestamp,
    then smallest id). *)
Theorem C07_sort_correct :
  forall (o : oracles) key_fn g (rank : id -> nat),
  perm_oracles o -> NoDup (map fst g) ->
  (forall n, In n (map fst g) -> key_fn n <> None) ->
  (forall n d, In n (map fst g) -> In d (edges_of g n) -> In d (map fst g)) ->
  (forall n d, In n (map fst g) -> In d (edges_of g n) -> (rank d < rank n)%nat) ->
  exists l, lexico_topo_sort o key_fn g = Ok l /\ Permutation l (map fst g)
            /\ emits_least (map fst g) (edges_of g) (tkey_of key_fn) [] l.
Proof. exact sort_correct. Qed.
Eval compute in "PA:C07_sort_correct"%string.
Print Assumptions C07_sort_correct.

(** Any graph: what is emitted is emitted once, in least-ready order; a node with an edge to a
    non-node (or on a cycle) is silently dropped, not reported. *)
Theorem C07_sort_sound :
  forall (o : oracles) key_fn g l, perm_oracles o -> NoDup (map fst g) ->
  lexico_topo_sort o key_fn g = Ok l ->
  emits_least (map fst g) (edges_of g) (tkey_of key_fn) [] l
  /\ NoDup l /\ incl l (map fst g)
  /\ forall n d, In n l -> In d (edges_of g n) -> In d (map fst g).
Proof. exact sort_sound. Qed.
Eval compute in "PA:C07_sort_sound"%string.
Print Assumptions C07_sort_sound.

(** The result does not depend on how the graph and its edge sets are enumerated. *)
Theorem C07_sort_enumeration_independent :
  forall (o o' : oracles) key_fn g g', perm_oracles o -> perm_oracles o' -> NoDup (map fst g) ->
  Permutation (map fst g) (map fst g') ->
  (forall n d, In d (edges_of g n) <-> In d (edges_of g' n)) ->
  lexico_topo_sort o key_fn g = lexico_topo_sort o' key_fn g'.
Proof. exact sort_enumeration_independent. Qed.
Eval compute in "PA:C07_sort_enumeration_independent"%string.
Print Assumptions C07_sort_enumeration_independent.

(** ** Stages of resolve *)
Theorem C07_separate_eq_spec :
  forall (o : oracles) sets, perm_oracles o -> maps sets ->
  (forall k, klookup k (fst (separate o sets)) = klookup k (unconflicted sets))
  /\ (forall x, In x (List.concat (map snd (snd (separate o sets)))) <-> In x (conflicted_events sets)).
Proof. exact separate_eq_spec. Qed.
Eval compute in "PA:C07_separate_eq_spec"%string.
Print Assumptions C07_separate_eq_spec.

Theorem C07_auth_diff_eq_spec :
  forall (o : oracles) chains, perm_oracles o -> (forall c, In c chains -> NoDup c) ->
  forall x, In x (auth_chain_diff o chains) <-> In x (auth_difference chains).
Proof. exact auth_diff_eq_spec. Qed.
Eval compute in "PA:C07_auth_diff_eq_spec"%string.
Print Assumptions C07_auth_diff_eq_spec.

Theorem C07_full_conflicted_eq_spec :
  forall (st : store) (o : oracles) sets chains,
  perm_oracles o -> maps sets -> (forall c, In c chains -> NoDup c) ->
  forall x, In x (all_conflicted st o chains (snd (separate o sets))) <-> In x (full_conflicted st sets chains).
Proof. exact full_conflicted_eq_spec. Qed.
Eval compute in "PA:C07_full_conflicted_eq_spec"%string.
Print Assumptions C07_full_conflicted_eq_spec.

Theorem C07_is_power_event_eq_spec : forall e, is_power_event e = is_power e.
Proof. exact is_power_event_eq_spec. Qed.
Eval compute in "PA:C07_is_power_event_eq_spec"%string.
Print Assumptions C07_is_power_event_eq_spec.

(** Under H_create (one create event [ce], cited by every other node) the loop over
    [graph.keys()] with its creator lock assigns every node other than the create event the
    specification's sender power level, whatever the enumeration [keys]. *)
Theorem C07_power_level_for_sender_eq_spec :
  forall (st : store) (c : id) (ce : event) (cr : str),
  h_create st c ce cr -> pl_wf st ->
  forall keys lock acc, (lock = None \/ lock = Some cr) -> (forall n, In n keys -> good_node st c n) ->
  exists pls, event_to_pl st keys lock acc = Ok pls
    /\ map fst pls = rev keys ++ map fst acc
    /\ (forall n e, In n keys -> n <> c -> fetch st n = Some e ->
                    exists l, sender_power st e = Some l /\ In (n, l) pls)
    /\ (forall x, In x acc -> In x pls).
Proof. exact event_to_pl_spec. Qed.
Eval compute in "PA:C07_power_level_for_sender_eq_spec"%string.
Print Assumptions C07_power_level_for_sender_eq_spec.

(** The graph of power events: nodes = what is reachable from them *through the full
    conflicted set*, edges = the cited events that lie in the full conflicted set. *)
Theorem C07_power_graph_eq_spec :
  forall (st : store) (full events : list id) g, build_graph st full events = Some g ->
  NoDup (map fst g)
  /\ (forall n, In n (map fst g) <->
                In n events \/ exists r, In r events /\ reaches st (fun a => mem_str a full) r n)
  /\ (forall n d, In d (edges_of g n) <-> In n (map fst g) /\ In d (auth_ids st n) /\ In d full).
Proof. exact build_graph_spec. Qed.
Eval compute in "PA:C07_power_graph_eq_spec"%string.
Print Assumptions C07_power_graph_eq_spec.

Theorem C07_reverse_topological_power_sort_eq_spec :
  forall (st : store) (c : id) (ce : event) (cr : str), h_create st c ce cr -> pl_wf st ->
  forall (o : oracles), perm_oracles o ->
  forall (full control : list id) (g : graph), build_graph st full control = Some g ->
  (forall n, In n (map fst g) -> good_node st c n) -> incl control full ->
  reverse_topological_power_sort st o control full =
  match spec_sort (map fst g) (spec_edges st full) (power_key st) with Some l => Ok l | None => Err 0 end.
Proof. exact rtps_spec. Qed.
Eval compute in "PA:C07_reverse_topological_power_sort_eq_spec"%string.
Print Assumptions C07_reverse_topological_power_sort_eq_spec.

Theorem C07_iterative_auth_eq_spec :
  forall (st : store) auth auth_types, all_state_events st -> auth_local auth auth_types ->
  forall events state,
  (forall i, In i events -> exists e, fetch st i = Some e /\ auth_keys_unique st e) ->
  iterative_auth_check st auth auth_types events state = Ok (iterative_auth st auth auth_types events state).
Proof. exact iterative_auth_eq_spec. Qed.
Eval compute in "PA:C07_iterative_auth_eq_spec"%string.
Print Assumptions C07_iterative_auth_eq_spec.

(** Open finding C07-mainline-no-ancestor: the mainline sort is the specification's mainline
    ordering on every input outside [mainline_class] (an event without mainline ancestor together
    with an event on the oldest mainline position) ... *)
Theorem C07_mainline_eq_spec :
  forall (st : store) (rank : id -> nat) (o : oracles) to_sort pl,
  (forall i e a, fetch st i = Some e -> In a (e_auth e) -> (rank a < rank i)%nat) ->
  (forall i, known st i = true -> (rank i < List.length st)%nat) ->
  (forall i e a, fetch st i = Some e -> In a (e_auth e) -> known st a = true) ->
  perm_oracles o -> NoDup to_sort -> (forall i, In i to_sort -> known st i = true) ->
  (forall p, pl = Some p -> known st p = true) ->
  mainline_class st (mainline st pl) to_sort = false ->
  mainline_sort st o to_sort pl = Ok (mainline_ordering st true (mainline st pl) to_sort).
Proof. exact mainline_eq_spec. Qed.
Eval compute in "PA:C07_mainline_eq_spec"%string.
Print Assumptions C07_mainline_eq_spec.

(** ... and on every input it is the ordering in which "no mainline ancestor" counts as the
    oldest mainline position. *)
Theorem C07_mainline_eq_spec_with_deviation :
  forall (st : store) (rank : id -> nat) (o : oracles) to_sort pl,
  (forall i e a, fetch st i = Some e -> In a (e_auth e) -> (rank a < rank i)%nat) ->
  (forall i, known st i = true -> (rank i < List.length st)%nat) ->
  (forall i e a, fetch st i = Some e -> In a (e_auth e) -> known st a = true) ->
  perm_oracles o -> NoDup to_sort -> (forall i, In i to_sort -> known st i = true) ->
  (forall p, pl = Some p -> known st p = true) ->
  mainline_sort st o to_sort pl = Ok (mainline_ordering st false (mainline st pl) to_sort).
Proof. exact mainline_sort_eq. Qed.
Eval compute in "PA:C07_mainline_eq_spec_with_deviation"%string.
Print Assumptions C07_mainline_eq_spec_with_deviation.

(** ** The composition *)

(** The graph traversal never runs out of fuel (so the only [Panic] of the model's
    [reverse_topological_power_sort] is unreachable). *)
Theorem C07_build_graph_total :
  forall (st : store) (full events : list id), build_graph st full events <> None.
Proof. exact build_graph_total. Qed.
Eval compute in "PA:C07_build_graph_total"%string.
Print Assumptions C07_build_graph_total.

(** For every acyclic store of state events with H_create and every enumeration of every hash
    container: the model of [resolve] returns the map computed by the specification's
    algorithm with the two deviations of the open findings ... *)
Theorem C07_resolve_eq_spec_with_deviations :
  forall (st : store) (auth : event -> (key -> option event) -> bool) (auth_types : event -> option (list key))
         (rank : id -> nat) (c : id) (ce : event) (cr : str) (sets : list smap) (chains : list (list id)) (o : oracles),
  (forall i e a, fetch st i = Some e -> In a (e_auth e) -> (rank a < rank i)%nat) ->
  (forall i, known st i = true -> (rank i < List.length st)%nat) ->
  (forall i e a, fetch st i = Some e -> In a (e_auth e) -> known st a = true) ->
  all_state_events st ->
  (forall i e, fetch st i = Some e -> auth_keys_unique st e) ->
  auth_local auth auth_types ->
  h_create st c ce cr -> pl_wf st ->
  (forall i e, fetch st i = Some e -> i <> c -> In c (e_auth e)) ->
  maps sets -> (forall ch, In ch chains -> NoDup ch) ->
  (forall s k i, In s sets -> In (k, i) s -> known st i = true) ->
  (conflicted_events sets = [] -> auth_difference chains = []) ->
  perm_oracles o ->
  exists m R, resolve st auth auth_types o sets chains = Ok m
              /\ resolve_spec st auth auth_types false false sets chains = Some R
              /\ forall k, klookup k m = klookup k R.
Proof. exact resolve_eq_spec_with_deviations. Qed.
Eval compute in "PA:C07_resolve_eq_spec_with_deviations"%string.
Print Assumptions C07_resolve_eq_spec_with_deviations.

(** ... and outside the classes of the two open findings that is the literal specification
    (DESIGN.md A.6): [forall x, ~ KnownClass x -> P x]. *)
Theorem C07_resolve_eq_spec :
  forall (st : store) (auth : event -> (key -> option event) -> bool) (auth_types : event -> option (list key))
         (rank : id -> nat) (c : id) (ce : event) (cr : str) (sets : list smap) (chains : list (list id)) (o : oracles),
  (forall i e a, fetch st i = Some e -> In a (e_auth e) -> (rank a < rank i)%nat) ->
  (forall i, known st i = true -> (rank i < List.length st)%nat) ->
  (forall i e a, fetch st i = Some e -> In a (e_auth e) -> known st a = true) ->
  all_state_events st ->
  (forall i e, fetch st i = Some e -> auth_keys_unique st e) ->
  auth_local auth auth_types ->
  h_create st c ce cr -> pl_wf st ->
  (forall i e, fetch st i = Some e -> i <> c -> In c (e_auth e)) ->
  maps sets -> (forall ch, In ch chains -> NoDup ch) ->
  (forall s k i, In s sets -> In (k, i) s -> known st i = true) ->
  (conflicted_events sets = [] -> auth_difference chains = []) ->
  perm_oracles o ->
  class_chain st sets chains = false ->
  class_mainline st auth auth_types false sets chains = false ->
  exists m R, resolve st auth auth_types o sets chains = Ok m
              /\ resolve_spec st auth auth_types true true sets chains = Some R
              /\ forall k, klookup k m = klookup k R.
Proof. exact resolve_eq_spec. Qed.
Eval compute in "PA:C07_resolve_eq_spec"%string.
Print Assumptions C07_resolve_eq_spec.

(** ** Witnesses of the two classes (the statements above cannot be strengthened) *)
Theorem C07_finding_mainline_witness :
  class_mainline st_m allow_all no_types false sets_m chains_m = true
  /\ class_chain st_m sets_m chains_m = false
  /\ topic_of (resolve_spec st_m allow_all no_types true true sets_m chains_m) = Some (bytes_of_string "$y")
  /\ topic_of (resolve_spec st_m allow_all no_types false false sets_m chains_m) = Some (bytes_of_string "$x")
  /\ model_topic st_m id_oracles sets_m chains_m = Some (bytes_of_string "$x").
Proof. exact finding_mainline_witness. Qed.
Eval compute in "PA:C07_finding_mainline_witness"%string.
Print Assumptions C07_finding_mainline_witness.

Theorem C07_finding_closure_witness :
  class_chain st_c sets_c chains_c = true
  /\ bob_of (resolve_spec st_c allow_all no_types true true sets_c chains_c) = Some (bytes_of_string "$lb")
  /\ bob_of (resolve_spec st_c allow_all no_types false false sets_c chains_c) = Some (bytes_of_string "$jb")
  /\ match resolve st_c allow_all no_types id_oracles sets_c chains_c with
     | Ok m => klookup k_bob m = Some (bytes_of_string "$jb") | _ => False end.
Proof. exact finding_closure_witness. Qed.
Eval compute in "PA:C07_finding_closure_witness"%string.
Print Assumptions C07_finding_closure_witness.
