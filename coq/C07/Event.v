(** C07.Event — vocabulary shared by the model and the specification of state resolution:
    event ids, state keys, the event record, the event store, association lists.
    Strings are byte strings; [OwnedEventId]'s [Ord] is the byte order [str_ltb]. *)
From Base Require Import Prelude.

Definition id := str.
Definition key := (str * str)%type.          (* (event type, state key) *)

Definition key_eqb (a b : key) : bool := str_eqb (fst a) (fst b) && str_eqb (snd a) (snd b).

(** What state resolution reads of an event.  The first six fields are the [Event] trait
    accessors used by lib.rs.  The others are what lib.rs obtains about the event from
    *other* anchored code (content deserialisation helpers in [events/], [auth_types_for_event],
    [auth_check]); they are observed on the real implementation in the correspondence runs
    and are abstract data in the theorems. *)
Record event := mkEvent {
  e_id : id;
  e_type : str;
  e_skey : option str;
  e_sender : str;
  e_ts : Z;
  e_auth : list id;
  (* RoomMemberEvent::membership(), when Ok *)
  e_membership : option str;
  (* RoomCreateEvent::creator(rules): None = not a create event, Some None = Err *)
  e_creator : option (option str);
  (* RoomPowerLevelsEvent: users(rules) (None = Err) and get_as_int(UsersDefault)
     (None = Err, Some None = absent); None = not a power-levels event *)
  e_pl : option (option (list (str * Z)) * option (option Z));
  (* auth_types_for_event, None = Err *)
  e_atypes : option (list key);
  (* recorded auth_check verdicts, used only by Run.v *)
  e_verdicts : list (list (option id) * bool)
}.

Definition t_create : str := s!"m.room.create".
Definition t_power_levels : str := s!"m.room.power_levels".
Definition t_join_rules : str := s!"m.room.join_rules".
Definition t_member : str := s!"m.room.member".
Definition m_leave : str := s!"leave".
Definition m_ban : str := s!"ban".

Definition store := list event.

(** [fetch_event]: the harness's store is a map from event id to event. *)
Definition fetch (st : store) (i : id) : option event :=
  find (fun e => str_eqb (e_id e) i) st.

Definition is_some {A} (o : option A) : bool := match o with Some _ => true | None => false end.

Definition known (st : store) (i : id) : bool := is_some (fetch st i).

(** Association lists: first match wins; [(k,v) :: m] is insertion. *)
Fixpoint klookup {V} (k : key) (m : list (key * V)) : option V :=
  match m with
  | [] => None
  | (k', v) :: m' => if key_eqb k' k then Some v else klookup k m'
  end.

Fixpoint ilookup {V} (i : id) (m : list (id * V)) : option V :=
  match m with
  | [] => None
  | (i', v) :: m' => if str_eqb i' i then Some v else ilookup i m'
  end.

Definition smap := list (key * id).

Definition opt_id_eqb (a b : option id) : bool :=
  match a, b with
  | None, None => true
  | Some x, Some y => str_eqb x y
  | _, _ => false
  end.

(** Duplicate-free list of ids (a [HashSet<EventId>] as enumerated, or a set in the spec). *)
Fixpoint dedup (l : list id) : list id :=
  match l with
  | [] => []
  | x :: l' => if mem_str x l' then dedup l' else x :: dedup l'
  end.

Definition key_of (e : event) : option key :=
  match e_skey e with Some sk => Some (e_type e, sk) | None => None end.

(** Sort keys: (power level, origin_server_ts, event id) compared as lib.rs:293-306 —
    greater power first, then smaller timestamp, then smaller id. *)
Definition tkey := (Z * Z * id)%type.

Definition tk_ltb (a b : tkey) : bool :=
  let '(pa, ta, ia) := a in
  let '(pb, tb, ib) := b in
  if (pb <? pa)%Z then true
  else if (pa <? pb)%Z then false
  else if (ta <? tb)%Z then true
  else if (tb <? ta)%Z then false
  else str_ltb ia ib.
