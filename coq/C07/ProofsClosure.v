(** C07.ProofsClosure — the specification's decision procedure for auth chains
    ([chain_within]) computes [reaches] on acyclic stores; small facts about the
    specification's own definitions used by the composition. *)
From Coq Require Import Permutation.
From Base Require Import Prelude.
From C07 Require Import Event Model Spec ProofsSort ProofsSets ProofsAuth ProofsGraph.
From Coq Require Import ZifyBool ZifyNat ZifyN.

Lemma reaches_ext st (f g : id -> bool) i j :
  (forall a, f a = g a) -> reaches st f i j -> reaches st g i j.
Proof.
  intros H. induction 1 as [i j Hj Hf|i j k Hij IH Hk Hf].
  - apply reaches_step. { exact Hj. } rewrite <- H. exact Hf.
  - apply (reaches_trans st g i j k IH Hk). rewrite <- H. exact Hf.
Qed.

Section Closure.
  Variable st : store.
  Variable rank : id -> nat.
  Hypothesis Hrank : forall i e a, fetch st i = Some e -> In a (e_auth e) -> (rank a < rank i)%nat.
  Hypothesis Hbound : forall i, known st i = true -> (rank i < List.length st)%nat.
  Variable allowed : id -> bool.

  (** Paths with their length. *)
  Inductive rn : nat -> id -> id -> Prop :=
  | rn1 i j : In j (auths_of st i) -> allowed j = true -> rn 1 i j
  | rnS k i j l : rn k i j -> In l (auths_of st j) -> allowed l = true -> rn (S k) i l.

  Lemma reaches_rn i j : reaches st allowed i j <-> exists k, rn k i j.
  Proof.
    split.
    - induction 1 as [i j Hj Hf|i j k Hij [n IH] Hk Hf]; [exists 1%nat; now constructor|].
      exists (S n). econstructor; eauto.
    - intros (k & H). induction H; [now apply reaches_step|eapply reaches_trans; eauto].
  Qed.

  Lemma auths_edge_rank i j : In j (auths_of st i) -> (rank j < rank i)%nat /\ known st i = true.
  Proof.
    unfold auths_of, ev, known. destruct (fetch st i) as [e|] eqn:E; [|intros []].
    intros H. split; [eapply Hrank; eauto|reflexivity].
  Qed.

  Lemma rn_rank k i j : rn k i j -> (rank j + k <= rank i)%nat /\ known st i = true /\ (1 <= k)%nat.
  Proof.
    induction 1 as [i j Hj _|k i j l H [IH1 [IH2 IH3]] Hl _].
    - destruct (auths_edge_rank i j Hj). lia.
    - destruct (auths_edge_rank j l Hl). lia.
  Qed.

  Lemma expand_In s x :
    In x (expand st allowed s) <-> In x s \/ exists y, In y s /\ In x (auths_of st y) /\ allowed x = true.
  Proof.
    unfold expand. rewrite dedup_In, in_app_iff, filter_In, in_flat_map. split.
    - intros [H|[(y & Hy & Hx) Ha]]; [now left|right; eauto].
    - intros [H|(y & Hy & Hx & Ha)]; [now left|right; split; eauto].
  Qed.

  Lemma iter_expand_S n s : iter_expand st (S n) allowed s = expand st allowed (iter_expand st n allowed s).
  Proof.
    revert s; induction n as [|n IH]; intros s; [reflexivity|].
    change (iter_expand st (S (S n)) allowed s) with (iter_expand st (S n) allowed (expand st allowed s)).
    rewrite IH. reflexivity.
  Qed.

  Lemma iter_expand_mono n m s x : In x (iter_expand st n allowed s) -> In x (iter_expand st (n + m) allowed s).
  Proof.
    intros H. induction m as [|m IH]; [now rewrite Nat.add_0_r|].
    rewrite Nat.add_succ_r, iter_expand_S. apply expand_In. now left.
  Qed.

  Lemma iter_expand_sound n : forall s x, In x (iter_expand st n allowed s) ->
    In x s \/ exists y, In y s /\ reaches st allowed y x.
  Proof.
    induction n as [|n IH]; intros s x H; [now left|].
    rewrite iter_expand_S in H. apply expand_In in H as [H|(y & Hy & Hx & Ha)]; [now apply IH|].
    destruct (IH s y Hy) as [Hs|(z & Hz & Hr)].
    - right. exists y. split; [exact Hs|now apply reaches_step].
    - right. exists z. split; [exact Hz|eapply reaches_trans; eauto].
  Qed.

  Lemma rn_iter k i j : rn k i j ->
    In j (iter_expand st (k - 1) allowed (filter allowed (auths_of st i))).
  Proof.
    induction 1 as [i j Hj Ha|k i j l H IH Hl Ha].
    - cbn [Nat.sub iter_expand]. apply filter_In. auto.
    - destruct (rn_rank _ _ _ H) as (_ & _ & Hk). replace (S k - 1)%nat with (S (k - 1)) by lia.
      rewrite iter_expand_S. apply expand_In. right. exists j. auto.
  Qed.

  Theorem chain_within_correct i j :
    In j (chain_within st allowed i) <-> reaches st allowed i j.
  Proof.
    unfold chain_within. split.
    - intros H. apply iter_expand_sound in H as [H|(y & Hy & Hr)].
      + apply filter_In in H as [H1 H2]. now apply reaches_step.
      + apply filter_In in Hy as [H1 H2].
        (* i -> y -> ... -> j *)
        clear - H1 H2 Hr. induction Hr as [y j Hj Hf|y j k Hyj IH Hk Hf].
        * eapply reaches_trans; [apply reaches_step; eauto|exact Hj|exact Hf].
        * eapply reaches_trans; [apply IH; auto|exact Hk|exact Hf].
    - intros H. apply reaches_rn in H as (k & H). pose proof (rn_iter _ _ _ H) as Hin.
      destruct (rn_rank _ _ _ H) as (Hr & Hk & H1). pose proof (Hbound i Hk).
      replace (List.length st) with ((k - 1) + (List.length st - (k - 1)))%nat by lia.
      now apply iter_expand_mono.
  Qed.
End Closure.

(** * Facts about the specification's own definitions *)
Lemma dedup_keys_In l k : In k (dedup_keys l) <-> In k l.
Proof.
  induction l as [|k0 l IH]; cbn [dedup_keys In]; [tauto|].
  destruct (existsb (key_eqb k0) l) eqn:E.
  - rewrite IH. apply existsb_exists in E as (k1 & Hk1 & Ek). apply key_eqb_eq in Ek. subst k1.
    split; [auto|intros [<-|H]; auto].
  - cbn [In]. rewrite IH. tauto.
Qed.

Lemma klookup_flat_unc sets l k :
  klookup k (flat_map (fun k => match same_everywhere sets k with Some v => [(k, v)] | None => [] end) l)
  = if existsb (key_eqb k) l then same_everywhere sets k else None.
Proof.
  induction l as [|k0 l IH]; cbn [flat_map existsb]; [reflexivity|].
  destruct (key_eqb_spec k k0) as [E|E]; cbn [orb].
  - subst k0. destruct (same_everywhere sets k) as [v|] eqn:Es; cbn [app klookup].
    + now rewrite key_eqb_refl.
    + rewrite IH. destruct (existsb (key_eqb k) l); first [exact Es|reflexivity].
  - destruct (same_everywhere sets k0) as [v|]; cbn [app klookup]; [|exact IH].
    destruct (key_eqb_spec k0 k); [congruence|exact IH].
Qed.

Lemma unconflicted_lookup sets k : klookup k (unconflicted sets) = same_everywhere sets k.
Proof.
  unfold unconflicted. rewrite klookup_flat_unc.
  destruct (existsb (key_eqb k) (all_keys sets)) eqn:E; [reflexivity|].
  destruct (same_everywhere sets k) as [v|] eqn:Es; [|reflexivity]. exfalso.
  apply same_everywhere_spec in Es as [Hne Hall]. destruct sets as [|s r]; [congruence|].
  assert (Hin : In k (all_keys (s :: r))).
  { unfold all_keys. apply dedup_keys_In. apply in_map_iff. exists (k, v). split; [reflexivity|].
    cbn [List.concat]. apply in_or_app. left. apply klookup_In. apply Hall. now left. }
  assert (existsb (key_eqb k) (all_keys (s :: r)) = true).
  { apply existsb_exists. exists k. split; [exact Hin|apply key_eqb_refl]. }
  congruence.
Qed.

Definition smap_equiv (a b : smap) : Prop := forall k, klookup k a = klookup k b.

Lemma klookup_app {V} (a b : list (key * V)) k :
  klookup k (a ++ b) = match klookup k a with Some v => Some v | None => klookup k b end.
Proof.
  induction a as [|[k0 v0] a IH]; cbn [app klookup]; [reflexivity|].
  destruct (key_eqb k0 k); [reflexivity|exact IH].
Qed.
