(** C07.ProofsSets — the set-building stages of [resolve]: [separate], [get_auth_chain_diff],
    the full conflicted set and [is_power_event].  Each stage of the model is characterised by
    a predicate on the input *sets* that mentions neither the enumeration oracles nor the
    order of the inputs, and is then compared with the specification's definition. *)
From Coq Require Import Permutation.
From Base Require Import Prelude.
From C07 Require Import Event Model Spec ProofsSort.
From Coq Require Import ZifyBool ZifyNat ZifyN.

(** * Keys, lookups, dedup *)
Lemma key_eqb_eq a b : key_eqb a b = true <-> a = b.
Proof.
  destruct a as [a1 a2], b as [b1 b2]; unfold key_eqb; cbn [fst snd].
  rewrite andb_true_iff, !str_eqb_eq. split; [intros [-> ->]; reflexivity|intros [= -> ->]; auto].
Qed.

Lemma key_eqb_refl a : key_eqb a a = true.
Proof. now apply key_eqb_eq. Qed.

Lemma key_eqb_spec a b : reflect (a = b) (key_eqb a b).
Proof. destruct (key_eqb a b) eqn:E; constructor; [now apply key_eqb_eq|intros H; apply key_eqb_eq in H; congruence]. Qed.

Lemma key_eqb_sym a b : key_eqb a b = key_eqb b a.
Proof. destruct (key_eqb_spec a b) as [->|H]; [now rewrite key_eqb_refl|]. destruct (key_eqb_spec b a); congruence. Qed.

Lemma klookup_In {V} (m : list (key * V)) k v : klookup k m = Some v -> In (k, v) m.
Proof.
  induction m as [|[k' w] m IH]; cbn [klookup]; [discriminate|].
  destruct (key_eqb_spec k' k) as [->|H]; [intros [= ->]; now left|intros E; right; auto].
Qed.

Lemma klookup_None {V} (m : list (key * V)) k : klookup k m = None <-> ~ In k (map fst m).
Proof.
  induction m as [|[k' w] m IH]; cbn [klookup map fst In]; [tauto|].
  destruct (key_eqb_spec k' k) as [->|H]; [split; [discriminate|intros X; exfalso; apply X; now left]|].
  rewrite IH. tauto.
Qed.

Lemma In_klookup {V} (m : list (key * V)) k v : NoDup (map fst m) -> In (k, v) m -> klookup k m = Some v.
Proof.
  induction m as [|[k' w] m IH]; cbn [klookup map fst In]; [tauto|].
  intros Hn Hin. inversion Hn as [|? ? Hk Hn']; subst.
  destruct (key_eqb_spec k' k) as [E|E].
  - destruct Hin as [E'|Hin]; [congruence|]. exfalso. apply Hk. subst k'.
    change k with (fst (k, v)). now apply in_map.
  - destruct Hin as [E'|Hin]; [congruence|auto].
Qed.

Lemma klookup_unique {V} (m : list (key * V)) k v :
  (forall v', In (k, v') m -> v' = v) -> In (k, v) m -> klookup k m = Some v.
Proof.
  induction m as [|[k' w] m IH]; cbn [klookup In]; [tauto|]. intros Hu Hin.
  destruct (key_eqb_spec k' k) as [E|E].
  - subst k'. f_equal. apply Hu. now left.
  - destruct Hin as [E'|Hin]; [congruence|]. apply IH; auto.
Qed.

Lemma klookup_perm {V} (m m' : list (key * V)) k :
  NoDup (map fst m) -> Permutation m m' -> klookup k m = klookup k m'.
Proof.
  intros Hn Hp. assert (Hn' : NoDup (map fst m')) by (eapply Permutation_NoDup; [apply Permutation_map; exact Hp|exact Hn]).
  destruct (klookup k m) as [v|] eqn:E.
  - symmetry. apply In_klookup; [exact Hn'|]. eapply Permutation_in; [exact Hp|]. now apply klookup_In.
  - symmetry. apply klookup_None. apply klookup_None in E. intros H. apply E.
    eapply Permutation_in; [apply Permutation_map, Permutation_sym; exact Hp|exact H].
Qed.

Lemma dedup_In l x : In x (dedup l) <-> In x l.
Proof.
  induction l as [|y l IH]; cbn [dedup In]; [tauto|].
  destruct (mem_str y l) eqn:E.
  - rewrite IH. apply mem_str_In in E. split; [auto|intros [<-|H]; auto].
  - cbn [In]. rewrite IH. tauto.
Qed.

Lemma dedup_NoDup l : NoDup (dedup l).
Proof.
  induction l as [|y l IH]; cbn [dedup]; [constructor|].
  destruct (mem_str y l) eqn:E; [exact IH|]. constructor; [|exact IH].
  rewrite dedup_In. now apply mem_str_false.
Qed.

Lemma opt_id_eqb_eq a b : opt_id_eqb a b = true <-> a = b.
Proof.
  destruct a, b; cbn [opt_id_eqb]; try (split; congruence).
  rewrite str_eqb_eq. split; congruence.
Qed.

(** * is_power_event *)
Lemma is_power_event_eq_spec e : is_power_event e = is_power e.
Proof.
  unfold is_power_event, is_power, skey_is, has_skey.
  destruct (str_eqb_spec (e_type e) t_power_levels) as [E1|E1];
    [rewrite E1; cbn; now rewrite andb_true_r, orb_false_r|].
  destruct (str_eqb_spec (e_type e) t_join_rules) as [E2|E2];
    [rewrite E2; cbn; now rewrite andb_true_r, orb_false_r|].
  destruct (str_eqb_spec (e_type e) t_create) as [E3|E3];
    [rewrite E3; cbn; now rewrite andb_true_r, orb_false_r|].
  cbn [orb]. rewrite andb_false_r. cbn [orb].
  destruct (str_eqb (e_type e) t_member); cbn [andb]; [|reflexivity].
  destruct (e_membership e) as [m|]; [|reflexivity].
  destruct (str_eqb m m_leave || str_eqb m m_ban); reflexivity.
Qed.

(** * separate *)

(** How often the entry [k -> v] occurs in a list of entries / in how many state sets. *)
Definition ehit (k : key) (v : id) (e : key * id) : bool := key_eqb (fst e) k && str_eqb (snd e) v.
Definition ecount (k : key) (v : id) (es : list (key * id)) : nat := List.length (filter (ehit k v) es).

Definition occ_get (occ : list (key * list (id * nat))) (k : key) (v : id) : nat :=
  match klookup k occ with
  | Some m => match ilookup v m with Some c => c | None => 0%nat end
  | None => 0%nat
  end.

Definition occ_ok (occ : list (key * list (id * nat))) : Prop :=
  NoDup (map fst occ) /\
  forall k m, In (k, m) occ -> NoDup (map fst m) /\ forall v c, In (v, c) m -> (1 <= c)%nat.

Lemma occ_add_id_fst v m x : In x (map fst (occ_add_id v m)) <-> x = v \/ In x (map fst m).
Proof.
  induction m as [|[y c] m IH]; cbn [occ_add_id map fst In]; [intuition|].
  destruct (str_eqb_spec y v) as [E|E]; cbn [map fst In].
  - subst. intuition.
  - rewrite IH. intuition.
Qed.

Lemma occ_add_id_nodup v m : NoDup (map fst m) -> NoDup (map fst (occ_add_id v m)).
Proof.
  induction m as [|[y c] m IH]; cbn [occ_add_id map fst]; intros H.
  - constructor; [intros []|constructor].
  - inversion H as [|? ? Hy Hm]; subst. destruct (str_eqb_spec y v) as [E|E]; cbn [map fst].
    + constructor; auto.
    + constructor; [|auto]. rewrite occ_add_id_fst. intros [X|X]; [congruence|contradiction].
Qed.

Lemma occ_add_id_lookup v m x :
  ilookup x (occ_add_id v m) =
  if str_eqb v x then Some (S (match ilookup v m with Some c => c | None => 0%nat end)) else ilookup x m.
Proof.
  induction m as [|[y c] m IH]; cbn [occ_add_id ilookup].
  - destruct (str_eqb v x); reflexivity.
  - destruct (str_eqb_spec y v) as [E|E]; cbn [ilookup].
    + subst y. destruct (str_eqb v x); reflexivity.
    + rewrite IH. destruct (str_eqb_spec v x) as [E2|E2].
      * subst x. destruct (str_eqb_spec y v); [congruence|reflexivity].
      * reflexivity.
Qed.

Lemma occ_add_id_pos v m : (forall x c, In (x, c) m -> (1 <= c)%nat) ->
  forall x c, In (x, c) (occ_add_id v m) -> (1 <= c)%nat.
Proof.
  induction m as [|[y c0] m IH]; cbn [occ_add_id In]; intros H x c.
  - intros [E|[]]. inversion E. lia.
  - destruct (str_eqb_spec y v) as [E|E]; cbn [In].
    + intros [E'|Hin]; [inversion E'; lia|]. apply (H x c). now right.
    + intros [E'|Hin]; [apply (H x c); now left|].
      apply (IH (fun x c Hxc => H x c (or_intror Hxc)) x c Hin).
Qed.

Lemma occ_add_fst k v occ x : In x (map fst (occ_add k v occ)) <-> x = k \/ In x (map fst occ).
Proof.
  induction occ as [|[k' m] occ IH]; cbn [occ_add map fst In]; [intuition|].
  destruct (key_eqb_spec k' k) as [E|E]; cbn [map fst In].
  - subst. intuition.
  - rewrite IH. intuition.
Qed.

Lemma occ_add_ok k v occ : occ_ok occ -> occ_ok (occ_add k v occ).
Proof.
  intros [Hn Hm]. induction occ as [|[k' m] occ IH]; cbn [occ_add].
  - split; [constructor; [intros []|constructor]|]. intros k0 m0 [E|[]]. inversion E; subst. split.
    + constructor; [intros []|constructor].
    + intros v0 c [E'|[]]. inversion E'. lia.
  - inversion Hn as [|? ? Hk Hn']; subst.
    destruct (key_eqb_spec k' k) as [E|E].
    + subst k'. split; [cbn [map fst]; constructor; auto|].
      intros k0 m0 [E'|Hin]; [|apply (Hm k0 m0); now right]. inversion E'; subst.
      destruct (Hm _ _ (or_introl eq_refl)) as [H1 H2]. split; [now apply occ_add_id_nodup|now apply occ_add_id_pos].
    + destruct IH as [IH1 IH2]; [exact Hn'|intros k0 m0 H0; apply (Hm k0 m0); now right|].
      split.
      * cbn [map fst]. constructor; [|exact IH1]. rewrite occ_add_fst. intros [X|X]; [congruence|contradiction].
      * intros k0 m0 [E'|Hin]; [inversion E'; subst; apply (Hm k0 m0); now left|apply (IH2 k0 m0 Hin)].
Qed.

Lemma occ_get_add k v occ k' v' :
  occ_get (occ_add k v occ) k' v' = (occ_get occ k' v' + if key_eqb k k' && str_eqb v v' then 1 else 0)%nat.
Proof.
  unfold occ_get. induction occ as [|[k0 m] occ IH]; cbn [occ_add klookup].
  - destruct (key_eqb k k'); cbn [andb ilookup]; [|reflexivity]. destruct (str_eqb v v'); reflexivity.
  - destruct (key_eqb_spec k0 k) as [E|E]; cbn [klookup].
    + subst k0. destruct (key_eqb k k'); cbn [andb]; [|lia].
      rewrite occ_add_id_lookup. destruct (str_eqb_spec v v') as [E2|E2]; [subst; destruct (ilookup v' m); lia|lia].
    + destruct (key_eqb_spec k0 k') as [E2|E2].
      * subst k0. destruct (key_eqb_spec k k'); [congruence|]. cbn [andb]. lia.
      * exact IH.
Qed.

Definition entries (sets : list smap) : list (key * id) := List.concat sets.

Lemma occurrences_fold sets :
  occurrences sets = fold_left (fun occ kv => occ_add (fst kv) (snd kv) occ) (entries sets) [].
Proof.
  unfold occurrences, entries. generalize (@nil (key * list (id * nat))).
  induction sets as [|s sets IH]; intros acc; cbn [fold_left List.concat]; [reflexivity|].
  rewrite fold_left_app. apply IH.
Qed.

Lemma occurrences_spec sets :
  occ_ok (occurrences sets) /\ forall k v, occ_get (occurrences sets) k v = ecount k v (entries sets).
Proof.
  rewrite occurrences_fold.
  assert (G : forall es acc, occ_ok acc ->
            occ_ok (fold_left (fun occ kv => occ_add (fst kv) (snd kv) occ) es acc)
            /\ forall k v, occ_get (fold_left (fun occ kv => occ_add (fst kv) (snd kv) occ) es acc) k v
                           = (occ_get acc k v + ecount k v es)%nat).
  { induction es as [|[k0 v0] es IH]; intros acc Ha; cbn [fold_left].
    - split; [exact Ha|]. intros; unfold ecount; cbn; lia.
    - destruct (IH (occ_add k0 v0 acc) (occ_add_ok _ _ _ Ha)) as [H1 H2]. split; [exact H1|].
      intros k v. rewrite H2, occ_get_add. unfold ecount, ehit. cbn [filter fst snd].
      destruct (key_eqb k0 k && str_eqb v0 v); cbn [List.length]; lia. }
  destruct (G (entries sets) []) as [H1 H2].
  - split; [constructor|]. intros k m [].
  - split; [exact H1|]. intros k v. rewrite H2. unfold occ_get. cbn. reflexivity.
Qed.

Lemma filter_len_le {A} (f : A -> bool) (l : list A) : (List.length (filter f l) <= List.length l)%nat.
Proof. induction l as [|a l IH]; cbn [filter List.length]; [lia|]. destruct (f a); cbn [List.length]; lia. Qed.

(** Number of state sets that map [k] to [v]. *)
Definition cnt (sets : list smap) (k : key) (v : id) : nat :=
  List.length (filter (fun s => opt_id_eqb (klookup k s) (Some v)) sets).

Definition maps (sets : list smap) : Prop := forall s, In s sets -> NoDup (map fst s).

Lemma ecount_one s k v : NoDup (map fst s) ->
  ecount k v s = if opt_id_eqb (klookup k s) (Some v) then 1%nat else 0%nat.
Proof.
  unfold ecount. induction s as [|[k' v'] s IH]; cbn [map fst filter klookup]; intros H; [reflexivity|].
  inversion H as [|? ? Hk Hs]; subst. unfold ehit at 1. cbn [fst snd].
  destruct (key_eqb_spec k' k) as [E|E]; cbn [andb].
  - subst k'. assert (Hz : filter (ehit k v) s = []).
    { apply filter_nil_iff. intros [k2 v2] Hin. unfold ehit. cbn [fst snd].
      destruct (key_eqb_spec k2 k) as [E2|E2]; [|reflexivity]. subst k2. exfalso. apply Hk.
      change k with (fst (k, v2)). now apply in_map. }
    cbn [opt_id_eqb]. destruct (str_eqb v' v); cbn [List.length]; rewrite Hz; reflexivity.
  - now apply IH.
Qed.

Lemma ecount_entries sets k v : maps sets -> ecount k v (entries sets) = cnt sets k v.
Proof.
  unfold entries, cnt. induction sets as [|s sets IH]; intros Hm; cbn [List.concat filter]; [reflexivity|].
  unfold ecount in *. rewrite filter_app, app_length. fold (ecount k v s).
  rewrite (ecount_one s k v) by (apply Hm; now left). rewrite IH by (intros s' Hs'; apply Hm; now right).
  destruct (opt_id_eqb (klookup k s) (Some v)); cbn [List.length]; lia.
Qed.

Lemma cnt_le sets k v : (cnt sets k v <= List.length sets)%nat.
Proof. unfold cnt. apply filter_len_le. Qed.

Lemma cnt_full sets k v : cnt sets k v = List.length sets <-> forall s, In s sets -> klookup k s = Some v.
Proof.
  unfold cnt. induction sets as [|s sets IH]; cbn [filter List.length In]; [intuition|].
  destruct (opt_id_eqb (klookup k s) (Some v)) eqn:E; cbn [List.length].
  - apply opt_id_eqb_eq in E. split.
    + intros H s' [<-|Hs']; [exact E|]. apply IH; [lia|exact Hs'].
    + intros H. f_equal. apply IH. intros; apply H; now right.
  - split.
    + intros H. exfalso. match type of H with List.length (filter ?f _) = _ => pose proof (filter_len_le f sets) end. unfold smap in *. lia.
    + intros H. specialize (H s (or_introl eq_refl)). apply opt_id_eqb_eq in H. congruence.
Qed.

Lemma cnt_pos sets k v : (1 <= cnt sets k v)%nat <-> exists s, In s sets /\ klookup k s = Some v.
Proof.
  unfold cnt. induction sets as [|s sets IH]; cbn [filter List.length In].
  - split; [lia|intros (s & [] & _)].
  - destruct (opt_id_eqb (klookup k s) (Some v)) eqn:E; cbn [List.length].
    + apply opt_id_eqb_eq in E. split; [intros _; exists s; auto|lia].
    + rewrite IH. split; [intros (s' & H1 & H2); exists s'; auto|].
      intros (s' & [<-|H1] & H2); [apply opt_id_eqb_eq in H2; congruence|exists s'; auto].
Qed.

Lemma same_everywhere_spec sets k v :
  same_everywhere sets k = Some v <-> sets <> [] /\ forall s, In s sets -> klookup k s = Some v.
Proof.
  unfold same_everywhere. destruct sets as [|s rest]; [split; [discriminate|intros [H _]; congruence]|].
  destruct (klookup k s) as [v0|] eqn:E0.
  - destruct (forallb (fun s' => opt_id_eqb (klookup k s') (Some v0)) rest) eqn:Ef.
    + rewrite forallb_forall in Ef. split.
      * intros [= <-]. split; [discriminate|]. intros s' [<-|Hs']; [exact E0|]. apply opt_id_eqb_eq. now apply Ef.
      * intros [_ H]. pose proof (H s (or_introl eq_refl)). congruence.
    + split; [discriminate|]. intros [_ H]. exfalso.
      assert (forallb (fun s' => opt_id_eqb (klookup k s') (Some v0)) rest = true).
      { apply forallb_forall. intros s' Hs'. apply opt_id_eqb_eq.
        rewrite (H s' (or_intror Hs')). rewrite (H s (or_introl eq_refl)) in E0. congruence. }
      congruence.
  - split; [discriminate|]. intros [_ H]. specialize (H s (or_introl eq_refl)). congruence.
Qed.

Lemma same_everywhere_cnt sets k v :
  same_everywhere sets k = Some v <-> (1 <= cnt sets k v)%nat /\ cnt sets k v = List.length sets.
Proof.
  rewrite same_everywhere_spec, cnt_full. split.
  - intros [Hne H]. split; [|exact H]. apply cnt_pos. destruct sets as [|s r]; [congruence|].
    exists s. split; [now left|apply H; now left].
  - intros [Hp H]. split; [|exact H]. intros ->. unfold cnt in Hp. cbn in Hp. lia.
Qed.

Definition cvals (c : list (key * list id)) : list id := List.concat (map snd c).

Lemma cvals_push k v c x : In x (cvals (conf_push k v c)) <-> x = v \/ In x (cvals c).
Proof.
  unfold cvals. induction c as [|[k' l] c IH]; cbn [conf_push map snd List.concat].
  - rewrite app_nil_r. cbn [In]. intuition.
  - destruct (key_eqb k' k); cbn [map snd List.concat]; rewrite !in_app_iff.
    + cbn [In]. intuition.
    + rewrite IH. intuition.
Qed.

Lemma occ_get_In occ k v c : occ_ok occ -> (1 <= c)%nat ->
  ((exists m, In (k, m) occ /\ In (v, c) m) <-> occ_get occ k v = c).
Proof.
  intros [Hn Hm] Hc. unfold occ_get. split.
  - intros (m & H1 & H2). rewrite (In_klookup occ k m Hn H1).
    destruct (Hm k m H1) as [Hnm _]. now rewrite (In_ilookup m v c Hnm H2).
  - destruct (klookup k occ) as [m|] eqn:E1; [|lia]. destruct (ilookup v m) as [c'|] eqn:E2; [|lia].
    intros <-. exists m. split; [now apply klookup_In|now apply ilookup_In].
Qed.

Section Separate.
  Variable o : oracles.
  Hypothesis Ho : perm_oracles o.

  Lemma o_In s A (l : list A) x : In x (o s A l) <-> In x l.
  Proof. split; apply Permutation_in; [apply Ho|apply Permutation_sym, Ho]. Qed.

  Lemma sep_inner_fold (n : nat) (k : key) : forall (l : list (id * nat)) (acc : smap * list (key * list id)),
    let r := fold_left (fun acc vc =>
               if Nat.eqb (snd vc) n then ((k, fst vc) :: fst acc, snd acc)
               else (fst acc, conf_push k (fst vc) (snd acc))) l acc in
    (forall k' v, In (k', v) (fst r) <-> In (k', v) (fst acc) \/ (k' = k /\ In (v, n) l))
    /\ (forall x, In x (cvals (snd r)) <-> In x (cvals (snd acc)) \/ exists c, In (x, c) l /\ c <> n).
  Proof.
    induction l as [|[v0 c0] l IH]; intros acc; cbn [fold_left].
    - split; [intros k' v|intros x]; split; auto.
      + intros [H|[_ []]]; exact H.
      + intros [H|(c & [] & _)]; exact H.
    - cbn [fst snd]. destruct (Nat.eqb_spec c0 n) as [E|E].
      + subst c0. destruct (IH ((k, v0) :: fst acc, snd acc)) as [H1 H2]. cbn [fst snd] in H1, H2. split.
        * intros k' v. rewrite H1. cbn [In]. split.
          -- intros [[E|H]|[Ek Hin]]; [inversion E; subst; right; split; [reflexivity|now left]|now left|].
             right. split; [exact Ek|now right].
          -- intros [H|[Ek [E|Hin]]]; [left; now right|inversion E; subst; left; now left|right; auto].
        * intros x. rewrite H2. split.
          -- intros [H|(c & Hin & Hc)]; [now left|right; exists c; split; [now right|exact Hc]].
          -- intros [H|(c & [E|Hin] & Hc)]; [now left|inversion E; subst; congruence|right; exists c; auto].
      + destruct (IH (fst acc, conf_push k v0 (snd acc))) as [H1 H2]. cbn [fst snd] in H1, H2. split.
        * intros k' v. rewrite H1. cbn [In]. split.
          -- intros [H|[Ek Hin]]; [now left|right; split; [exact Ek|now right]].
          -- intros [H|[Ek [E'|Hin]]]; [now left|inversion E'; subst; congruence|right; auto].
        * intros x. rewrite H2, cvals_push. split.
          -- intros [[->|H]|(c & Hin & Hc)]; [right; exists c0; split; [now left|exact E]|now left|].
             right; exists c; split; [now right|exact Hc].
          -- intros [H|(c & [E'|Hin] & Hc)]; [left; now right|inversion E'; subst; left; now left|right; exists c; auto].
  Qed.

  Lemma sep_outer_fold (n : nat) : forall (L : list (key * list (id * nat))) (acc : smap * list (key * list id)),
    let r := fold_left (fun acc km =>
               fold_left (fun acc vc =>
                 if Nat.eqb (snd vc) n then ((fst km, fst vc) :: fst acc, snd acc)
                 else (fst acc, conf_push (fst km) (fst vc) (snd acc)))
                 (o s_inner _ (snd km)) acc) L acc in
    (forall k v, In (k, v) (fst r) <-> In (k, v) (fst acc) \/ exists m, In (k, m) L /\ In (v, n) m)
    /\ (forall x, In x (cvals (snd r)) <->
                  In x (cvals (snd acc)) \/ exists k m c, In (k, m) L /\ In (x, c) m /\ c <> n).
  Proof.
    induction L as [|[k0 m0] L IH]; intros acc; cbn [fold_left].
    - split; [intros k v|intros x]; split; auto.
      + intros [H|(m & [] & _)]; exact H.
      + intros [H|(k & m & c & [] & _)]; exact H.
    - cbn [fst snd].
      destruct (sep_inner_fold n k0 (o s_inner _ m0) acc) as [I1 I2].
      match goal with |- context [fold_left ?f (o s_inner _ m0) acc] =>
        set (acc1 := fold_left f (o s_inner _ m0) acc) in * end.
      destruct (IH acc1) as [H1 H2]. split.
      + intros k v. rewrite H1, I1. cbn [In]. rewrite o_In. split.
        * intros [[H|[-> Hin]]|(m & Hm & Hin)]; [now left|right; exists m0; split; [now left|exact Hin]|].
          right; exists m; split; [now right|exact Hin].
        * intros [H|(m & [E|Hm] & Hin)]; [left; now left|inversion E; subst; left; right; auto|right; exists m; auto].
      + intros x. rewrite H2, I2. split.
        * intros [[H|(c & Hin & Hc)]|(k & m & c & Hm & Hin & Hc)]; [now left| |].
          -- right. exists k0, m0, c. rewrite o_In in Hin. split; [now left|auto].
          -- right. exists k, m, c. split; [now right|auto].
        * intros [H|(k & m & c & [E|Hm] & Hin & Hc)]; [left; now left| |].
          -- inversion E; subst. left. right. exists c. rewrite o_In. auto.
          -- right. exists k, m, c. auto.
  Qed.

  Lemma separate_chars sets :
    (forall k v, In (k, v) (fst (separate o sets)) <->
                 exists m, In (k, m) (occurrences sets) /\ In (v, List.length sets) m)
    /\ (forall x, In x (cvals (snd (separate o sets))) <->
                  exists k m c, In (k, m) (occurrences sets) /\ In (x, c) m /\ c <> List.length sets).
  Proof.
    unfold separate.
    destruct (sep_outer_fold (List.length sets) (o s_occ _ (occurrences sets)) ([], [])) as [H1 H2].
    split.
    - intros k v. rewrite H1. cbn [fst In]. split.
      + intros [[]|(m & Hm & Hin)]. exists m. rewrite o_In in Hm. auto.
      + intros (m & Hm & Hin). right. exists m. rewrite o_In. auto.
    - intros x. rewrite H2. cbn [snd cvals map List.concat In]. split.
      + intros [[]|(k & m & c & Hm & Hin & Hc)]. exists k, m, c. rewrite o_In in Hm. auto.
      + intros (k & m & c & Hm & Hin & Hc). right. exists k, m, c. rewrite o_In. auto.
  Qed.

  (** The unconflicted map of the model is the specification's. *)
  Theorem separate_clean_spec sets : maps sets ->
    forall k, klookup k (fst (separate o sets)) = same_everywhere sets k.
  Proof.
    intros Hm k. destruct (separate_chars sets) as [H1 _].
    destruct (occurrences_spec sets) as [Hok Hget].
    assert (Hin : forall v, In (k, v) (fst (separate o sets)) <-> same_everywhere sets k = Some v).
    { intros v. rewrite H1, same_everywhere_cnt, <- (ecount_entries sets k v Hm), <- Hget. split.
      - intros (m & Hkm & Hv).
        assert (Hp : (1 <= List.length sets)%nat) by (destruct Hok as [_ Hpos]; eapply (proj2 (Hpos k m Hkm)); eauto).
        assert (E : occ_get (occurrences sets) k v = List.length sets) by (apply occ_get_In; eauto).
        rewrite E. auto.
      - intros [Hp E]. apply occ_get_In; auto. lia. }
    destruct (same_everywhere sets k) as [v|] eqn:Es.
    - apply klookup_unique; [|now apply Hin]. intros v' Hv'. apply Hin in Hv'. congruence.
    - destruct (klookup k (fst (separate o sets))) as [v|] eqn:El; [|reflexivity].
      apply klookup_In, Hin in El. congruence.
  Qed.

  Lemma entries_In sets k v : In (k, v) (entries sets) <-> exists s, In s sets /\ In (k, v) s.
  Proof.
    unfold entries. rewrite in_concat. split; intros (s & H1 & H2); exists s; auto.
  Qed.

  (** The conflicted events of the model are the specification's. *)
  Theorem separate_conflicted_spec sets : maps sets ->
    forall x, In x (cvals (snd (separate o sets))) <-> In x (conflicted_events sets).
  Proof.
    intros Hm x. destruct (separate_chars sets) as [_ H2].
    destruct (occurrences_spec sets) as [Hok Hget]. rewrite H2.
    unfold conflicted_events. rewrite dedup_In, in_map_iff. split.
    - intros (k & m & c & Hkm & Hin & Hc).
      assert (Hp : (1 <= c)%nat) by (destruct Hok as [_ Hpos]; eapply (proj2 (Hpos k m Hkm)); eauto).
      assert (E : occ_get (occurrences sets) k x = c) by (apply occ_get_In; eauto).
      rewrite Hget, (ecount_entries sets k x Hm) in E.
      assert (Hs : exists s, In s sets /\ klookup k s = Some x) by (apply cnt_pos; lia).
      destruct Hs as (s & Hs & Hl). exists (k, x). split; [reflexivity|]. apply filter_In. split.
      + apply entries_In. exists s. split; [exact Hs|now apply klookup_In].
      + cbn [fst]. destruct (same_everywhere sets k) as [v'|] eqn:Es; [|reflexivity]. exfalso.
        apply same_everywhere_spec in Es as [_ Hall]. pose proof (Hall s Hs) as T. rewrite Hl in T.
        inversion T; subst v'. apply cnt_full in Hall. lia.
    - intros ([k v] & Ev & Hf). cbn [snd] in Ev. subst v. apply filter_In in Hf as [Hin Hn]. cbn [fst] in Hn.
      apply entries_In in Hin as (s & Hs & Hks).
      assert (Hl : klookup k s = Some x) by (apply In_klookup; [now apply Hm|exact Hks]).
      assert (Hp : (1 <= cnt sets k x)%nat) by (apply cnt_pos; eauto).
      assert (E : occ_get (occurrences sets) k x = cnt sets k x) by (rewrite Hget; now apply ecount_entries).
      apply occ_get_In in E; auto. destruct E as (m & Hkm & Hxm). exists k, m, (cnt sets k x).
      split; [exact Hkm|]. split; [exact Hxm|]. intros Ec.
      assert (same_everywhere sets k = Some x) by (apply same_everywhere_cnt; auto).
      rewrite H in Hn. discriminate.
  Qed.

  Lemma separate_clean_functional sets : maps sets ->
    forall k v, In (k, v) (fst (separate o sets)) <-> same_everywhere sets k = Some v.
  Proof.
    intros Hm k v. destruct (separate_chars sets) as [H1 _]. destruct (occurrences_spec sets) as [Hok Hget].
    rewrite H1, same_everywhere_cnt, <- (ecount_entries sets k v Hm), <- Hget. split.
    - intros (m & Hkm & Hv).
      assert (Hp : (1 <= List.length sets)%nat) by (destruct Hok as [_ Hpos]; eapply (proj2 (Hpos k m Hkm)); eauto).
      assert (E : occ_get (occurrences sets) k v = List.length sets) by (apply occ_get_In; eauto).
      rewrite E. auto.
    - intros [Hp E]. apply occ_get_In; auto. lia.
  Qed.
End Separate.

(** * get_auth_chain_diff *)
Definition iget (m : list (id * nat)) (x : id) : nat := match ilookup x m with Some c => c | None => 0%nat end.
Definition icount (x : id) (l : list id) : nat := List.length (filter (fun y => str_eqb y x) l).
Definition ccount (x : id) (chains : list (list id)) : nat := List.length (filter (mem_str x) chains).

Lemma iget_add v m x : iget (occ_add_id v m) x = (iget m x + if str_eqb v x then 1 else 0)%nat.
Proof.
  unfold iget. rewrite occ_add_id_lookup. destruct (str_eqb_spec v x) as [E|E]; [subst; lia|lia].
Qed.

Definition counts_ok (m : list (id * nat)) : Prop :=
  NoDup (map fst m) /\ forall v c, In (v, c) m -> (1 <= c)%nat.

Lemma id_counts_spec chains :
  counts_ok (id_counts chains) /\ forall x, iget (id_counts chains) x = icount x (List.concat chains).
Proof.
  unfold id_counts.
  assert (G : forall l acc, counts_ok acc ->
            counts_ok (fold_left (fun m i => occ_add_id i m) l acc)
            /\ forall x, iget (fold_left (fun m i => occ_add_id i m) l acc) x = (iget acc x + icount x l)%nat).
  { induction l as [|i l IH]; intros acc Ha; cbn [fold_left].
    - split; [exact Ha|]. intros x. unfold icount. cbn. lia.
    - destruct Ha as [Ha1 Ha2].
      destruct (IH (occ_add_id i acc)) as [H1 H2]; [split; [now apply occ_add_id_nodup|now apply occ_add_id_pos]|].
      split; [exact H1|]. intros x. rewrite H2, iget_add. unfold icount. cbn [filter].
      destruct (str_eqb i x); cbn [List.length]; lia. }
  destruct (G (List.concat chains) []) as [H1 H2]; [split; [constructor|intros v c []]|].
  split; [exact H1|]. intros x. rewrite H2. unfold iget. cbn. reflexivity.
Qed.

Lemma icount_nodup x l : NoDup l -> icount x l = if mem_str x l then 1%nat else 0%nat.
Proof.
  unfold icount. induction 1 as [|y l Hy Hl IH]; cbn [filter mem_str]; [reflexivity|].
  rewrite (str_eqb_sym x y). destruct (str_eqb_spec y x) as [E|E]; cbn [orb List.length].
  - subst y. apply mem_str_false in Hy. rewrite Hy in IH. now rewrite IH.
  - exact IH.
Qed.

Lemma icount_app x a b : icount x (a ++ b) = (icount x a + icount x b)%nat.
Proof. unfold icount. now rewrite filter_app, app_length. Qed.

Lemma icount_concat x chains : (forall c, In c chains -> NoDup c) ->
  icount x (List.concat chains) = ccount x chains.
Proof.
  unfold ccount. induction chains as [|c chains IH]; intros H; cbn [List.concat filter]; [reflexivity|].
  rewrite icount_app, (icount_nodup x c) by (apply H; now left).
  rewrite IH by (intros c' Hc'; apply H; now right).
  destruct (mem_str x c); cbn [List.length]; lia.
Qed.

Lemma ccount_pos x chains : (1 <= ccount x chains)%nat <-> In x (List.concat chains).
Proof.
  unfold ccount. rewrite in_concat. induction chains as [|c chains IH]; cbn [filter List.length In].
  - split; [lia|intros (l & [] & _)].
  - destruct (mem_str x c) eqn:E; cbn [List.length].
    + split; [intros _; exists c; split; [now left|now apply mem_str_In]|lia].
    + rewrite IH. split; [intros (l & H1 & H2); exists l; auto|].
      intros (l & [<-|H1] & H2); [apply mem_str_In in H2; congruence|exists l; auto].
Qed.

Lemma ccount_full x chains : ccount x chains = List.length chains <-> forallb (mem_str x) chains = true.
Proof.
  unfold ccount. induction chains as [|c chains IH]; cbn [filter List.length forallb]; [tauto|].
  destruct (mem_str x c) eqn:E; cbn [List.length andb].
  - rewrite <- IH. lia.
  - split; [|discriminate]. intros H. pose proof (filter_len_le (mem_str x) chains). unfold id in *. lia.
Qed.

Theorem auth_diff_eq_spec (o : oracles) chains :
  perm_oracles o -> (forall c, In c chains -> NoDup c) ->
  forall x, In x (auth_chain_diff o chains) <-> In x (auth_difference chains).
Proof.
  intros Ho Hnd x. destruct (id_counts_spec chains) as [[Hn Hp] Hget].
  pose proof (Hget x) as Hg. rewrite (icount_concat x chains Hnd) in Hg.
  pose proof (filter_len_le (mem_str x) chains) as Hle. fold (ccount x chains) in Hle.
  unfold auth_chain_diff, auth_difference. rewrite dedup_In, filter_In, in_map_iff.
  rewrite <- ccount_pos, negb_true_iff.
  assert (Hfull : forallb (mem_str x) chains = false <-> ccount x chains <> List.length chains).
  { rewrite ccount_full. destruct (forallb (mem_str x) chains); split; congruence. }
  rewrite Hfull. unfold iget in Hg. split.
  - intros ([y c] & E & Hf). cbn [fst] in E. subst y. apply filter_In in Hf as [Hin Hlt]. cbn [snd] in Hlt.
    apply (o_In o Ho) in Hin. apply Nat.ltb_lt in Hlt.
    rewrite (In_ilookup _ _ _ Hn Hin) in Hg. specialize (Hp x c Hin). unfold id in *. lia.
  - intros [H1 H2]. destruct (ilookup x (id_counts chains)) as [c|] eqn:E; [|unfold id in *; lia].
    exists (x, c). split; [reflexivity|]. apply filter_In. split; [apply (o_In o Ho); now apply ilookup_In|].
    cbn [snd]. apply Nat.ltb_lt. unfold id in *. lia.
Qed.

(** * The full conflicted set *)
Lemma cvals_perm (o : oracles) (c : list (key * list id)) x :
  perm_oracles o -> (In x (List.concat (map snd (o s_conf _ c))) <-> In x (cvals c)).
Proof.
  intros Ho. unfold cvals. rewrite !in_concat. split; intros (l & Hl & Hx); exists l; split; auto;
    apply in_map_iff in Hl as (kl & E & Hin); apply in_map_iff; exists kl; split; auto; now apply (o_In o Ho) in Hin || apply (o_In o Ho).
Qed.

Theorem full_conflicted_eq_spec (st : store) (o : oracles) sets chains :
  perm_oracles o -> maps sets -> (forall c, In c chains -> NoDup c) ->
  forall x, In x (all_conflicted st o chains (snd (separate o sets))) <-> In x (full_conflicted st sets chains).
Proof.
  intros Ho Hm Hc x. unfold all_conflicted, full_conflicted.
  rewrite dedup_In, !filter_In, dedup_In, !in_app_iff.
  rewrite (auth_diff_eq_spec o chains Ho Hc x), (cvals_perm o _ x Ho), (separate_conflicted_spec o Ho sets Hm x).
  tauto.
Qed.

Lemma all_conflicted_nodup st o chains c : NoDup (all_conflicted st o chains c).
Proof. apply dedup_NoDup. Qed.

Lemma all_conflicted_known st o chains c x : In x (all_conflicted st o chains c) -> known st x = true.
Proof. unfold all_conflicted. rewrite dedup_In, filter_In. tauto. Qed.
