(** C07.Spec — state resolution v2 as the Matrix specification states it (DESIGN.md,
    Appendix A.6; rooms v2+ "State resolution"), written over *sets* of events and
    independently of the structure of lib.rs.  Nothing here refers to C07.Model.

    Two clauses of the specification are parameters ([lit_chain], [lit_mainline]); with both
    [true] the definitions are the literal text.  The other values describe the two known
    deviations of ruma (open findings C07-mainline-no-ancestor and C07-power-closure):

    - [lit_chain = false]: the auth chain of a power event is followed only through events
      that are themselves in the full conflicted set;
    - [lit_mainline = false]: an event without mainline ancestor gets the position of the
      oldest mainline event instead of "infinity".

    [class_chain] and [class_mainline] are the exact classes of inputs on which the
    respective pair of readings can differ. *)
From Base Require Import Prelude.
From C07 Require Import Event.

(** * The exposed sort: repeatedly emit the least ready node *)
Section SortSpec.
  Variable nodes : list id.
  Variable edges : id -> list id.          (* dependencies of a node *)
  Variable tkey_of : id -> option tkey.    (* (power, ts, id); None: no key *)

  (** A node is ready when it has not been emitted and all its dependencies have. *)
  Definition ready (emitted : list id) (n : id) : bool :=
    negb (mem_str n emitted) && forallb (fun d => mem_str d emitted) (edges n).

  Definition least (cands : list tkey) : option tkey :=
    match cands with
    | [] => None
    | x :: l => Some (fold_left (fun m y => if tk_ltb y m then y else m) l x)
    end.

  (** [None]: some ready node has no key (the implementation reports an error). *)
  Fixpoint ready_keys (l : list id) (emitted : list id) : option (list tkey) :=
    match l with
    | [] => Some []
    | n :: l' =>
        if ready emitted n then
          match tkey_of n, ready_keys l' emitted with
          | Some k, Some r => Some (k :: r)
          | _, _ => None
          end
        else ready_keys l' emitted
    end.

  Fixpoint emit (fuel : nat) (emitted : list id) : option (list id) :=
    match fuel with
    | O => Some []
    | S f =>
        match ready_keys nodes emitted with
        | None => None
        | Some ks =>
            match least ks with
            | None => Some []
            | Some (_, _, n) =>
                match emit f (emitted ++ [n]) with
                | Some r => Some (n :: r)
                | None => None
                end
            end
        end
    end.

  Definition spec_sort : option (list id) := emit (List.length nodes) [].
End SortSpec.

(** * State resolution *)
Section Spec.
  Variable st : store.
  Variable auth : event -> (key -> option event) -> bool.
  Variable auth_types : event -> option (list key).
  Variable lit_chain lit_mainline : bool.

  Definition ev (i : id) : option event := fetch st i.

  (** ** Unconflicted and conflicted state *)
  Definition same_everywhere (sets : list smap) (k : key) : option id :=
    match sets with
    | [] => None
    | s :: rest =>
        match klookup k s with
        | Some v => if forallb (fun s' => opt_id_eqb (klookup k s') (Some v)) rest
                    then Some v else None
        | None => None
        end
    end.

  Fixpoint dedup_keys (l : list key) : list key :=
    match l with
    | [] => []
    | k :: l' => if existsb (key_eqb k) l' then dedup_keys l' else k :: dedup_keys l'
    end.

  Definition all_keys (sets : list smap) : list key := dedup_keys (map fst (List.concat sets)).

  Definition unconflicted (sets : list smap) : smap :=
    flat_map (fun k => match same_everywhere sets k with Some v => [(k, v)] | None => [] end)
             (all_keys sets).

  Definition conflicted_events (sets : list smap) : list id :=
    dedup (map snd (filter (fun kv => negb (is_some (same_everywhere sets (fst kv)))) (List.concat sets))).

  (** ** Auth difference: in some but not all of the auth chains *)
  Definition auth_difference (chains : list (list id)) : list id :=
    dedup (filter (fun i => negb (forallb (mem_str i) chains)) (List.concat chains)).

  (** ** Full conflicted set (events unknown to the store are ignored) *)
  Definition full_conflicted (sets : list smap) (chains : list (list id)) : list id :=
    filter (known st) (dedup (conflicted_events sets ++ auth_difference chains)).

  (** ** Power events *)
  Definition has_skey (e : event) (s : str) : bool :=
    match e_skey e with Some k => str_eqb k s | None => false end.

  Definition is_power (e : event) : bool :=
    (has_skey e [] &&
       (str_eqb (e_type e) t_power_levels || str_eqb (e_type e) t_join_rules
        || str_eqb (e_type e) t_create))
    || (str_eqb (e_type e) t_member
        && match e_membership e with
           | Some m => (str_eqb m m_leave || str_eqb m m_ban) && negb (has_skey e (e_sender e))
           | None => false
           end).

  Definition is_power_id (i : id) : bool :=
    match ev i with Some e => is_power e | None => false end.

  (** ** Auth chains.  [reaches allowed i j]: [j] is reached from [i] through [auth_events],
      every event after [i] on the way (including [j]) satisfying [allowed].  The auth chain
      of [i] in the specification is [reaches (fun _ => true) i]. *)
  Definition auths_of (i : id) : list id :=
    match ev i with Some e => e_auth e | None => [] end.

  Inductive reaches (allowed : id -> bool) : id -> id -> Prop :=
  | reaches_step i j : In j (auths_of i) -> allowed j = true -> reaches allowed i j
  | reaches_trans i j k : reaches allowed i j -> In k (auths_of j) -> allowed k = true ->
                          reaches allowed i k.

  (** Decision procedure: add the allowed auth events of everything found so far, as often
      as the store has events (a path in an acyclic store is not longer than that;
      [Proofs]: [chain_within_correct]). *)
  Definition expand (allowed : id -> bool) (s : list id) : list id :=
    dedup (s ++ filter allowed (flat_map auths_of s)).

  Fixpoint iter_expand (n : nat) (allowed : id -> bool) (s : list id) : list id :=
    match n with
    | O => s
    | S n' => iter_expand n' allowed (expand allowed s)
    end.

  Definition chain_within (allowed : id -> bool) (i : id) : list id :=
    iter_expand (List.length st) allowed (filter allowed (auths_of i)).

  (** X: the power events of the full conflicted set, and the events of their auth chains
      that belong to the full conflicted set. *)
  Definition power_closure (full : list id) : list id :=
    let allowed := if lit_chain then (fun _ => true) else (fun a => mem_str a full) in
    let powers := filter is_power_id full in
    let reached := flat_map (chain_within allowed) powers in
    filter (fun i => is_power_id i || mem_str i reached) full.

  (** ** Sender power level, "looking at the event's own auth_events" *)
  Definition find_auth (e : event) (ty : str) : option event :=
    match find (fun a => match ev a with
                         | Some x => str_eqb (e_type x) ty && has_skey x []
                         | None => false end) (e_auth e) with
    | Some a => ev a
    | None => None
    end.

  Definition level_in (pe : event) (u : str) : option Z :=
    match e_pl pe with
    | Some (Some users, d) =>
        match ilookup u users with
        | Some l => Some l
        | None => match d with Some (Some x) => Some x | Some None => Some 0%Z | None => None end
        end
    | _ => None
    end.

  (** The creator is read off the create event the event cites (or the event itself if it
      is the create event). *)
  Definition room_creator (e : event) : option str :=
    let c := if str_eqb (e_type e) t_create && has_skey e [] then Some e else find_auth e t_create in
    match c with
    | Some ce => match e_creator ce with Some (Some u) => Some u | _ => None end
    | None => None
    end.

  Definition sender_power (e : event) : option Z :=
    match find_auth e t_power_levels with
    | Some pe => level_in pe (e_sender e)
    | None =>
        match room_creator e with
        | Some c => Some (if str_eqb (e_sender e) c then 100%Z else 0%Z)
        | None => Some 0%Z
        end
    end.

  (** ** Reverse topological power ordering of a set of events *)
  Definition power_key (i : id) : option tkey :=
    match ev i with
    | Some e => match sender_power e with Some p => Some (p, e_ts e, i) | None => None end
    | None => None
    end.

  Definition power_ordering (xs : list id) : option (list id) :=
    spec_sort xs (fun n => filter (fun a => mem_str a xs) (auths_of n)) power_key.

  (** ** Iterative auth checks *)
  Definition own_auth (e : event) (k : key) : option event :=
    match find (fun a => match ev a with
                         | Some x => match key_of x with Some k' => key_eqb k' k | None => false end
                         | None => false end) (e_auth e) with
    | Some a => ev a
    | None => None
    end.

  (** The auth events an event is checked against: the partial state where it has an entry
      (for a known event), the event's own auth events otherwise. *)
  Definition auth_env (state : smap) (e : event) (keys : list key) (k : key) : option event :=
    if existsb (key_eqb k) keys then
      match klookup k state with
      | Some i => match ev i with Some x => Some x | None => own_auth e k end
      | None => own_auth e k
      end
    else None.

  Definition allowed_in (state : smap) (e : event) : bool :=
    match auth_types e with
    | Some keys => auth e (auth_env state e keys)
    | None => false
    end.

  Fixpoint iterative_auth (events : list id) (state : smap) : smap :=
    match events with
    | [] => state
    | i :: rest =>
        match ev i with
        | Some e =>
            match key_of e with
            | Some k => if allowed_in state e then iterative_auth rest ((k, i) :: state)
                        else iterative_auth rest state
            | None => iterative_auth rest state
            end
        | None => iterative_auth rest state
        end
    end.

  (** ** Mainline ordering *)
  Definition pl_parent (i : id) : option id :=
    match ev i with
    | Some e => option_map e_id (find_auth e t_power_levels)
    | None => None
    end.

  (** [i], its power-levels auth event, that event's, ... *)
  Fixpoint pl_walk (fuel : nat) (i : id) : list id :=
    match fuel with
    | O => []
    | S f => i :: match pl_parent i with Some p => pl_walk f p | None => [] end
    end.

  Definition mainline (p : option id) : list id :=
    match p with Some p => pl_walk (S (List.length st)) p | None => [] end.

  Fixpoint index_of (i : id) (l : list id) (n : Z) : option Z :=
    match l with
    | [] => None
    | x :: l' => if str_eqb x i then Some n else index_of i l' (n + 1)%Z
    end.

  (** Mainline position of [i]: index (from the resolved power-levels event, = 0) of the
      first event of [i]'s own walk that lies on the mainline; [None] = infinity. *)
  Definition position (ml : list id) (i : id) : option Z :=
    match find (fun x => mem_str x ml) (pl_walk (S (List.length st)) i) with
    | Some x => index_of x ml 0%Z
    | None => None
    end.

  (** Position used for sorting.  Literal: [None] sorts first.  Deviation: [None] counts as
      the position of the oldest mainline event. *)
  Definition position_key (ml : list id) (i : id) : option Z :=
    match position ml i with
    | Some n => Some n
    | None => if lit_mainline then None else Some (Z.of_nat (List.length ml) - 1)%Z
    end.

  (** x before y: greater position first (infinity first), then smaller timestamp, then
      smaller id. *)
  Definition ml_before (ml : list id) (x y : event) : bool :=
    let px := position_key ml (e_id x) in
    let py := position_key ml (e_id y) in
    match px, py with
    | None, Some _ => true
    | Some _, None => false
    | _, _ =>
        let a := match px with Some a => a | None => 0%Z end in
        let b := match py with Some b => b | None => 0%Z end in
        if (b <? a)%Z then true else if (a <? b)%Z then false
        else if (e_ts x <? e_ts y)%Z then true else if (e_ts y <? e_ts x)%Z then false
        else negb (str_ltb (e_id y) (e_id x))
    end.

  Fixpoint ml_insert (ml : list id) (x : event) (l : list event) : list event :=
    match l with
    | [] => [x]
    | y :: l' => if ml_before ml x y then x :: l else y :: ml_insert ml x l'
    end.

  Definition mainline_ordering (ml : list id) (xs : list id) : list id :=
    map e_id (fold_right (ml_insert ml) []
                (flat_map (fun i => match ev i with Some e => [e] | None => [] end) xs)).

  (** ** The algorithm *)
  Definition overlay (top bottom : smap) : smap := top ++ bottom.

  Definition resolve_spec (sets : list smap) (chains : list (list id)) : option smap :=
    let unc := unconflicted sets in
    let full := full_conflicted sets chains in
    let xs := power_closure full in
    match power_ordering xs with
    | None => None
    | Some sorted_x =>
        let partial := iterative_auth sorted_x unc in
        let rest := filter (fun i => negb (mem_str i xs)) full in
        let ml := mainline (klookup (t_power_levels, []) partial) in
        let resolved := iterative_auth (mainline_ordering ml rest) partial in
        Some (overlay unc resolved)
    end.

  (** ** The classes of the two known deviations (exact) *)
  Definition opt_Z_eqb (a b : option Z) : bool :=
    match a, b with Some x, Some y => (x =? y)%Z | None, None => true | _, _ => false end.

  (** Some event of the full conflicted set lies in the auth chain of a power event of the
      set but is not reachable from it through the set. *)
  Definition class_chain (sets : list smap) (chains : list (list id)) : bool :=
    let full := full_conflicted sets chains in
    let powers := filter is_power_id full in
    let lit := flat_map (chain_within (fun _ => true)) powers in
    let dev := flat_map (chain_within (fun a => mem_str a full)) powers in
    existsb (fun i => negb (is_power_id i) && mem_str i lit && negb (mem_str i dev)) full.

  (** Among the events ordered by mainline there is one without mainline ancestor and one
      whose closest mainline event is the oldest one. *)
  Definition class_mainline (sets : list smap) (chains : list (list id)) : bool :=
    let unc := unconflicted sets in
    let full := full_conflicted sets chains in
    let xs := power_closure full in
    match power_ordering xs with
    | None => false
    | Some sorted_x =>
        let partial := iterative_auth sorted_x unc in
        let rest := filter (fun i => negb (mem_str i xs)) full in
        let ml := mainline (klookup (t_power_levels, []) partial) in
        existsb (fun i => known st i && negb (is_some (position ml i))) rest
        && existsb (fun i => known st i
                             && opt_Z_eqb (position ml i) (Some (Z.of_nat (List.length ml) - 1)%Z)) rest
    end.
End Spec.
