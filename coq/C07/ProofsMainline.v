(** C07.ProofsMainline — [mainline_sort] is the mainline ordering of the specification
    (with the position of events without mainline ancestor as the code computes it, see the
    open finding C07-mainline-no-ancestor), and is independent of enumeration orders. *)
From Coq Require Import Permutation Sorted.
From Base Require Import Prelude.
From C07 Require Import Event Model Spec ProofsSort ProofsSets ProofsAuth ProofsGraph ProofsPower.
From Coq Require Import ZifyBool ZifyNat ZifyN.

(** * Insertion sort with a total order is a function of the multiset *)
Section ISort.
  Variable A : Type.
  Variable leb : A -> A -> bool.
  Hypothesis leb_total : forall a b, leb a b = true \/ leb b a = true.
  Hypothesis leb_trans : forall a b c, leb a b = true -> leb b c = true -> leb a c = true.
  Hypothesis leb_antisym : forall a b, leb a b = true -> leb b a = true -> a = b.

  Fixpoint ins (x : A) (l : list A) : list A :=
    match l with
    | [] => [x]
    | y :: l' => if leb x y then x :: l else y :: ins x l'
    end.

  Definition isort (l : list A) : list A := fold_right ins [] l.

  Definition le_all (x : A) (l : list A) : Prop := forall y, In y l -> leb x y = true.

  Inductive sorted : list A -> Prop :=
  | sorted_nil : sorted []
  | sorted_cons x l : le_all x l -> sorted l -> sorted (x :: l).

  Lemma ins_perm x l : Permutation (ins x l) (x :: l).
  Proof.
    induction l as [|y l IH]; cbn [ins]; [apply Permutation_refl|].
    destruct (leb x y); [apply Permutation_refl|].
    eapply Permutation_trans; [apply perm_skip; exact IH|apply perm_swap].
  Qed.

  Lemma ins_sorted x l : sorted l -> sorted (ins x l).
  Proof.
    induction 1 as [|y l Hy Hs IH]; cbn [ins].
    - constructor; [intros z []|constructor].
    - destruct (leb x y) eqn:E.
      + constructor; [|constructor; auto]. intros z [<-|Hz]; [exact E|]. eapply leb_trans; eauto.
      + assert (Hyx : leb y x = true) by (destruct (leb_total x y); congruence).
        constructor; [|exact IH]. intros z Hz.
        apply (Permutation_in _ (ins_perm x l)) in Hz as [<-|Hz]; auto.
  Qed.

  Lemma isort_perm l : Permutation (isort l) l.
  Proof.
    induction l as [|x l IH]; cbn [isort fold_right]; [constructor|].
    eapply Permutation_trans; [apply ins_perm|now apply perm_skip].
  Qed.

  Lemma isort_sorted l : sorted (isort l).
  Proof. induction l as [|x l IH]; cbn [isort fold_right]; [constructor|now apply ins_sorted]. Qed.

  Lemma sorted_unique l1 : forall l2, sorted l1 -> sorted l2 -> Permutation l1 l2 -> l1 = l2.
  Proof.
    induction l1 as [|x l1 IH]; intros l2 H1 H2 Hp.
    - apply Permutation_nil in Hp. now subst.
    - destruct l2 as [|y l2]; [apply Permutation_sym, Permutation_nil in Hp; discriminate|].
      inversion H1 as [|? ? Hx Hs1]; inversion H2 as [|? ? Hy Hs2]; subst.
      assert (x = y).
      { assert (Hxin : In x (y :: l2)) by (eapply Permutation_in; [exact Hp|now left]).
        assert (Hyin : In y (x :: l1)) by (eapply Permutation_in; [apply Permutation_sym; exact Hp|now left]).
        destruct Hxin as [->|Hxin]; [reflexivity|]. destruct Hyin as [->|Hyin]; [reflexivity|].
        apply leb_antisym; auto. }
      subst y. f_equal. apply IH; auto. eapply Permutation_cons_inv; eauto.
  Qed.

  Lemma isort_perm_eq l l' : Permutation l l' -> isort l = isort l'.
  Proof.
    intros Hp. apply sorted_unique; try apply isort_sorted.
    eapply Permutation_trans; [apply isort_perm|].
    eapply Permutation_trans; [exact Hp|apply Permutation_sym, isort_perm].
  Qed.
End ISort.

(** * The order on (depth, timestamp, id) keys *)
Lemma okey_leb_total a b : okey_leb a b = true \/ okey_leb b a = true.
Proof.
  destruct a as [[da ta] ia], b as [[db tb] ib]; cbn [okey_leb].
  destruct (Z.ltb_spec da db), (Z.ltb_spec db da); auto; try lia.
  destruct (Z.ltb_spec ta tb), (Z.ltb_spec tb ta); auto; try lia.
  destruct (str_ltb ib ia) eqn:E; [right|left; reflexivity].
  cbn [negb]. apply str_ltb_asym in E. now rewrite E.
Qed.

Lemma okey_leb_trans a b c : okey_leb a b = true -> okey_leb b c = true -> okey_leb a c = true.
Proof.
  destruct a as [[da ta] ia], b as [[db tb] ib], c as [[dc tc] ic]; cbn [okey_leb].
  destruct (Z.ltb_spec da db), (Z.ltb_spec db da), (Z.ltb_spec db dc), (Z.ltb_spec dc db),
    (Z.ltb_spec da dc), (Z.ltb_spec dc da); try lia; try congruence;
  destruct (Z.ltb_spec ta tb), (Z.ltb_spec tb ta), (Z.ltb_spec tb tc), (Z.ltb_spec tc tb),
    (Z.ltb_spec ta tc), (Z.ltb_spec tc ta); try lia; try congruence.
  rewrite !negb_true_iff. intros Hx1 Hx2.
  destruct (str_ltb ic ia) eqn:E; [|reflexivity].
  (* ic < ia, not ib < ia, not ic < ib: then ia <= ib <= ic < ia *)
  destruct (str_ltb ia ib) eqn:E2.
  - pose proof (str_ltb_trans _ _ _ E E2). congruence.
  - assert (ia = ib) by now apply str_ltb_total. subst. congruence.
Qed.

Lemma okey_leb_antisym a b : okey_leb a b = true -> okey_leb b a = true -> a = b.
Proof.
  destruct a as [[da ta] ia], b as [[db tb] ib]; cbn [okey_leb].
  destruct (Z.ltb_spec da db), (Z.ltb_spec db da); try lia; try congruence.
  destruct (Z.ltb_spec ta tb), (Z.ltb_spec tb ta); try lia; try congruence.
  rewrite !negb_true_iff. intros Hx1 Hx2. assert (da = db) by lia. assert (ta = tb) by lia. subst.
  f_equal. now apply str_ltb_total.
Qed.

Lemma sort_okeys_eq l : sort_okeys l = isort okey okey_leb l.
Proof.
  unfold sort_okeys, isort. induction l as [|x l IH]; cbn [fold_right]; [reflexivity|]. rewrite IH.
  generalize (fold_right (ins okey okey_leb) [] l) as s. clear.
  induction s as [|y s IHs]; cbn [insert_sorted ins]; [reflexivity|]. destruct (okey_leb x y); [reflexivity|now rewrite IHs].
Qed.

Lemma sort_okeys_perm l l' : Permutation l l' -> sort_okeys l = sort_okeys l'.
Proof.
  intros H. rewrite !sort_okeys_eq.
  apply isort_perm_eq; [apply okey_leb_total|apply okey_leb_trans|apply okey_leb_antisym|exact H].
Qed.

(** ** Positions *)
Fixpoint pos (x : id) (l : list id) : option nat :=
  match l with
  | [] => None
  | y :: l' => if str_eqb y x then Some 0%nat else option_map S (pos x l')
  end.

Lemma index_of_pos x l : forall k, index_of x l k = option_map (fun p => (k + Z.of_nat p)%Z) (pos x l).
Proof.
  induction l as [|y l IH]; intros k; cbn [index_of pos]; [reflexivity|].
  destruct (str_eqb y x); cbn [option_map]; [f_equal; lia|].
  rewrite IH. destruct (pos x l); cbn [option_map]; [f_equal; lia|reflexivity].
Qed.

Lemma ilookup_enum x l : forall k, ilookup x (enumerate_from k l) = index_of x l k.
Proof.
  induction l as [|y l IH]; intros k; cbn [enumerate_from ilookup index_of]; [reflexivity|].
  destruct (str_eqb y x); [reflexivity|apply IH].
Qed.

Lemma enum_fst l : forall k, map fst (enumerate_from k l) = l.
Proof. induction l as [|y l IH]; intros k; cbn [enumerate_from map fst]; [reflexivity|now rewrite IH]. Qed.

Lemma pos_None x l : pos x l = None <-> ~ In x l.
Proof.
  induction l as [|y l IH]; cbn [pos In]; [tauto|].
  destruct (str_eqb_spec y x) as [E|E].
  - split; [discriminate|intros H; exfalso; apply H; now left].
  - destruct (pos x l) as [p|]; cbn [option_map].
    + split; [discriminate|]. intros H. exfalso. destruct IH as [_ IH].
      assert (Hn : ~ In x l) by (intros Hx; apply H; now right). specialize (IH Hn). discriminate.
    + split; [|reflexivity]. intros _ [H|H]; [congruence|]. now apply (proj1 IH).
Qed.

Lemma pos_lt x l p : pos x l = Some p -> (p < List.length l)%nat.
Proof.
  revert p; induction l as [|y l IH]; intros p; cbn [pos List.length]; [discriminate|].
  destruct (str_eqb y x); [intros [= <-]; lia|].
  destruct (pos x l) as [q|]; cbn [option_map]; [|discriminate]. intros [= <-]. specialize (IH q eq_refl). lia.
Qed.

Lemma pos_app x l1 l2 :
  pos x (l1 ++ l2) = match pos x l1 with
                     | Some p => Some p
                     | None => option_map (fun p => (List.length l1 + p)%nat) (pos x l2)
                     end.
Proof.
  induction l1 as [|y l1 IH]; cbn [app pos List.length].
  - destruct (pos x l2); reflexivity.
  - destruct (str_eqb y x); [reflexivity|]. rewrite IH.
    destruct (pos x l1); cbn [option_map]; [reflexivity|]. destruct (pos x l2); reflexivity.
Qed.

Lemma pos_rev x l : NoDup l ->
  pos x (rev l) = option_map (fun p => (List.length l - 1 - p)%nat) (pos x l).
Proof.
  induction 1 as [|a l Ha Hl IH]; [reflexivity|].
  cbn [rev pos List.length]. rewrite pos_app, IH, rev_length. cbn [pos].
  destruct (str_eqb_spec a x) as [E|E].
  - subst a. assert (Hn : pos x l = None) by now apply pos_None. rewrite Hn. cbn [option_map].
    f_equal. lia.
  - destruct (pos x l) as [p|] eqn:Ep; cbn [option_map]; [f_equal; lia|reflexivity].
Qed.


Lemma filter_id {A} (f : A -> bool) l : (forall x, In x l -> f x = true) -> filter f l = l.
Proof.
  induction l as [|a l IH]; intros H; cbn [filter]; [reflexivity|].
  rewrite (H a (or_introl eq_refl)). f_equal. apply IH. intros x Hx. apply H. now right.
Qed.

(** * The store as an acyclic graph *)
Section Mainline.
  Variable st : store.
  Variable rank : id -> nat.
  Hypothesis Hrank : forall i e a, fetch st i = Some e -> In a (e_auth e) -> (rank a < rank i)%nat.
  Hypothesis Hbound : forall i, known st i = true -> (rank i < List.length st)%nat.
  Hypothesis Hak : forall i e a, fetch st i = Some e -> In a (e_auth e) -> known st a = true.

  Lemma known_fetch i : known st i = true <-> exists e, fetch st i = Some e.
  Proof.
    unfold known. destruct (fetch st i) as [e|]; cbn [is_some].
    - split; [eauto|reflexivity].
    - split; [discriminate|intros (e & H); discriminate].
  Qed.

  Definition plp (a : id) : bool :=
    match fetch st a with Some x => str_eqb (e_type x) t_power_levels && has_skey x [] | None => false end.

  Lemma find_auth_pl e :
    find_auth st e t_power_levels =
    match find plp (e_auth e) with Some a => fetch st a | None => None end.
  Proof. reflexivity. Qed.

  Lemma pl_auth_of_eq auths : (forall a, In a auths -> known st a = true) ->
    pl_auth_of st auths = Ok (match find plp auths with Some a => fetch st a | None => None end).
  Proof.
    induction auths as [|a r IH]; intros Hk; cbn [pl_auth_of find]; [reflexivity|].
    assert (Hka : known st a = true) by (apply Hk; now left). apply known_fetch in Hka as (x & Ex).
    unfold plp at 1. rewrite Ex. unfold is_type_and_key, skey_is, has_skey.
    destruct (str_eqb (e_type x) t_power_levels && _); [now rewrite Ex|].
    apply IH. intros a' Ha'. apply Hk. now right.
  Qed.

  Lemma find_auth_in e x : find_auth st e t_power_levels = Some x ->
    In (e_id x) (e_auth e) /\ fetch st (e_id x) = Some x.
  Proof.
    rewrite find_auth_pl. destruct (find plp (e_auth e)) as [a|] eqn:Ef; [|discriminate].
    intros Hx. apply find_some in Ef as [Ha _]. pose proof (fetch_id _ _ _ Hx) as Hid. subst a. auto.
  Qed.

  (** ** The mainline *)
  Lemma pl_walk_S f i :
    pl_walk st (S f) i = i :: match pl_parent st i with Some p => pl_walk st f p | None => [] end.
  Proof. reflexivity. Qed.

  Lemma mainline_from_eq : forall f p acc e,
    fetch st p = Some e -> (rank p < f)%nat ->
    mainline_from st f (Some p) acc = Ok (rev acc ++ pl_walk st f p).
  Proof.
    induction f as [|f IH]; intros p acc e Hf Hr; [lia|].
    cbn [mainline_from]. rewrite Hf, pl_walk_S.
    rewrite (pl_auth_of_eq (e_auth e)) by (intros a Ha; eapply Hak; eauto).
    unfold pl_parent, ev. rewrite Hf, find_auth_pl.
    destruct (find plp (e_auth e)) as [a|] eqn:Efa.
    - apply find_some in Efa as [Ha Hp]. unfold plp in Hp.
      destruct (fetch st a) as [x|] eqn:Ex; [|discriminate]. cbn [option_map].
      pose proof (fetch_id _ _ _ Ex) as Hid. rewrite Hid.
      rewrite (IH a (p :: acc) x Ex) by (pose proof (Hrank p e a Hf Ha); lia).
      cbn [rev]. now rewrite <- app_assoc.
    - cbn [option_map]. destruct f; cbn [mainline_from rev]; reflexivity.
  Qed.

  Lemma mainline_eq p e : fetch st p = Some e ->
    mainline_from st (st_fuel st) (Some p) [] = Ok (mainline st (Some p)).
  Proof.
    intros Hf. unfold mainline, st_fuel.
    rewrite (mainline_from_eq (S (List.length st)) p [] e Hf); [reflexivity|].
    assert (known st p = true) by (apply known_fetch; eauto). pose proof (Hbound p H). lia.
  Qed.

  Lemma pl_walk_rank : forall f i e x, fetch st i = Some e -> In x (pl_walk st f i) -> (rank x <= rank i)%nat.
  Proof.
    induction f as [|f IH]; intros i e x Hf Hx; [destruct Hx|].
    rewrite pl_walk_S in Hx. destruct Hx as [<-|Hx]; [lia|].
    unfold pl_parent, ev in Hx. rewrite Hf in Hx.
    destruct (find_auth st e t_power_levels) as [y|] eqn:Efa; [|destruct Hx]. cbn [option_map] in Hx.
    apply find_auth_in in Efa as [Hin Hfy].
    pose proof (IH _ _ _ Hfy Hx). pose proof (Hrank i e _ Hf Hin). lia.
  Qed.

  Lemma pl_walk_nodup : forall f i e, fetch st i = Some e -> NoDup (pl_walk st f i).
  Proof.
    induction f as [|f IH]; intros i e Hf; [constructor|].
    rewrite pl_walk_S. unfold pl_parent, ev. rewrite Hf.
    destruct (find_auth st e t_power_levels) as [y|] eqn:Efa; cbn [option_map].
    - apply find_auth_in in Efa as [Hin Hfy]. constructor; [|eapply IH; eauto].
      intros Hx. pose proof (pl_walk_rank _ _ _ _ Hfy Hx). pose proof (Hrank i e _ Hf Hin). lia.
    - constructor; [intros []|constructor].
  Qed.

  (** ** Depths *)
  Variable ml : list id.
  Hypothesis Hml : NoDup ml.

  Definition depth_of_walk (w : list id) : Z :=
    match find (fun x => mem_str x ml) w with
    | Some x => match ilookup x (mainline_map ml) with Some d => d | None => 0%Z end
    | None => 0%Z
    end.

  Definition poskey (w : list id) : Z :=
    match match find (fun x => mem_str x ml) w with Some x => index_of x ml 0%Z | None => None end with
    | Some n => n
    | None => (Z.of_nat (List.length ml) - 1)%Z
    end.

  Lemma depth_poskey w : depth_of_walk w = (Z.of_nat (List.length ml) - 1 - poskey w)%Z.
  Proof.
    unfold depth_of_walk, poskey, mainline_map. destruct (find (fun x => mem_str x ml) w) as [x|] eqn:Ef; [|lia].
    apply find_some in Ef as [_ Hx]. apply mem_str_In in Hx.
    rewrite ilookup_enum, !index_of_pos, (pos_rev x ml Hml).
    destruct (pos x ml) as [p|] eqn:Ep; [|apply pos_None in Ep; contradiction].
    cbn [option_map]. pose proof (pos_lt _ _ _ Ep). lia.
  Qed.

  Lemma mainline_depth_eq : forall f i e,
    fetch st i = Some e -> (rank i < f)%nat ->
    mainline_depth st f (mainline_map ml) (Some e) = Ok (depth_of_walk (pl_walk st f i)).
  Proof.
    induction f as [|f IH]; intros i e Hf Hr; [lia|].
    cbn [mainline_depth]. rewrite pl_walk_S. pose proof (fetch_id _ _ _ Hf) as Hid. rewrite Hid.
    unfold depth_of_walk. cbn [find].
    destruct (ilookup i (mainline_map ml)) as [d|] eqn:El.
    - assert (Hin : In i ml).
      { apply ilookup_Some_fst in El. unfold mainline_map in El. rewrite enum_fst in El. now apply in_rev. }
      apply mem_str_In in Hin. rewrite Hin, El. reflexivity.
    - assert (Hnin : mem_str i ml = false).
      { apply mem_str_false. intros Hin. apply ilookup_None in El. apply El.
        unfold mainline_map. rewrite enum_fst. now apply in_rev in Hin. }
      rewrite Hnin. rewrite (pl_auth_of_eq (e_auth e)) by (intros a Ha; eapply Hak; eauto).
      unfold pl_parent, ev. rewrite Hf, find_auth_pl.
      destruct (find plp (e_auth e)) as [a|] eqn:Efa.
      + apply find_some in Efa as [Ha Hp]. unfold plp in Hp.
        destruct (fetch st a) as [x|] eqn:Ex; [|discriminate]. cbn [option_map].
        pose proof (fetch_id _ _ _ Ex) as Hida. rewrite Hida.
        rewrite (IH a x Ex) by (pose proof (Hrank i e a Hf Ha); lia). reflexivity.
      + cbn [option_map find]. destruct f; reflexivity.
  Qed.

  (** ** order_map *)
  Definition evs (l : list id) : list event :=
    flat_map (fun i => match fetch st i with Some e => [e] | None => [] end) l.

  Definition keyf (e : event) : okey :=
    (depth_of_walk (pl_walk st (st_fuel st) (e_id e)), e_ts e, e_id e).

  Lemma order_map_eq : forall (to_sort : list id) (acc : list okey),
    NoDup to_sort -> (forall i, In i to_sort -> known st i = true) ->
    (forall i k, In i to_sort -> In k acc -> snd k <> i) ->
    order_map st (mainline_map ml) to_sort acc = Ok (rev (map keyf (evs to_sort)) ++ acc).
  Proof.
    induction to_sort as [|i r IH]; intros acc Hnd Hk Hdis; cbn [order_map evs flat_map map rev app]; [reflexivity|].
    apply NoDup_cons_iff in Hnd as [Hi Hr].
    assert (Hki : known st i = true) by (apply Hk; now left). apply known_fetch in Hki as (e & Ef).
    rewrite Ef. cbn [app]. fold (evs r).
    rewrite (mainline_depth_eq (st_fuel st) i e Ef).
    2:{ unfold st_fuel. assert (known st i = true) by (apply known_fetch; eauto). pose proof (Hbound i H). lia. }
    rewrite (filter_id _ acc).
    2:{ intros k Hk'. apply negb_true_iff, str_eqb_neq. apply (Hdis i k); [now left|exact Hk']. }
    rewrite IH; auto.
    - cbn [map rev]. pose proof (fetch_id _ _ _ Ef) as Hid. unfold keyf at 3. rewrite Hid.
      now rewrite <- app_assoc.
    - intros j Hj. apply Hk. now right.
    - intros j k Hj [<-|Hk']; cbn [snd]; [intros ->; contradiction|]. apply Hdis; [now right|exact Hk'].
  Qed.

  (** ** The two comparators agree *)
  Lemma position_key_dev i :
    position_key st false ml i = Some (poskey (pl_walk st (st_fuel st) i)).
  Proof.
    unfold position_key, position, poskey, st_fuel.
    destruct (find (fun x => mem_str x ml) (pl_walk st (S (List.length st)) i)) as [x|]; [|reflexivity].
    destruct (index_of x ml 0%Z); reflexivity.
  Qed.

  Lemma comparators_agree x y : okey_leb (keyf x) (keyf y) = ml_before st false ml x y.
  Proof.
    unfold ml_before. rewrite !position_key_dev. unfold keyf, okey_leb. rewrite !depth_poskey.
    set (a := poskey (pl_walk st (st_fuel st) (e_id x))). set (b := poskey (pl_walk st (st_fuel st) (e_id y))).
    set (L := Z.of_nat (List.length ml)).
    assert (E1 : ((L - 1 - a) <? (L - 1 - b))%Z = (b <? a)%Z).
    { destruct (Z.ltb_spec (L - 1 - a) (L - 1 - b)), (Z.ltb_spec b a); try reflexivity; lia. }
    assert (E2 : ((L - 1 - b) <? (L - 1 - a))%Z = (a <? b)%Z).
    { destruct (Z.ltb_spec (L - 1 - b) (L - 1 - a)), (Z.ltb_spec a b); try reflexivity; lia. }
    rewrite E1, E2. reflexivity.
  Qed.

  Lemma insert_corr x s :
    insert_sorted (keyf x) (map keyf s) = map keyf (ml_insert st false ml x s).
  Proof.
    induction s as [|y s IH]; cbn [map insert_sorted ml_insert]; [reflexivity|].
    rewrite comparators_agree. destruct (ml_before st false ml x y); cbn [map]; [reflexivity|now rewrite IH].
  Qed.

  Lemma sort_corr l :
    sort_okeys (map keyf l) = map keyf (fold_right (ml_insert st false ml) [] l).
  Proof.
    unfold sort_okeys. induction l as [|x l IH]; cbn [map fold_right]; [reflexivity|].
    rewrite IH. apply insert_corr.
  Qed.
End Mainline.

(** * mainline_sort equals the specification's mainline ordering (positions as the code
      computes them) *)
Theorem mainline_sort_eq (st : store) (rank : id -> nat) (o : oracles) to_sort pl :
  (forall i e a, fetch st i = Some e -> In a (e_auth e) -> (rank a < rank i)%nat) ->
  (forall i, known st i = true -> (rank i < List.length st)%nat) ->
  (forall i e a, fetch st i = Some e -> In a (e_auth e) -> known st a = true) ->
  perm_oracles o -> NoDup to_sort -> (forall i, In i to_sort -> known st i = true) ->
  (forall p, pl = Some p -> known st p = true) ->
  mainline_sort st o to_sort pl = Ok (mainline_ordering st false (mainline st pl) to_sort).
Proof.
  intros Hrank Hbound Hak Ho Hnd Hk Hpl. unfold mainline_sort.
  destruct to_sort as [|i0 r0] eqn:Ets; [reflexivity|]. cbn [is_nil]. rewrite <- Ets in *. clear Ets i0 r0.
  assert (Hml : mainline_from st (st_fuel st) pl [] = Ok (mainline st pl) /\ NoDup (mainline st pl)).
  { destruct pl as [p|].
    - assert (Hkp : known st p = true) by now apply Hpl. apply (known_fetch st) in Hkp as (e & Ef).
      split; [eapply mainline_eq; eauto|]. unfold mainline. eapply pl_walk_nodup; eauto.
    - split; [reflexivity|constructor]. }
  destruct Hml as [Eml Hmlnd]. rewrite Eml.
  rewrite (order_map_eq st rank Hrank Hbound Hak (mainline st pl) to_sort (@nil okey) Hnd Hk) by (intros i k _ []).
  rewrite app_nil_r. f_equal.
  rewrite (sort_okeys_perm _ (map (keyf st (mainline st pl)) (evs st to_sort))).
  2:{ eapply Permutation_trans; [apply Ho|]. apply Permutation_sym, Permutation_rev. }
  rewrite (sort_corr st rank Hrank Hbound Hak (mainline st pl) Hmlnd). rewrite map_map. unfold mainline_ordering, evs, ev.
  apply map_ext. intros e. reflexivity.
Qed.
