(** C07.ProofsSort — the model of [lexicographical_topological_sort] emits, at every step,
    the least ready node: [kahn_eq_spec] and its corollaries. *)
From Coq Require Import Permutation.
From Base Require Import Prelude.
From C07 Require Import Event Model Spec.
From Coq Require Import ZifyBool ZifyNat ZifyN.

(** * The order on sort keys *)
Lemma tk_ltb_irrefl a : tk_ltb a a = false.
Proof.
  destruct a as [[p t] i]; cbn [tk_ltb]. rewrite !Z.ltb_irrefl. apply str_ltb_irrefl.
Qed.

Lemma tk_ltb_trans a b c : tk_ltb a b = true -> tk_ltb b c = true -> tk_ltb a c = true.
Proof.
  destruct a as [[pa ta] ia], b as [[pb tb] ib], c as [[pc tc] ic]; cbn [tk_ltb].
  destruct (Z.ltb_spec pb pa), (Z.ltb_spec pa pb), (Z.ltb_spec pc pb), (Z.ltb_spec pb pc),
    (Z.ltb_spec pc pa), (Z.ltb_spec pa pc); try lia; try congruence;
  destruct (Z.ltb_spec ta tb), (Z.ltb_spec tb ta), (Z.ltb_spec tb tc), (Z.ltb_spec tc tb),
    (Z.ltb_spec ta tc), (Z.ltb_spec tc ta); try lia; try congruence.
  apply str_ltb_trans.
Qed.

Lemma tk_ltb_total a b : tk_ltb a b = false -> tk_ltb b a = false -> a = b.
Proof.
  destruct a as [[pa ta] ia], b as [[pb tb] ib]; cbn [tk_ltb].
  destruct (Z.ltb_spec pb pa), (Z.ltb_spec pa pb); try lia; try congruence.
  destruct (Z.ltb_spec ta tb), (Z.ltb_spec tb ta); try lia; try congruence.
  intros Hx1 Hx2. assert (pa = pb) by lia. assert (ta = tb) by lia. subst.
  f_equal. now apply str_ltb_total.
Qed.

Lemma tk_ltb_asym a b : tk_ltb a b = true -> tk_ltb b a = false.
Proof.
  intros H. destruct (tk_ltb b a) eqn:E; [|reflexivity].
  pose proof (tk_ltb_trans _ _ _ H E) as T. now rewrite tk_ltb_irrefl in T.
Qed.

Lemma tk_eqb_eq a b : tk_eqb a b = true <-> a = b.
Proof.
  destruct a as [[pa ta] ia], b as [[pb tb] ib]; cbn [tk_eqb].
  rewrite !andb_true_iff, !Z.eqb_eq, str_eqb_eq. split.
  - intros [[-> ->] ->]; reflexivity.
  - intros E; inversion E; auto.
Qed.

(** [k] is the least element of [l]. *)
Definition is_least (l : list tkey) (k : tkey) : Prop :=
  In k l /\ forall k', In k' l -> k' = k \/ tk_ltb k k' = true.

Lemma is_least_unique l k1 k2 : is_least l k1 -> is_least l k2 -> k1 = k2.
Proof.
  intros [I1 L1] [I2 L2]. destruct (L1 _ I2) as [E|E]; [auto|].
  destruct (L2 _ I1) as [E'|E']; [auto|]. apply tk_ltb_asym in E. congruence.
Qed.

Lemma is_least_equiv l l' k : (forall x, In x l <-> In x l') -> is_least l k -> is_least l' k.
Proof.
  intros H [I L]. split; [now apply H|]. intros k' Hk'. apply L. now apply H.
Qed.

Lemma min_key_least x l : is_least (x :: l) (min_key x l).
Proof.
  revert x; induction l as [|y l IH]; intros x; cbn [min_key].
  - split; [now left|]. intros k' [<-|[]]; now left.
  - destruct (tk_ltb y x) eqn:E.
    + destruct (IH y) as [I L]. split.
      * destruct I as [<-|I]; [right; now left|right; now right].
      * intros k' Hk. destruct Hk as [Hk|[Hk|Hk]].
        -- subst k'. destruct (L y (or_introl eq_refl)) as [Ey|Ey].
           ++ rewrite <- Ey. now right.
           ++ right. eapply tk_ltb_trans; eauto.
        -- subst k'. apply L. now left.
        -- apply L. now right.
    + destruct (IH x) as [I L]. split.
      * destruct I as [<-|I]; [now left|right; now right].
      * intros k' Hk. destruct Hk as [Hk|[Hk|Hk]].
        -- subst k'. apply L. now left.
        -- subst k'. destruct (L x (or_introl eq_refl)) as [Ex|Ex].
           ++ rewrite <- Ex. destruct (tk_ltb x y) eqn:E2; [now right|].
              left. symmetry. now apply tk_ltb_total.
           ++ destruct (tk_ltb x y) eqn:E2.
              ** right. eapply tk_ltb_trans; eauto.
              ** assert (x = y) by now apply tk_ltb_total. subst y. now right.
        -- apply L. now right.
Qed.

Lemma fold_least_eq l x :
  fold_left (fun m y => if tk_ltb y m then y else m) l x = min_key x l.
Proof. revert x; induction l as [|y l IH]; intros x; cbn; [reflexivity|]. destruct (tk_ltb y x); apply IH. Qed.

Lemma least_is_least l k : least l = Some k -> is_least l k.
Proof.
  destruct l as [|x l]; cbn [least]; [discriminate|]. intros [= <-].
  rewrite fold_least_eq. apply min_key_least.
Qed.

Lemma least_none l : least l = None <-> l = [].
Proof. destruct l; cbn; split; congruence. Qed.

Lemma pop_min_spec h m h' : pop_min h = Some (m, h') -> is_least h m /\ h' = remove_key m h.
Proof.
  destruct h as [|x l]; cbn [pop_min]; [discriminate|]. intros [= <- <-].
  split; [apply min_key_least|reflexivity].
Qed.

Lemma pop_min_none h : pop_min h = None <-> h = [].
Proof. destruct h; cbn; split; congruence. Qed.

Lemma remove_key_in x l y : In y (remove_key x l) -> In y l.
Proof.
  induction l as [|z l IH]; cbn [remove_key]; [tauto|].
  destruct (tk_eqb x z); cbn; intuition.
Qed.

Lemma remove_key_in_neq x l y : In y l -> y <> x -> In y (remove_key x l).
Proof.
  induction l as [|z l IH]; cbn [remove_key]; [tauto|]. intros [->|H] Hne.
  - destruct (tk_eqb x y) eqn:E; [apply tk_eqb_eq in E; congruence|now left].
  - destruct (tk_eqb x z); [exact H|right; auto].
Qed.

Lemma remove_key_nodup x l : NoDup l -> ~ In x (remove_key x l).
Proof.
  induction 1 as [|z l Hz Hn IH]; cbn [remove_key]; [tauto|].
  destruct (tk_eqb x z) eqn:E.
  - apply tk_eqb_eq in E; subst; exact Hz.
  - intros [->|H]; [|auto]. assert (x = x) by reflexivity. apply tk_eqb_eq in H. congruence.
Qed.

(** * Association-list facts *)
Lemma ilookup_In {V} (m : list (id * V)) i v : ilookup i m = Some v -> In (i, v) m.
Proof.
  induction m as [|[j w] m IH]; cbn [ilookup]; [discriminate|].
  dse j i; [intros [= ->]; now left|intros H; right; auto].
Qed.

Lemma ilookup_None {V} (m : list (id * V)) i : ilookup i m = None <-> ~ In i (map fst m).
Proof.
  induction m as [|[j w] m IH]; cbn [ilookup map fst In]; [tauto|].
  dse j i; [split; [discriminate|intros H; exfalso; apply H; now left]|].
  rewrite IH. split; [intros H [E|E]; [congruence|tauto]|tauto].
Qed.

Lemma In_ilookup {V} (m : list (id * V)) i v : NoDup (map fst m) -> In (i, v) m -> ilookup i m = Some v.
Proof.
  induction m as [|[j w] m IH]; cbn [ilookup map fst In]; [tauto|].
  intros Hn Hin. inversion Hn as [|? ? Hj Hn']; subst.
  destruct (str_eqb_spec j i) as [E|E].
  - destruct Hin as [E'|Hin]; [congruence|].
    exfalso. apply Hj. subst j. change i with (fst (i, v)). now apply in_map.
  - destruct Hin as [E'|Hin]; [congruence|auto].
Qed.

Lemma ilookup_Some_fst {V} (m : list (id * V)) i v : ilookup i m = Some v -> In i (map fst m).
Proof. intros H. apply ilookup_In in H. change i with (fst (i, v)). now apply in_map. Qed.

Lemma mem_str_app x l1 l2 : mem_str x (l1 ++ l2) = mem_str x l1 || mem_str x l2.
Proof. induction l1 as [|y l1 IH]; cbn [mem_str app]; [reflexivity|]. now rewrite IH, orb_assoc. Qed.

Lemma mem_str_false x l : mem_str x l = false <-> ~ In x l.
Proof. rewrite <- mem_str_In. destruct (mem_str x l); split; congruence. Qed.

Lemma set_edges_fst p es g : map fst (set_edges p es g) = map fst g.
Proof.
  induction g as [|[n e] g IH]; cbn [set_edges map fst]; [reflexivity|].
  dse n p; cbn [map fst]; [reflexivity|now rewrite IH].
Qed.

Lemma ilookup_set_edges p es g q :
  In p (map fst g) ->
  ilookup q (set_edges p es g) = if str_eqb p q then Some es else ilookup q g.
Proof.
  induction g as [|[n e] g IH]; cbn [set_edges map fst In ilookup]; [tauto|].
  intros Hin. destruct (str_eqb_spec n p) as [E|E].
  - subst n. cbn [ilookup]. destruct (str_eqb p q); reflexivity.
  - cbn [ilookup]. destruct Hin as [E'|Hin]; [congruence|].
    destruct (str_eqb_spec n q) as [E2|E2].
    + subst q. destruct (str_eqb_spec p n) as [E3|E3]; [congruence|reflexivity].
    + now apply IH.
Qed.

Lemma remove_id_In x l y : In y (remove_id x l) <-> In y l /\ y <> x.
Proof.
  unfold remove_id. rewrite filter_In, negb_true_iff, str_eqb_neq. intuition congruence.
Qed.

Lemma filter_nil_iff {A} (f : A -> bool) l : filter f l = [] <-> forall x, In x l -> f x = false.
Proof.
  induction l as [|a l IH]; cbn [filter]; [split; [intros _ x []|reflexivity]|].
  destruct (f a) eqn:E.
  - split; [discriminate|]. intros H. specialize (H a (or_introl eq_refl)). congruence.
  - rewrite IH. split; [intros H x [<-|Hx]; auto|intros H x Hx; apply H; now right].
Qed.

Lemma is_nil_true {A} (l : list A) : is_nil l = true <-> l = [].
Proof. destruct l; cbn; split; congruence. Qed.

Lemma NoDup_app_snoc {A} (l : list A) x : NoDup l -> ~ In x l -> NoDup (l ++ [x]).
Proof.
  intros Hn Hx. induction Hn as [|y l Hy Hn IH]; cbn [app]; [constructor; [intros []|constructor]|].
  constructor.
  - intros Hin. apply in_app_or in Hin as [H|[H|[]]]; [contradiction|]. subst. apply Hx. now left.
  - apply IH. intros H. apply Hx. now right.
Qed.

(** * The heap/out-degree loop emits the least ready node *)
Section Kahn.
  Variable o : oracles.
  Hypothesis Ho : forall s A (l : list A), Permutation (o s A l) l.
  Variable key_fn : id -> option (Z * Z).
  Variable g : graph.
  Hypothesis Hnd : NoDup (map fst g).

  Definition nodes_of : list id := map fst g.
  Definition edges_of (n : id) : list id := match ilookup n g with Some es => es | None => [] end.
  Notation tk := (tkey_of key_fn).
  Notation rdy := (ready edges_of).

  Definition out_of (em : list id) (n : id) : list id :=
    filter (fun d => negb (mem_str d em)) (edges_of n).

  Lemma tk_snd n k : tk n = Some k -> snd k = n.
  Proof. unfold tkey_of. destruct (key_fn n) as [[p t]|]; [intros [= <-]; reflexivity|discriminate]. Qed.

  Lemma rdy_iff em n : rdy em n = true <-> ~ In n em /\ out_of em n = [].
  Proof.
    unfold ready, out_of. rewrite andb_true_iff, negb_true_iff, mem_str_false, forallb_forall, filter_nil_iff.
    split; intros [H1 H2]; split; auto; intros x Hx; specialize (H2 x Hx).
    - now rewrite H2.
    - now apply negb_false_iff in H2.
  Qed.

  Lemma out_of_snoc em n x : out_of (em ++ [x]) n = remove_id x (out_of em n).
  Proof.
    unfold out_of, remove_id. induction (edges_of n) as [|d l IH]; cbn [filter]; [reflexivity|].
    rewrite mem_str_app. cbn [mem_str]. rewrite orb_false_r.
    destruct (mem_str d em) eqn:Em; cbn [negb orb].
    - exact IH.
    - rewrite (str_eqb_sym d x). destruct (str_eqb x d) eqn:Ex; cbn [negb filter]; rewrite Ex; cbn [negb];
        [exact IH|now rewrite IH].
  Qed.

  Lemma remove_id_notin x l : ~ In x l -> remove_id x l = l.
  Proof.
    unfold remove_id. induction l as [|y l IH]; cbn [filter In]; [reflexivity|]. intros H.
    destruct (str_eqb_spec x y) as [E|E]; [exfalso; apply H; now left|].
    cbn [negb]. f_equal. apply IH. tauto.
  Qed.

  Definition out_in (od : graph) (p : id) : list id :=
    match ilookup p od with Some x => x | None => [] end.

  Lemma fold_relax_err n ps e : fold_left (relax key_fn n) ps (Err e) = Err e.
  Proof. induction ps; cbn; auto. Qed.

  (** One sweep over the parents of the popped node. *)
  Lemma relax_fold_ok n : forall ps od h,
    NoDup ps -> (forall p, In p ps -> In p (map fst od)) ->
    (forall p, In p ps -> remove_id n (out_in od p) = [] -> tk p <> None) ->
    NoDup (map snd h) -> (forall p, In p ps -> ~ In p (map snd h)) ->
    exists od' h',
      fold_left (relax key_fn n) ps (Ok (od, h)) = Ok (od', h')
      /\ map fst od' = map fst od
      /\ (forall q, ilookup q od' =
                    if mem_str q ps then option_map (remove_id n) (ilookup q od) else ilookup q od)
      /\ (forall k, In k h' <-> In k h \/ exists p, In p ps /\ remove_id n (out_in od p) = [] /\ tk p = Some k)
      /\ NoDup (map snd h').
  Proof.
    induction ps as [|p ps IH]; intros od h Hnd' Hin Hk Hh Hnew.
    - exists od, h. cbn. repeat split; auto. intros [H|[p [[] _]]]; exact H.
    - inversion Hnd' as [|? ? Hp Hps]; subst.
      assert (Hpin : In p (map fst od)) by (apply Hin; now left).
      destruct (ilookup p od) as [out|] eqn:El; [|apply ilookup_None in El; contradiction].
      cbn [fold_left relax]. rewrite El.
      set (out' := remove_id n out). set (od1 := set_edges p out' od).
      assert (Hfst1 : map fst od1 = map fst od) by apply set_edges_fst.
      assert (Hl1 : forall q, ilookup q od1 = if str_eqb p q then Some out' else ilookup q od)
        by (intros q; now apply ilookup_set_edges).
      assert (Hout1 : forall q, In q ps -> out_in od1 q = out_in od q).
      { intros q Hq. unfold out_in. rewrite Hl1. destruct (str_eqb_spec p q) as [E|E]; [subst; contradiction|reflexivity]. }
      destruct (is_nil out') eqn:En.
      + apply is_nil_true in En.
        destruct (tk p) as [k|] eqn:Ek.
        2:{ exfalso. apply (Hk p (or_introl eq_refl)); [|exact Ek]. unfold out_in. now rewrite El. }
        destruct (IH od1 (k :: h)) as (od' & h' & Hf & Hfst & Hl & Hh' & Hnd''); auto.
        * intros q Hq. rewrite Hfst1. apply Hin. now right.
        * intros q Hq. rewrite Hout1 by exact Hq. apply Hk. now right.
        * cbn [map]. constructor; [|exact Hh]. rewrite (tk_snd _ _ Ek). apply Hnew. now left.
        * intros q Hq. cbn [map In]. rewrite (tk_snd _ _ Ek). intros [E|E]; [subst; contradiction|].
          revert E. apply Hnew. now right.
        * exists od', h'. split; [exact Hf|]. split; [congruence|]. split; [|split; [|exact Hnd'']].
          -- intros q. rewrite Hl, Hl1. cbn [mem_str]. rewrite (str_eqb_sym q p).
             destruct (str_eqb_spec p q) as [E|E]; cbn [orb].
             ++ subst q. rewrite El. cbn [option_map]. destruct (mem_str p ps) eqn:Em; [|reflexivity].
                apply mem_str_In in Em. contradiction.
             ++ reflexivity.
          -- intros k'. rewrite Hh'. cbn [In]. split.
             ++ intros [[E|H]|(q & Hq & Hr & Hkq)].
                ** right. exists p. split; [now left|]. unfold out_in. rewrite El. split; [exact En|congruence].
                ** now left.
                ** right. exists q. split; [now right|]. rewrite <- Hout1 by exact Hq. auto.
             ++ intros [H|(q & [E|Hq] & Hr & Hkq)].
                ** left. now right.
                ** subst q. left. left. congruence.
                ** right. exists q. split; [exact Hq|]. rewrite Hout1 by exact Hq. auto.
      + assert (En' : out' <> []) by (intros E; rewrite E in En; discriminate).
        destruct (IH od1 h) as (od' & h' & Hf & Hfst & Hl & Hh' & Hnd''); auto.
        * intros q Hq. rewrite Hfst1. apply Hin. now right.
        * intros q Hq. rewrite Hout1 by exact Hq. apply Hk. now right.
        * intros q Hq. apply Hnew. now right.
        * exists od', h'. split; [exact Hf|]. split; [congruence|]. split; [|split; [|exact Hnd'']].
          -- intros q. rewrite Hl, Hl1. cbn [mem_str]. rewrite (str_eqb_sym q p).
             destruct (str_eqb_spec p q) as [E|E]; cbn [orb].
             ++ subst q. rewrite El. cbn [option_map]. destruct (mem_str p ps) eqn:Em; [|reflexivity].
                apply mem_str_In in Em. contradiction.
             ++ reflexivity.
          -- intros k'. rewrite Hh'. split.
             ++ intros [H|(q & Hq & Hr & Hkq)]; [now left|].
                right. exists q. split; [now right|]. rewrite <- Hout1 by exact Hq. auto.
             ++ intros [H|(q & [E|Hq] & Hr & Hkq)]; [now left| |].
                ** subst q. exfalso. apply En'. unfold out_in in Hr. now rewrite El in Hr.
                ** right. exists q. split; [exact Hq|]. rewrite Hout1 by exact Hq. auto.
  Qed.

  Lemma relax_fold_err n : forall ps od h,
    NoDup ps -> (forall p, In p ps -> In p (map fst od)) ->
    (exists p, In p ps /\ remove_id n (out_in od p) = [] /\ tk p = None) ->
    fold_left (relax key_fn n) ps (Ok (od, h)) = Err 0.
  Proof.
    induction ps as [|p ps IH]; intros od h Hnd' Hin (b & Hb & Hr & Hkb); [destruct Hb|].
    inversion Hnd' as [|? ? Hp Hps]; subst.
    assert (Hpin : In p (map fst od)) by (apply Hin; now left).
    destruct (ilookup p od) as [out|] eqn:El; [|apply ilookup_None in El; contradiction].
    cbn [fold_left relax]. rewrite El.
    set (out' := remove_id n out). set (od1 := set_edges p out' od).
    assert (Hfst1 : map fst od1 = map fst od) by apply set_edges_fst.
    assert (Hout1 : forall q, In q ps -> out_in od1 q = out_in od q).
    { intros q Hq. unfold out_in, od1. rewrite ilookup_set_edges by exact Hpin.
      destruct (str_eqb_spec p q) as [E|E]; [subst; contradiction|reflexivity]. }
    destruct Hb as [E|Hb].
    - subst b. unfold out_in in Hr. rewrite El in Hr. fold out' in Hr. rewrite Hr. cbn [is_nil].
      rewrite Hkb. apply fold_relax_err.
    - assert (Hgo : forall h1, fold_left (relax key_fn n) ps (Ok (od1, h1)) = Err 0).
      { intros h1. apply IH; auto.
        - intros q Hq. rewrite Hfst1. apply Hin. now right.
        - exists b. rewrite Hout1 by exact Hb. auto. }
      destruct (is_nil out'); [|apply Hgo].
      destruct (tk p); [apply Hgo|apply fold_relax_err].
  Qed.

  (** ** The loop invariant *)
  Record inv (od : graph) (h : list tkey) (em : list id) : Prop := {
    inv_fst : map fst od = nodes_of;
    inv_out : forall n, In n nodes_of -> ilookup n od = Some (out_of em n);
    inv_key : forall k, In k h -> tk (snd k) = Some k;
    inv_rdy : forall n, In n nodes_of -> (rdy em n = true <-> In n (map snd h));
    inv_hn : forall k, In k h -> In (snd k) nodes_of;
    inv_hnd : NoDup (map snd h);
    inv_emnd : NoDup em;
    inv_emn : incl em nodes_of;
    inv_emc : forall q d, In q em -> In d (edges_of q) -> In d em
  }.

  Lemma edges_of_In n es : In (n, es) g -> edges_of n = es.
  Proof. intros H. unfold edges_of. now rewrite (In_ilookup g n es Hnd H). Qed.

  Lemma parents_In n p : In p (parents g n) <-> In p nodes_of /\ In n (edges_of p).
  Proof.
    unfold parents, nodes_of. rewrite in_map_iff. split.
    - intros ([q es] & E & Hf). cbn [fst] in E. subst q. apply filter_In in Hf as [Hin Hm].
      cbn [snd] in Hm. apply mem_str_In in Hm. split.
      + change p with (fst (p, es)). now apply in_map.
      + now rewrite (edges_of_In _ _ Hin).
    - intros [Hp Hn]. apply in_map_iff in Hp as ([q es] & E & Hin). cbn [fst] in E. subst q.
      exists (p, es). split; [reflexivity|]. apply filter_In. split; [exact Hin|].
      cbn [snd]. apply mem_str_In. now rewrite <- (edges_of_In _ _ Hin).
  Qed.

  Lemma NoDup_map_fst_filter {V} (f : id * V -> bool) (l : list (id * V)) :
    NoDup (map fst l) -> NoDup (map fst (filter f l)).
  Proof.
    induction l as [|a l IH]; cbn [map filter]; [auto|]. intros H. inversion H as [|? ? Ha Hl]; subst.
    destruct (f a); [|auto]. cbn [map]. constructor; [|auto].
    intros Hin. apply Ha. apply in_map_iff in Hin as (b & E & Hb). apply filter_In in Hb as [Hb _].
    rewrite <- E. now apply in_map.
  Qed.

  Lemma parents_nodup n : NoDup (parents g n).
  Proof. unfold parents. now apply NoDup_map_fst_filter. Qed.

  Lemma remove_key_In_iff m h k : NoDup h -> (In k (remove_key m h) <-> In k h /\ k <> m).
  Proof.
    intros Hn. split.
    - intros H. split; [eapply remove_key_in; eauto|]. intros ->. now apply (remove_key_nodup m h).
    - intros [H1 H2]. now apply remove_key_in_neq.
  Qed.

  Lemma NoDup_map_snd {A B} (l : list (A * B)) : NoDup (map snd l) -> NoDup l.
  Proof.
    induction l as [|a l IH]; cbn [map]; intros H; [constructor|]. inversion H as [|? ? Ha Hl]; subst.
    constructor; [|auto]. intros Hin. apply Ha. now apply in_map.
  Qed.

  Lemma remove_key_nodup_snd m h : NoDup (map snd h) -> NoDup (map snd (remove_key m h)).
  Proof.
    induction h as [|a h IH]; cbn [remove_key map]; [auto|]. intros H. inversion H as [|? ? Ha Hl]; subst.
    destruct (tk_eqb m a); [exact Hl|]. cbn [map]. constructor; [|auto].
    intros Hin. apply Ha. apply in_map_iff in Hin as (b & E & Hb). apply remove_key_in in Hb.
    rewrite <- E. now apply in_map.
  Qed.

  (** ** The specification side: the keys of the ready nodes *)
  Lemma ready_keys_ok l em :
    (forall n, In n l -> rdy em n = true -> tk n <> None) ->
    exists ks, ready_keys edges_of tk l em = Some ks
               /\ forall k, In k ks <-> exists n, In n l /\ rdy em n = true /\ tk n = Some k.
  Proof.
    induction l as [|n l IH]; intros H.
    - exists []. split; [reflexivity|]. intros k; split; [intros []|intros (n & [] & _)].
    - destruct IH as (ks & E & Hks); [intros n' Hn'; apply H; now right|].
      cbn [ready_keys]. destruct (rdy em n) eqn:Er.
      + destruct (tk n) as [k|] eqn:Ek; [|exfalso; eapply H; eauto; now left].
        rewrite E. exists (k :: ks). split; [reflexivity|]. intros k'. cbn [In]. rewrite Hks. split.
        * intros [<-|(n' & Hn' & Hr & Hk')]; [exists n; split; [now left|auto]|exists n'; split; [now right|auto]].
        * intros (n' & [<-|Hn'] & Hr & Hk'); [left; congruence|right; exists n'; auto].
      + exists ks. split; [exact E|]. intros k'. rewrite Hks. split.
        * intros (n' & Hn' & Hr & Hk'). exists n'. split; [now right|auto].
        * intros (n' & [<-|Hn'] & Hr & Hk'); [congruence|exists n'; auto].
  Qed.

  Lemma ready_keys_bad l em :
    (exists n, In n l /\ rdy em n = true /\ tk n = None) -> ready_keys edges_of tk l em = None.
  Proof.
    induction l as [|n l IH]; intros (b & Hb & Hr & Hk); [destruct Hb|].
    cbn [ready_keys]. destruct Hb as [<-|Hb].
    - now rewrite Hr, Hk.
    - rewrite IH by (exists b; auto). destruct (rdy em n); [|reflexivity]. destruct (tk n); reflexivity.
  Qed.

  Lemma inv_heap_keys od h em : inv od h em ->
    exists ks, ready_keys edges_of tk nodes_of em = Some ks /\ forall k, In k ks <-> In k h.
  Proof.
    intros I. destruct (ready_keys_ok nodes_of em) as (ks & E & Hks).
    - intros n Hn Hr. apply (inv_rdy _ _ _ I n Hn) in Hr. apply in_map_iff in Hr as (k & Ek & Hk).
      pose proof (inv_key _ _ _ I k Hk) as T. rewrite Ek in T. congruence.
    - exists ks. split; [exact E|]. intros k. rewrite Hks. split.
      + intros (n & Hn & Hr & Hkn). apply (inv_rdy _ _ _ I n Hn) in Hr.
        apply in_map_iff in Hr as (k' & Ek & Hk'). pose proof (inv_key _ _ _ I k' Hk') as T.
        rewrite Ek in T. assert (k = k') by congruence. now subst.
      + intros Hk. exists (snd k). split; [eapply inv_hn; eauto|]. split; [|eapply inv_key; eauto].
        apply (inv_rdy _ _ _ I); [eapply inv_hn; eauto|]. now apply in_map.
  Qed.

  (** ** One iteration preserves the invariant *)
  Lemma out_of_In em n d : In d (out_of em n) <-> In d (edges_of n) /\ ~ In d em.
  Proof. unfold out_of. rewrite filter_In, negb_true_iff, mem_str_false. tauto. Qed.

  Lemma popped_facts od h em m : inv od h em -> In m h ->
    In (snd m) nodes_of /\ ~ In (snd m) em /\ out_of em (snd m) = [] /\ ~ In (snd m) (edges_of (snd m))
    /\ forall p, In p (parents g (snd m)) ->
         In p nodes_of /\ ~ In p em /\ p <> snd m /\ In (snd m) (out_of em p)
         /\ ~ In p (map snd h) /\ out_in od p = out_of em p.
  Proof.
    intros I Hm. set (n := snd m).
    assert (Hn : In n nodes_of) by (eapply inv_hn; eauto).
    assert (Hr : rdy em n = true) by (apply (inv_rdy _ _ _ I n Hn); now apply in_map).
    apply rdy_iff in Hr as [Hne Ho'].
    assert (Hself : ~ In n (edges_of n)).
    { intros Hs. assert (In n (out_of em n)) by (apply out_of_In; auto). rewrite Ho' in H. destruct H. }
    repeat split; auto.
    - apply parents_In in H. tauto.
    - intros Hp. apply parents_In in H as [_ Hd]. apply Hne. eapply inv_emc; eauto.
    - intros ->. apply parents_In in H as [_ Hd]. contradiction.
    - apply parents_In in H as [_ Hd]. apply out_of_In. auto.
    - intros Hp. apply parents_In in H as [Hpn Hd].
      apply (inv_rdy _ _ _ I p Hpn) in Hp. apply rdy_iff in Hp as [_ Hp].
      assert (In n (out_of em p)) by (apply out_of_In; auto). rewrite Hp in H. destruct H.
    - apply parents_In in H as [Hpn _]. unfold out_in. now rewrite (inv_out _ _ _ I p Hpn).
  Qed.

  Lemma step_ok od h em m ps :
    inv od h em -> In m h -> Permutation ps (parents g (snd m)) ->
    (forall p, In p ps -> remove_id (snd m) (out_in od p) = [] -> tk p <> None) ->
    exists od' h', fold_left (relax key_fn (snd m)) ps (Ok (od, remove_key m h)) = Ok (od', h')
                   /\ inv od' h' (em ++ [snd m]).
  Proof.
    intros I Hm Hperm Hk. set (n := snd m) in *.
    destruct (popped_facts _ _ _ _ I Hm) as (Hn & Hne & Hout & Hself & Hpar). fold n in Hn, Hne, Hout, Hself, Hpar.
    assert (Hps : forall p, In p ps <-> In p (parents g n)).
    { intros p. split; apply Permutation_in; [exact Hperm|now apply Permutation_sym]. }
    assert (Hndps : NoDup ps).
    { eapply Permutation_NoDup; [apply Permutation_sym; exact Hperm|apply parents_nodup]. }
    assert (Hhnd : NoDup h) by (apply NoDup_map_snd; eapply inv_hnd; eauto).
    destruct (relax_fold_ok n ps od (remove_key m h)) as (od' & h' & Hf & Hfst & Hl & Hh' & Hnd'); auto.
    - intros p Hp. rewrite (inv_fst _ _ _ I). apply Hpar. now apply Hps.
    - apply remove_key_nodup_snd. eapply inv_hnd; eauto.
    - intros p Hp Hin. apply Hps in Hp. destruct (Hpar p Hp) as (_ & _ & _ & _ & Hnh & _). apply Hnh.
      apply in_map_iff in Hin as (k & Ek & Hk'). apply remove_key_in in Hk'. rewrite <- Ek. now apply in_map.
    - exists od', h'. split; [exact Hf|].
      assert (Hnew : forall k, In k h' <-> (In k h /\ k <> m)
                        \/ exists p, In p (parents g n) /\ out_of (em ++ [n]) p = [] /\ tk p = Some k).
      { intros k. rewrite Hh', (remove_key_In_iff m h k Hhnd). split.
        - intros [H|(p & Hp & Hr & Hkp)]; [now left|]. right. exists p. apply Hps in Hp.
          destruct (Hpar p Hp) as (_ & _ & _ & _ & _ & Ho'). rewrite out_of_snoc, <- Ho'. auto.
        - intros [H|(p & Hp & Hr & Hkp)]; [now left|]. right. exists p.
          destruct (Hpar p Hp) as (_ & _ & _ & _ & _ & Ho'). rewrite out_of_snoc, <- Ho' in Hr.
          apply Hps in Hp. auto. }
      constructor.
      + rewrite Hfst. eapply inv_fst; eauto.
      + intros q Hq. rewrite Hl, (inv_out _ _ _ I q Hq), out_of_snoc. cbn [option_map].
        destruct (mem_str q ps) eqn:Em; [reflexivity|].
        f_equal. symmetry. apply remove_id_notin. intros Hin. apply out_of_In in Hin as [Hd _].
        apply mem_str_false in Em. apply Em. apply Hps. apply parents_In. auto.
      + intros k Hk'. apply Hnew in Hk' as [[Hk' _]|(p & _ & _ & Hkp)].
        * eapply inv_key; eauto.
        * now rewrite (tk_snd _ _ Hkp).
      + intros q Hq. rewrite in_map_iff. split.
        * intros Hr. apply rdy_iff in Hr as [Hqe Hqo].
          assert (Hqn : q <> n) by (intros ->; apply Hqe; apply in_or_app; right; now left).
          assert (Hqe' : ~ In q em) by (intros H; apply Hqe; apply in_or_app; now left).
          destruct (in_dec (list_eq_dec N.eq_dec) q (parents g n)) as [Hp|Hp].
          -- assert (Hkq : tk q <> None).
             { apply Hk; [now apply Hps|]. destruct (Hpar q Hp) as (_ & _ & _ & _ & _ & Ho').
               now rewrite Ho', <- out_of_snoc. }
             destruct (tk q) as [k|] eqn:Ek; [|congruence]. exists k. split; [eapply tk_snd; eauto|].
             apply Hnew. right. exists q. auto.
          -- assert (Hsame : out_of em q = []).
             { rewrite out_of_snoc in Hqo. rewrite remove_id_notin in Hqo; [exact Hqo|].
               intros Hin. apply out_of_In in Hin as [Hd _]. apply Hp. apply parents_In. auto. }
             assert (Hr : rdy em q = true) by (apply rdy_iff; auto).
             apply (inv_rdy _ _ _ I q Hq) in Hr. apply in_map_iff in Hr as (k & Ek & Hk').
             exists k. split; [exact Ek|]. apply Hnew. left. split; [exact Hk'|].
             intros ->. apply Hqn. symmetry. exact Ek.
        * intros (k & Ek & Hk'). apply Hnew in Hk' as [[Hk' Hkm]|(p & Hp & Hr & Hkp)].
          -- assert (Hr : rdy em q = true).
             { apply (inv_rdy _ _ _ I q Hq). rewrite <- Ek. now apply in_map. }
             apply rdy_iff in Hr as [Hqe Hqo]. apply rdy_iff.
             assert (Hqn : q <> n).
             { intros E. apply Hkm. pose proof (inv_key _ _ _ I k Hk') as T1.
               pose proof (inv_key _ _ _ I m Hm) as T2. fold n in T2. rewrite Ek, E in T1. congruence. }
             split.
             ++ intros Hin. apply in_app_or in Hin as [H|[H|[]]]; [contradiction|congruence].
             ++ rewrite out_of_snoc, Hqo. reflexivity.
          -- rewrite (tk_snd _ _ Hkp) in Ek. subst p. apply rdy_iff. split; [|exact Hr].
             destruct (Hpar q Hp) as (_ & Hqe & Hqn & _). intros Hin.
             apply in_app_or in Hin as [H|[H|[]]]; [contradiction|congruence].
      + intros k Hk'. apply Hnew in Hk' as [[Hk' _]|(p & Hp & _ & Hkp)].
        * eapply inv_hn; eauto.
        * rewrite (tk_snd _ _ Hkp). apply Hpar. exact Hp.
      + exact Hnd'.
      + apply NoDup_app_snoc; [eapply inv_emnd; eauto|exact Hne].
      + intros q Hq. apply in_app_or in Hq as [H|[<-|[]]]; [eapply inv_emn; eauto|exact Hn].
      + intros q d Hq Hd. apply in_or_app. apply in_app_or in Hq as [H|[<-|[]]].
        * left. eapply inv_emc; eauto.
        * left. destruct (in_dec (list_eq_dec N.eq_dec) d em) as [Hi|Hi]; [exact Hi|].
          assert (In d (out_of em n)) by (apply out_of_In; auto). rewrite Hout in H. destruct H.
  Qed.

  Lemma step_bad od h em m ps :
    inv od h em -> In m h -> Permutation ps (parents g (snd m)) ->
    (exists p, In p ps /\ remove_id (snd m) (out_in od p) = [] /\ tk p = None) ->
    fold_left (relax key_fn (snd m)) ps (Ok (od, remove_key m h)) = Err 0
    /\ exists p, In p nodes_of /\ rdy (em ++ [snd m]) p = true /\ tk p = None.
  Proof.
    intros I Hm Hperm (b & Hb & Hr & Hkb). set (n := snd m) in *.
    destruct (popped_facts _ _ _ _ I Hm) as (Hn & Hne & Hout & Hself & Hpar). fold n in Hn, Hne, Hout, Hself, Hpar.
    assert (Hps : forall p, In p ps <-> In p (parents g n)).
    { intros p. split; apply Permutation_in; [exact Hperm|now apply Permutation_sym]. }
    assert (Hndps : NoDup ps).
    { eapply Permutation_NoDup; [apply Permutation_sym; exact Hperm|apply parents_nodup]. }
    split.
    - apply relax_fold_err; auto.
      + intros p Hp. rewrite (inv_fst _ _ _ I). apply Hpar. now apply Hps.
      + exists b. auto.
    - exists b. apply Hps in Hb. destruct (Hpar b Hb) as (Hbn & Hbe & Hbne & _ & _ & Ho').
      split; [exact Hbn|]. split; [|exact Hkb]. apply rdy_iff. split.
      + intros Hin. apply in_app_or in Hin as [H|[H|[]]]; [contradiction|congruence].
      + rewrite out_of_snoc, <- Ho'. exact Hr.
  Qed.

  (** ** The loop computes the specification's sequence *)
  Lemma bad_dec n od ps :
    (exists p, In p ps /\ remove_id n (out_in od p) = [] /\ tk p = None)
    \/ (forall p, In p ps -> remove_id n (out_in od p) = [] -> tk p <> None).
  Proof.
    destruct (existsb (fun p => is_nil (remove_id n (out_in od p)) && negb (is_some (tk p))) ps) eqn:E.
    - left. apply existsb_exists in E as (p & Hp & Hc). apply andb_true_iff in Hc as [H1 H2].
      exists p. split; [exact Hp|]. split; [now apply is_nil_true|]. destruct (tk p); [discriminate|reflexivity].
    - right. intros p Hp Hr Hk. assert (existsb (fun p => is_nil (remove_id n (out_in od p)) && negb (is_some (tk p))) ps = true).
      { apply existsb_exists. exists p. split; [exact Hp|]. rewrite Hr, Hk. reflexivity. }
      congruence.
  Qed.

  Lemma kahn_loop_S f od h acc :
    kahn_loop o key_fn (S f) g od h acc =
    match pop_min h with
    | None => Ok (rev acc)
    | Some ((_, _, node), heap') =>
        match fold_left (relax key_fn node) (o s_parents _ (parents g node)) (Ok (od, heap')) with
        | Ok (outdeg', heap'') => kahn_loop o key_fn f g outdeg' heap'' (node :: acc)
        | Err e => Err e
        | Panic s => Panic s
        end
    end.
  Proof. reflexivity. Qed.

  Lemma emit_S f em :
    emit nodes_of edges_of tk (S f) em =
    match ready_keys edges_of tk nodes_of em with
    | None => None
    | Some ks =>
        match least ks with
        | None => Some []
        | Some (_, _, n) =>
            match emit nodes_of edges_of tk f (em ++ [n]) with
            | Some r => Some (n :: r)
            | None => None
            end
        end
    end.
  Proof. reflexivity. Qed.

  Lemma kahn_loop_spec : forall f od h acc,
    inv od h (rev acc) -> (f + List.length acc = List.length nodes_of)%nat ->
    kahn_loop o key_fn (S f) g od h acc =
      match emit nodes_of edges_of tk f (rev acc) with
      | Some r => Ok (rev acc ++ r)
      | None => Err 0
      end.
  Proof.
    induction f as [|f IH]; intros od h acc I Hlen.
    - (* every node has been emitted *)
      assert (Hall : incl nodes_of (rev acc)).
      { apply NoDup_length_incl; [eapply inv_emnd; eauto| |eapply inv_emn; eauto].
        rewrite rev_length. lia. }
      assert (Hh : h = []).
      { destruct h as [|k h]; [reflexivity|exfalso].
        assert (Hk : In k (k :: h)) by now left.
        pose proof (inv_hn _ _ _ I k Hk) as Hkn.
        assert (Hr : rdy (rev acc) (snd k) = true) by (apply (inv_rdy _ _ _ I _ Hkn); now apply in_map).
        apply rdy_iff in Hr as [Hr _]. apply Hr. now apply Hall. }
      subst h. cbn [kahn_loop pop_min emit]. now rewrite app_nil_r.
    - rewrite kahn_loop_S, emit_S.
      destruct (inv_heap_keys _ _ _ I) as (ks & Eks & Hks). rewrite Eks.
      destruct (pop_min h) as [[m h']|] eqn:Ep.
      + apply pop_min_spec in Ep as [Hleast ->].
        assert (Hm : In m h) by apply Hleast.
        assert (Hl2 : is_least ks m) by (eapply is_least_equiv; [|exact Hleast]; intros x; symmetry; apply Hks).
        destruct (least ks) as [m'|] eqn:El; [|apply least_none in El; subst ks; destruct Hl2 as [[] _]].
        apply least_is_least in El. assert (m' = m) by (eapply is_least_unique; eauto). subst m'.
        destruct m as [[p t] n].
        set (ps := o s_parents id (parents g n)).
        assert (Hperm : Permutation ps (parents g (snd (p, t, n)))) by apply Ho.
        destruct (bad_dec n od ps) as [Hbad|Hgood].
        * destruct (step_bad _ _ _ _ _ I Hm Hperm Hbad) as (Hf & b & Hbn & Hbr & Hbk).
          cbn [snd] in Hf, Hbr. rewrite Hf.
          (* the specification also fails at the next step, and there is a next step *)
          assert (Hbe : ~ In b (rev acc ++ [n])) by (apply rdy_iff in Hbr; tauto).
          destruct (popped_facts _ _ _ _ I Hm) as (Hn & Hne & _). cbn [snd] in Hn, Hne.
          assert (Hlt : (List.length (b :: rev acc ++ [n]) <= List.length nodes_of)%nat).
          { apply NoDup_incl_length.
            - constructor; [exact Hbe|]. apply NoDup_app_snoc; [eapply inv_emnd; eauto|exact Hne].
            - intros x [<-|Hx]; [exact Hbn|]. apply in_app_or in Hx as [H|[<-|[]]]; [eapply inv_emn; eauto|exact Hn]. }
          cbn [List.length] in Hlt. rewrite app_length, rev_length in Hlt. cbn [List.length] in Hlt.
          destruct f as [|f]; [lia|]. rewrite emit_S.
          rewrite (ready_keys_bad nodes_of (rev acc ++ [n])); [reflexivity|]. exists b. auto.
        * destruct (step_ok _ _ _ _ _ I Hm Hperm Hgood) as (od' & h'' & Hf & I').
          cbn [snd] in Hf, I'. rewrite Hf.
          change (rev acc ++ [n]) with (rev (n :: acc)) in I'.
          rewrite (IH od' h'' (n :: acc) I') by (cbn [List.length]; lia).
          change (rev (n :: acc)) with (rev acc ++ [n]).
          destruct (emit nodes_of edges_of tk f (rev acc ++ [n])); [|reflexivity].
          now rewrite <- app_assoc.
      + apply pop_min_none in Ep. subst h.
        destruct ks as [|k ks]; [cbn [least]; now rewrite app_nil_r|].
        exfalso. apply (Hks k). now left.
  Qed.

  (** ** Initialisation *)
  Lemma init_heap_ok : forall l acc,
    (forall n, In (n, []) l -> tk n <> None) ->
    exists h, init_heap key_fn l acc = Some h
      /\ (forall k, In k h <-> In k acc \/ exists n, In (n, []) l /\ tk n = Some k)
      /\ (NoDup (map snd acc) -> NoDup (map fst l) -> (forall n, In n (map fst l) -> ~ In n (map snd acc)) ->
          NoDup (map snd h)).
  Proof.
    induction l as [|[n es] l IH]; intros acc Hk.
    - exists acc. split; [reflexivity|]. split; [|auto]. intros k. split; [auto|intros [H|(n & [] & _)]; exact H].
    - cbn [init_heap]. destruct es as [|e es]; cbn [is_nil].
      + destruct (tk n) as [k|] eqn:Ek; [|exfalso; eapply Hk; eauto; now left].
        destruct (IH (k :: acc)) as (h & E & Hh & Hnd'); [intros n' Hn'; apply Hk; now right|].
        exists h. split; [exact E|]. split.
        * intros k'. rewrite Hh. cbn [In]. split.
          -- intros [[<-|H]|(n' & Hn' & Hk')]; [right; exists n; split; [now left|exact Ek]|now left|].
             right. exists n'. split; [now right|exact Hk'].
          -- intros [H|(n' & [E'|Hn'] & Hk')]; [left; now right| |right; exists n'; auto].
             inversion E'; subst. left. left. congruence.
        * intros Ha Hl Hd. cbn [map fst] in Hl. inversion Hl as [|? ? Hn Hl']; subst. apply Hnd'.
          -- cbn [map]. constructor; [|exact Ha]. rewrite (tk_snd _ _ Ek). apply Hd. now left.
          -- exact Hl'.
          -- intros n' Hn'. cbn [map In]. rewrite (tk_snd _ _ Ek). intros [E'|H'].
             ++ subst. contradiction.
             ++ revert H'. apply Hd. now right.
      + destruct (IH acc) as (h & E & Hh & Hnd').
        { intros n' Hn'. apply Hk. now right. }
        exists h. split; [exact E|]. split.
        * intros k'. rewrite Hh. split.
          -- intros [H|(n' & Hn' & Hk')]; [now left|right; exists n'; split; [now right|exact Hk']].
          -- intros [H|(n' & [E'|Hn'] & Hk')]; [now left|discriminate E'|right; exists n'; auto].
        * intros Ha Hl Hd. cbn [map fst] in Hl. inversion Hl; subst. apply Hnd'; auto.
          intros n' Hn'. apply Hd. now right.
  Qed.

  Lemma init_heap_bad : forall l acc,
    (exists n, In (n, []) l /\ tk n = None) -> init_heap key_fn l acc = None.
  Proof.
    induction l as [|[n es] l IH]; intros acc (b & Hb & Hk); [destruct Hb|].
    cbn [init_heap]. destruct Hb as [E|Hb].
    - inversion E; subst. cbn [is_nil]. now rewrite Hk.
    - destruct (is_nil es); [|apply IH; eauto]. destruct (tk n); [apply IH; eauto|reflexivity].
  Qed.

  Lemma edges_nil_iff n : In n nodes_of -> (edges_of n = [] <-> In (n, []) g).
  Proof.
    intros Hn. split.
    - intros E. apply in_map_iff in Hn as ([q es] & Eq & Hin). cbn [fst] in Eq. subst q.
      rewrite (edges_of_In _ _ Hin) in E. now subst.
    - intros H. now apply edges_of_In.
  Qed.

  Lemma rdy_nil n : rdy [] n = true <-> edges_of n = [].
  Proof.
    rewrite rdy_iff. unfold out_of. split.
    - intros [_ H]. rewrite <- H. symmetry. induction (edges_of n) as [|d l IH]; cbn; [reflexivity|now f_equal].
    - intros ->. split; [intros []|reflexivity].
  Qed.

  Theorem kahn_eq_spec_gen :
    lexico_topo_sort o key_fn g =
      match spec_sort nodes_of edges_of tk with Some l => Ok l | None => Err 0 end.
  Proof.
    unfold lexico_topo_sort, spec_sort.
    set (l := o s_graph _ g).
    assert (Hperm : Permutation l g) by apply Ho.
    assert (Hl : forall x, In x l <-> In x g).
    { intros x; split; apply Permutation_in; [exact Hperm|now apply Permutation_sym]. }
    destruct (existsb (fun ne => is_nil (snd ne) && negb (is_some (tk (fst ne)))) g) eqn:Eb.
    - apply existsb_exists in Eb as ([n es] & Hin & Hc). cbn [fst snd] in Hc.
      apply andb_true_iff in Hc as [H1 H2]. apply is_nil_true in H1. subst es.
      assert (Hk : tk n = None) by (destruct (tk n); [discriminate|reflexivity]).
      rewrite init_heap_bad by (exists n; split; [now apply Hl|exact Hk]).
      assert (Hn : In n nodes_of) by (change n with (fst (n, @nil id)); now apply in_map).
      destruct nodes_of as [|x r] eqn:En; [destruct Hn|]. cbn [List.length emit]. rewrite <- En.
      rewrite (ready_keys_bad nodes_of []); [reflexivity|]. exists n. rewrite En. split; [exact Hn|].
      split; [|exact Hk]. apply rdy_nil. now apply edges_of_In.
    - assert (Hgood : forall n, In (n, []) l -> tk n <> None).
      { intros n Hn Hk. apply Hl in Hn.
        assert (existsb (fun ne => is_nil (snd ne) && negb (is_some (tk (fst ne)))) g = true).
        { apply existsb_exists. exists (n, []). split; [exact Hn|]. cbn [fst snd is_nil]. now rewrite Hk. }
        congruence. }
      destruct (init_heap_ok l [] Hgood) as (h & E & Hh & Hnd'). rewrite E.
      assert (I : inv g h (rev [])).
      { cbn [rev]. constructor.
        - reflexivity.
        - intros n Hn. apply in_map_iff in Hn as ([q es] & Eq & Hin). cbn [fst] in Eq. subst q.
          rewrite (In_ilookup g n es Hnd Hin). f_equal. unfold out_of. rewrite (edges_of_In _ _ Hin).
          clear. induction es as [|d es IH]; cbn; [reflexivity|now f_equal].
        - intros k Hk. apply Hh in Hk as [[]|(n & Hn & Hk)]. now rewrite (tk_snd _ _ Hk).
        - intros n Hn. rewrite rdy_nil, (edges_nil_iff n Hn), in_map_iff. split.
          + intros Hin. destruct (tk n) as [k|] eqn:Ek; [|exfalso; apply (Hgood n); [now apply Hl|exact Ek]].
            exists k. split; [eapply tk_snd; eauto|]. apply Hh. right. exists n. split; [now apply Hl|exact Ek].
          + intros (k & Ek & Hk). apply Hh in Hk as [[]|(n' & Hn' & Hk)].
            rewrite (tk_snd _ _ Hk) in Ek. subst n'. now apply Hl.
        - intros k Hk. apply Hh in Hk as [[]|(n & Hn & Hk)]. rewrite (tk_snd _ _ Hk).
          apply Hl in Hn. change n with (fst (n, @nil id)). now apply in_map.
        - apply Hnd'; [constructor| |intros n _ []].
          eapply Permutation_NoDup; [|exact Hnd]. apply Permutation_map. now apply Permutation_sym.
        - constructor.
        - intros x [].
        - intros q d []. }
      rewrite (kahn_loop_spec (List.length g) g h [] I).
      + cbn [rev app]. unfold nodes_of. now rewrite map_length.
      + unfold nodes_of. rewrite map_length. cbn [List.length]. lia.
  Qed.
End Kahn.

(** * Properties of the specification's sequence *)
Section SpecSortProps.
  Variable nodes : list id.
  Variable edges : id -> list id.
  Variable tk : id -> option tkey.

  Notation rdy := (ready edges).

  (** [n] is emitted after [pre]: it is a ready node and its key is the least among the keys
      of the ready nodes.  (Ready = not yet emitted, all dependencies emitted.) *)
  Definition least_ready (pre : list id) (n : id) : Prop :=
    In n nodes /\ rdy pre n = true /\
    exists k, tk n = Some k /\
      forall n' k', In n' nodes -> rdy pre n' = true -> tk n' = Some k' -> k' = k \/ tk_ltb k k' = true.

  Definition emits_least (start l : list id) : Prop :=
    forall pre n post, l = pre ++ n :: post -> least_ready (start ++ pre) n.

  Lemma ready_keys_In l em ks :
    ready_keys edges tk l em = Some ks ->
    forall k, In k ks <-> exists n, In n l /\ rdy em n = true /\ tk n = Some k.
  Proof.
    revert ks; induction l as [|n l IH]; intros ks; cbn [ready_keys].
    - intros [= <-] k. split; [intros []|intros (n & [] & _)].
    - destruct (rdy em n) eqn:Er.
      + destruct (tk n) as [k0|] eqn:Ek; [|discriminate].
        destruct (ready_keys edges tk l em) as [r|]; [|discriminate]. intros [= <-] k.
        cbn [In]. rewrite (IH r eq_refl). split.
        * intros [<-|(n' & Hn' & Hr & Hk')]; [exists n; split; [now left|auto]|exists n'; split; [now right|auto]].
        * intros (n' & [<-|Hn'] & Hr & Hk'); [left; congruence|right; exists n'; auto].
      + intros E k. rewrite (IH ks E). split.
        * intros (n' & Hn' & Hr & Hk'). exists n'. split; [now right|auto].
        * intros (n' & [<-|Hn'] & Hr & Hk'); [congruence|exists n'; auto].
  Qed.

  Lemma tk_id_hyp_snd : (forall n k, tk n = Some k -> snd k = n) ->
    forall l em ks k, ready_keys edges tk l em = Some ks -> In k ks -> In (snd k) l /\ rdy em (snd k) = true /\ tk (snd k) = Some k.
  Proof.
    intros Hid l em ks k E Hk. apply (ready_keys_In _ _ _ E) in Hk as (n & Hn & Hr & Hkn).
    rewrite (Hid _ _ Hkn). auto.
  Qed.

  Lemma ready_keys_total l em : (forall n, In n l -> tk n <> None) -> ready_keys edges tk l em <> None.
  Proof.
    induction l as [|n l IH]; cbn [ready_keys]; intros Hk; [discriminate|].
    assert (IH' : ready_keys edges tk l em <> None) by (apply IH; intros n' Hn'; apply Hk; now right).
    destruct (rdy em n); [|exact IH'].
    destruct (tk n) eqn:Ek; [|exfalso; eapply Hk; eauto; now left].
    destruct (ready_keys edges tk l em); [discriminate|congruence].
  Qed.

  Hypothesis Hid : forall n k, tk n = Some k -> snd k = n.

  Lemma emit_emits_least : forall f em l, emit nodes edges tk f em = Some l -> emits_least em l.
  Proof.
    induction f as [|f IH]; intros em l; cbn [emit].
    - intros [= <-] pre n post E. destruct pre; discriminate.
    - destruct (ready_keys edges tk nodes em) as [ks|] eqn:Eks; [|discriminate].
      destruct (least ks) as [[[p t] n]|] eqn:El.
      + destruct (emit nodes edges tk f (em ++ [n])) as [r|] eqn:Er; [|discriminate].
        intros [= <-] pre n' post E. destruct pre as [|x pre]; cbn [app] in E.
        * inversion E; subst n' post. rewrite app_nil_r.
          apply least_is_least in El as [Hin Hl].
          destruct (tk_id_hyp_snd Hid _ _ _ _ Eks Hin) as (Hn & Hr & Hk). cbn [snd] in Hn, Hr, Hk.
          split; [exact Hn|]. split; [exact Hr|]. exists (p, t, n). split; [exact Hk|].
          intros n2 k2 Hn2 Hr2 Hk2. apply Hl. apply (ready_keys_In _ _ _ Eks). exists n2. auto.
        * inversion E; subst x r. specialize (IH _ _ Er pre n' post eq_refl).
          now rewrite <- app_assoc in IH.
      + intros [= <-] pre n post E. destruct pre; discriminate.
  Qed.

  Lemma least_ready_facts pre n : least_ready pre n ->
    In n nodes /\ ~ In n pre /\ forall d, In d (edges n) -> In d pre.
  Proof.
    intros (Hn & Hr & _). unfold ready in Hr. apply andb_true_iff in Hr as [H1 H2].
    apply negb_true_iff, mem_str_false in H1. rewrite forallb_forall in H2.
    split; [exact Hn|]. split; [exact H1|]. intros d Hd. apply mem_str_In. now apply H2.
  Qed.

  (** Consequences: no node twice, only nodes, dependencies first. *)
  Lemma emits_least_nodup l : emits_least [] l -> NoDup l /\ incl l nodes.
  Proof.
    intros H. assert (G : forall pre post, l = pre ++ post -> NoDup post /\ incl post nodes
                                                              /\ forall x, In x post -> ~ In x pre).
    { intros pre post; revert pre; induction post as [|x post IH]; intros pre E.
      - split; [constructor|]. split; intros y [].
      - destruct (least_ready_facts _ _ (H pre x post E)) as (Hx & Hnp & _). cbn [app] in Hnp.
        destruct (IH (pre ++ [x])) as (Hnd & Hinc & Hdis); [now rewrite <- app_assoc|].
        split; [|split].
        + constructor; [|exact Hnd]. intros Hin. apply (Hdis x Hin). apply in_or_app. right. now left.
        + intros y [<-|Hy]; auto.
        + intros y [<-|Hy]; [exact Hnp|]. intros Hp. apply (Hdis y Hy). apply in_or_app. now left. }
    destruct (G [] l eq_refl) as (H1 & H2 & _). auto.
  Qed.

  Lemma emits_least_deps_first l pre n post :
    emits_least [] l -> l = pre ++ n :: post -> forall d, In d (edges n) -> In d pre.
  Proof. intros H E. exact (proj2 (proj2 (least_ready_facts _ _ (H pre n post E)))). Qed.

  (** A node with a dependency outside the graph is never emitted. *)
  Lemma emits_least_closed l n d :
    emits_least [] l -> In n l -> In d (edges n) -> In d nodes.
  Proof.
    intros H Hn Hd. apply in_split in Hn as (pre & post & E).
    pose proof (emits_least_deps_first _ _ _ _ H E d Hd) as Hp.
    destruct (emits_least_nodup _ H) as [_ Hinc]. apply Hinc. rewrite E. apply in_or_app. now left.
  Qed.

  (** ** Completeness on closed acyclic graphs *)
  Hypothesis Hnd : NoDup nodes.
  Hypothesis Hkeys : forall n, In n nodes -> tk n <> None.
  Hypothesis Hclosed : forall n d, In n nodes -> In d (edges n) -> In d nodes.
  Variable rank : id -> nat.
  Hypothesis Hacyclic : forall n d, In n nodes -> In d (edges n) -> (rank d < rank n)%nat.

  Lemma min_rank (l : list id) : l <> [] -> exists x, In x l /\ forall y, In y l -> (rank x <= rank y)%nat.
  Proof.
    induction l as [|a l IH]; [congruence|]. intros _. destruct l as [|b l].
    - exists a. split; [now left|]. intros y [<-|[]]. lia.
    - destruct IH as (x & Hx & Hmin); [discriminate|].
      destruct (Nat.le_gt_cases (rank a) (rank x)).
      + exists a. split; [now left|]. intros y [<-|Hy]; [lia|]. specialize (Hmin y Hy). lia.
      + exists x. split; [now right|]. intros y [<-|Hy]; [lia|auto].
  Qed.

  Lemma emit_complete : forall f em,
    NoDup em -> incl em nodes -> (forall q d, In q em -> In d (edges q) -> In d em) ->
    (f + List.length em = List.length nodes)%nat ->
    exists r, emit nodes edges tk f em = Some r /\ Permutation (em ++ r) nodes.
  Proof.
    induction f as [|f IH]; intros em Hem Hinc Hcl Hlen.
    - exists []. split; [reflexivity|]. rewrite app_nil_r.
      apply NoDup_Permutation_bis; auto. lia.
    - cbn [emit].
      destruct (ready_keys edges tk nodes em) as [ks|] eqn:Eks.
      2:{ exfalso. revert Eks. apply ready_keys_total. exact Hkeys. }
      (* some node is not emitted yet; one of minimal rank is ready *)
      set (rest := filter (fun n => negb (mem_str n em)) nodes).
      assert (Hrest : rest <> []).
      { intros E. assert (incl nodes em).
        { intros x Hx. destruct (mem_str x em) eqn:Em; [now apply mem_str_In|].
          assert (In x rest) by (apply filter_In; split; [exact Hx|now rewrite Em]). rewrite E in H. destruct H. }
        pose proof (NoDup_incl_length Hnd H). lia. }
      destruct (min_rank rest Hrest) as (x & Hx & Hmin).
      apply filter_In in Hx as [Hxn Hxe]. apply negb_true_iff, mem_str_false in Hxe.
      assert (Hxr : rdy em x = true).
      { unfold ready. apply andb_true_iff. split; [now apply negb_true_iff, mem_str_false|].
        apply forallb_forall. intros d Hd. apply mem_str_In.
        destruct (mem_str d em) eqn:Em; [now apply mem_str_In|exfalso].
        assert (In d rest) by (apply filter_In; split; [eapply Hclosed; eauto|now rewrite Em]).
        specialize (Hmin d H). specialize (Hacyclic x d Hxn Hd). lia. }
      destruct (tk x) as [kx|] eqn:Ekx; [|exfalso; eapply Hkeys; eauto].
      assert (Hkx : In kx ks) by (apply (ready_keys_In _ _ _ Eks); exists x; auto).
      destruct (least ks) as [[[p t] n]|] eqn:El; [|apply least_none in El; subst ks; destruct Hkx].
      apply least_is_least in El as [Hin _].
      destruct (tk_id_hyp_snd Hid _ _ _ _ Eks Hin) as (Hn & Hr & Hk). cbn [snd] in Hn, Hr, Hk.
      unfold ready in Hr. apply andb_true_iff in Hr as [Hr1 Hr2].
      apply negb_true_iff, mem_str_false in Hr1. rewrite forallb_forall in Hr2.
      destruct (IH (em ++ [n])) as (r & Er & Hperm).
      + now apply NoDup_app_snoc.
      + intros y Hy. apply in_app_or in Hy as [H|[<-|[]]]; auto.
      + intros q d Hq Hd. apply in_or_app. apply in_app_or in Hq as [H|[<-|[]]].
        * left. eapply Hcl; eauto.
        * left. apply mem_str_In. now apply Hr2.
      + rewrite app_length. cbn [List.length]. lia.
      + rewrite Er. exists (n :: r). split; [reflexivity|]. now rewrite <- app_assoc in Hperm.
  Qed.

  Lemma spec_sort_complete :
    exists l, spec_sort nodes edges tk = Some l /\ Permutation l nodes /\ emits_least [] l.
  Proof.
    destruct (emit_complete (List.length nodes) []) as (r & E & Hp); [constructor|intros x []|intros q d []|cbn; lia|].
    exists r. split; [exact E|]. split; [exact Hp|]. eapply emit_emits_least; eauto.
  Qed.
End SpecSortProps.

(** * Independence of the enumeration of the graph *)
Lemma forallb_equiv {A} (f : A -> bool) l l' : (forall x, In x l <-> In x l') -> forallb f l = forallb f l'.
Proof.
  intros H. destruct (forallb f l) eqn:E1, (forallb f l') eqn:E2; try reflexivity.
  - rewrite forallb_forall in E1. assert (forallb f l' = true) by (apply forallb_forall; intros x Hx; apply E1; now apply H). congruence.
  - rewrite forallb_forall in E2. assert (forallb f l = true) by (apply forallb_forall; intros x Hx; apply E2; now apply H). congruence.
Qed.

Lemma ready_ext edges edges' em n :
  (forall d, In d (edges n) <-> In d (edges' n)) -> ready edges em n = ready edges' em n.
Proof. intros H. unfold ready. f_equal. now apply forallb_equiv. Qed.

Lemma ready_keys_ext edges edges' tk l em :
  (forall n d, In n l -> (In d (edges n) <-> In d (edges' n))) ->
  ready_keys edges tk l em = ready_keys edges' tk l em.
Proof.
  intros H. induction l as [|n l IH]; cbn [ready_keys]; [reflexivity|].
  rewrite (ready_ext edges edges' em n (fun d => H n d (or_introl eq_refl))), IH; [reflexivity|].
  intros n' d Hn'. apply H. now right.
Qed.

Lemma ready_keys_perm edges tk em l l' : Permutation l l' ->
  match ready_keys edges tk l em, ready_keys edges tk l' em with
  | Some a, Some b => Permutation a b
  | None, None => True
  | _, _ => False
  end.
Proof.
  induction 1 as [|x l l' Hp IH|x y l|l l' l'' H1 IH1 H2 IH2]; cbn [ready_keys].
  - constructor.
  - destruct (ready edges em x); [|exact IH]. destruct (tk x); [|destruct (ready_keys edges tk l em), (ready_keys edges tk l' em); auto].
    destruct (ready_keys edges tk l em), (ready_keys edges tk l' em); auto.
  - destruct (ready edges em x), (ready edges em y); destruct (tk x), (tk y);
      destruct (ready_keys edges tk l em); auto; try apply Permutation_refl. apply perm_swap.
  - destruct (ready_keys edges tk l em), (ready_keys edges tk l' em), (ready_keys edges tk l'' em);
      try tauto. eapply Permutation_trans; eauto.
Qed.

Lemma least_perm a b : Permutation a b -> least a = least b.
Proof.
  intros Hp. destruct (least a) as [m|] eqn:Ea.
  - apply least_is_least in Ea.
    assert (Hb : is_least b m).
    { eapply is_least_equiv; [|exact Ea]. intros x; split; apply Permutation_in; [exact Hp|now apply Permutation_sym]. }
    destruct (least b) as [m'|] eqn:Eb.
    + apply least_is_least in Eb. f_equal. eapply is_least_unique; eauto.
    + apply least_none in Eb. subst b. destruct Hb as [[] _].
  - apply least_none in Ea. subst a. apply Permutation_nil in Hp. now subst b.
Qed.

Lemma emit_ext nodes nodes' edges edges' tk :
  Permutation nodes nodes' -> (forall n d, In n nodes -> (In d (edges n) <-> In d (edges' n))) ->
  forall f em, emit nodes edges tk f em = emit nodes' edges' tk f em.
Proof.
  intros Hp He. induction f as [|f IH]; intros em; cbn [emit]; [reflexivity|].
  rewrite <- (ready_keys_ext edges edges' tk nodes' em).
  2:{ intros n d Hn. apply He. eapply Permutation_in; [apply Permutation_sym; exact Hp|exact Hn]. }
  pose proof (ready_keys_perm edges tk em _ _ Hp) as H.
  destruct (ready_keys edges tk nodes em) as [a|], (ready_keys edges tk nodes' em) as [b|]; try tauto.
  rewrite (least_perm a b H). destruct (least b) as [[[p t] n]|]; [|reflexivity]. now rewrite IH.
Qed.

Lemma spec_sort_ext nodes nodes' edges edges' tk :
  Permutation nodes nodes' -> (forall n d, In n nodes -> (In d (edges n) <-> In d (edges' n))) ->
  spec_sort nodes edges tk = spec_sort nodes' edges' tk.
Proof.
  intros Hp He. unfold spec_sort. rewrite (Permutation_length Hp). now apply emit_ext.
Qed.

Lemma ready_keys_keys_agree edges tk tk' l em :
  (forall n, In n l -> tk n = tk' n) -> ready_keys edges tk l em = ready_keys edges tk' l em.
Proof.
  intros H. induction l as [|n l IH]; cbn [ready_keys]; [reflexivity|].
  rewrite IH by (intros n' Hn'; apply H; now right). now rewrite (H n (or_introl eq_refl)).
Qed.

Lemma spec_sort_keys_agree nodes edges tk tk' :
  (forall n, In n nodes -> tk n = tk' n) -> spec_sort nodes edges tk = spec_sort nodes edges tk'.
Proof.
  intros H. unfold spec_sort. generalize (List.length nodes) as f. generalize (@nil id) as em.
  intros em f; revert em. induction f as [|f IH]; intros em; cbn [emit]; [reflexivity|].
  rewrite (ready_keys_keys_agree edges tk tk' nodes em H).
  destruct (ready_keys edges tk' nodes em) as [ks|]; [|reflexivity].
  destruct (least ks) as [[[p t] n]|]; [|reflexivity]. now rewrite IH.
Qed.

Definition perm_oracles (o : oracles) : Prop := forall s A (l : list A), Permutation (o s A l) l.

Lemma id_oracles_perm : perm_oracles id_oracles.
Proof. intros s A l. apply Permutation_refl. Qed.

Lemma rev_oracles_perm : perm_oracles rev_oracles.
Proof. intros s A l. apply Permutation_sym, Permutation_rev. Qed.

(** * The theorems about the exposed sort *)
Theorem kahn_eq_spec (o : oracles) key_fn g :
  perm_oracles o -> NoDup (map fst g) ->
  lexico_topo_sort o key_fn g =
    match spec_sort (map fst g) (edges_of g) (tkey_of key_fn) with
    | Some l => Ok l
    | None => Err 0
    end.
Proof. intros Ho Hnd. exact (kahn_eq_spec_gen o Ho key_fn g Hnd). Qed.

Theorem sort_enumeration_independent (o o' : oracles) key_fn g g' :
  perm_oracles o -> perm_oracles o' -> NoDup (map fst g) ->
  Permutation (map fst g) (map fst g') ->
  (forall n d, In d (edges_of g n) <-> In d (edges_of g' n)) ->
  lexico_topo_sort o key_fn g = lexico_topo_sort o' key_fn g'.
Proof.
  intros Ho Ho' Hnd Hp He.
  rewrite (kahn_eq_spec o key_fn g Ho Hnd).
  rewrite (kahn_eq_spec o' key_fn g' Ho' (Permutation_NoDup Hp Hnd)).
  rewrite (spec_sort_ext _ _ _ _ (tkey_of key_fn) Hp (fun n d _ => He n d)). reflexivity.
Qed.

Lemma tkey_of_snd key_fn n k : tkey_of key_fn n = Some k -> snd k = n.
Proof. unfold tkey_of. destruct (key_fn n) as [[p t]|]; [intros [= <-]; reflexivity|discriminate]. Qed.

(** Closed acyclic graphs with a key for every node: the output is a permutation of the
    nodes in which every emitted node is the least ready one (in particular dependencies come
    first). *)
Theorem sort_correct (o : oracles) key_fn g (rank : id -> nat) :
  perm_oracles o -> NoDup (map fst g) ->
  (forall n, In n (map fst g) -> key_fn n <> None) ->
  (forall n d, In n (map fst g) -> In d (edges_of g n) -> In d (map fst g)) ->
  (forall n d, In n (map fst g) -> In d (edges_of g n) -> (rank d < rank n)%nat) ->
  exists l, lexico_topo_sort o key_fn g = Ok l
            /\ Permutation l (map fst g)
            /\ emits_least (map fst g) (edges_of g) (tkey_of key_fn) [] l.
Proof.
  intros Ho Hnd Hk Hc Ha.
  destruct (spec_sort_complete (map fst g) (edges_of g) (tkey_of key_fn) (tkey_of_snd key_fn) Hnd) with (rank := rank)
    as (l & E & Hp & Hl); auto.
  - intros n Hn. specialize (Hk n Hn). unfold tkey_of. destruct (key_fn n) as [[p t]|]; congruence.
  - exists l. rewrite (kahn_eq_spec o key_fn g Ho Hnd), E. auto.
Qed.

(** Whatever the graph: what is emitted is emitted in least-ready order, once, and a node
    with an edge leaving the graph (or on a cycle) is dropped rather than reported. *)
Theorem sort_sound (o : oracles) key_fn g l :
  perm_oracles o -> NoDup (map fst g) ->
  lexico_topo_sort o key_fn g = Ok l ->
  emits_least (map fst g) (edges_of g) (tkey_of key_fn) [] l
  /\ NoDup l /\ incl l (map fst g)
  /\ forall n d, In n l -> In d (edges_of g n) -> In d (map fst g).
Proof.
  intros Ho Hnd E. rewrite (kahn_eq_spec o key_fn g Ho Hnd) in E.
  destruct (spec_sort (map fst g) (edges_of g) (tkey_of key_fn)) as [l'|] eqn:Es; [|discriminate].
  inversion E; subst l'.
  assert (H : emits_least (map fst g) (edges_of g) (tkey_of key_fn) [] l).
  { eapply emit_emits_least; [apply tkey_of_snd|exact Es]. }
  split; [exact H|]. destruct (emits_least_nodup _ _ _ _ H) as [H1 H2]. split; [exact H1|]. split; [exact H2|].
  intros n d Hn Hd. eapply emits_least_closed; eauto.
Qed.
