(** C07.Witness — concrete inputs for the two open findings and for the H_create boundary of
    C06, evaluated by [vm_compute].  [auth] is the permissive check (every event allowed) and
    [auth_types] selects nothing, so the outcomes below are decided by the orderings alone. *)
From Base Require Import Prelude.
From C07 Require Import Event Model Spec.
Local Open Scope string_scope.

Definition ev0 (i ty sk sender : string) (ts : Z) (au : list string) : event :=
  mkEvent (bytes_of_string i) (bytes_of_string ty) (Some (bytes_of_string sk)) (bytes_of_string sender) ts
          (map bytes_of_string au) None None None None [].

Definition create_ev (i sender : string) (ts : Z) : event :=
  mkEvent (bytes_of_string i) t_create (Some []) (bytes_of_string sender) ts [] None
          (Some (Some (bytes_of_string sender))) None None [].

Definition pl_ev (i sender : string) (ts : Z) (au : list string) (users : list (string * Z)) : event :=
  mkEvent (bytes_of_string i) t_power_levels (Some []) (bytes_of_string sender) ts (map bytes_of_string au)
          None None (Some (Some (map (fun uz => (bytes_of_string (fst uz), snd uz)) users), Some None)) None [].

Definition member_ev (i sender target membership : string) (ts : Z) (au : list string) : event :=
  mkEvent (bytes_of_string i) t_member (Some (bytes_of_string target)) (bytes_of_string sender) ts
          (map bytes_of_string au) (Some (bytes_of_string membership)) None None None [].

Definition allow_all : event -> (key -> option event) -> bool := fun _ _ => true.
Definition no_types : event -> option (list key) := fun _ => Some [].

Definition entry (st : store) (i : string) : list (key * id) :=
  match fetch st (bytes_of_string i) with
  | Some e => match key_of e with Some k => [(k, e_id e)] | None => [] end
  | None => []
  end.
Definition state_of (st : store) (ids : list string) : smap := flat_map (entry st) ids.
Definition ids (l : list string) : list id := map bytes_of_string l.

Definition k_topic : key := (bytes_of_string "m.room.topic", []).
Definition k_bob : key := (t_member, bytes_of_string "@bob:b").
Definition k_jr : key := (t_join_rules, []).

(** * Finding C07-mainline-no-ancestor *)
Definition st_m : store :=
  [ create_ev "$c" "@alice:a" 1;
    member_ev "$ja" "@alice:a" "@alice:a" "join" 2 ["$c"];
    ev0 "$jr" "m.room.join_rules" "" "@alice:a" 3 ["$c"; "$ja"];
    member_ev "$jb" "@bob:b" "@bob:b" "join" 4 ["$c"; "$jr"];
    pl_ev "$p1" "@alice:a" 5 ["$c"; "$ja"] [("@alice:a", 100%Z); ("@bob:b", 50%Z)];
    ev0 "$x" "m.room.topic" "" "@alice:a" 20 ["$c"; "$ja"];
    ev0 "$y" "m.room.topic" "" "@bob:b" 10 ["$c"; "$jb"; "$p1"] ].
Definition sets_m : list smap :=
  [ state_of st_m ["$c"; "$ja"; "$jr"; "$jb"; "$x"]; state_of st_m ["$c"; "$ja"; "$jr"; "$jb"; "$p1"; "$y"] ].
Definition chains_m : list (list id) :=
  [ ids ["$c"; "$ja"; "$jr"]; ids ["$c"; "$ja"; "$jr"; "$jb"; "$p1"] ].

Definition topic_of (r : option smap) : option id := match r with Some m => klookup k_topic m | None => None end.
Definition model_topic (st : store) (o : oracles) sets chains : option id :=
  match resolve st allow_all no_types o sets chains with Ok m => klookup k_topic m | _ => None end.

Lemma finding_mainline_witness :
  class_mainline st_m allow_all no_types false sets_m chains_m = true
  /\ class_chain st_m sets_m chains_m = false
  /\ topic_of (resolve_spec st_m allow_all no_types true true sets_m chains_m) = Some (bytes_of_string "$y")
  /\ topic_of (resolve_spec st_m allow_all no_types false false sets_m chains_m) = Some (bytes_of_string "$x")
  /\ model_topic st_m id_oracles sets_m chains_m = Some (bytes_of_string "$x").
Proof. vm_compute. repeat split; reflexivity. Qed.

(** * Finding C07-power-closure *)
Definition st_c : store :=
  [ create_ev "$c" "@alice:a" 1;
    member_ev "$ja" "@alice:a" "@alice:a" "join" 2 ["$c"];
    ev0 "$j0" "m.room.join_rules" "" "@alice:a" 3 ["$c"; "$ja"];
    pl_ev "$p1" "@alice:a" 4 ["$c"; "$ja"] [("@alice:a", 100%Z); ("@bob:b", 50%Z); ("@carol:c", 100%Z)];
    member_ev "$jb" "@bob:b" "@bob:b" "join" 20 ["$c"; "$p1"; "$j0"];
    ev0 "$j1" "m.room.join_rules" "" "@bob:b" 6 ["$c"; "$p1"; "$jb"];
    member_ev "$jc" "@carol:c" "@carol:c" "join" 7 ["$c"; "$p1"; "$j1"];
    pl_ev "$p2" "@carol:c" 8 ["$c"; "$p1"; "$jc"] [("@alice:a", 100%Z); ("@bob:b", 50%Z); ("@carol:c", 100%Z)];
    member_ev "$lb" "@bob:b" "@bob:b" "leave" 5 ["$c"; "$p1"; "$jb"] ].
Definition sets_c : list smap :=
  [ state_of st_c ["$c"; "$ja"; "$p2"; "$jb"; "$j1"; "$jc"]; state_of st_c ["$c"; "$ja"; "$p1"; "$lb"; "$j1"; "$jc"] ].
Definition chains_c : list (list id) :=
  [ ids ["$c"; "$ja"; "$j0"; "$p1"; "$jb"; "$j1"; "$jc"]; ids ["$c"; "$ja"; "$j0"; "$p1"; "$jb"; "$j1"] ].

Definition bob_of (r : option smap) : option id := match r with Some m => klookup k_bob m | None => None end.

Lemma finding_closure_witness :
  class_chain st_c sets_c chains_c = true
  /\ bob_of (resolve_spec st_c allow_all no_types true true sets_c chains_c) = Some (bytes_of_string "$lb")
  /\ bob_of (resolve_spec st_c allow_all no_types false false sets_c chains_c) = Some (bytes_of_string "$jb")
  /\ match resolve st_c allow_all no_types id_oracles sets_c chains_c with
     | Ok m => klookup k_bob m = Some (bytes_of_string "$jb") | _ => False end.
Proof. vm_compute. repeat split; reflexivity. Qed.

(** * The H_create boundary (C06): a power event that does not cite the create event *)
Definition st_h : store :=
  [ create_ev "$c" "@alice:a" 0;
    member_ev "$ja" "@alice:a" "@alice:a" "join" 1 ["$c"];
    ev0 "$a" "m.room.join_rules" "" "@alice:a" 3 ["$c"; "$ja"];
    ev0 "$b" "m.room.join_rules" "" "@alice:a" 2 [] ].
Definition sets_h : list smap := [ state_of st_h ["$c"; "$ja"; "$a"]; state_of st_h ["$c"; "$ja"; "$b"] ].
Definition chains_h : list (list id) := [ ids ["$c"; "$ja"]; ids ["$c"; "$ja"] ].

(** Reverses only the enumeration of [graph.keys()] (lib.rs:246). *)
Definition rev_gkeys : oracles := fun s A l => if Nat.eqb s s_gkeys then rev l else l.

Definition sorted_power (o : oracles) : outcome (list id) :=
  let full := all_conflicted st_h o chains_h (snd (separate o sets_h)) in
  reverse_topological_power_sort st_h o (filter (is_power_event_id st_h) (o s_ctrl _ full)) full.

Lemma sort_order_dependent_without_H_compute :
  sorted_power id_oracles = Ok (ids ["$b"; "$a"])
  /\ sorted_power rev_gkeys = Ok (ids ["$a"; "$b"])
  /\ match resolve st_h allow_all no_types id_oracles sets_h chains_h,
           resolve st_h allow_all no_types rev_gkeys sets_h chains_h with
     | Ok m1, Ok m2 => klookup k_jr m1 = Some (bytes_of_string "$a") /\ klookup k_jr m2 = Some (bytes_of_string "$b")
     | _, _ => False end.
Proof. vm_compute. repeat split; reflexivity. Qed.
