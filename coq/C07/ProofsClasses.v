(** C07.ProofsClasses — outside the classes of the two open findings the specification with
    the deviations is the literal specification. *)
From Coq Require Import Permutation.
From Base Require Import Prelude.
From C07 Require Import Event Model Spec ProofsSort ProofsSets ProofsAuth ProofsGraph ProofsPower
  ProofsMainline ProofsClosure ProofsResolve ProofsFuel.
From Coq Require Import ZifyBool ZifyNat ZifyN.

Lemma reaches_mono st (f g : id -> bool) i j :
  (forall a, f a = true -> g a = true) -> reaches st f i j -> reaches st g i j.
Proof.
  intros H. induction 1 as [i j Hj Hf|i j k Hij IH Hk Hf].
  - apply reaches_step. { exact Hj. } now apply H.
  - apply (reaches_trans st g i j k IH Hk). now apply H.
Qed.

Section Classes.
  Variable st : store.
  Variable auth : event -> (key -> option event) -> bool.
  Variable auth_types : event -> option (list key).
  Variable rank : id -> nat.
  Hypothesis Hrank : forall i e a, fetch st i = Some e -> In a (e_auth e) -> (rank a < rank i)%nat.
  Hypothesis Hbound : forall i, known st i = true -> (rank i < List.length st)%nat.

  (** ** The power closure *)
  Lemma closure_eq sets chains : class_chain st sets chains = false ->
    power_closure st true (full_conflicted st sets chains) = power_closure st false (full_conflicted st sets chains).
  Proof.
    intros Hcl. unfold class_chain in Hcl. unfold power_closure.
    set (full := full_conflicted st sets chains) in *.
    set (powers := filter (is_power_id st) full) in *.
    set (lit := flat_map (chain_within st (fun _ => true)) powers) in *.
    set (dev := flat_map (chain_within st (fun a => mem_str a full)) powers) in *.
    apply filter_ext_in. intros i Hi.
    destruct (is_power_id st i) eqn:Ep; [reflexivity|]. cbn [orb].
    assert (Hsub : mem_str i dev = true -> mem_str i lit = true).
    { rewrite !mem_str_In. unfold dev, lit. rewrite !in_flat_map. intros (p & Hp & Hin). exists p. split; [exact Hp|].
      apply (chain_within_correct st rank Hrank Hbound). apply (chain_within_correct st rank Hrank Hbound) in Hin.
      eapply reaches_mono; [|exact Hin]. intros a _. reflexivity. }
    change (mem_str i lit = mem_str i dev).
    destruct (mem_str i lit) eqn:El, (mem_str i dev) eqn:Ed; try reflexivity.
    - exfalso. assert (existsb (fun i => negb (is_power_id st i) && mem_str i lit && negb (mem_str i dev)) full = true).
      { apply existsb_exists. exists i. split; [exact Hi|]. cbn beta. now rewrite Ep, El, Ed. }
      congruence.
    - specialize (Hsub eq_refl). congruence.
  Qed.

  Theorem spec_chain_bridge lm sets chains : class_chain st sets chains = false ->
    resolve_spec st auth auth_types true lm sets chains = resolve_spec st auth auth_types false lm sets chains.
  Proof. intros H. unfold resolve_spec. now rewrite (closure_eq sets chains H). Qed.

  (** ** The mainline ordering *)
  Lemma index_range x ml a : index_of x ml 0%Z = Some a -> (0 <= a < Z.of_nat (List.length ml))%Z.
  Proof.
    rewrite index_of_pos. destruct (pos x ml) as [p|] eqn:Ep; [|discriminate]. cbn [option_map].
    intros [= <-]. pose proof (pos_lt _ _ _ Ep). lia.
  Qed.

  Lemma position_range ml i a : position st ml i = Some a -> (0 <= a < Z.of_nat (List.length ml))%Z.
  Proof.
    unfold position. destruct (find _ _) as [x|]; [|discriminate]. apply index_range.
  Qed.

  Lemma fold_insert_In b ml l y : In y (fold_right (ml_insert st b ml) [] l) -> In y l.
  Proof.
    induction l as [|x l IH]; cbn [fold_right]; [auto|]. rewrite ml_insert_In. intros [->|H]; [now left|right; auto].
  Qed.

  Lemma ml_insert_ext ml (P : event -> Prop) x l :
    (forall a b, P a -> P b -> ml_before st true ml a b = ml_before st false ml a b) ->
    P x -> (forall y, In y l -> P y) ->
    ml_insert st true ml x l = ml_insert st false ml x l.
  Proof.
    intros H Hx Hl. induction l as [|y l IH]; cbn [ml_insert]; [reflexivity|].
    rewrite (H x y Hx (Hl y (or_introl eq_refl))). rewrite IH by (intros z Hz; apply Hl; now right). reflexivity.
  Qed.

  Lemma fold_insert_ext ml (P : event -> Prop) l :
    (forall a b, P a -> P b -> ml_before st true ml a b = ml_before st false ml a b) ->
    (forall y, In y l -> P y) ->
    fold_right (ml_insert st true ml) [] l = fold_right (ml_insert st false ml) [] l.
  Proof.
    intros H Hl. induction l as [|x l IH]; cbn [fold_right]; [reflexivity|].
    rewrite IH by (intros z Hz; apply Hl; now right).
    apply (ml_insert_ext ml P); auto; [apply Hl; now left|].
    intros y Hy. apply Hl. right. eapply fold_insert_In; eauto.
  Qed.

  Lemma ordering_eq ml rest :
    (existsb (fun i => known st i && negb (is_some (position st ml i))) rest
     && existsb (fun i => known st i && opt_Z_eqb (position st ml i) (Some (Z.of_nat (List.length ml) - 1)%Z)) rest) = false ->
    mainline_ordering st true ml rest = mainline_ordering st false ml rest.
  Proof.
    intros Hcl. unfold mainline_ordering. f_equal.
    set (evl := flat_map (fun i => match ev st i with Some e => [e] | None => [] end) rest).
    assert (Hev : forall e, In e evl -> In (e_id e) rest /\ known st (e_id e) = true).
    { intros e He. apply in_flat_map in He as (j & Hj & Hin). unfold ev in Hin.
      destruct (fetch st j) as [e'|] eqn:Ef; [|destruct Hin]. destruct Hin as [<-|[]].
      pose proof (fetch_id _ _ _ Ef) as Hid. rewrite Hid. split; [exact Hj|]. unfold known. now rewrite Ef. }
    apply andb_false_iff in Hcl as [Hcl|Hcl].
    - (* every event has a mainline ancestor *)
      apply (fold_insert_ext ml (fun e => In e evl)); [|auto].
      intros a b Ha Hb. unfold ml_before, position_key.
      assert (Hs : forall e, In e evl -> exists n, position st ml (e_id e) = Some n).
      { intros e He. destruct (Hev e He) as [Hr Hk]. destruct (position st ml (e_id e)) as [n|] eqn:Ep; [eauto|exfalso].
        assert (existsb (fun i => known st i && negb (is_some (position st ml i))) rest = true).
        { apply existsb_exists. exists (e_id e). split; [exact Hr|]. cbn beta. now rewrite Hk, Ep. }
        congruence. }
      destruct (Hs a Ha) as (na & Ea), (Hs b Hb) as (nb & Eb). now rewrite Ea, Eb.
    - (* no event sits on the oldest mainline position *)
      apply (fold_insert_ext ml (fun e => In e evl)); [|auto].
      intros a b Ha Hb. unfold ml_before, position_key.
      assert (Hs : forall e n, In e evl -> position st ml (e_id e) = Some n ->
                               (0 <= n < Z.of_nat (List.length ml) - 1)%Z).
      { intros e n He Ep. destruct (Hev e He) as [Hr Hk]. pose proof (position_range _ _ _ Ep).
        assert (n <> Z.of_nat (List.length ml) - 1)%Z; [|lia]. intros ->.
        assert (existsb (fun i => known st i && opt_Z_eqb (position st ml i) (Some (Z.of_nat (List.length ml) - 1)%Z)) rest = true).
        { apply existsb_exists. exists (e_id e). split; [exact Hr|]. cbn beta. rewrite Hk, Ep. cbn [opt_Z_eqb andb]. apply Z.eqb_refl. }
        congruence. }
      destruct (position st ml (e_id a)) as [na|] eqn:Ea, (position st ml (e_id b)) as [nb|] eqn:Eb; try reflexivity.
      + pose proof (Hs a na Ha Ea). destruct (Z.ltb_spec (Z.of_nat (List.length ml) - 1) na); [lia|].
        destruct (Z.ltb_spec na (Z.of_nat (List.length ml) - 1)); [reflexivity|lia].
      + pose proof (Hs b nb Hb Eb). destruct (Z.ltb_spec nb (Z.of_nat (List.length ml) - 1)); [reflexivity|lia].
      + rewrite !Z.ltb_irrefl. reflexivity.
  Qed.

  Theorem spec_mainline_bridge lc sets chains : class_mainline st auth auth_types lc sets chains = false ->
    resolve_spec st auth auth_types lc true sets chains = resolve_spec st auth auth_types lc false sets chains.
  Proof.
    intros H. unfold class_mainline in H. unfold resolve_spec.
    destruct (power_ordering st (power_closure st lc (full_conflicted st sets chains))) as [sx|]; [|reflexivity].
    now rewrite (ordering_eq _ _ H).
  Qed.

  (** Outside both classes: the literal specification. *)
  Theorem spec_dev_eq_lit sets chains :
    class_chain st sets chains = false -> class_mainline st auth auth_types false sets chains = false ->
    resolve_spec st auth auth_types false false sets chains = resolve_spec st auth auth_types true true sets chains.
  Proof.
    intros H1 H2. rewrite (spec_chain_bridge true sets chains H1). symmetry. now apply spec_mainline_bridge.
  Qed.
End Classes.

(** * Statements as they appear in Properties.v *)
Lemma separate_eq_spec (o : oracles) sets : perm_oracles o -> maps sets ->
  (forall k, klookup k (fst (separate o sets)) = klookup k (unconflicted sets))
  /\ (forall x, In x (List.concat (map snd (snd (separate o sets)))) <-> In x (conflicted_events sets)).
Proof.
  intros Ho Hm. split.
  - intros k. now rewrite (separate_clean_spec o Ho sets Hm), unconflicted_lookup.
  - intros x. apply (separate_conflicted_spec o Ho sets Hm).
Qed.

(** The class of the open finding C07-mainline-no-ancestor, for one call of [mainline_sort]. *)
Definition mainline_class (st : store) (ml rest : list id) : bool :=
  existsb (fun i => known st i && negb (is_some (position st ml i))) rest
  && existsb (fun i => known st i && opt_Z_eqb (position st ml i) (Some (Z.of_nat (List.length ml) - 1)%Z)) rest.

Lemma mainline_eq_spec (st : store) (rank : id -> nat) (o : oracles) to_sort pl :
  (forall i e a, fetch st i = Some e -> In a (e_auth e) -> (rank a < rank i)%nat) ->
  (forall i, known st i = true -> (rank i < List.length st)%nat) ->
  (forall i e a, fetch st i = Some e -> In a (e_auth e) -> known st a = true) ->
  perm_oracles o -> NoDup to_sort -> (forall i, In i to_sort -> known st i = true) ->
  (forall p, pl = Some p -> known st p = true) ->
  mainline_class st (mainline st pl) to_sort = false ->
  mainline_sort st o to_sort pl = Ok (mainline_ordering st true (mainline st pl) to_sort).
Proof.
  intros Hrank Hbound Hak Ho Hnd Hk Hpl Hcl.
  rewrite (mainline_sort_eq st rank o to_sort pl Hrank Hbound Hak Ho Hnd Hk Hpl).
  f_equal. symmetry. unfold mainline_class in Hcl.
  exact (ordering_eq st (fun _ _ => true) (fun _ => None) rank Hrank Hbound _ _ Hcl).
Qed.

Lemma resolve_eq_spec
  (st : store) (auth : event -> (key -> option event) -> bool) (auth_types : event -> option (list key))
  (rank : id -> nat) (c : id) (ce : event) (cr : str) (sets : list smap) (chains : list (list id)) (o : oracles) :
  (forall i e a, fetch st i = Some e -> In a (e_auth e) -> (rank a < rank i)%nat) ->
  (forall i, known st i = true -> (rank i < List.length st)%nat) ->
  (forall i e a, fetch st i = Some e -> In a (e_auth e) -> known st a = true) ->
  all_state_events st ->
  (forall i e, fetch st i = Some e -> auth_keys_unique st e) ->
  auth_local auth auth_types ->
  h_create st c ce cr -> pl_wf st ->
  (forall i e, fetch st i = Some e -> i <> c -> In c (e_auth e)) ->
  maps sets -> (forall ch, In ch chains -> NoDup ch) ->
  (forall s k i, In s sets -> In (k, i) s -> known st i = true) ->
  (conflicted_events sets = [] -> auth_difference chains = []) ->
  perm_oracles o ->
  class_chain st sets chains = false ->
  class_mainline st auth auth_types false sets chains = false ->
  exists m R, resolve st auth auth_types o sets chains = Ok m
              /\ resolve_spec st auth auth_types true true sets chains = Some R
              /\ forall k, klookup k m = klookup k R.
Proof.
  intros Hrank Hbound Hak Hstate Huniq Hlocal Hc Hwf Hcite Hm Hch Hsk Hchains Ho Hc1 Hc2.
  destruct (resolve_eq_spec_dev st auth auth_types rank Hrank Hbound Hak Hstate Huniq Hlocal c ce cr Hc Hwf Hcite (build_graph_total st)
              sets chains Hm Hch Hsk Hchains o Ho) as (m & R & Em & ER & HmR).
  exists m, R. split; [exact Em|]. split; [|exact HmR].
  now rewrite <- (spec_dev_eq_lit st auth auth_types rank Hrank Hbound sets chains Hc1 Hc2).
Qed.

Lemma resolve_eq_spec_with_deviations
  (st : store) (auth : event -> (key -> option event) -> bool) (auth_types : event -> option (list key))
  (rank : id -> nat) (c : id) (ce : event) (cr : str) (sets : list smap) (chains : list (list id)) (o : oracles) :
  (forall i e a, fetch st i = Some e -> In a (e_auth e) -> (rank a < rank i)%nat) ->
  (forall i, known st i = true -> (rank i < List.length st)%nat) ->
  (forall i e a, fetch st i = Some e -> In a (e_auth e) -> known st a = true) ->
  all_state_events st ->
  (forall i e, fetch st i = Some e -> auth_keys_unique st e) ->
  auth_local auth auth_types ->
  h_create st c ce cr -> pl_wf st ->
  (forall i e, fetch st i = Some e -> i <> c -> In c (e_auth e)) ->
  maps sets -> (forall ch, In ch chains -> NoDup ch) ->
  (forall s k i, In s sets -> In (k, i) s -> known st i = true) ->
  (conflicted_events sets = [] -> auth_difference chains = []) ->
  perm_oracles o ->
  exists m R, resolve st auth auth_types o sets chains = Ok m
              /\ resolve_spec st auth auth_types false false sets chains = Some R
              /\ forall k, klookup k m = klookup k R.
Proof.
  intros Hrank Hbound Hak Hstate Huniq Hlocal Hc Hwf Hcite Hm Hch Hsk Hchains Ho.
  exact (resolve_eq_spec_dev st auth auth_types rank Hrank Hbound Hak Hstate Huniq Hlocal c ce cr Hc Hwf Hcite
           (build_graph_total st) sets chains Hm Hch Hsk Hchains o Ho).
Qed.
