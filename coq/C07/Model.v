(** C07.Model — executable model of [ruma_state_res::resolve] and its stages
    (crates/ruma-state-res/src/lib.rs), and of the exposed
    [lexicographical_topological_sort].

    Containers.  [HashMap]/[HashSet] values are duplicate-free lists; *every* place where
    the Rust code iterates one of them goes through an enumeration oracle
    [o site A l], an arbitrary re-ordering of the list (one oracle per iteration site, so
    two iterations of the same container need not agree).  The theorems quantify over all
    oracles that permute their argument.  [StateMap] results are association lists read by
    first match ([klookup]); insertion is [cons].  [BinaryHeap] is a list whose [pop]
    removes the greatest element (least [TieBreaker], the heap holds [Reverse]).

    External code.  [auth_check] and [auth_types_for_event] (event_auth.rs) are section
    variables; content accessors ([creator], [users], [users_default], [membership]) are
    fields of the [event] record (see Event.v).

    Errors: [Err 0] for every [Error] variant (the property does not speak of kinds).
    [Panic 99] is the out-of-fuel result of the fuelled loops; the theorems exclude it. *)
From Base Require Import Prelude.
From C07 Require Import Event.

Definition oracle := forall A : Type, list A -> list A.
Definition oracles := nat -> oracle.

(** Iteration sites. *)
Definition s_occ : nat := 0.      (* lib.rs:184  for (k, v) in occurrences *)
Definition s_inner : nat := 1.    (* lib.rs:185  for (id, count) in v *)
Definition s_counts : nat := 2.   (* lib.rs:212  id_counts.into_iter() *)
Definition s_conf : nat := 3.     (* lib.rs:88   conflicting.into_values() *)
Definition s_ctrl : nat := 4.     (* lib.rs:100  all_conflicted.iter() *)
Definition s_left : nat := 5.     (* lib.rs:126  all_conflicted.iter() *)
Definition s_gkeys : nat := 6.    (* lib.rs:246  graph.keys() *)
Definition s_graph : nat := 7.    (* lib.rs:336  for (node, edges) in graph *)
Definition s_parents : nat := 8.  (* lib.rs:362  for &parent in reverse_graph[node] *)
Definition s_order : nat := 9.    (* lib.rs:581  order_map.keys() *)
Definition s_clean : nat := 10.   (* lib.rs:153  resolved_state.extend(clean) *)

Definition id_oracles : oracles := fun _ _ l => l.
Definition rev_oracles : oracles := fun _ A l => rev l.

Definition graph := list (id * list id).

Definition is_nil {A} (l : list A) : bool := match l with [] => true | _ => false end.

(** * lexicographical_topological_sort (lib.rs:274-381) *)

(** [heap.pop()]: remove the least key (keys in a heap are pairwise distinct: they carry
    the node, and a node is pushed once). *)
Fixpoint min_key (x : tkey) (l : list tkey) : tkey :=
  match l with
  | [] => x
  | y :: l' => if tk_ltb y x then min_key y l' else min_key x l'
  end.

Definition tk_eqb (a b : tkey) : bool :=
  let '(pa, ta, ia) := a in let '(pb, tb, ib) := b in
  (pa =? pb)%Z && (ta =? tb)%Z && str_eqb ia ib.

Fixpoint remove_key (x : tkey) (l : list tkey) : list tkey :=
  match l with
  | [] => []
  | y :: l' => if tk_eqb x y then l' else y :: remove_key x l'
  end.

Definition pop_min (h : list tkey) : option (tkey * list tkey) :=
  match h with
  | [] => None
  | x :: l => let m := min_key x l in Some (m, remove_key m h)
  end.

Section Sort.
  Variable o : oracles.
  Variable key_fn : id -> option (Z * Z).     (* None = Err *)

  Definition tkey_of (n : id) : option tkey :=
    match key_fn n with Some (p, t) => Some (p, t, n) | None => None end.

  (** lib.rs:336-346: nodes without outgoing edges go to the initial heap. *)
  Fixpoint init_heap (g : graph) (acc : list tkey) : option (list tkey) :=
    match g with
    | [] => Some acc
    | (n, es) :: g' =>
        if is_nil es then
          match tkey_of n with Some k => init_heap g' (k :: acc) | None => None end
        else init_heap g' acc
    end.

  (** lib.rs:348-351: reverse_graph[node] = the nodes that have an edge to [node]. *)
  Definition parents (g : graph) (node : id) : list id :=
    map fst (filter (fun ne => mem_str node (snd ne)) g).

  Definition remove_id (x : id) (l : list id) : list id :=
    filter (fun y => negb (str_eqb x y)) l.

  Fixpoint set_edges (p : id) (es : list id) (g : graph) : graph :=
    match g with
    | [] => []
    | (n, e) :: g' => if str_eqb n p then (n, es) :: g' else (n, e) :: set_edges p es g'
    end.

  (** lib.rs:362-374, one parent. *)
  Definition relax (node : id) (acc : outcome (graph * list tkey)) (parent : id)
    : outcome (graph * list tkey) :=
    match acc with
    | Ok (outdeg, heap) =>
        match ilookup parent outdeg with
        | None => Panic 1                       (* expect("outdegree_map knows ...") *)
        | Some out =>
            let out' := remove_id node out in
            let outdeg' := set_edges parent out' outdeg in
            if is_nil out' then
              match tkey_of parent with
              | Some k => Ok (outdeg', k :: heap)
              | None => Err 0
              end
            else Ok (outdeg', heap)
        end
    | other => other
    end.

  Fixpoint kahn_loop (fuel : nat) (g : graph) (outdeg : graph) (heap : list tkey) (acc : list id)
    : outcome (list id) :=
    match fuel with
    | O => Panic 99
    | S f =>
        match pop_min heap with
        | None => Ok (rev acc)
        | Some ((_, _, node), heap') =>
            match fold_left (relax node) (o s_parents _ (parents g node)) (Ok (outdeg, heap')) with
            | Ok (outdeg', heap'') => kahn_loop f g outdeg' heap'' (node :: acc)
            | Err e => Err e
            | Panic s => Panic s
            end
        end
    end.

  Definition lexico_topo_sort (g : graph) : outcome (list id) :=
    match init_heap (o s_graph _ g) [] with
    | None => Err 0
    | Some heap => kahn_loop (S (List.length g)) g g heap []
    end.
End Sort.

(** * resolve and its stages *)
Section Model.
  Variable st : store.
  Variable auth : event -> (key -> option event) -> bool.
  Variable auth_types : event -> option (list key).
  Variable o : oracles.

  (** ** separate (lib.rs:167-198) *)
  Fixpoint occ_add_id (v : id) (m : list (id * nat)) : list (id * nat) :=
    match m with
    | [] => [(v, 1%nat)]
    | (x, c) :: m' => if str_eqb x v then (x, S c) :: m' else (x, c) :: occ_add_id v m'
    end.

  Fixpoint occ_add (k : key) (v : id) (occ : list (key * list (id * nat)))
    : list (key * list (id * nat)) :=
    match occ with
    | [] => [(k, [(v, 1%nat)])]
    | (k', m) :: r => if key_eqb k' k then (k', occ_add_id v m) :: r else (k', m) :: occ_add k v r
    end.

  Definition occurrences (sets : list smap) : list (key * list (id * nat)) :=
    fold_left (fun occ s => fold_left (fun occ kv => occ_add (fst kv) (snd kv) occ) s occ) sets [].

  Fixpoint conf_push (k : key) (v : id) (c : list (key * list id)) : list (key * list id) :=
    match c with
    | [] => [(k, [v])]
    | (k', l) :: r => if key_eqb k' k then (k', l ++ [v]) :: r else (k', l) :: conf_push k v r
    end.

  Definition separate (sets : list smap) : smap * list (key * list id) :=
    let n := List.length sets in
    fold_left (fun acc km =>
      fold_left (fun acc vc =>
        if Nat.eqb (snd vc) n then ((fst km, fst vc) :: fst acc, snd acc)
        else (fst acc, conf_push (fst km) (fst vc) (snd acc)))
        (o s_inner _ (snd km)) acc)
      (o s_occ _ (occurrences sets)) ([], []).

  (** ** get_auth_chain_diff (lib.rs:201-213) *)
  Definition id_counts (chains : list (list id)) : list (id * nat) :=
    fold_left (fun m i => occ_add_id i m) (List.concat chains) [].

  Definition auth_chain_diff (chains : list (list id)) : list id :=
    map fst (filter (fun ic => Nat.ltb (snd ic) (List.length chains)) (o s_counts _ (id_counts chains))).

  (** lib.rs:87-91: the full conflicted set, restricted to known events. *)
  Definition all_conflicted (chains : list (list id)) (conflicting : list (key * list id)) : list id :=
    dedup (filter (known st)
                  (auth_chain_diff chains ++ List.concat (map snd (o s_conf _ conflicting)))).

  (** ** is_power_event (lib.rs:640-668) *)
  Definition skey_is (e : event) (s : str) : bool :=
    match e_skey e with Some k => str_eqb k s | None => false end.

  Definition is_type_and_key (e : event) (ty sk : str) : bool :=
    str_eqb (e_type e) ty && skey_is e sk.

  Definition is_power_event (e : event) : bool :=
    if str_eqb (e_type e) t_power_levels || str_eqb (e_type e) t_join_rules
       || str_eqb (e_type e) t_create then skey_is e []
    else if str_eqb (e_type e) t_member then
      match e_membership e with
      | Some m => if str_eqb m m_leave || str_eqb m m_ban
                  then negb (skey_is e (e_sender e)) else false
      | None => false
      end
    else false.

  Definition is_power_event_id (i : id) : bool :=
    match fetch st i with Some e => is_power_event e | None => false end.

  (** ** add_event_and_auth_chain_to_graph (lib.rs:615-638) *)
  Definition g_mem (n : id) (g : graph) : bool := is_some (ilookup n g).
  Definition g_entry (n : id) (g : graph) : graph := if g_mem n g then g else g ++ [(n, [])].
  Fixpoint g_add_edge (n a : id) (g : graph) : graph :=
    match g with
    | [] => []
    | (m, es) :: g' =>
        if str_eqb m n then (m, if mem_str a es then es else es ++ [a]) :: g'
        else (m, es) :: g_add_edge n a g'
    end.

  Definition auth_ids (i : id) : list id :=
    match fetch st i with Some e => e_auth e | None => [] end.

  (** The loop body for one popped id: returns the new stack and graph. *)
  Definition visit (full : list id) (eid : id) (stack : list id) (g : graph) : list id * graph :=
    fold_left (fun sg aid =>
      if mem_str aid full then
        (if g_mem aid (snd sg) then fst sg else aid :: fst sg, g_add_edge eid aid (snd sg))
      else sg)
      (auth_ids eid) (stack, g_entry eid g).

  Fixpoint dfs (fuel : nat) (full : list id) (stack : list id) (g : graph) : option graph :=
    match stack with
    | [] => Some g
    | eid :: rest =>
        match fuel with
        | O => None
        | S f => let sg := visit full eid rest g in dfs f full (fst sg) (snd sg)
        end
    end.

  Definition dfs_fuel : nat :=
    S (fold_left (fun n e => n + S (List.length (e_auth e)))%nat st 0%nat).

  Definition build_graph (full : list id) (events_to_sort : list id) : option graph :=
    fold_left (fun og i => match og with Some g => dfs dfs_fuel full [i] g | None => None end)
              events_to_sort (Some []).

  (** ** get_power_level_for_sender (lib.rs:388-432) *)
  Fixpoint pl_scan (lock_set : bool) (auths : list id) (plev cre : option event)
    : option event * option event :=
    match auths with
    | [] => (plev, cre)
    | aid :: r =>
        match fetch st aid with
        | Some aev =>
            let pc :=
              if is_type_and_key aev t_power_levels [] then (Some aev, cre)
              else if negb lock_set && is_type_and_key aev t_create [] then (plev, Some aev)
              else (plev, cre) in
            pl_scan lock_set r (fst pc) (snd pc)
        | None => pl_scan lock_set r plev cre
        end
    end.

  Definition users_default_or_0 (pe : event) : outcome Z :=
    match e_pl pe with
    | Some (_, Some (Some d)) => Ok d
    | Some (_, Some None) => Ok 0%Z
    | _ => Err 0
    end.

  (** RoomPowerLevelsEvent::user_power_level (power_levels.rs:190-201). *)
  Definition pl_user_level (pe : event) (u : str) : outcome Z :=
    match e_pl pe with
    | Some (Some users, _) =>
        match ilookup u users with
        | Some l => Ok l
        | None => users_default_or_0 pe
        end
    | _ => Err 0
    end.

  (** Returns the power level and the (possibly newly initialised) creator lock. *)
  Definition power_level_for_sender (lock : option str) (eid : id) : outcome (Z * option str) :=
    let event := fetch st eid in
    let pc := pl_scan (is_some lock) (match event with Some e => e_auth e | None => [] end) None None in
    let creator : outcome (option str) :=
      match lock with
      | Some c => Ok (Some c)
      | None =>
          match snd pc with
          | Some ce => match e_creator ce with
                       | Some (Some c) => Ok (Some c)
                       | _ => Err 0
                       end
          | None => Ok None
          end
      end in
    match creator with
    | Ok cr =>
        let lock' := match lock with Some c => Some c | None => cr end in
        match event, cr with
        | Some ev, Some c =>
            match fst pc with
            | Some pe => obind (pl_user_level pe (e_sender ev)) (fun l => Ok (l, lock'))
            | None => Ok (if str_eqb (e_sender ev) c then 100%Z else 0%Z, lock')
            end
        | _, _ =>
            match fst pc with
            | Some pe => obind (users_default_or_0 pe) (fun l => Ok (l, lock'))
            | None => Ok (0%Z, lock')
            end
        end
    | Err e => Err e
    | Panic s => Panic s
    end.

  (** lib.rs:241-260 *)
  Fixpoint event_to_pl (keys : list id) (lock : option str) (acc : list (id * Z))
    : outcome (list (id * Z)) :=
    match keys with
    | [] => Ok acc
    | i :: r =>
        match power_level_for_sender lock i with
        | Ok (l, lock') => event_to_pl r lock' ((i, l) :: acc)
        | Err e => Err e
        | Panic s => Panic s
        end
    end.

  (** ** reverse_topological_power_sort (lib.rs:223-267) *)
  Definition sort_key (pls : list (id * Z)) (i : id) : option (Z * Z) :=
    match fetch st i, ilookup i pls with
    | Some e, Some p => Some (p, e_ts e)
    | _, _ => None
    end.

  Definition reverse_topological_power_sort (events_to_sort full : list id) : outcome (list id) :=
    match build_graph full events_to_sort with
    | None => Panic 99
    | Some g =>
        match event_to_pl (o s_gkeys _ (map fst g)) None [] with
        | Ok pls => lexico_topo_sort o (sort_key pls) g
        | Err e => Err e
        | Panic s => Panic s
        end
    end.

  (** ** iterative_auth_check (lib.rs:443-514) *)
  Fixpoint own_auth_map (auths : list id) (acc : list (key * event)) : outcome (list (key * event)) :=
    match auths with
    | [] => Ok acc
    | aid :: r =>
        match fetch st aid with
        | Some ev =>
            match key_of ev with
            | Some k => own_auth_map r ((k, ev) :: acc)
            | None => Err 0                                   (* MissingStateKey *)
            end
        | None => own_auth_map r acc                           (* warn!: missing auth event *)
        end
    end.

  Definition overlay_state (state : smap) (keys : list key) (amap : list (key * event))
    : list (key * event) :=
    fold_left (fun m k =>
      match klookup k state with
      | Some i => match fetch st i with Some e => (k, e) :: m | None => m end
      | None => m
      end) keys amap.

  Fixpoint iterative_auth_check (events : list id) (state : smap) : outcome smap :=
    match events with
    | [] => Ok state
    | eid :: rest =>
        match fetch st eid with
        | None => Err 0                                        (* NotFound *)
        | Some ev =>
            match e_skey ev with
            | None => Err 0                                    (* MissingStateKey *)
            | Some sk =>
                match own_auth_map (e_auth ev) [] with
                | Ok amap =>
                    match auth_types ev with
                    | None => iterative_auth_check rest state  (* malformed: continue *)
                    | Some keys =>
                        let amap' := overlay_state state keys amap in
                        if auth ev (fun k => klookup k amap')
                        then iterative_auth_check rest (((e_type ev, sk), eid) :: state)
                        else iterative_auth_check rest state
                    end
                | Err e => Err e
                | Panic s => Panic s
                end
            end
        end
    end.

  (** ** mainline_sort / get_mainline_depth (lib.rs:523-613) *)

  (** lib.rs:543-550: the first auth event that is a power-levels event; NotFound if an auth
      event before it is unknown. *)
  Fixpoint pl_auth_of (auths : list id) : outcome (option event) :=
    match auths with
    | [] => Ok None
    | aid :: r =>
        match fetch st aid with
        | None => Err 0
        | Some ev => if is_type_and_key ev t_power_levels [] then Ok (Some ev) else pl_auth_of r
        end
    end.

  Fixpoint mainline_from (fuel : nat) (pl : option id) (acc : list id) : outcome (list id) :=
    match pl with
    | None => Ok (rev acc)
    | Some p =>
        match fuel with
        | O => Panic 99
        | S f =>
            match fetch st p with
            | None => Err 0
            | Some ev =>
                match pl_auth_of (e_auth ev) with
                | Ok nxt => mainline_from f (option_map e_id nxt) (p :: acc)
                | Err e => Err e
                | Panic s => Panic s
                end
            end
        end
    end.

  (** lib.rs:556-561: position in the reversed mainline, starting at 0 for the oldest. *)
  Fixpoint enumerate_from (n : Z) (l : list id) : list (id * Z) :=
    match l with
    | [] => []
    | x :: l' => (x, n) :: enumerate_from (n + 1)%Z l'
    end.

  Definition mainline_map (mainline : list id) : list (id * Z) := enumerate_from 0%Z (rev mainline).

  Fixpoint mainline_depth (fuel : nat) (mm : list (id * Z)) (ev : option event) : outcome Z :=
    match ev with
    | None => Ok 0%Z
    | Some e =>
        match fuel with
        | O => Panic 99
        | S f =>
            match ilookup (e_id e) mm with
            | Some d => Ok d
            | None =>
                match pl_auth_of (e_auth e) with
                | Ok nxt => mainline_depth f mm nxt
                | Err x => Err x
                | Panic s => Panic s
                end
            end
        end
    end.

  Definition okey := (Z * Z * id)%type.
  Definition okey_leb (a b : okey) : bool :=
    let '(da, ta, ia) := a in let '(db, tb, ib) := b in
    if (da <? db)%Z then true else if (db <? da)%Z then false
    else if (ta <? tb)%Z then true else if (tb <? ta)%Z then false
    else negb (str_ltb ib ia).

  Fixpoint insert_sorted (x : okey) (l : list okey) : list okey :=
    match l with
    | [] => [x]
    | y :: l' => if okey_leb x y then x :: l else y :: insert_sorted x l'
    end.

  (** A stable sort by key ([sort_by_key]); keys are pairwise distinct (they end with the id). *)
  Definition sort_okeys (l : list okey) : list okey := fold_right insert_sorted [] l.

  Definition st_fuel : nat := S (List.length st).

  (** order_map (lib.rs:563-577): events whose depth cannot be computed are left out;
      a later entry for the same id replaces an earlier one (same value). *)
  Fixpoint order_map (mm : list (id * Z)) (to_sort : list id) (acc : list okey)
    : outcome (list okey) :=
    match to_sort with
    | [] => Ok acc
    | i :: r =>
        match fetch st i with
        | Some e =>
            match mainline_depth st_fuel mm (Some e) with
            | Ok d =>
                let acc' := filter (fun k => negb (str_eqb (snd k) i)) acc in
                order_map mm r ((d, e_ts e, i) :: acc')
            | Err _ => order_map mm r acc
            | Panic s => Panic s
            end
        | None => order_map mm r acc
        end
    end.

  Definition mainline_sort (to_sort : list id) (resolved_pl : option id) : outcome (list id) :=
    if is_nil to_sort then Ok []
    else
      match mainline_from st_fuel resolved_pl [] with
      | Ok mainline =>
          match order_map (mainline_map mainline) to_sort [] with
          | Ok om => Ok (map snd (sort_okeys (o s_order _ om)))
          | Err e => Err e
          | Panic s => Panic s
          end
      | Err e => Err e
      | Panic s => Panic s
      end.

  (** ** resolve (lib.rs:58-158) *)
  Definition resolve (sets : list smap) (chains : list (list id)) : outcome smap :=
    let cc := separate sets in
    let clean := fst cc in
    let conflicting := snd cc in
    if is_nil conflicting then Ok clean
    else
      let full := all_conflicted chains conflicting in
      let control := filter is_power_event_id (o s_ctrl _ full) in
      match reverse_topological_power_sort control full with
      | Ok sorted_control =>
          match iterative_auth_check sorted_control clean with
          | Ok resolved_control =>
              let to_resolve :=
                filter (fun i => negb (mem_str i sorted_control)) (o s_left _ full) in
              let power_event := klookup (t_power_levels, []) resolved_control in
              match mainline_sort to_resolve power_event with
              | Ok sorted_left =>
                  match iterative_auth_check sorted_left resolved_control with
                  | Ok resolved => Ok (o s_clean _ clean ++ resolved)
                  | Err e => Err e
                  | Panic s => Panic s
                  end
              | Err e => Err e
              | Panic s => Panic s
              end
          | Err e => Err e
          | Panic s => Panic s
          end
      | Err e => Err e
      | Panic s => Panic s
      end.
End Model.
