(** C12.Glob — the glob language of the push rules, as a specification.

    '*' stands for any run of characters (possibly empty), '?' for exactly one character, every
    other character for itself; a pattern matches a text only as a whole.  Strings are UTF-8
    byte strings: a character is a lead byte followed by its continuation bytes, so '?' and
    '*' consume whole characters, never parts of one.  This is also the documented behaviour
    of [wildmatch::WildMatch] ("`?` matches exactly one occurrence of any character, `*`
    matches arbitrary many (including zero) occurrences of any character"), by which that
    crate is modelled. *)
From Base Require Import Prelude.
From C12 Require Import Text.

(** [one_char c]: [c] is the encoding of one character. *)
Inductive one_char : str -> Prop :=
| OneChar b tl : is_cont b = false -> Forall (fun x => is_cont x = true) tl -> one_char (b :: tl).

(** [glob p t]: the pattern [p] matches the whole text [t].  The side condition
    [at_boundary t] says that the character consumed by a wildcard is complete. *)
Inductive glob : str -> str -> Prop :=
| G_nil : glob [] []
| G_star0 p t : glob p t -> glob (c_star :: p) t
| G_star1 p c t : one_char c -> at_boundary t = true -> glob (c_star :: p) t -> glob (c_star :: p) (c ++ t)
| G_qm p c t : one_char c -> at_boundary t = true -> glob p t -> glob (c_qm :: p) (c ++ t)
| G_lit b p t : is_wild b = false -> glob p t -> glob (b :: p) (b :: t).

(** The same as a decision procedure (used to run the specification, and as the model of
    [WildMatch::matches]).  [gstar k mid t]: a '*' followed by the rest of the pattern [k];
    [mid] says that we are inside a character the star is consuming. *)
Fixpoint gstar (k : str -> bool) (mid : bool) (t : str) {struct t} : bool :=
  match t with
  | [] => k []
  | b :: t' =>
      if is_cont b then (if mid then gstar k true t' else k t)
      else k t || gstar k true t'
  end.

Fixpoint globb (p t : str) {struct p} : bool :=
  match p with
  | [] => is_nil t
  | x :: p' =>
      if x =? c_star then gstar (globb p') false t
      else if x =? c_qm then
        match next_char t with Some t' => globb p' t' | None => false end
      else
        match t with b :: t' => (x =? b) && globb p' t' | [] => false end
  end.
