(** C12.Text — byte-level vocabulary for UTF-8 strings (shared by Model and Spec).

    A Rust [&str] is a byte string that is valid UTF-8.  A *character* (Unicode scalar value) is
    encoded as one lead byte followed by its continuation bytes (10xxxxxx); the word characters
    of the push rules, [A-Za-z0-9_], are single ASCII bytes and every byte of a multi-byte
    character is >= 0x80, so "the character before / after a character boundary is a word
    character" can be read off the adjacent byte. *)
From Base Require Import Prelude.

Definition c_star : N := 42.
Definition c_qm : N := 63.
Definition c_dot : N := 46.
Definition c_bs : N := 92.

Definition is_wild (b : N) : bool := (b =? c_star) || (b =? c_qm).

(** [char::is_ascii_alphanumeric() || c == '_'] (condition.rs:275-279). *)
Definition is_wordb (b : N) : bool :=
  ((48 <=? b) && (b <=? 57)) || ((65 <=? b) && (b <=? 90)) || ((97 <=? b) && (b <=? 122)) || (b =? 95).

(** Continuation byte 10xxxxxx. *)
Definition is_cont (b : N) : bool := (128 <=? b) && (b <? 192).

(** [t] starts at a character boundary ([str::is_char_boundary]). *)
Definition at_boundary (t : str) : bool :=
  match t with [] => true | b :: _ => negb (is_cont b) end.

(** Number of continuation bytes announced by a lead byte. *)
Definition lead_len (b : N) : option nat :=
  if b <? 128 then Some 0%nat
  else if b <? 192 then None
  else if b <? 224 then Some 1%nat
  else if b <? 240 then Some 2%nat
  else if b <? 248 then Some 3%nat
  else None.

(** Structural UTF-8 validity: every lead byte is followed by exactly the announced number of
    continuation bytes (over-long forms and surrogates are not excluded; nothing here depends
    on them). *)
Fixpoint wf_aux (need : nat) (t : str) : bool :=
  match t with
  | [] => Nat.eqb need 0
  | b :: t' =>
      match need with
      | O => match lead_len b with Some n => wf_aux n t' | None => false end
      | S k => is_cont b && wf_aux k t'
      end
  end.
Definition wf_utf8 (t : str) : bool := wf_aux 0 t.

Definition is_nil {A} (l : list A) : bool := match l with [] => true | _ => false end.

Definition last_opt (l : str) (d : option N) : option N :=
  match l with [] => d | _ => Some (last l 0) end.

(** Drop the continuation bytes at the head. *)
Fixpoint drop_conts (t : str) : str :=
  match t with
  | b :: t' => if is_cont b then drop_conts t' else t
  | [] => []
  end.

(** The text after the first character of [t] (a non-continuation byte and the continuation
    bytes that follow it). *)
Definition next_char (t : str) : option str :=
  match t with
  | [] => None
  | b :: t' => if is_cont b then None else Some (drop_conts t')
  end.
