(** placeholder while the correspondence is being debugged *)
From Base Require Import Prelude.
Theorem C12_placeholder : True.
Proof. exact I. Qed.
Eval compute in "PA:C12_placeholder"%string.
Print Assumptions C12_placeholder.
