(** C12.Properties — the theorems that decide C12, and nothing else.
    Each is closed by [exact], and followed by [Print Assumptions].

    [lowercase], [regex_fits], [valid_user_id] are the external functions of the model
    ([str::to_lowercase], "[Regex::new] accepts the regex built from this pattern",
    [<&UserId>::try_from(s).is_ok()]); what is assumed about them is a premise of the theorem
    that needs it:  [forall s, wf_utf8 (lowercase s) = true]  (a [String] is valid UTF-8) and
    [forall p, regex_fits p = true]  (no pattern is so large that the regex crate refuses it).
    [pwfb] (object keys strictly increasing) and [ruleset_wf] (integers of conditions fit
    [js_int::Int]; underride rules do not use the two deprecated override ids) are guaranteed by
    the Rust types resp. by [Ruleset::insert].  [parseable]: the event text is a JSON value for
    serde_json.  [mentions_unrepresentable] is the class of the open finding
    C12-mentions-unrepresentable. *)
From Base Require Import Prelude Sx Json.
From Gen Require Import PushLegacyIds.
From C12 Require Import Types Text Glob Model Spec Proofs1 Proofs2 Proofs3 Proofs4 Proofs5 Proofs6 Proofs7.

(** The rule ruma's [get_match] returns is the specification's: the first enabled rule, in the
    order override, content, room, sender, underride, whose conditions all hold; nothing for the
    user's own events; it never panics.  Outside the known class. *)
Theorem C12_get_match_eq_spec :
  forall lowercase regex_fits valid_user_id,
  (forall s, wf_utf8 (lowercase s) = true) -> (forall p, regex_fits p = true) ->
  forall fs, pwfb (PObj fs) = true -> parseable (PObj fs) = true ->
  mentions_unrepresentable (PObj fs) = false ->
  forall rs c, ruleset_wf rs = true ->
  get_match lowercase regex_fits valid_user_id rs (PObj fs) c
  = Some (Ok (spec_get_match lowercase valid_user_id rs (PObj fs) c)).
Proof. exact get_match_correct. Qed.
Eval compute in "PA:C12_get_match_eq_spec"%string.
Print Assumptions C12_get_match_eq_spec.

Theorem C12_get_actions_eq_spec :
  forall lowercase regex_fits valid_user_id,
  (forall s, wf_utf8 (lowercase s) = true) -> (forall p, regex_fits p = true) ->
  forall fs, pwfb (PObj fs) = true -> parseable (PObj fs) = true ->
  mentions_unrepresentable (PObj fs) = false ->
  forall rs c, ruleset_wf rs = true ->
  get_actions lowercase regex_fits valid_user_id rs (PObj fs) c
  = Some (Ok (spec_get_actions lowercase valid_user_id rs (PObj fs) c)).
Proof. exact get_actions_correct. Qed.
Eval compute in "PA:C12_get_actions_eq_spec"%string.
Print Assumptions C12_get_actions_eq_spec.

(** The known class is not empty, and on it model (= ruma) and specification do differ. *)
Theorem C12_finding_mentions_witness :
  pwfb w_event = true /\ parseable w_event = true /\ ruleset_wf w_rules = true /\
  mentions_unrepresentable w_event = true /\
  get_match (fun s => s) (fun _ => true) (fun _ => true) w_rules w_event w_ctx
    = Some (Ok (Some (0, s!".m.rule.contains_display_name", 1))) /\
  spec_get_match (fun s => s) (fun _ => true) w_rules w_event w_ctx = None.
Proof. exact finding_mentions_witness. Qed.
Eval compute in "PA:C12_finding_mentions_witness"%string.
Print Assumptions C12_finding_mentions_witness.

(** Every condition holds exactly as specified (and never for the user's own events). *)
Theorem C12_conditions_eq_spec :
  forall lowercase regex_fits valid_user_id,
  (forall s, wf_utf8 (lowercase s) = true) -> (forall p, regex_fits p = true) ->
  forall fs, pwfb (PObj fs) = true -> parseable (PObj fs) = true ->
  forall cd c, cond_wf cd = true ->
  cond_applies lowercase regex_fits valid_user_id cd (from_raw (PObj fs)) c
  = Some (Ok (negb (Spec.own_event (PObj fs) c) && spec_cond lowercase valid_user_id cd (PObj fs) c)).
Proof. exact cond_correct. Qed.
Eval compute in "PA:C12_conditions_eq_spec"%string.
Print Assumptions C12_conditions_eq_spec.

(** [matches_pattern]: whole-value glob, or glob between word boundaries, after lowercasing. *)
Theorem C12_matches_pattern_eq_spec :
  forall lowercase regex_fits, (forall s, wf_utf8 (lowercase s) = true) ->
  forall v p (word : bool),
  (word = true -> has_wild (lowercase p) = true -> regex_fits (lowercase p) = true) ->
  matches_pattern lowercase regex_fits v p word = Some (Ok (spec_matches lowercase word p v)).
Proof. exact matches_pattern_correct. Qed.
Eval compute in "PA:C12_matches_pattern_eq_spec"%string.
Print Assumptions C12_matches_pattern_eq_spec.

(** The scanner of [matches_word] (no wildcards): its restart never skips an admissible
    occurrence. *)
Theorem C12_matches_word_scan_eq_spec :
  forall regex_fits p v,
  p <> [] -> has_wild p = false -> wf_utf8 p = true -> wf_utf8 v = true ->
  exists b, matches_word regex_fits (S (List.length v)) v p = Some (Ok b) /\ (b = true <-> word_occ p v).
Proof. exact scanner_correct. Qed.
Eval compute in "PA:C12_matches_word_scan_eq_spec"%string.
Print Assumptions C12_matches_word_scan_eq_spec.

(** The regex built from a pattern with wildcards, searched in the bytes of the value, accepts
    exactly the values in which the glob occurs between word boundaries. *)
Theorem C12_wildcard_regex_eq_spec :
  forall p v, p <> [] -> wf_utf8 p = true -> wf_utf8 v = true ->
  (re_search (chunks_of p) None v = true <-> word_occ p v).
Proof. exact wildcard_regex_correct. Qed.
Eval compute in "PA:C12_wildcard_regex_eq_spec"%string.
Print Assumptions C12_wildcard_regex_eq_spec.

(** Reading R3: the empty pattern matches the empty value only. *)
Theorem C12_matches_word_empty_pattern :
  forall regex_fits v, matches_word regex_fits (S (List.length v)) v [] = Some (Ok (is_nil v)).
Proof. exact matches_word_empty. Qed.
Eval compute in "PA:C12_matches_word_empty_pattern"%string.
Print Assumptions C12_matches_word_empty_pattern.

(** The decision procedures used to run the specification decide the declarative definitions. *)
Theorem C12_globb_iff_glob : forall p t, globb p t = true <-> glob p t.
Proof. exact globb_iff_glob. Qed.
Eval compute in "PA:C12_globb_iff_glob"%string.
Print Assumptions C12_globb_iff_glob.

Theorem C12_word_occb_iff_word_occ : forall p v, word_occb p v = true <-> word_occ p v.
Proof. exact word_occb_iff. Qed.
Eval compute in "PA:C12_word_occb_iff_word_occ"%string.
Print Assumptions C12_word_occb_iff_word_occ.

(** Escaped dot-paths never collide, and parse back to the field names. *)
Theorem C12_flatten_paths_injective :
  forall a b, a <> [] -> b <> [] -> esc_path a = esc_path b -> a = b.
Proof. exact esc_path_injective. Qed.
Eval compute in "PA:C12_flatten_paths_injective"%string.
Print Assumptions C12_flatten_paths_injective.

Theorem C12_parse_escaped_path : forall fields, fields <> [] -> parse_path (esc_path fields) = Some fields.
Proof. exact parse_esc_path. Qed.
Eval compute in "PA:C12_parse_escaped_path"%string.
Print Assumptions C12_parse_escaped_path.

(** [FlattenedJson::get] on the flattened event is following the dot-path in the event. *)
Theorem C12_flatten_get_eq_path_lookup :
  forall fs key, pwfb (PObj fs) = true -> parseable (PObj fs) = true -> fs <> [] ->
  fget (from_raw (PObj fs)) key
  = match property (PObj fs) key with Some v => view_of v | None => None end.
Proof. exact flatten_get. Qed.
Eval compute in "PA:C12_flatten_get_eq_path_lookup"%string.
Print Assumptions C12_flatten_get_eq_path_lookup.

Theorem C12_contains_mentions_eq_spec :
  forall fs, pwfb (PObj fs) = true -> parseable (PObj fs) = true ->
  mentions_unrepresentable (PObj fs) = false ->
  contains_mentions (from_raw (PObj fs)) = carries_mentions (PObj fs).
Proof. exact mentions_correct. Qed.
Eval compute in "PA:C12_contains_mentions_eq_spec"%string.
Print Assumptions C12_contains_mentions_eq_spec.

(** The ids the code compares with (regenerated from ruma on every run) are the ids of the
    deprecated rules the specification names. *)
Theorem C12_legacy_ids :
  id_roomnotif = s!".m.rule.roomnotif" /\
  id_contains_display_name = s!".m.rule.contains_display_name" /\
  id_contains_user_name = s!".m.rule.contains_user_name".
Proof. exact legacy_ids_ok. Qed.
Eval compute in "PA:C12_legacy_ids"%string.
Print Assumptions C12_legacy_ids.

(** No panic, no error, fuel always sufficient — for every ruleset, every event (parseable or
    not, object or not), every context and whatever the external functions compute. *)
Theorem C12_get_match_total :
  forall lowercase regex_fits valid_user_id rs ev c,
  get_match lowercase regex_fits valid_user_id rs ev c <> None /\
  forall s, get_match lowercase regex_fits valid_user_id rs ev c <> Some (Panic s).
Proof. exact get_match_no_panic. Qed.
Eval compute in "PA:C12_get_match_total"%string.
Print Assumptions C12_get_match_total.

Theorem C12_get_actions_total :
  forall lowercase regex_fits valid_user_id rs ev c,
  get_actions lowercase regex_fits valid_user_id rs ev c <> None /\
  forall s, get_actions lowercase regex_fits valid_user_id rs ev c <> Some (Panic s).
Proof. exact get_actions_no_panic. Qed.
Eval compute in "PA:C12_get_actions_total"%string.
Print Assumptions C12_get_actions_total.

Theorem C12_cond_applies_total :
  forall lowercase regex_fits valid_user_id cd ev c,
  cond_applies lowercase regex_fits valid_user_id cd (from_raw ev) c <> None /\
  forall s, cond_applies lowercase regex_fits valid_user_id cd (from_raw ev) c <> Some (Panic s).
Proof. exact cond_applies_no_panic. Qed.
Eval compute in "PA:C12_cond_applies_total"%string.
Print Assumptions C12_cond_applies_total.

Theorem C12_matches_word_total :
  forall regex_fits v p,
  matches_word regex_fits (S (List.length v)) v p <> None /\
  forall s, matches_word regex_fits (S (List.length v)) v p <> Some (Panic s).
Proof. exact matches_word_no_panic. Qed.
Eval compute in "PA:C12_matches_word_total"%string.
Print Assumptions C12_matches_word_total.
