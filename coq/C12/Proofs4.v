(** C12.Proofs4 — the whole regex search, [matches_word] and [matches_pattern] against the
    specification; totality (no panic, fuel suffices). *)
From Base Require Import Prelude.
From Coq Require Import ZifyBool ZifyNat ZifyN.
From C12 Require Import Text Glob Model Spec Proofs1 Proofs2 Proofs3.

Ltac Zify.zify_post_hook ::= Z.div_mod_to_equations.

Lemma bool_eq_iff (a b : bool) : (a = true <-> b = true) -> a = b.
Proof.
  intros [H1 H2]. destruct a, b; try reflexivity.
  - specialize (H1 eq_refl). discriminate.
  - exact (H2 eq_refl).
Qed.

(** * Shape of the chunk list *)
Definition lit_ok (cs : list chunk) : Prop :=
  forall s, In (CLit s) cs -> s <> [] /\ is_cont (hd 0 s) = false.
Definition wild_ok (cs : list chunk) : Prop :=
  forall n st, In (CWild n st) cs -> n = O -> st = true.

Lemma wild_chunk_ok run : run <> [] -> Forall (fun b => is_wild b = true) run ->
  forall n st, wild_chunk run = CWild n st -> n = O -> st = true.
Proof.
  intros Hne Hall n st E Hn. unfold wild_chunk in E. injection E as <- <-.
  destruct run as [|b run]; [congruence|]. inversion Hall as [|? ? Hb _]; subst.
  unfold count_qm in Hn. cbn [filter existsb] in *. unfold is_wild in Hb.
  destruct (b =? c_qm) eqn:Eq; [cbn in Hn; lia|]. rewrite orb_false_r in Hb. now rewrite Hb.
Qed.

Lemma chunk_loop_shape : forall p (pw : bool) cur,
  wf_utf8 (rev cur ++ p) = true ->
  (if pw then cur <> [] /\ Forall (fun b => is_wild b = true) (rev cur) else rev cur ++ p <> []) ->
  lit_ok (chunk_loop p pw cur) /\ wild_ok (chunk_loop p pw cur).
Proof.
  induction p as [|c p IH]; intros pw cur Hwf Hinv.
  - rewrite app_nil_r in *. cbn [chunk_loop]. destruct pw.
    + destruct Hinv as [Hne Hall]. split.
      * intros s [E|[]]. discriminate.
      * intros n st [E|[]]. apply (wild_chunk_ok (rev cur)); [|exact Hall|exact E].
        intros E'. apply (f_equal (@rev N)) in E'. rewrite rev_involutive in E'. now apply Hne.
    + split.
      * intros s [E|[]]. injection E as <-. split; [exact Hinv|].
        apply wf_boundary in Hwf. destruct (rev cur); [congruence|]. cbn [at_boundary hd] in *. now apply negb_true_iff.
      * intros n st [E|[]]. discriminate.
  - cbn [chunk_loop].
    assert (Eapp : rev cur ++ c :: p = rev (c :: cur) ++ p) by (cbn [rev]; now rewrite <- app_assoc).
    destruct (is_wild c) eqn:Ec; destruct pw; cbn [andb negb].
    + rewrite Eapp in Hwf. apply IH; [exact Hwf|]. split; [discriminate|].
      cbn [rev]. apply Forall_app. split; [apply Hinv|now constructor].
    + assert (Hbc : at_boundary (c :: p) = true) by (cbn; rewrite ascii_not_cont; [reflexivity|now apply wild_ascii]).
      destruct (wf_split _ _ Hwf Hbc) as [Hwfl Hwfr].
      destruct (IH true [c]) as [L W]; [exact Hwfr|split; [discriminate|cbn; now constructor]|].
      split.
      * intros s Hin. apply in_app_or in Hin as [Hin|Hin]; [|now apply L].
        destruct cur as [|x cur']; [destruct Hin|]. destruct Hin as [E|[]]. injection E as <-.
        cbn [rev] in *.
        assert (Hne : rev cur' ++ [x] <> []) by (intros E; now apply app_eq_nil in E as [_ E]).
        split; [exact Hne|]. apply wf_boundary in Hwfl. destruct (rev cur' ++ [x]); [congruence|].
        cbn [at_boundary hd] in *. now apply negb_true_iff.
      * intros n st Hin. apply in_app_or in Hin as [Hin|Hin]; [|now apply (W n st)].
        destruct cur as [|x cur']; [destruct Hin|]. destruct Hin as [E|[]]. discriminate.
    + destruct Hinv as [Hne Hall].
      assert (Hwfrun : wf_utf8 (rev cur) = true) by (apply Forall_ascii_wf, Forall_wild_ascii; exact Hall).
      assert (Hwfr : wf_utf8 (c :: p) = true) by now apply (wf_prefix (rev cur)).
      destruct (IH false [c]) as [L W]; [exact Hwfr|discriminate|].
      split.
      * intros s [E|Hin]; [discriminate|now apply L].
      * intros n st [E|Hin]; [|now apply (W n st)].
        apply (wild_chunk_ok (rev cur)); [|exact Hall|exact E].
        intros E'. apply (f_equal (@rev N)) in E'. rewrite rev_involutive in E'. now apply Hne.
    + rewrite Eapp in Hwf, Hinv. now apply IH.
Qed.

Lemma chunks_shape p : p <> [] -> wf_utf8 p = true -> lit_ok (chunks_of p) /\ wild_ok (chunks_of p).
Proof. intros Hp Hwf. apply (chunk_loop_shape p false []); assumption. Qed.

(** Started inside a character, the chunks can only be empty stars. *)
Lemma m_chunks_misaligned cs : lit_ok cs -> wild_ok cs ->
  forall prev x t, is_cont x = true -> m_chunks cs prev (x :: t) = true ->
  Forall (fun c => c = CWild 0 true) cs.
Proof.
  induction cs as [|c cs IH]; intros L W prev x t Hx H; [constructor|].
  assert (L' : lit_ok cs) by (intros s Hin; apply L; now right).
  assert (W' : wild_ok cs) by (intros n st Hin; apply (W n st); now right).
  destruct c as [s|n st]; cbn [m_chunks] in H.
  - exfalso. destruct (L s (or_introl eq_refl)) as [Hne Hc].
    destruct s as [|y s]; [congruence|]. cbn [strip_prefix hd] in *.
    destruct (N.eqb_spec y x) as [->|]; [congruence|discriminate].
  - destruct n as [|n]; [|cbn [m_skip] in H; rewrite Hx in H; discriminate].
    pose proof (W O st (or_introl eq_refl) eq_refl) as ->.
    cbn [m_skip m_star] in H. rewrite Hx in H. constructor; [reflexivity|]. eapply IH; eauto.
Qed.

Lemma m_chunks_empty_stars cs prev :
  Forall (fun c => c = CWild 0 true) cs -> m_chunks cs prev [] = true.
Proof. induction 1 as [|c cs -> _ IH]; [reflexivity|]. cbn [m_chunks m_skip m_star]. exact IH. Qed.

(** * The unanchored search *)
Definition start_ok (prev : option N) (a b : str) : Prop :=
  (last_opt a prev = None \/
   xorb (wordo (last_opt a prev)) (match b with x :: _ => is_wordb x | [] => false end) = true)
  \/ (a <> [] /\ is_wordb (last a 0) = false).

Lemma last_cons_nonnil {A} (x : A) a d : a <> [] -> last (x :: a) d = last a d.
Proof. destruct a; [congruence|reflexivity]. Qed.

Lemma last_opt_cons x a prev : last_opt (x :: a) prev = last_opt a (Some x).
Proof. change (x :: a) with ([x] ++ a). now rewrite last_opt_app. Qed.

Lemma re_search_spec cs : forall t prev,
  re_search cs prev t = true <->
  exists a b, t = a ++ b /\ start_ok prev a b /\ m_chunks cs (last_opt a prev) b = true.
Proof.
  unfold start_ok. induction t as [|x t IH]; intros prev.
  - cbn [re_search]. rewrite orb_false_r, andb_true_iff, orb_true_iff. split.
    + intros [HA HM]. exists [], []. split; [reflexivity|]. split; [|exact HM]. left.
      cbn [last_opt]. destruct prev; [right|left; reflexivity]. destruct HA as [HA|HA]; [discriminate|exact HA].
    + intros (a & b & E & Hs & HM). symmetry in E. apply app_eq_nil in E as [-> ->].
      change (last_opt [] prev) with prev in *.
      split; [|exact HM]. destruct Hs as [[Hs|Hs]|[Hs _]]; [rewrite Hs; now left|now right|congruence].
  - cbn [re_search]. rewrite !orb_true_iff, !andb_true_iff, orb_true_iff, negb_true_iff. split.
    + intros [[HA HM]|[[Hx HM]|H]].
      * exists [], (x :: t). split; [reflexivity|]. split; [|exact HM]. left. cbn [last_opt].
        destruct prev; [right|left; reflexivity]. destruct HA as [HA|HA]; [discriminate|exact HA].
      * exists [x], t. split; [reflexivity|]. split; [|exact HM]. right. split; [discriminate|exact Hx].
      * apply IH in H as (a & b & -> & Hs & HM). exists (x :: a), b. split; [reflexivity|].
        rewrite last_opt_cons. split; [|exact HM].
        destruct Hs as [Hs|[Hne Hl]]; [left; exact Hs|right]. split; [discriminate|].
        now rewrite last_cons_nonnil.
    + intros (a & b & E & Hs & HM). destruct a as [|y a].
      * cbn [app] in E. subst b. change (last_opt [] prev) with prev in *. left. split; [|exact HM].
        destruct Hs as [[Hs|Hs]|[Hs _]]; [rewrite Hs; now left|now right|congruence].
      * cbn [app] in E. injection E as <- ->. rewrite last_opt_cons in Hs, HM. right.
        destruct a as [|z a].
        -- cbn [last_opt app] in *. destruct Hs as [[Hs|Hs]|[_ Hs]].
           ++ discriminate.
           ++ right. apply IH. exists [], b. split; [reflexivity|]. split; [|exact HM]. left. right. exact Hs.
           ++ left. cbn in Hs. auto.
        -- right. apply IH. exists (z :: a), b. split; [reflexivity|]. split; [|exact HM].
           destruct Hs as [Hs|[_ Hl]]; [left; exact Hs|right]. split; [discriminate|].
           now rewrite last_cons_nonnil in Hl by discriminate.
Qed.

Lemma start_ok_bnd a b : start_ok None a b <-> bnd a b.
Proof.
  unfold start_ok, bnd. destruct a as [|x a].
  - cbn. split; auto.
  - assert (E : last_opt (x :: a) None = Some (last (x :: a) 0)) by reflexivity. rewrite E. cbn [wordo].
    destruct b as [|y b]; cbn [hd].
    + split; [auto|]. intros _. destruct (is_wordb (last (x :: a) 0)) eqn:Ew; [left; right; reflexivity|].
      right. split; [discriminate|reflexivity].
    + destruct (is_wordb (last (x :: a) 0)) eqn:E1, (is_wordb y) eqn:E2; cbn [xorb]; split; intros H.
      all: try (destruct H as [[H|H]|[_ H]]; try discriminate; auto; fail).
      all: try (destruct H as [H|[H|[H|H]]]; try discriminate;
                first [left; right; reflexivity | right; split; [discriminate|reflexivity]]; fail).
      all: first [left; right; reflexivity | right; split; [discriminate|reflexivity] | auto].
Qed.

Lemma end_ok_bnd m post : end_ok (last_opt m None) post = true <-> bnd m post.
Proof.
  unfold bnd. destruct m as [|x m].
  - cbn [last_opt]. split; [auto|]. intros _. destruct post as [|y post]; [reflexivity|]. cbn. now destruct (is_wordb y).
  - assert (E : last_opt (x :: m) None = Some (last (x :: m) 0)) by reflexivity. rewrite E.
    destruct post as [|y post]; cbn [end_ok hd wordo].
    + split; auto.
    + destruct (is_wordb (last (x :: m) 0)), (is_wordb y); cbn; split; intros H; auto; try discriminate.
      destruct H as [H|[H|[H|H]]]; discriminate.
Qed.

(** * The wildcard branch *)
Theorem wildcard_regex_correct p v :
  p <> [] -> wf_utf8 p = true -> wf_utf8 v = true ->
  (re_search (chunks_of p) None v = true <-> word_occ p v).
Proof.
  intros Hp Hwfp Hwfv. rewrite re_search_spec. split.
  - intros (a & b & -> & Hs & HM). apply start_ok_bnd in Hs.
    destruct (at_boundary b) eqn:Hb.
    + destruct (wf_split _ _ Hwfv Hb) as [_ Hwfb].
      apply (chunks_spec p Hwfp) in HM; [|exact Hwfb].
      destruct HM as (mid & post & -> & Hwfpost & Hg & He).
      exists a, mid, post. split; [reflexivity|]. split; [exact Hb|]. split; [now apply wf_boundary|].
      split; [exact Hs|]. split; [|exact Hg].
      apply end_ok_bnd. now rewrite last_opt_app.
    + destruct b as [|x b]; [discriminate|]. cbn in Hb. apply negb_false_iff in Hb.
      destruct (chunks_shape p Hp Hwfp) as [L W].
      pose proof (m_chunks_misaligned _ L W _ _ _ Hb HM) as Hall.
      pose proof (m_chunks_empty_stars _ None Hall) as H0.
      apply (chunks_spec p Hwfp) in H0; [|reflexivity].
      destruct H0 as (mid & post & E & _ & Hg & _). symmetry in E. apply app_eq_nil in E as [-> ->].
      exists [], [], (a ++ x :: b). split; [reflexivity|]. cbn [app].
      split; [now apply wf_boundary|]. split; [now apply wf_boundary|].
      split; [now left|]. split; [now left|exact Hg].
  - intros (pre & mid & post & -> & Hb1 & Hb2 & B1 & B2 & Hg).
    exists pre, (mid ++ post). split; [reflexivity|]. split; [now apply start_ok_bnd|].
    destruct (wf_split _ _ Hwfv Hb1) as [_ Hwfb].
    apply (chunks_spec p Hwfp); [exact Hwfb|].
    exists mid, post. split; [reflexivity|]. split; [now apply (wf_split mid post)|]. split; [exact Hg|].
    rewrite <- last_opt_app. now apply end_ok_bnd.
Qed.

(** * A valid pattern matches itself *)
Lemma glob_self : forall p k, wf_aux k p = true -> glob p p.
Proof.
  induction p as [|b p IH]; intros k H; [constructor|]. cbn [wf_aux] in H.
  destruct (is_wild b) eqn:Eb.
  - assert (Ha : b <? 128 = true) by now apply wild_ascii.
    assert (Hk : wf_aux 0 p = true).
    { destruct k as [|k].
      - unfold lead_len in H. now rewrite Ha in H.
      - apply andb_true_iff in H as [H _]. rewrite (ascii_not_cont _ Ha) in H. discriminate. }
    assert (Hc : one_char [b]) by (constructor; [now apply ascii_not_cont|constructor]).
    assert (Hbd : at_boundary p = true) by now apply wf_boundary.
    unfold is_wild in Eb. apply orb_true_iff in Eb as [Eb|Eb]; apply N.eqb_eq in Eb; subst b.
    + change (c_star :: p) with ([c_star] ++ p) at 2. apply G_star1; [exact Hc|exact Hbd|].
      apply G_star0. now apply (IH O).
    + change (c_qm :: p) with ([c_qm] ++ p) at 2. apply G_qm; [exact Hc|exact Hbd|]. now apply (IH O).
  - apply G_lit; [exact Eb|]. destruct k as [|k].
    + destruct (lead_len b) as [n|]; [|discriminate]. now apply (IH n).
    + apply andb_true_iff in H as [_ H]. now apply (IH k).
Qed.

(** * [matches_word] *)
Section MatchesWord.
Variable regex_fits : str -> bool.

Theorem matches_word_correct v p :
  p <> [] -> wf_utf8 p = true -> wf_utf8 v = true -> (has_wild p = true -> regex_fits p = true) ->
  matches_word regex_fits (S (List.length v)) v p = Some (Ok (word_occb p v)).
Proof.
  intros Hp Hwfp Hwfv Hfit. cbn [matches_word].
  destruct (str_eqb_spec v p) as [->|Hne].
  { f_equal. f_equal. symmetry. apply word_occb_iff. exists [], p, [].
    rewrite app_nil_r. split; [reflexivity|]. split; [now apply wf_boundary|]. split; [reflexivity|].
    split; [now left|]. split; [right; now left|]. now apply (glob_self p O). }
  assert (Enil : is_nil p = false) by (destruct p; [congruence|reflexivity]). rewrite Enil.
  destruct (has_wild p) eqn:Ew.
  - rewrite Hfit by reflexivity. f_equal. f_equal. apply bool_eq_iff.
    rewrite word_occb_iff. now apply wildcard_regex_correct.
  - destruct (scan_correct regex_fits p Hp Ew Hwfp (S (List.length v)) v ltac:(lia) Hwfv) as (b & Hb1 & Hb2).
    cbn [matches_word] in Hb1. destruct (str_eqb_spec v p); [congruence|]. rewrite Enil, Ew in Hb1.
    rewrite Hb1. f_equal. f_equal. apply bool_eq_iff. rewrite Hb2, word_occb_iff.
    symmetry. now apply word_occ_literal.
Qed.

(** The degenerate empty pattern: equal to the value or nothing. *)
Lemma matches_word_empty v : matches_word regex_fits (S (List.length v)) v [] = Some (Ok (is_nil v)).
Proof. cbn [matches_word]. destruct v; reflexivity. Qed.

(** Totality for arbitrary byte strings: the fuel suffices and no [unwrap] / index fails. *)
Lemma matches_word_total : forall fuel v p,
  (List.length v < fuel)%nat -> exists b, matches_word regex_fits fuel v p = Some (Ok b).
Proof.
  induction fuel as [|fuel IH]; intros v p Hfuel; [lia|]. cbn [matches_word].
  destruct (str_eqb v p); [now eexists|]. destruct (is_nil p) eqn:Enil; [now eexists|].
  destruct (has_wild p); [now eexists|].
  assert (Hp : p <> []) by (destruct p; [discriminate|discriminate]).
  destruct (find_sub p v) as [s|] eqn:Ef; [|now eexists].
  destruct (find_sub_some _ _ _ Ef) as [Hocc _]. pose proof (occ_len _ _ _ Hp Hocc) as Hle.
  assert (Hpl : (0 < List.length p)%nat) by (destruct p; [congruence|cbn; lia]).
  unfold char_at_is_word at 1. rewrite nth_error_byte by lia.
  assert (Hnext : exists b,
            match find_idx (fun b => negb (is_wordb b)) (skipn s v) with
            | Some nw =>
                match find_idx is_wordb (skipn nw (skipn s v)) with
                | Some w => matches_word regex_fits fuel (skipn w (skipn nw (skipn s v))) p
                | None => Some (Ok false)
                end
            | None => Some (Ok false)
            end = Some (Ok b)).
  { destruct (find_idx _ (skipn s v)) as [nw|] eqn:E1; [|now eexists].
    destruct (find_idx is_wordb _) as [w|] eqn:E2; [|now eexists].
    apply IH. destruct (find_idx_some _ _ _ E1) as (_ & H1 & _). destruct (find_idx_some _ _ _ E2) as (_ & H2 & _).
    rewrite !skipn_length.
    assert (nw + w <> 0)%nat.
    { intros E. assert (nw = O) by lia. assert (w = O) by lia. subst nw w. cbn [skipn] in H2.
      rewrite H2 in H1. discriminate. }
    lia. }
  destruct (negb (is_wordb (byte v s)) || _); [|exact Hnext].
  destruct (Nat.eqb (s + List.length p) (List.length v)) eqn:Ee; [now eexists|].
  apply Nat.eqb_neq in Ee.
  unfold prev_char_is_word. destruct (s + List.length p)%nat as [|j] eqn:Ej; [lia|].
  rewrite nth_error_byte by lia. cbn [option_map].
  destruct (negb (is_wordb (byte v j))); [now eexists|].
  unfold char_at_is_word. rewrite nth_error_byte by lia.
  destruct (negb (is_wordb (byte v (S j)))); [now eexists|exact Hnext].
Qed.

End MatchesWord.

(** * [matches_pattern] *)
Section MatchesPattern.
Variable lowercase : str -> str.
Variable regex_fits : str -> bool.
Hypothesis lowercase_wf : forall s, wf_utf8 (lowercase s) = true.

Theorem matches_pattern_correct v p (word : bool) :
  (word = true -> has_wild (lowercase p) = true -> regex_fits (lowercase p) = true) ->
  matches_pattern lowercase regex_fits v p word = Some (Ok (spec_matches lowercase word p v)).
Proof.
  intros Hfit. unfold matches_pattern, spec_matches. destruct word; [|reflexivity].
  destruct (lowercase p) as [|x p'] eqn:Ep.
  - rewrite matches_word_empty. reflexivity.
  - cbn [is_nil]. rewrite <- Ep in *. apply matches_word_correct; auto.
    rewrite Ep. discriminate.
Qed.

Lemma matches_pattern_total v p word :
  exists b, matches_pattern lowercase regex_fits v p word = Some (Ok b).
Proof.
  clear lowercase_wf. unfold matches_pattern. destruct word; [|now eexists]. apply matches_word_total. lia.
Qed.
End MatchesPattern.
