(** C12.Run — case decoding, model run, and the specification evaluated on the
    implementation's outcome (the failing-input search).

    case =
      ( 0 ruleset event ctx aux )        Ruleset::get_match      -> Ok ( ) | Ok ( kind id actions )
      ( 1 ruleset event ctx aux )        Ruleset::get_actions    -> Ok n
      ( 2 word pat val lpat lval fits )  PushCondition::EventMatch on content.body (word = 1) or
                                         another content field (word = 0) -> Ok b
      ( 3 event ( path ... ) )           FlattenedJson::get for each path, then contains_mentions
                                         -> Ok ( v ... b )
      ( 4 cond event ctx aux )           PushCondition::applies  -> Ok b
    aux = ( ( ( s lowercase(s) ) ... )  ( valid user id ... )  ( pattern that does not fit a regex ... ) )
    The three external functions of the model are instantiated from [aux] (what Rust computed). *)
From Base Require Import Prelude Sx Json.
From C12 Require Import Types Text Glob Model Spec.

Fixpoint sx_eqb (a b : sx) : bool :=
  match a, b with
  | SN x, SN y => (x =? y)%Z
  | SS x, SS y => str_eqb x y
  | SL x, SL y =>
      (fix go (x y : list sx) : bool :=
         match x, y with
         | [], [] => true
         | a :: x', b :: y' => sx_eqb a b && go x' y'
         | _, _ => false
         end) x y
  | _, _ => false
  end.

Record aux := { a_lower : list (str * str); a_valid : list str; a_nofit : list str }.

Definition pair_of_sx (x : sx) : option (str * str) :=
  match x with SL [SS a; SS b] => Some (a, b) | _ => None end.

Definition aux_of_sx (x : sx) : option aux :=
  match x with
  | SL [l; v; n] =>
      match as_list_of pair_of_sx l, as_list_of as_str v, as_list_of as_str n with
      | Some l, Some v, Some n => Some {| a_lower := l; a_valid := v; a_nofit := n |}
      | _, _, _ => None
      end
  | _ => None
  end.

Definition lower_of (a : aux) (s : str) : str :=
  match lookup s (a_lower a) with Some l => l | None => s end.
Definition valid_of (a : aux) (s : str) : bool := mem_str s (a_valid a).
Definition fits_of (a : aux) (p : str) : bool := negb (mem_str p (a_nofit a)).

Definition out_of_fuel : sx := SL [SN (-5)].
Definition enc {A} (f : A -> sx) (o : option (outcome A)) : sx :=
  match o with Some r => sx_outcome f r | None => out_of_fuel end.

Definition sx_scalar (s : scalar) : sx :=
  match s with
  | SNull => SL [SN 0]
  | SBool b => SL [SN 1; sx_bool b]
  | SInt z => SL [SN 2; SN z]
  | SStr s => SL [SN 3; SS s]
  end.
Definition sx_fval (o : option fval) : sx :=
  match o with
  | None => SL []
  | Some (FScalar s) => SL [sx_scalar s]
  | Some (FArr l) => SL [SL (SN 4 :: List.map sx_scalar l)]
  | Some FEmptyObj => SL [SL [SN 5]]
  end.

Definition is_obj (v : pjson) : bool := match v with PObj _ => true | _ => false end.

(** The theorems' domain (Spec: "Domain of the theorems"), minus the known-finding class, which
    must show up as a spec failure. *)
Definition in_domain (ev : pjson) (a : aux) : bool :=
  is_obj ev && parseable ev && is_nil (a_nofit a).

(** Third component of the answer: the known-finding classes (as named in known_findings.json)
    the event lies in, decided by the very predicate the theorems carry. *)
Definition classes_of (ev : pjson) : sx :=
  SL (if mentions_unrepresentable ev then [SS s!"C12-mentions-unrepresentable"] else []).

Definition run (x : sx) : sx :=
  match x with
  | SL [SL [SN op; rs; ev; c; a]; impl] =>
      if ((op =? 0) || (op =? 1))%Z then
        match ruleset_of_sx rs, pjson_of_sx ev, ctx_of_sx c, aux_of_sx a with
        | Some rs, Some ev, Some c, Some a =>
            let lo := lower_of a in
            let dom := in_domain ev a && ruleset_wf rs in
            if (op =? 0)%Z then
              SL [enc sx_match (get_match lo (fits_of a) (valid_of a) rs ev c);
                  sx_bool (negb dom ||
                           sx_eqb impl (sx_outcome sx_match (Ok (spec_get_match lo (valid_of a) rs ev c))));
                  classes_of ev]
            else
              SL [enc sx_N (get_actions lo (fits_of a) (valid_of a) rs ev c);
                  sx_bool (negb dom ||
                           sx_eqb impl (sx_outcome sx_N (Ok (spec_get_actions lo (valid_of a) rs ev c))));
                  classes_of ev]
        | _, _, _, _ => sx_bad
        end
      else if (op =? 4)%Z then
        match cond_of_sx rs, pjson_of_sx ev, ctx_of_sx c, aux_of_sx a with
        | Some cd, Some ev, Some c, Some a =>
            let lo := lower_of a in
            let dom := in_domain ev a && cond_wf cd in
            SL [enc sx_bool (cond_applies lo (fits_of a) (valid_of a) cd (from_raw ev) c);
                sx_bool (negb dom ||
                         sx_eqb impl (sx_outcome sx_bool
                           (Ok (negb (Spec.own_event ev c) && spec_cond lo (valid_of a) cd ev c))));
                classes_of ev]
        | _, _, _, _ => sx_bad
        end
      else sx_bad
  | SL [SL [SN 2; w; SS pat; SS val; SS lpat; SS lval; f]; impl] =>
      match as_bool w, as_bool f with
      | Some w, Some f =>
          let lo := fun s => if str_eqb s pat then lpat else if str_eqb s val then lval else s in
          SL [enc sx_bool (matches_pattern lo (fun _ => f) val pat w);
              sx_bool (negb f || sx_eqb impl (sx_outcome sx_bool (Ok (spec_matches lo w pat val))))]
      | _, _ => sx_bad
      end
  | SL [SL [SN 3; ev; SL paths]; impl] =>
      match pjson_of_sx ev, map_opt as_str paths with
      | Some ev, Some paths =>
          let m := from_raw ev in
          let model := SL (List.map (fun p => sx_fval (fget m p)) paths ++ [sx_bool (contains_mentions m)]) in
          let expect :=
            SL (List.map (fun p => sx_fval (match property ev p with Some v => view_of v | None => None end)) paths
                ++ [sx_bool (carries_mentions ev)]) in
          (* {} is flattened to the single path "" (an empty object at the root); no condition
             can observe it, and the specification does not speak of it *)
          let dom := is_obj ev && parseable ev && negb (match ev with PObj [] => true | _ => false end) in
          SL [sx_outcome (fun x => x) (Ok model);
              sx_bool (negb dom || sx_eqb impl (sx_outcome (fun x => x) (Ok expect)));
              classes_of ev]
      | _, _ => sx_bad
      end
  | _ => sx_bad
  end.
