(** C12.Proofs7 — final forms: the scanner statement with the declarative specification, the
    no-panic forms used by C17, and the witness of the known finding. *)
From Base Require Import Prelude Sx Json.
From Coq Require Import ZifyBool ZifyNat ZifyN.
From C12 Require Import Types Text Glob Model Spec Proofs1 Proofs2 Proofs3 Proofs4 Proofs5 Proofs6.

(** The scanner (pattern without wildcards): it answers, never panics, and answers [true]
    exactly when the pattern occurs between word boundaries. *)
Lemma scanner_correct regex_fits p v :
  p <> [] -> has_wild p = false -> wf_utf8 p = true -> wf_utf8 v = true ->
  exists b, matches_word regex_fits (S (List.length v)) v p = Some (Ok b) /\ (b = true <-> word_occ p v).
Proof.
  intros Hp Hw Hwfp Hwfv.
  destruct (scan_correct regex_fits p Hp Hw Hwfp (S (List.length v)) v ltac:(lia) Hwfv) as (b & H1 & H2).
  exists b. split; [exact H1|]. rewrite H2. symmetry. now apply word_occ_literal.
Qed.

(** No-panic forms. *)
Lemma get_match_no_panic lowercase regex_fits valid_user_id rs ev c :
  get_match lowercase regex_fits valid_user_id rs ev c <> None /\
  forall s, get_match lowercase regex_fits valid_user_id rs ev c <> Some (Panic s).
Proof.
  destruct (get_match_total lowercase regex_fits valid_user_id rs ev c) as [m ->].
  split; [discriminate|intros s; discriminate].
Qed.

Lemma get_actions_no_panic lowercase regex_fits valid_user_id rs ev c :
  get_actions lowercase regex_fits valid_user_id rs ev c <> None /\
  forall s, get_actions lowercase regex_fits valid_user_id rs ev c <> Some (Panic s).
Proof.
  destruct (get_actions_total lowercase regex_fits valid_user_id rs ev c) as [m ->].
  split; [discriminate|intros s; discriminate].
Qed.

Lemma cond_applies_no_panic lowercase regex_fits valid_user_id cd ev c :
  cond_applies lowercase regex_fits valid_user_id cd (from_raw ev) c <> None /\
  forall s, cond_applies lowercase regex_fits valid_user_id cd (from_raw ev) c <> Some (Panic s).
Proof.
  destruct (cond_total lowercase regex_fits valid_user_id cd (from_raw ev) c) as [m ->].
  split; [discriminate|intros s; discriminate].
Qed.

Lemma matches_word_no_panic regex_fits v p :
  matches_word regex_fits (S (List.length v)) v p <> None /\
  forall s, matches_word regex_fits (S (List.length v)) v p <> Some (Panic s).
Proof.
  destruct (matches_word_total regex_fits (S (List.length v)) v p ltac:(lia)) as [b ->].
  split; [discriminate|intros s; discriminate].
Qed.

(** * Known finding C12-mentions-unrepresentable: a member of the class on which the model (and
    ruma) deviates from the specification. *)
Definition w_event : pjson :=
  PObj [(s!"content", PObj [(s!"body", PStr s!"me"); (s!"m.mentions", PNum)]);
        (s!"sender", PStr s!"@a:b.c")].
Definition w_rules : ruleset :=
  {| rs_override := [{| c_id := s!".m.rule.contains_display_name"; c_enabled := true;
                        c_conds := [CDisplayName]; c_actions := 1 |}];
     rs_content := []; rs_room := []; rs_sender := []; rs_underride := [] |}.
Definition w_ctx : ctx :=
  {| x_room_id := s!"!r:x.y"; x_member_count := 2; x_user_id := s!"@me:x.y"; x_display_name := s!"me";
     x_power_levels := None |}.

Lemma finding_mentions_witness :
  pwfb w_event = true /\ parseable w_event = true /\ ruleset_wf w_rules = true /\
  mentions_unrepresentable w_event = true /\
  get_match (fun s => s) (fun _ => true) (fun _ => true) w_rules w_event w_ctx
    = Some (Ok (Some (0, s!".m.rule.contains_display_name", 1))) /\
  spec_get_match (fun s => s) (fun _ => true) w_rules w_event w_ctx = None.
Proof. repeat split; vm_compute; reflexivity. Qed.
