(** C12.Proofs5 — flattening: escaped dot-paths are in bijection with lists of field names, and
    looking a key up in the flattened event is following the path in the event. *)
From Base Require Import Prelude Sx Json.
From Coq Require Import ZifyBool ZifyNat ZifyN.
From C12 Require Import Types Text Glob Model Spec.

Ltac Zify.zify_post_hook ::= Z.div_mod_to_equations.

(** * Escaping *)
Definition esc1 (k : str) : str :=
  flat_map (fun b => if (b =? c_bs) || (b =? c_dot) then [c_bs; b] else [b]) k.

Lemma flat_map_flat_map {A B C} (f : A -> list B) (g : B -> list C) l :
  flat_map g (flat_map f l) = flat_map (fun x => flat_map g (f x)) l.
Proof. induction l as [|x l IH]; [reflexivity|]. cbn. now rewrite flat_map_app, IH. Qed.

Lemma escape_key_esc1 k : escape_key k = esc1 k.
Proof.
  unfold escape_key, replace_byte, esc1. rewrite flat_map_flat_map. apply flat_map_ext. intros b.
  destruct (N.eqb_spec b c_bs) as [->|Hbs]; [reflexivity|]. cbn [orb flat_map app].
  destruct (N.eqb_spec b c_dot) as [->|Hd]; reflexivity.
Qed.

(** The escaped dot-path of a non-empty list of field names. *)
Fixpoint esc_path (fields : list str) : str :=
  match fields with
  | [] => []
  | [k] => escape_key k
  | k :: rest => escape_key k ++ [c_dot] ++ esc_path rest
  end.

Lemma esc_path_snoc fields k :
  fields <> [] -> esc_path (fields ++ [k]) = esc_path fields ++ [c_dot] ++ escape_key k.
Proof.
  induction fields as [|a fields IH]; [congruence|]. intros _. destruct fields as [|b fields].
  - reflexivity.
  - change ((a :: b :: fields) ++ [k]) with (a :: (b :: fields) ++ [k]).
    change (esc_path (a :: (b :: fields) ++ [k])) with (escape_key a ++ [c_dot] ++ esc_path ((b :: fields) ++ [k])).
    rewrite IH by discriminate. change (esc_path (a :: b :: fields)) with (escape_key a ++ [c_dot] ++ esc_path (b :: fields)).
    now rewrite <- !app_assoc.
Qed.

Lemma esc_path_cons k ks :
  esc_path (k :: ks) = esc1 k ++ match ks with [] => [] | _ => [c_dot] ++ esc_path ks end.
Proof. destruct ks; cbn [esc_path]; rewrite escape_key_esc1; [now rewrite app_nil_r|reflexivity]. Qed.

(** * Parsing an escaped path gives the field names back *)
Lemma pp_dot s cur : parse_path_from (c_dot :: s) cur = option_map (cons (rev cur)) (parse_path_from s []).
Proof. reflexivity. Qed.

Lemma pp_bs x s cur : x = c_dot \/ x = c_bs -> parse_path_from (c_bs :: x :: s) cur = parse_path_from s (x :: cur).
Proof. intros [->| ->]; reflexivity. Qed.

Lemma pp_other b s cur : b <> c_dot -> b <> c_bs -> parse_path_from (b :: s) cur = parse_path_from s (b :: cur).
Proof. intros H1 H2. cbn [parse_path_from]. apply N.eqb_neq in H1, H2. now rewrite H1, H2. Qed.

Lemma esc1_cons b k :
  esc1 (b :: k) = (if (b =? c_bs) || (b =? c_dot) then [c_bs; b] else [b]) ++ esc1 k.
Proof. reflexivity. Qed.

Lemma parse_esc1 k : forall rest cur,
  parse_path_from (esc1 k ++ rest) cur = parse_path_from rest (rev k ++ cur).
Proof.
  induction k as [|b k IH]; intros rest cur; [reflexivity|].
  rewrite esc1_cons. cbn [rev]. rewrite <- !app_assoc. cbn [app].
  destruct (N.eqb_spec b c_bs) as [->|Hbs].
  - cbn [orb app]. rewrite pp_bs by now right. apply IH.
  - cbn [orb]. destruct (N.eqb_spec b c_dot) as [->|Hd].
    + cbn [app]. rewrite pp_bs by now left. apply IH.
    + cbn [app]. rewrite pp_other by assumption. apply IH.
Qed.

Lemma parse_esc_path : forall fields, fields <> [] -> parse_path (esc_path fields) = Some fields.
Proof.
  unfold parse_path. induction fields as [|k fields IH]; [congruence|]. intros _.
  destruct fields as [|k2 fields].
  - cbn [esc_path]. rewrite escape_key_esc1, <- (app_nil_r (esc1 k)), parse_esc1. cbn [parse_path_from].
    now rewrite app_nil_r, rev_involutive.
  - change (esc_path (k :: k2 :: fields)) with (escape_key k ++ [c_dot] ++ esc_path (k2 :: fields)).
    rewrite escape_key_esc1, parse_esc1. cbn [app parse_path_from]. rewrite N.eqb_refl.
    rewrite IH by discriminate. cbn. now rewrite app_nil_r, rev_involutive.
Qed.

(** ... and only escaped paths parse (the escaping is canonical). *)
Lemma parse_canonical : forall n s cur ks, (List.length s < n)%nat ->
  parse_path_from s cur = Some ks ->
  exists k ks', ks = (rev cur ++ k) :: ks' /\
                s = esc1 k ++ match ks' with [] => [] | _ => [c_dot] ++ esc_path ks' end.
Proof.
  induction n as [|n IH]; intros s cur ks Hlen H; [lia|].
  destruct s as [|b s]; cbn [parse_path_from] in H.
  - injection H as <-. exists [], []. now rewrite app_nil_r.
  - destruct (N.eqb_spec b c_dot) as [->|Hd].
    + destruct (parse_path_from s []) as [ks1|] eqn:E; [|discriminate]. cbn in H. injection H as <-.
      apply IH in E; [|cbn in Hlen; lia]. destruct E as (k & ks' & -> & ->).
      exists [], ((rev [] ++ k) :: ks'). split; [now rewrite app_nil_r|].
      cbn [rev app esc1 flat_map]. now rewrite esc_path_cons.
    + destruct (N.eqb_spec b c_bs) as [->|Hbs].
      * destruct s as [|x s]; [discriminate|].
        destruct ((x =? c_dot) || (x =? c_bs)) eqn:Ex; [|discriminate].
        apply IH in H; [|cbn in Hlen; lia]. destruct H as (k & ks' & -> & ->).
        exists (x :: k), ks'. cbn [rev]. rewrite <- app_assoc. split; [reflexivity|].
        cbn [esc1 flat_map]. fold (esc1 k). rewrite orb_comm in Ex. rewrite Ex. reflexivity.
      * apply IH in H; [|cbn in Hlen; lia]. destruct H as (k & ks' & -> & ->).
        exists (b :: k), ks'. cbn [rev]. rewrite <- app_assoc. split; [reflexivity|].
        cbn [esc1 flat_map]. fold (esc1 k). apply N.eqb_neq in Hd, Hbs. rewrite Hd, Hbs. reflexivity.
Qed.

Lemma parse_path_inv s ks : parse_path s = Some ks -> ks <> [] /\ s = esc_path ks.
Proof.
  intros H. apply (parse_canonical (S (List.length s))) in H; [|lia].
  destruct H as (k & ks' & -> & ->). split; [discriminate|]. cbn [rev app]. now rewrite esc_path_cons.
Qed.

(** Escaped dot-paths never collide. *)
Theorem esc_path_injective a b : a <> [] -> b <> [] -> esc_path a = esc_path b -> a = b.
Proof.
  intros Ha Hb E. pose proof (parse_esc_path a Ha) as Pa. rewrite E, (parse_esc_path b Hb) in Pa. congruence.
Qed.

(** * Keys relative to a prefix of field names *)
Fixpoint strip_fields (pre ks : list str) : option (list str) :=
  match pre, ks with
  | [], _ => Some ks
  | a :: pre', b :: ks' => if str_eqb a b then strip_fields pre' ks' else None
  | _ :: _, [] => None
  end.

Definition key_rest (pre : list str) (key : str) : option (list str) :=
  match parse_path key with Some ks => strip_fields pre ks | None => None end.

Lemma strip_fields_snoc pre k : forall ks,
  strip_fields (pre ++ [k]) ks =
  match strip_fields pre ks with
  | Some (k0 :: r) => if str_eqb k0 k then Some r else None
  | _ => None
  end.
Proof.
  induction pre as [|a pre IH]; intros ks; cbn [app strip_fields].
  - destruct ks as [|b ks]; [reflexivity|]. rewrite (str_eqb_sym k b). reflexivity.
  - destruct ks as [|b ks]; [reflexivity|]. destruct (str_eqb a b); [apply IH|reflexivity].
Qed.

Lemma key_rest_snoc pre k key :
  key_rest (pre ++ [k]) key =
  match key_rest pre key with
  | Some (k0 :: r) => if str_eqb k0 k then Some r else None
  | _ => None
  end.
Proof. unfold key_rest. destruct (parse_path key); [apply strip_fields_snoc|reflexivity]. Qed.

Lemma strip_fields_nil_iff pre ks : strip_fields pre ks = Some [] <-> ks = pre.
Proof.
  revert ks; induction pre as [|a pre IH]; intros ks; cbn [strip_fields].
  - split; [now intros [= ->]|now intros ->].
  - destruct ks as [|b ks]; [split; discriminate|]. dse a b.
    + rewrite IH. split; [now intros ->|now intros [= ->]].
    + split; [discriminate|]. intros [= ? _]. congruence.
Qed.

Lemma key_rest_nil_iff pre key : pre <> [] -> (key_rest pre key = Some [] <-> key = esc_path pre).
Proof.
  intros Hp. unfold key_rest. split.
  - destruct (parse_path key) as [ks|] eqn:E; [|discriminate]. intros H.
    apply strip_fields_nil_iff in H. subst ks. now apply parse_path_inv in E as [_ ->].
  - intros ->. rewrite parse_esc_path by exact Hp. now apply strip_fields_nil_iff.
Qed.

(** * The flattened view of a value *)
Definition look (v : pjson) (rest : list str) : option fval :=
  match navigate rest v with Some x => view_of x | None => None end.

Lemma filter_map_flat_map {A B} (f : A -> option B) l :
  filter_map f l = flat_map (fun x => match f x with Some s => [s] | None => [] end) l.
Proof. induction l as [|x l IH]; [reflexivity|]. cbn. destruct (f x); cbn; now rewrite IH. Qed.

Lemma fval_of_view v : (forall m, v <> PObj m) -> fval_of v = view_of v.
Proof.
  intros H. destruct v as [|b|z| | |s|l|m0]; try reflexivity.
  - cbn. f_equal. f_equal. apply filter_map_flat_map.
  - exfalso. now apply (H m0).
Qed.

Lemma look_non_object v k rest : (forall m, v <> PObj m) -> look v (k :: rest) = None.
Proof. intros H. unfold look. destruct v as [|b|z| | |s|l|m0]; try reflexivity. exfalso. now apply (H m0). Qed.

(** The fold over the fields of an object (F:50-54). *)
Definition child_path (path : option str) (k : str) : str :=
  match path with Some p => p ++ [c_dot] ++ escape_key k | None => escape_key k end.

Definition flatten_fields (path : option str) (fs : list (str * pjson)) (m : fmap) : fmap :=
  fold_left (fun m kx => flatten_value (snd kx) (Some (child_path path (fst kx))) m) fs m.

Lemma flatten_fields_cons path k x fs m :
  flatten_fields path ((k, x) :: fs) m = flatten_fields path fs (flatten_value x (Some (child_path path k)) m).
Proof. reflexivity. Qed.

Lemma flatten_value_obj path : forall fs k x m,
  flatten_value (PObj ((k, x) :: fs)) path m = flatten_fields path ((k, x) :: fs) m.
Proof.
  induction fs as [|[k1 x1] fs IH]; intros k x m.
  - destruct path; reflexivity.
  - change (flatten_value (PObj ((k, x) :: (k1, x1) :: fs)) path m)
      with (flatten_value (PObj ((k1, x1) :: fs)) path (flatten_value x (Some (child_path path k)) m)).
    rewrite IH. reflexivity.
Qed.

Definition path_of (pre : list str) : option str :=
  match pre with [] => None | _ => Some (esc_path pre) end.

Lemma child_path_of pre k : child_path (path_of pre) k = esc_path (pre ++ [k]).
Proof.
  destruct pre as [|a pre]; [reflexivity|]. unfold path_of, child_path. now rewrite esc_path_snoc by discriminate.
Qed.

(** What looking [key] up gives after the value [v] was flattened at the fields [pre]. *)
Definition lookup_after (v : pjson) (pre : list str) (m : fmap) (key : str) : option fval :=
  match key_rest pre key with
  | Some rest => match look v rest with Some fv => Some fv | None => lookup key m end
  | None => lookup key m
  end.

Definition flat_ok (v : pjson) : Prop :=
  forall pre m key, pre <> [] ->
    lookup key (flatten_value v (Some (esc_path pre)) m) = lookup_after v pre m key.

Lemma flat_ok_leaf v : (forall m, v <> PObj m) -> flat_ok v.
Proof.
  intros Hno pre m key Hpre. unfold lookup_after.
  assert (E : flatten_value v (Some (esc_path pre)) m =
              match fval_of v with Some fv => insert (esc_path pre) fv m | None => m end).
  { destruct v as [|b|z| | |s|l|m1]; try reflexivity. exfalso. now apply (Hno m1). }
  rewrite E, (fval_of_view v Hno).
  destruct (key_rest pre key) as [[|k0 rest]|] eqn:Ek.
  - apply key_rest_nil_iff in Ek; [|exact Hpre]. subst key. unfold look. cbn [navigate].
    destruct (view_of v); [|reflexivity]. now rewrite lookup_insert, str_eqb_refl.
  - rewrite look_non_object by exact Hno.
    destruct (view_of v); [|reflexivity]. rewrite lookup_insert.
    dse key (esc_path pre); [|reflexivity].
    exfalso. assert (H : key_rest pre (esc_path pre) = Some []) by now apply key_rest_nil_iff. congruence.
  - destruct (view_of v); [|reflexivity]. rewrite lookup_insert.
    dse key (esc_path pre); [|reflexivity].
    exfalso. assert (H : key_rest pre (esc_path pre) = Some []) by now apply key_rest_nil_iff. congruence.
Qed.

Lemma flatten_fields_lookup pre : forall fs m key,
  sorted fs -> Forall (fun kv => flat_ok (snd kv)) fs ->
  lookup key (flatten_fields (path_of pre) fs m) =
  match key_rest pre key with
  | Some (k0 :: rest) =>
      match lookup k0 fs with
      | Some x => match look x rest with Some fv => Some fv | None => lookup key m end
      | None => lookup key m
      end
  | _ => lookup key m
  end.
Proof.
  induction fs as [|[k x] fs IH]; intros m key Hs Hall.
  - cbn. destruct (key_rest pre key) as [[|? ?]|]; reflexivity.
  - rewrite flatten_fields_cons.
    cbn [sorted] in Hs. destruct Hs as [Hgt Hs]. inversion Hall as [|? ? Hx Hall']; subst. cbn [snd] in Hx.
    rewrite IH by assumption. rewrite child_path_of.
    assert (Hm : lookup key (flatten_value x (Some (esc_path (pre ++ [k]))) m) = lookup_after x (pre ++ [k]) m key).
    { apply Hx. now destruct pre. }
    unfold lookup_after in Hm. rewrite key_rest_snoc in Hm.
    destruct (key_rest pre key) as [[|k0 rest]|]; try exact Hm.
    cbn [lookup]. dse k0 k.
    + try rewrite str_eqb_refl in Hm. rewrite (lookup_all_gt k fs Hgt). exact Hm.
    + try (apply str_eqb_neq in Hne; rewrite Hne in Hm). rewrite Hm. reflexivity.
Qed.

Lemma pwfb_obj m : pwfb (PObj m) = true -> sorted m /\ Forall (fun kv => pwfb (snd kv) = true) m.
Proof.
  cbn [pwfb]. intros H. apply andb_true_iff in H as [H1 H2]. split; [now apply sortedb_sorted|].
  apply Forall_forall. now apply forallb_forall.
Qed.

Lemma look_obj m k0 rest :
  look (PObj m) (k0 :: rest) = match lookup k0 m with Some x => look x rest | None => None end.
Proof. unfold look. cbn [navigate]. now destruct (lookup k0 m). Qed.

Theorem flatten_ok : forall v, pwfb v = true -> flat_ok v.
Proof.
  induction v as [| | | | | |l _|m IH] using pjson_ind'; intros Hwf;
    try (apply flat_ok_leaf; intros ? ?; discriminate).
  destruct (pwfb_obj _ Hwf) as [Hs Hall].
  assert (Hflat : Forall (fun kv => flat_ok (snd kv)) m).
  { rewrite Forall_forall in *. intros kv Hin. apply IH; [exact Hin|now apply Hall]. }
  intros pre m0 key Hpre. unfold lookup_after. destruct m as [|[k x] m].
  - (* the empty object *)
    cbn [flatten_value path_str].
    destruct (key_rest pre key) as [[|k0 rest]|] eqn:Ek.
    + apply key_rest_nil_iff in Ek; [|exact Hpre]. subst key. cbn. now rewrite lookup_insert, str_eqb_refl.
    + rewrite look_obj. cbn [lookup]. rewrite lookup_insert.
      dse key (esc_path pre); [|reflexivity].
      exfalso. assert (H : key_rest pre (esc_path pre) = Some []) by now apply key_rest_nil_iff. congruence.
    + rewrite lookup_insert. dse key (esc_path pre); [|reflexivity].
      exfalso. assert (H : key_rest pre (esc_path pre) = Some []) by now apply key_rest_nil_iff. congruence.
  - rewrite flatten_value_obj.
    replace (Some (esc_path pre)) with (path_of pre) by (destruct pre; [congruence|reflexivity]).
    rewrite flatten_fields_lookup by assumption.
    destruct (key_rest pre key) as [[|k0 rest]|]; try reflexivity.
    rewrite look_obj. destruct (lookup k0 ((k, x) :: m)); reflexivity.
Qed.

(** * [from_raw], [get], [get_str] *)
Lemma has_bad_parseable v : has_bad v = negb (parseable v).
Proof.
  induction v as [| | | | | |l IH|m IH] using pjson_ind'; try reflexivity.
  - cbn [has_bad parseable]. induction IH as [|x l Hx _ IHl]; [reflexivity|]. cbn. rewrite Hx, IHl.
    now destruct (parseable x).
  - cbn [has_bad parseable]. induction IH as [|x l Hx _ IHl]; [reflexivity|]. cbn. rewrite Hx, IHl.
    now destruct (parseable (snd x)).
Qed.

Lemma strip_fields_nil ks : strip_fields [] ks = Some ks.
Proof. reflexivity. Qed.

(** Looking a key up in the flattened event is following the path in the event. *)
Theorem flatten_get fs key :
  pwfb (PObj fs) = true -> parseable (PObj fs) = true -> fs <> [] ->
  fget (from_raw (PObj fs)) key =
  match property (PObj fs) key with Some v => view_of v | None => None end.
Proof.
  intros Hwf Hp Hne. unfold fget, from_raw. rewrite has_bad_parseable, Hp. cbn [negb].
  destruct fs as [|[k x] fs]; [congruence|]. rewrite flatten_value_obj.
  destruct (pwfb_obj _ Hwf) as [Hs Hall].
  change (flatten_fields None) with (flatten_fields (path_of [])). rewrite flatten_fields_lookup.
  - unfold key_rest, property. destruct (parse_path key) as [ks|] eqn:E; [|reflexivity].
    rewrite strip_fields_nil. apply parse_path_inv in E as [Hks _].
    destruct ks as [|k0 rest]; [congruence|]. cbn [lookup navigate].
    destruct (if str_eqb k0 k then Some x else lookup k0 fs) as [y|]; [|reflexivity].
    unfold look. now destruct (navigate rest y) as [z|]; [destruct (view_of z)|].
  - exact Hs.
  - rewrite Forall_forall in *. intros kv Hin. apply flatten_ok. now apply Hall.
Qed.

(** The empty event is flattened to the single path "" holding the empty-object marker. *)
Lemma from_raw_empty : from_raw (PObj []) = [([], FEmptyObj)].
Proof. reflexivity. Qed.

Lemma property_empty key : property (PObj []) key = None.
Proof.
  unfold property. destruct (parse_path key) as [ks|] eqn:E; [|reflexivity].
  apply parse_path_inv in E as [Hks _]. destruct ks; [congruence|reflexivity].
Qed.

Section Observations.
Variable fs : list (str * pjson).
Hypothesis Hwf : pwfb (PObj fs) = true.
Hypothesis Hp : parseable (PObj fs) = true.
Let ev := PObj fs.

Lemma fget_str_property key : fget_str (from_raw ev) key = property_str ev key.
Proof.
  unfold ev. destruct fs as [|kx fs'] eqn:Efs.
  - unfold property_str. rewrite property_empty, from_raw_empty. unfold fget_str. cbn [lookup].
    now destruct (str_eqb key []).
  - rewrite <- Efs in *. unfold fget_str, property_str.
    pose proof (flatten_get fs key Hwf Hp ltac:(rewrite Efs; discriminate)) as H. unfold fget in H. rewrite H.
    destruct (property (PObj fs) key) as [v|]; [|reflexivity].
    destruct v; try reflexivity.
    + cbn. now destruct (int_in_range z).
    + cbn. destruct m; reflexivity.
Qed.

Lemma value_is_view x (s : scalar) :
  (match s with SInt z => int_in_range z | _ => true end) = true ->
  match view_of x with Some f => fval_eq_scalar f s | None => false end = value_is x s.
Proof.
  intros Hs. destruct x as [|b|z| | |s0|l|m]; try (destruct s; reflexivity).
  - cbn [view_of scalar_view]. destruct (int_in_range z) eqn:Er; [destruct s; reflexivity|].
    destruct s as [| |z'|]; try reflexivity. cbn. symmetry. apply Z.eqb_neq. intros ->. congruence.
  - destruct m; destruct s; reflexivity.
Qed.

Lemma fget_is_property key s :
  (match s with SInt z => int_in_range z | _ => true end) = true ->
  match fget (from_raw ev) key with Some v => fval_eq_scalar v s | None => false end =
  match property ev key with Some x => value_is x s | None => false end.
Proof.
  intros Hs. unfold ev. destruct fs as [|kx fs'] eqn:Efs.
  - rewrite property_empty, from_raw_empty. unfold fget. cbn [lookup].
    now destruct (str_eqb key []).
  - rewrite <- Efs in *.
    rewrite (flatten_get fs key Hwf Hp ltac:(rewrite Efs; discriminate)).
    destruct (property (PObj fs) key) as [x|]; [|reflexivity]. now apply value_is_view.
Qed.

Lemma scalar_view_is x (s : scalar) :
  (match s with SInt z => int_in_range z | _ => true end) = true ->
  match scalar_view x with Some y => scalar_eqb y s | None => false end = value_is x s.
Proof.
  intros Hs. destruct x as [|b|z| | |s0|l|m]; try (destruct s; reflexivity).
  cbn [scalar_view]. destruct (int_in_range z) eqn:Er; [destruct s; reflexivity|].
  destruct s as [| |z'|]; try reflexivity. cbn. symmetry. apply Z.eqb_neq. intros ->. congruence.
Qed.

Lemma fget_contains_property key s :
  (match s with SInt z => int_in_range z | _ => true end) = true ->
  match fget (from_raw ev) key with Some (FArr a) => existsb (fun x => scalar_eqb x s) a | _ => false end =
  match property ev key with Some (PArr l) => existsb (fun x => value_is x s) l | _ => false end.
Proof.
  intros Hs. unfold ev. destruct fs as [|kx fs'] eqn:Efs.
  - rewrite property_empty, from_raw_empty. unfold fget. cbn [lookup].
    now destruct (str_eqb key []).
  - rewrite <- Efs in *.
    rewrite (flatten_get fs key Hwf Hp ltac:(rewrite Efs; discriminate)).
    destruct (property (PObj fs) key) as [x|]; [|reflexivity].
    destruct x; try reflexivity.
    + cbn. now destruct (int_in_range z).
    + cbn [view_of]. induction l as [|y l IH]; [reflexivity|]. cbn [flat_map existsb].
      rewrite <- (scalar_view_is y s Hs). destruct (scalar_view y); cbn [app existsb]; now rewrite IH.
    + cbn. destruct m; reflexivity.
Qed.

End Observations.
