(** C12.Proofs3 — the regex of [matches_word]'s wildcard branch: the chunk list built from a
    pattern, matched between the groups [(?-u:^|\W|\b)] and [(?-u:\b|\W|$)], accepts exactly the
    values in which the glob occurs between word boundaries. *)
From Base Require Import Prelude.
From Coq Require Import ZifyBool ZifyNat ZifyN.
From C12 Require Import Text Glob Model Spec Proofs1 Proofs2.

Ltac Zify.zify_post_hook ::= Z.div_mod_to_equations.

(** * Runs of characters *)

(** [nch n s]: [s] is the concatenation of [n] characters. *)
Inductive nch : nat -> str -> Prop :=
| NC0 : nch 0 []
| NCS n c s : one_char c -> at_boundary s = true -> nch n s -> nch (S n) (c ++ s).

Lemma at_boundary_app m post : at_boundary post = true -> at_boundary (m ++ post) = at_boundary m.
Proof. destruct m; cbn; auto. Qed.

Lemma at_boundary_app_nonnil m post : m <> [] -> at_boundary (m ++ post) = at_boundary m.
Proof. destruct m; [congruence|reflexivity]. Qed.

Lemma nch_0 s : nch 0 s -> s = [].
Proof. now inversion 1. Qed.

Lemma nch_boundary n s : nch n s -> at_boundary s = true.
Proof.
  destruct 1 as [|n c s Hc _ _]; [reflexivity|]. destruct Hc as [b tl Hb _]. cbn. now rewrite Hb.
Qed.

Lemma nch_pos_nonnil n s : nch n s -> (0 < n)%nat -> s <> [].
Proof. destruct 1 as [|n c s Hc _ _]; [lia|]. intros _. destruct Hc. discriminate. Qed.

Lemma nch_app n1 s1 n2 s2 : nch n1 s1 -> nch n2 s2 -> nch (n1 + n2) (s1 ++ s2).
Proof.
  induction 1 as [|n c s Hc Hb _ IH]; intros H2; [exact H2|].
  rewrite <- app_assoc. cbn. constructor; [exact Hc| |now apply IH].
  rewrite at_boundary_app; [exact Hb|]. now apply nch_boundary in H2.
Qed.

Lemma nch_split n1 n2 s : nch (n1 + n2) s -> exists s1 s2, s = s1 ++ s2 /\ nch n1 s1 /\ nch n2 s2.
Proof.
  revert s; induction n1 as [|n1 IH]; intros s H.
  - exists [], s. split; [reflexivity|]. split; [constructor|exact H].
  - cbn in H. inversion H as [|n c s' Hc Hb Hn]; subst.
    destruct (IH _ Hn) as (s1 & s2 & -> & H1 & H2).
    exists (c ++ s1), s2. split; [now rewrite app_assoc|]. split; [|exact H2].
    constructor; [exact Hc| |exact H1].
    destruct s1 as [|x s1]; [reflexivity|]. exact Hb.
Qed.

(** The tail condition: a non-empty run must be followed by a character boundary. *)
Definition tail_ok (n : nat) (t1 : str) : Prop := (0 < n)%nat -> at_boundary t1 = true.

(** * Wildcards in the specification *)
Lemma glob_star_iff q t :
  glob (c_star :: q) t <-> exists n s t1, t = s ++ t1 /\ nch n s /\ tail_ok n t1 /\ glob q t1.
Proof.
  split.
  - remember (c_star :: q) as p eqn:Ep. induction 1 as [|p t H IH|p c t Hc Hb H IH|p c t Hc Hb H IH|b p t Hw H IH].
    + discriminate.
    + injection Ep as ->. exists O, [], t. split; [reflexivity|]. split; [constructor|]. split; [intros ?; lia|exact H].
    + destruct (IH Ep) as (n & s & t1 & -> & Hn & Ht & Hq).
      exists (S n), (c ++ s), t1. split; [now rewrite app_assoc|]. split.
      * constructor; [exact Hc| |exact Hn]. destruct s; [reflexivity|exact Hb].
      * split; [|exact Hq]. intros _. destruct n as [|n].
        -- apply nch_0 in Hn. subst s. exact Hb.
        -- apply Ht. lia.
    + discriminate.
    + injection Ep as -> _. discriminate.
  - intros (n & s & t1 & -> & Hn & Ht & Hq). revert Ht. induction Hn as [|n c s Hc Hb Hn IH]; intros Ht.
    + now apply G_star0.
    + rewrite <- app_assoc. apply G_star1; [exact Hc| |].
      * destruct s as [|x s]; [|exact Hb]. cbn. apply Ht. lia.
      * apply IH. intros Hpos. apply Ht. lia.
Qed.

Lemma glob_qm_iff q t :
  glob (c_qm :: q) t <-> exists s t1, t = s ++ t1 /\ nch 1 s /\ tail_ok 1 t1 /\ glob q t1.
Proof.
  split.
  - inversion 1; subst; try discriminate.
    exists c, t0. split; [reflexivity|]. split.
    + rewrite <- (app_nil_r c). constructor; [assumption|reflexivity|constructor].
    + split; [intros _; assumption|assumption].
  - intros (s & t1 & -> & Hn & Ht & Hq). inversion Hn as [|n c s' Hc Hb Hn']; subst.
    apply nch_0 in Hn'. subst s'. rewrite app_nil_r. apply G_qm; [exact Hc|apply Ht; lia|exact Hq].
Qed.

Definition has_star (run : str) : bool := existsb (fun b => b =? c_star) run.
Definition count_ok (run : str) (n : nat) : Prop :=
  if has_star run then (count_qm run <= n)%nat else n = count_qm run.

Lemma tail_ok_compose n1 s2 n2 t1 :
  nch n2 s2 -> tail_ok n2 t1 -> tail_ok n1 (s2 ++ t1) -> tail_ok (n1 + n2) t1.
Proof.
  intros H2 Ht2 Ht1 Hpos. destruct n2 as [|n2].
  - apply nch_0 in H2. subst s2. apply Ht1. lia.
  - apply Ht2. lia.
Qed.

(** A run of wildcards with [k] question marks stands for [k] characters, or at least [k] if it
    contains a star (the simplification made by [wildcards_to_regex]). *)
Lemma glob_run run q : Forall (fun b => is_wild b = true) run ->
  forall t, glob (run ++ q) t <->
            exists n s t1, t = s ++ t1 /\ nch n s /\ tail_ok n t1 /\ count_ok run n /\ glob q t1.
Proof.
  induction 1 as [|b run Hb _ IH]; intros t.
  - cbn [app]. split.
    + intros H. exists O, [], t. split; [reflexivity|]. split; [constructor|].
      split; [intros ?; lia|]. split; [reflexivity|exact H].
    + intros (n & s & t1 & -> & Hn & _ & Hc & Hq). unfold count_ok in Hc. cbn in Hc. subst n.
      apply nch_0 in Hn. now subst s.
  - cbn [app]. unfold is_wild in Hb. apply orb_true_iff in Hb as [Hb|Hb]; apply N.eqb_eq in Hb; subst b.
    + (* star *)
      rewrite glob_star_iff. split.
      * intros (n1 & s1 & t1 & -> & Hn1 & Ht1 & Hg). apply IH in Hg as (n2 & s2 & t2 & -> & Hn2 & Ht2 & Hc & Hq).
        exists (n1 + n2)%nat, (s1 ++ s2), t2. split; [now rewrite app_assoc|].
        split; [now apply nch_app|]. split; [eapply tail_ok_compose; eauto|]. split; [|exact Hq].
        unfold count_ok, has_star in *. cbn [existsb]. rewrite N.eqb_refl. cbn [orb].
        unfold count_qm in *. cbn [filter]. change (c_star =? c_qm) with false. cbv iota.
        destruct (existsb (fun b => b =? c_star) run); lia.
      * intros (n & s & t1 & -> & Hn & Ht & Hc & Hq).
        unfold count_ok, has_star in Hc. cbn [existsb] in Hc. rewrite N.eqb_refl in Hc. cbn [orb] in Hc.
        unfold count_qm in Hc. cbn [filter] in Hc. change (c_star =? c_qm) with false in Hc. cbv iota in Hc.
        fold (count_qm run) in Hc.
        (* give the star the surplus *)
        set (n2 := if has_star run then n else count_qm run).
        assert (Hle : (n2 <= n)%nat) by (unfold n2; destruct (has_star run); lia).
        replace n with ((n - n2) + n2)%nat in Hn by lia.
        apply nch_split in Hn as (s1 & s2 & -> & H1 & H2).
        exists (n - n2)%nat, s1, (s2 ++ t1). split; [now rewrite app_assoc|]. split; [exact H1|]. split.
        -- intros Hpos. destruct n2 as [|n2'] eqn:En2.
           ++ apply nch_0 in H2. subst s2. apply Ht. lia.
           ++ rewrite at_boundary_app_nonnil; [now apply nch_boundary in H2|]. eapply nch_pos_nonnil; [exact H2|lia].
        -- apply IH. exists n2, s2, t1. split; [reflexivity|]. split; [exact H2|]. split.
           ++ intros Hpos. apply Ht. lia.
           ++ split; [|exact Hq]. unfold count_ok, n2. destruct (has_star run); lia.
    + (* question mark *)
      rewrite glob_qm_iff. split.
      * intros (s1 & t1 & -> & Hn1 & Ht1 & Hg). apply IH in Hg as (n2 & s2 & t2 & -> & Hn2 & Ht2 & Hc & Hq).
        exists (1 + n2)%nat, (s1 ++ s2), t2. split; [now rewrite app_assoc|].
        split; [now apply nch_app|]. split; [eapply tail_ok_compose; eauto|]. split; [|exact Hq].
        unfold count_ok, has_star, count_qm in *. cbn [existsb filter]. change (c_qm =? c_star) with false.
        rewrite N.eqb_refl. cbn [orb List.length].
        destruct (existsb (fun b => b =? c_star) run); lia.
      * intros (n & s & t1 & -> & Hn & Ht & Hc & Hq).
        unfold count_ok, has_star, count_qm in Hc. cbn [existsb filter] in Hc. change (c_qm =? c_star) with false in Hc.
        rewrite N.eqb_refl in Hc. cbn [orb List.length] in Hc.
        fold (count_qm run) in Hc. fold (has_star run) in Hc.
        assert (Hpos : (1 <= n)%nat) by (destruct (has_star run); lia).
        replace n with (1 + (n - 1))%nat in Hn by lia.
        apply nch_split in Hn as (s1 & s2 & -> & H1 & H2).
        exists s1, (s2 ++ t1). split; [now rewrite app_assoc|]. split; [exact H1|]. split.
        -- intros _. destruct (n - 1)%nat as [|k] eqn:Ek.
           ++ apply nch_0 in H2. subst s2. apply Ht. lia.
           ++ rewrite at_boundary_app_nonnil; [now apply nch_boundary in H2|]. eapply nch_pos_nonnil; [exact H2|lia].
        -- apply IH. exists (n - 1)%nat, s2, t1. split; [reflexivity|]. split; [exact H2|]. split.
           ++ intros Hp. apply Ht. lia.
           ++ split; [|exact Hq]. unfold count_ok. destruct (has_star run); lia.
Qed.

(** * Wildcards in the regex *)
Lemma last_app_nonnil {A} (a b : list A) d : b <> [] -> last (a ++ b) d = last b d.
Proof.
  intros Hb. induction a as [|x a IH]; [reflexivity|]. cbn [app].
  change (last (x :: a ++ b) d) with (match a ++ b with [] => x | _ => last (a ++ b) d end).
  destruct (a ++ b) eqn:E; [|exact IH]. apply app_eq_nil in E as [_ E]. congruence.
Qed.

Lemma last_opt_app a b d : last_opt (a ++ b) d = last_opt b (last_opt a d).
Proof.
  destruct b as [|y b]; [now rewrite app_nil_r|].
  unfold last_opt at 1 2. destruct (a ++ y :: b) eqn:E; [now destruct a|]. rewrite <- E.
  f_equal. apply last_app_nonnil. discriminate.
Qed.

Lemma eat_conts_spec t : forall b, eat_conts b t = (last (b :: take_conts t) 0, drop_conts t).
Proof.
  induction t as [|x t IH]; intros b; cbn [eat_conts take_conts drop_conts]; [reflexivity|].
  destruct (is_cont x); [|reflexivity]. rewrite IH. f_equal.
Qed.

Section Wild.
Variable K : option N -> str -> bool.

Lemma m_star_mid t : forall b,
  m_star K true (Some b) t = m_star K false (Some (last (b :: take_conts t) 0)) (drop_conts t).
Proof.
  induction t as [|x t IH]; intros b; cbn [m_star take_conts drop_conts]; [reflexivity|].
  destruct (is_cont x) eqn:E; [rewrite IH; reflexivity|]. cbn [m_star last]. now rewrite E.
Qed.

Lemma m_star_unfold prev t :
  m_star K false prev t = true <->
  K prev t = true \/
  exists c t', t = c ++ t' /\ one_char c /\ at_boundary t' = true /\ m_star K false (Some (last c 0)) t' = true.
Proof.
  destruct t as [|b t]; cbn [m_star].
  - split; [auto|]. intros [H|(c & t' & E & Hc & _)]; [exact H|].
    apply one_char_nonnil in Hc. destruct c; [congruence|discriminate].
  - destruct (is_cont b) eqn:E.
    + split; [auto|]. intros [H|(c & t' & E' & Hc & _)]; [exact H|].
      destruct (one_char_inv _ Hc) as (b0 & tl & -> & Hb0 & _). cbn in E'. injection E' as -> _. congruence.
    + rewrite orb_true_iff, m_star_mid. split.
      * intros [H|H]; [now left|right].
        destruct (first_char_split b t E) as (H1 & H2 & H3).
        exists (b :: take_conts t), (drop_conts t). auto.
      * intros [H|(c & t' & E' & Hc & Hb & H)]; [now left|right].
        destruct (first_char_unique _ _ _ _ Hc Hb E') as (-> & -> & _). exact H.
Qed.

Lemma last_opt_char c prev : one_char c -> last_opt c prev = Some (last c 0).
Proof. intros [b tl _ _]. reflexivity. Qed.

Lemma m_star_spec : forall n0 prev t, (List.length t < n0)%nat ->
  (m_star K false prev t = true <->
   exists n s t1, t = s ++ t1 /\ nch n s /\ tail_ok n t1 /\ K (last_opt s prev) t1 = true).
Proof.
  induction n0 as [|n0 IH]; intros prev t Hlen; [lia|].
  rewrite m_star_unfold. split.
  - intros [H|(c & t' & -> & Hc & Hb & H)].
    + exists O, [], t. split; [reflexivity|]. split; [constructor|]. split; [intros ?; lia|exact H].
    + apply IH in H.
      2:{ rewrite app_length in Hlen. pose proof (one_char_nonnil _ Hc). destruct c; [congruence|cbn in Hlen; lia]. }
      destruct H as (n & s & t1 & -> & Hn & Ht & Hk).
      exists (S n), (c ++ s), t1. split; [now rewrite app_assoc|]. split.
      * constructor; [exact Hc| |exact Hn]. destruct s; [reflexivity|exact Hb].
      * split.
        -- intros _. destruct n as [|n]; [apply nch_0 in Hn; subst s; exact Hb|apply Ht; lia].
        -- rewrite last_opt_app, (last_opt_char c prev Hc). exact Hk.
  - intros (n & s & t1 & -> & Hn & Ht & Hk). destruct Hn as [|n c s Hc Hb Hn]; [now left|].
    right. exists c, (s ++ t1). split; [now rewrite app_assoc|]. split; [exact Hc|]. split.
    + destruct s as [|x s]; [|exact Hb]. cbn. apply Ht. lia.
    + apply IH.
      * rewrite <- app_assoc, app_length in Hlen. pose proof (one_char_nonnil _ Hc). destruct c; [congruence|cbn in Hlen; lia].
      * exists n, s, t1. split; [reflexivity|]. split; [exact Hn|]. split.
        -- intros Hp. apply Ht. lia.
        -- rewrite last_opt_app, (last_opt_char c prev Hc) in Hk. exact Hk.
Qed.

Lemma m_skip_spec (K' : option N -> str -> bool) : forall n prev t,
  m_skip n K' prev t = true <->
  exists s t1, t = s ++ t1 /\ nch n s /\ tail_ok n t1 /\ K' (last_opt s prev) t1 = true.
Proof.
  induction n as [|n IH]; intros prev t; cbn [m_skip].
  - split.
    + intros H. exists [], t. split; [reflexivity|]. split; [constructor|]. split; [intros ?; lia|exact H].
    + intros (s & t1 & -> & Hn & _ & Hk). apply nch_0 in Hn. now subst s.
  - destruct t as [|b t].
    + split; [discriminate|]. intros (s & t1 & E & Hn & _). exfalso.
      apply nch_pos_nonnil in Hn; [|lia]. destruct s; [congruence|discriminate].
    + destruct (is_cont b) eqn:Eb.
      * split; [discriminate|]. intros (s & t1 & E & Hn & _). exfalso.
        apply nch_boundary in Hn as Hbd. destruct s as [|x s]; [apply nch_pos_nonnil in Hn; [congruence|lia]|].
        cbn in E. injection E as -> _. cbn in Hbd. now rewrite Eb in Hbd.
      * rewrite eat_conts_spec. rewrite IH.
        destruct (first_char_split b t Eb) as (E1 & Hc1 & Hb1).
        split.
        -- intros (s & t1 & E & Hn & Ht & Hk).
           exists ((b :: take_conts t) ++ s), t1. split; [rewrite <- app_assoc, <- E; exact E1|]. split.
           ++ constructor; [exact Hc1| |exact Hn].
              destruct s as [|x s]; [reflexivity|]. rewrite E in Hb1. exact Hb1.
           ++ split.
              ** intros _. destruct n as [|n]; [apply nch_0 in Hn; subst s; cbn in E; now rewrite <- E|apply Ht; lia].
              ** rewrite last_opt_app. exact Hk.
        -- intros (s & t1 & E & Hn & Ht & Hk). inversion Hn as [|n' c s' Hc Hb Hn']; subst.
           rewrite <- app_assoc in E.
           assert (Hbd : at_boundary (s' ++ t1) = true).
           { destruct s' as [|x s']; [cbn; apply Ht; lia|exact Hb]. }
           destruct (first_char_unique _ _ _ _ Hc Hbd E) as (-> & E2 & _).
           exists s', t1. split; [now symmetry|]. split; [exact Hn'|]. split.
           ++ intros Hp. apply Ht. lia.
           ++ rewrite last_opt_app in Hk. exact Hk.
Qed.

(** A wildcard chunk. *)
Lemma m_wild_spec n (star : bool) prev t :
  m_skip n (if star then m_star K false else K) prev t = true <->
  exists m s t1, t = s ++ t1 /\ nch m s /\ tail_ok m t1 /\
                 (if star then (n <= m)%nat else m = n) /\ K (last_opt s prev) t1 = true.
Proof.
  rewrite m_skip_spec. destruct star.
  - split.
    + intros (s1 & t1 & -> & Hn1 & Ht1 & Hk).
      apply (m_star_spec (S (List.length t1))) in Hk; [|lia].
      destruct Hk as (n2 & s2 & t2 & -> & Hn2 & Ht2 & Hk).
      exists (n + n2)%nat, (s1 ++ s2), t2. split; [now rewrite app_assoc|].
      split; [now apply nch_app|]. split; [eapply tail_ok_compose; eauto|]. split; [lia|].
      now rewrite last_opt_app.
    + intros (m & s & t1 & -> & Hn & Ht & Hle & Hk).
      replace m with (n + (m - n))%nat in Hn by lia.
      apply nch_split in Hn as (s1 & s2 & -> & H1 & H2).
      exists s1, (s2 ++ t1). split; [now rewrite app_assoc|]. split; [exact H1|]. split.
      * intros Hp. destruct (m - n)%nat as [|k] eqn:Ek.
        -- apply nch_0 in H2. subst s2. apply Ht. lia.
        -- rewrite at_boundary_app_nonnil; [now apply nch_boundary in H2|]. eapply nch_pos_nonnil; [exact H2|lia].
      * apply (m_star_spec (S (List.length (s2 ++ t1)))); [lia|].
        exists (m - n)%nat, s2, t1. split; [reflexivity|]. split; [exact H2|]. split.
        -- intros Hp. apply Ht. lia.
        -- now rewrite <- last_opt_app.
  - split.
    + intros (s & t1 & -> & Hn & Ht & Hk). exists n, s, t1. auto.
    + intros (m & s & t1 & -> & Hn & Ht & -> & Hk). exists s, t1. auto.
Qed.
End Wild.

(** * Literal chunks *)
Lemma strip_prefix_spec s : forall t t', strip_prefix s t = Some t' <-> t = s ++ t'.
Proof.
  induction s as [|x s IH]; intros t t'; cbn [strip_prefix app].
  - split; [now intros [= ->]|now intros ->].
  - destruct t as [|y t]; [split; [discriminate|discriminate]|].
    destruct (N.eqb_spec x y) as [->|Hne].
    + rewrite IH. split; [now intros ->|now intros [= ->]].
    + split; [discriminate|]. intros [= ? _]. congruence.
Qed.

Lemma glob_lit_prefix lit q : Forall (fun b => is_wild b = false) lit ->
  forall mid, glob (lit ++ q) mid <-> exists mid', mid = lit ++ mid' /\ glob q mid'.
Proof.
  induction 1 as [|b lit Hb _ IH]; intros mid; cbn [app].
  - split; [intros H; now exists mid|now intros (m & -> & H)].
  - assert (Hs : b <> c_star) by (intros ->; discriminate).
    assert (Hq : b <> c_qm) by (intros ->; discriminate).
    split.
    + inversion 1; subst; try congruence.
      match goal with H : glob (lit ++ q) _ |- _ => apply IH in H as (m & -> & Hg) end.
      now exists m.
    + intros (m & -> & Hg). apply G_lit; [exact Hb|]. apply IH. now exists m.
Qed.

Lemma existsb_false_Forall {A} (f : A -> bool) l : Forall (fun b => f b = false) l -> existsb f l = false.
Proof. induction 1 as [|b l Hb _ IH]; [reflexivity|]. cbn. now rewrite Hb, IH. Qed.

Lemma glob_nonwild_head c p m : is_wild c = false -> glob (c :: p) m -> m <> [].
Proof.
  intros Hc H. inversion H; subst; first [discriminate | cbn in Hc; discriminate].
Qed.

(** * The chunk loop *)
Lemma Forall_ascii_wf run : Forall (fun b => b <? 128 = true) run -> wf_utf8 run = true.
Proof.
  induction 1 as [|b run Hb _ IH]; [reflexivity|].
  change (b :: run) with ([b] ++ run). apply wf_app; [now apply wf_ascii|exact IH].
Qed.

Lemma Forall_wild_ascii run : Forall (fun b => is_wild b = true) run -> Forall (fun b => b <? 128 = true) run.
Proof. apply Forall_impl. intros b. apply wild_ascii. Qed.

Definition Kspec (q : str) (K : option N -> str -> bool) : Prop :=
  forall prev t, wf_utf8 t = true ->
    (K prev t = true <->
     exists mid post, t = mid ++ post /\ wf_utf8 post = true /\ glob q mid /\
                      end_ok (last_opt mid prev) post = true).

Lemma count_ok_wild_chunk run m :
  (if has_star run then (count_qm run <= m)%nat else m = count_qm run) <-> count_ok run m.
Proof. reflexivity. Qed.

Lemma chunk_loop_spec : forall p (pw : bool) cur,
  (if pw then Forall (fun b => is_wild b = true) (rev cur)
   else Forall (fun b => is_wild b = false) (rev cur)) ->
  wf_utf8 (rev cur ++ p) = true ->
  Kspec (rev cur ++ p) (m_chunks (chunk_loop p pw cur)).
Proof.
  induction p as [|c p IH]; intros pw cur Hinv Hwf.
  - (* end of the pattern *)
    rewrite app_nil_r in *. cbn [chunk_loop]. destruct pw.
    + (* a final run of wildcards *)
      intros prev t Hwft. unfold wild_chunk. cbn [m_chunks]. rewrite m_wild_spec. split.
      * intros (m & s & t1 & -> & Hn & Ht & Hc & Hk).
        assert (Hwf1 : wf_utf8 t1 = true).
        { destruct m as [|m]; [apply nch_0 in Hn; now subst s|]. apply (wf_split s t1); [exact Hwft|apply Ht; lia]. }
        exists s, t1. split; [reflexivity|]. split; [exact Hwf1|]. split; [|exact Hk].
        rewrite <- (app_nil_r (rev cur)). apply glob_run; [exact Hinv|].
        exists m, s, []. split; [now rewrite app_nil_r|]. split; [exact Hn|].
        split; [intros _; reflexivity|]. split; [exact Hc|constructor].
      * intros (mid & post & -> & Hwfp & Hg & He).
        rewrite <- (app_nil_r (rev cur)) in Hg. apply glob_run in Hg; [|exact Hinv].
        destruct Hg as (m & s & t1 & -> & Hn & _ & Hc & Hq). inversion Hq; subst. rewrite app_nil_r in *.
        exists m, s, post. split; [reflexivity|]. split; [exact Hn|].
        split; [intros _; now apply wf_boundary|]. split; [exact Hc|exact He].
    + (* a final literal *)
      intros prev t Hwft. cbn [m_chunks]. split.
      * destruct (strip_prefix (rev cur) t) as [t'|] eqn:Es; [|discriminate]. intros He.
        apply strip_prefix_spec in Es. subst t. exists (rev cur), t'. split; [reflexivity|].
        split; [now apply (wf_prefix (rev cur))|]. split; [|exact He].
        apply glob_literal; [|reflexivity]. apply existsb_false_Forall. exact Hinv.
      * intros (mid & post & -> & Hwfp & Hg & He).
        apply glob_literal in Hg; [|apply existsb_false_Forall; exact Hinv]. subst mid.
        assert (Es : strip_prefix (rev cur) (rev cur ++ post) = Some post) by now apply strip_prefix_spec.
        rewrite Es. exact He.
  - cbn [chunk_loop].
    assert (Eapp : rev cur ++ c :: p = rev (c :: cur) ++ p) by (cbn [rev]; now rewrite <- app_assoc).
    destruct (is_wild c) eqn:Ec; destruct pw; cbn [andb negb].
    + (* wildcard continuing a run *)
      rewrite Eapp in *. apply IH; [|exact Hwf]. cbn [rev]. apply Forall_app. split; [exact Hinv|]. now constructor.
    + (* wildcard after a literal: close the literal *)
      assert (Hbc : at_boundary (c :: p) = true) by (cbn; rewrite ascii_not_cont; [reflexivity|now apply wild_ascii]).
      destruct (wf_split _ _ Hwf Hbc) as [Hwfl Hwfr].
      assert (IH' : Kspec (c :: p) (m_chunks (chunk_loop p true [c]))).
      { apply (IH true [c]); [cbn; now constructor|exact Hwfr]. }
      destruct cur as [|x cur']; [exact IH'|]. cbn [is_nil app].
      set (lit := rev (x :: cur')) in *.
      intros prev t Hwft. cbn [m_chunks]. split.
      * destruct (strip_prefix lit t) as [t'|] eqn:Es; [|discriminate]. intros Hk.
        apply strip_prefix_spec in Es. subst t.
        assert (Hwft' : wf_utf8 t' = true) by now apply (wf_prefix lit).
        apply IH' in Hk; [|exact Hwft']. destruct Hk as (mid' & post & -> & Hwfp & Hg & He).
        exists (lit ++ mid'), post. split; [now rewrite app_assoc|]. split; [exact Hwfp|]. split.
        -- apply glob_lit_prefix; [exact Hinv|]. now exists mid'.
        -- now rewrite last_opt_app.
      * intros (mid & post & -> & Hwfp & Hg & He).
        apply glob_lit_prefix in Hg; [|exact Hinv]. destruct Hg as (mid' & -> & Hg).
        rewrite <- app_assoc.
        assert (Es : strip_prefix lit (lit ++ mid' ++ post) = Some (mid' ++ post)) by now apply strip_prefix_spec.
        rewrite Es. apply IH'.
        -- rewrite <- app_assoc in Hwft. now apply (wf_prefix lit).
        -- exists mid', post. split; [reflexivity|]. split; [exact Hwfp|]. split; [exact Hg|].
           now rewrite <- last_opt_app.
    + (* literal after a run of wildcards: close the run *)
      set (run := rev cur) in *.
      assert (Hwfrun : wf_utf8 run = true) by (apply Forall_ascii_wf, Forall_wild_ascii; exact Hinv).
      assert (Hwfr : wf_utf8 (c :: p) = true) by now apply (wf_prefix run).
      assert (IH' : Kspec (c :: p) (m_chunks (chunk_loop p false [c]))).
      { apply (IH false [c]); [cbn; constructor; [exact Ec|constructor]|exact Hwfr]. }
      intros prev t Hwft. unfold wild_chunk. cbn [m_chunks]. rewrite m_wild_spec. split.
      * intros (m & s & t1 & -> & Hn & Ht & Hc & Hk).
        assert (Hwf1 : wf_utf8 t1 = true).
        { destruct m as [|m]; [apply nch_0 in Hn; now subst s|]. apply (wf_split s t1); [exact Hwft|apply Ht; lia]. }
        apply IH' in Hk; [|exact Hwf1]. destruct Hk as (mid' & post & -> & Hwfp & Hg & He).
        exists (s ++ mid'), post. split; [now rewrite app_assoc|]. split; [exact Hwfp|]. split.
        -- apply glob_run; [exact Hinv|]. exists m, s, mid'. split; [reflexivity|]. split; [exact Hn|]. split.
           ++ intros Hp. specialize (Ht Hp).
              assert (mid' <> []) by (eapply glob_nonwild_head; eauto).
              now rewrite at_boundary_app_nonnil in Ht.
           ++ split; [exact Hc|exact Hg].
        -- now rewrite last_opt_app.
      * intros (mid & post & -> & Hwfp & Hg & He).
        apply glob_run in Hg; [|exact Hinv]. destruct Hg as (m & s & mid' & -> & Hn & Ht & Hc & Hg).
        exists m, s, (mid' ++ post). split; [now rewrite app_assoc|]. split; [exact Hn|]. split.
        -- intros Hp. specialize (Ht Hp).
           assert (mid' <> []) by (eapply glob_nonwild_head; eauto).
           now rewrite at_boundary_app_nonnil.
        -- split; [exact Hc|]. apply IH'.
           ++ rewrite <- app_assoc in Hwft. destruct m as [|m]; [apply nch_0 in Hn; now subst s|].
              apply (wf_split s (mid' ++ post)); [exact Hwft|].
              assert (mid' <> []) by (eapply glob_nonwild_head; eauto).
              rewrite at_boundary_app_nonnil by assumption. apply Ht. lia.
           ++ exists mid', post. split; [reflexivity|]. split; [exact Hwfp|]. split; [exact Hg|].
              now rewrite <- last_opt_app.
    + (* literal byte continuing a literal *)
      rewrite Eapp in *. apply IH; [|exact Hwf]. cbn [rev]. apply Forall_app. split; [exact Hinv|]. now constructor.
Qed.

Theorem chunks_spec p : wf_utf8 p = true -> Kspec p (m_chunks (chunks_of p)).
Proof. intros H. apply (chunk_loop_spec p false []); [constructor|exact H]. Qed.
