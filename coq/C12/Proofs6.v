(** C12.Proofs6 — mentions, conditions, rules, [get_match]; totality. *)
From Base Require Import Prelude Sx Json.
From Coq Require Import ZifyBool ZifyNat ZifyN.
From Gen Require Import PushLegacyIds.
From C12 Require Import Types Text Glob Model Spec Proofs1 Proofs2 Proofs3 Proofs4 Proofs5.

Ltac Zify.zify_post_hook ::= Z.div_mod_to_equations.

(** * The ids the code compares with are the ids the specification names
    (re-checked whenever ruma's predefined ids change). *)
Lemma legacy_ids_ok :
  id_roomnotif = s!".m.rule.roomnotif" /\
  id_contains_display_name = s!".m.rule.contains_display_name" /\
  id_contains_user_name = s!".m.rule.contains_user_name".
Proof. repeat split; reflexivity. Qed.

(** * Mentions *)
Definition f_content : str := s!"content".
Definition f_mentions : str := s!"m.mentions".

Lemma k_mentions_path : k_mentions = esc_path [f_content; f_mentions].
Proof. reflexivity. Qed.

Lemma In_lookup_some {A} k (v : A) m : In (k, v) m -> exists v', lookup k m = Some v'.
Proof.
  induction m as [|[k' v'] m IH]; [intros []|]. intros [E|Hin]; cbn [lookup].
  - inversion E; subst. rewrite str_eqb_refl. now eexists.
  - destruct (str_eqb k k'); [now eexists|auto].
Qed.

Lemma navigate_app a b v :
  navigate (a ++ b) v = match navigate a v with Some x => navigate b x | None => None end.
Proof.
  revert v; induction a as [|k a IH]; intros v; [reflexivity|]. cbn [app navigate].
  destruct v; try reflexivity. destruct (lookup k m); [apply IH|reflexivity].
Qed.

Lemma look_app a b v : look v (a ++ b) = match navigate a v with Some x => look x b | None => None end.
Proof. unfold look. rewrite navigate_app. now destruct (navigate a v). Qed.

(** A value has a part that the flattened form keeps iff it is [representable]. *)
Lemma representable_iff : forall v, pwfb v = true ->
  (representable v = true <-> exists rest fv, look v rest = Some fv).
Proof.
  induction v as [| | | | | |l _|m IH] using pjson_ind'; intros Hwf.
  - split; [intros _; exists [], (FScalar SNull); reflexivity|reflexivity].
  - split; [intros _; exists [], (FScalar (SBool b)); reflexivity|reflexivity].
  - cbn [representable]. split.
    + intros H. exists [], (FScalar (SInt z)). unfold look. cbn. now rewrite H.
    + intros (rest & fv & H). destruct rest; [|discriminate]. unfold look in H. cbn in H.
      now destruct (int_in_range z).
  - split; [discriminate|]. intros (rest & fv & H). destruct rest; discriminate.
  - split; [discriminate|]. intros (rest & fv & H). destruct rest; discriminate.
  - split; [intros _; exists [], (FScalar (SStr s)); reflexivity|reflexivity].
  - split; [intros _; exists []; eexists; reflexivity|reflexivity].
  - destruct (pwfb_obj _ Hwf) as [Hs Hall]. destruct m as [|[k x] m].
    + split; [intros _; exists [], FEmptyObj; reflexivity|reflexivity].
    + set (mm := (k, x) :: m) in *. change (representable (PObj mm)) with (existsb (fun kv => representable (snd kv)) mm).
      rewrite existsb_exists. rewrite Forall_forall in IH, Hall. split.
      * intros ([k' x'] & Hin & Hr). cbn [snd] in Hr.
        apply (IH _ Hin) in Hr; [|now apply (Hall _ Hin)]. destruct Hr as (rest & fv & Hl).
        exists (k' :: rest), fv. unfold mm. rewrite look_obj. fold mm.
        rewrite (In_lookup _ _ _ Hs Hin). exact Hl.
      * intros (rest & fv & Hl). destruct rest as [|k' rest]; [discriminate|].
        unfold mm in Hl. rewrite look_obj in Hl. fold mm in Hl.
        destruct (lookup k' mm) as [x'|] eqn:El; [|discriminate]. apply lookup_In in El.
        exists (k', x'). split; [exact El|]. cbn [snd]. apply (IH _ El); [now apply (Hall _ El)|].
        now exists rest, fv.
Qed.

Lemma k_mentions_dot_parse s :
  parse_path (k_mentions ++ [c_dot] ++ s) =
  option_map (cons f_content) (option_map (cons f_mentions) (parse_path s)).
Proof.
  unfold parse_path.
  change (k_mentions ++ [c_dot] ++ s) with (esc1 f_content ++ c_dot :: (esc1 f_mentions ++ c_dot :: s)).
  rewrite parse_esc1, pp_dot, parse_esc1, pp_dot. reflexivity.
Qed.

Theorem mentions_correct fs :
  pwfb (PObj fs) = true -> parseable (PObj fs) = true -> mentions_unrepresentable (PObj fs) = false ->
  contains_mentions (from_raw (PObj fs)) = carries_mentions (PObj fs).
Proof.
  destruct fs as [|kx fs']; [reflexivity|]. remember (kx :: fs') as fs eqn:Efs.
  intros Hwf Hp Hcls. set (ev := PObj fs) in *.
  assert (Hne : fs <> []) by (rewrite Efs; discriminate).
  assert (Hget : forall key, lookup key (from_raw ev) = match property ev key with Some v => view_of v | None => None end)
    by (intros key; apply (flatten_get fs key Hwf Hp Hne)).
  unfold carries_mentions, mentions_unrepresentable in *. fold f_content f_mentions in *.
  destruct (navigate [f_content; f_mentions] ev) as [v|] eqn:Env.
  - (* m.mentions is there and has a representable part *)
    apply negb_false_iff in Hcls.
    assert (Hwfv : pwfb v = true).
    { clear - Hwf Env. unfold ev in Env. cbn [navigate] in Env.
      destruct (lookup f_content fs) as [x|] eqn:E1; [|discriminate].
      destruct (pwfb_obj _ Hwf) as [_ Hall]. rewrite Forall_forall in Hall.
      apply lookup_In in E1. apply Hall in E1. cbn [snd] in E1.
      destruct x; try discriminate. destruct (lookup f_mentions m) as [y|] eqn:E2; [|discriminate].
      injection Env as <-. destruct (pwfb_obj _ E1) as [_ Hall2]. rewrite Forall_forall in Hall2.
      apply lookup_In in E2. now apply Hall2 in E2. }
    apply (representable_iff v Hwfv) in Hcls as (rest & fv & Hl).
    unfold contains_mentions. apply existsb_exists.
    set (key := esc_path ([f_content; f_mentions] ++ rest)).
    assert (Hk : lookup key (from_raw ev) = Some fv).
    { rewrite Hget. unfold property, key. rewrite parse_esc_path by discriminate.
      pose proof (look_app [f_content; f_mentions] rest ev) as E. rewrite Env in E. unfold look in E at 1.
      destruct (navigate ([f_content; f_mentions] ++ rest) ev); [congruence|]. congruence. }
    exists (key, fv). split; [now apply lookup_In|]. cbn [fst]. apply orb_true_iff.
    destruct rest as [|r rest].
    + left. unfold key. rewrite app_nil_r, <- k_mentions_path. apply str_eqb_refl.
    + right. unfold key. cbn [app].
      rewrite (esc_path_cons f_content), (esc_path_cons f_mentions).
      change (esc1 f_content ++ [c_dot] ++ esc1 f_mentions ++ [c_dot] ++ esc_path (r :: rest))
        with ((k_mentions ++ [c_dot]) ++ esc_path (r :: rest)).
      apply starts_with_app.
  - (* no m.mentions: no flattened key lies at or below its path *)
    destruct (contains_mentions (from_raw ev)) eqn:Ec; [|reflexivity]. exfalso.
    unfold contains_mentions in Ec. apply existsb_exists in Ec as ([key fv] & Hin & Hk). cbn [fst] in Hk.
    destruct (In_lookup_some _ _ _ Hin) as (fv' & Hl). rewrite Hget in Hl. unfold property in Hl.
    assert (Hks : exists rest, parse_path key = Some (f_content :: f_mentions :: rest) \/ parse_path key = None).
    { apply orb_true_iff in Hk as [Hk|Hk].
      - apply str_eqb_eq in Hk. subst key. exists []. left. rewrite k_mentions_path. now apply parse_esc_path.
      - apply starts_with_spec in Hk as (s & ->). rewrite <- app_assoc, k_mentions_dot_parse.
        destruct (parse_path s) as [rest|]; [exists rest; now left|exists []; now right]. }
    destruct Hks as (rest & [E|E]); rewrite E in Hl; [|discriminate].
    change (f_content :: f_mentions :: rest) with ([f_content; f_mentions] ++ rest) in Hl.
    rewrite navigate_app, Env in Hl. discriminate.
Qed.

(** * Conditions *)
Section Eval.
Variable lowercase : str -> str.
Variable regex_fits : str -> bool.
Variable valid_user_id : str -> bool.
Hypothesis lowercase_wf : forall s, wf_utf8 (lowercase s) = true.
Hypothesis regex_fits_all : forall p, regex_fits p = true.

Variable fs : list (str * pjson).
Hypothesis Hwf : pwfb (PObj fs) = true.
Hypothesis Hp : parseable (PObj fs) = true.
Let ev := PObj fs.
Let F := from_raw ev.

Notation m_cond := (cond_applies lowercase regex_fits valid_user_id).
Notation s_cond := (spec_cond lowercase valid_user_id).

Lemma own_event_correct c : Model.own_event F c = Spec.own_event ev c.
Proof.
  unfold Model.own_event, Spec.own_event, F. now rewrite (fget_str_property fs Hwf Hp).
Qed.

Lemma matches_ok v p w :
  matches_pattern lowercase regex_fits v p w = Some (Ok (spec_matches lowercase w p v)).
Proof. apply matches_pattern_correct; [exact lowercase_wf|]. intros _ _. apply regex_fits_all. Qed.

Lemma check_event_match_correct key pattern c :
  check_event_match lowercase regex_fits F key pattern c
  = Some (Ok (spec_event_match lowercase key pattern ev c)).
Proof.
  unfold check_event_match, spec_event_match, F. rewrite (fget_str_property fs Hwf Hp).
  change k_room_id with sk_room_id. change k_body with sk_body.
  destruct (if str_eqb key sk_room_id then _ else _); [|reflexivity].
  apply matches_ok.
Qed.

Lemma count_correct op count item : count_contains op count item = spec_count op count item.
Proof.
  destruct op; unfold count_contains, spec_count; cbn [andb]; apply bool_eq_iff;
    rewrite ?andb_true_iff, ?N.leb_le, ?N.ltb_lt, ?N.eqb_eq; lia.
Qed.

Lemma cond_correct cd c :
  cond_wf cd = true ->
  m_cond cd F c = Some (Ok (negb (Spec.own_event ev c) && s_cond cd ev c)).
Proof.
  intros Hcw. unfold cond_applies. rewrite own_event_correct.
  destruct (Spec.own_event ev c); [reflexivity|]. cbn [negb andb].
  destruct cd as [key pattern| |op count|key|key value|key value|]; cbn [spec_cond].
  - apply check_event_match_correct.
  - unfold F. rewrite (fget_str_property fs Hwf Hp). change k_body with sk_body.
    destruct (property_str _ sk_body); [|reflexivity]. apply matches_ok.
  - unfold ret. now rewrite count_correct.
  - unfold F. rewrite (fget_str_property fs Hwf Hp). change k_sender with sk_sender. change k_room with sk_room.
    destruct (x_power_levels c) as [pl|]; [|reflexivity].
    destruct (property_str _ sk_sender) as [s|]; [|reflexivity].
    destruct (valid_user_id s); [|reflexivity]. cbn [andb].
    destruct (str_eqb key sk_room); reflexivity.
  - unfold ret, F. rewrite (fget_is_property fs Hwf Hp); [reflexivity|].
    cbn [cond_wf] in Hcw. destruct value; auto.
  - unfold ret, F. rewrite (fget_contains_property fs Hwf Hp); [reflexivity|].
    cbn [cond_wf] in Hcw. destruct value; auto.
  - reflexivity.
Qed.

Lemma all_conds_correct cs c :
  forallb cond_wf cs = true -> Spec.own_event ev c = false ->
  all_conds lowercase regex_fits valid_user_id cs F c = Some (Ok (forallb (fun cd => s_cond cd ev c) cs)).
Proof.
  intros Hcw Hown. induction cs as [|cd cs IH]; [reflexivity|].
  cbn [forallb] in Hcw. apply andb_true_iff in Hcw as [H1 H2].
  cbn [all_conds forallb]. rewrite (cond_correct cd c H1), Hown. cbn [negb andb].
  destruct (s_cond cd ev c); [now apply IH|reflexivity].
Qed.

(** * Rules *)
Hypothesis Hclass : mentions_unrepresentable ev = false.

Lemma mentions_ok : contains_mentions F = carries_mentions ev.
Proof. now apply mentions_correct. Qed.

Notation s_matches := (rule_matches lowercase valid_user_id).

Lemma override_correct r c :
  forallb cond_wf (c_conds r) = true -> Spec.own_event ev c = false ->
  crule_applies lowercase regex_fits valid_user_id r F c = Some (Ok (s_matches (ROverride r) ev c)).
Proof.
  intros Hcw Hown. unfold crule_applies, rule_matches. cbn [rule_enabled deprecated_mention_rule rule_conditions_hold].
  destruct (c_enabled r); [|reflexivity]. cbn [negb andb].
  rewrite mentions_ok. destruct legacy_ids_ok as (-> & -> & _).
  rewrite (orb_comm (str_eqb (c_id r) s!".m.rule.roomnotif")).
  destruct ((str_eqb (c_id r) s!".m.rule.contains_display_name" || str_eqb (c_id r) s!".m.rule.roomnotif")
            && carries_mentions ev); [reflexivity|].
  cbn [negb]. now apply all_conds_correct.
Qed.

Lemma underride_correct r c :
  forallb cond_wf (c_conds r) = true -> underride_id_ok r = true -> Spec.own_event ev c = false ->
  crule_applies lowercase regex_fits valid_user_id r F c = Some (Ok (s_matches (RUnderride r) ev c)).
Proof.
  intros Hcw Hid Hown. unfold crule_applies, rule_matches. cbn [rule_enabled deprecated_mention_rule rule_conditions_hold].
  destruct (c_enabled r); [|reflexivity]. cbn [negb andb].
  destruct legacy_ids_ok as (-> & -> & _).
  unfold underride_id_ok in Hid. apply negb_true_iff in Hid.
  rewrite (orb_comm (str_eqb (c_id r) s!".m.rule.roomnotif")), Hid. cbn [andb negb].
  now apply all_conds_correct.
Qed.

Lemma content_correct r c :
  Spec.own_event ev c = false ->
  prule_applies lowercase regex_fits r F c = Some (Ok (s_matches (RContent r) ev c)).
Proof.
  intros Hown. unfold prule_applies, rule_matches. cbn [rule_enabled deprecated_mention_rule rule_conditions_hold].
  rewrite mentions_ok, own_event_correct, Hown. destruct legacy_ids_ok as (_ & _ & ->).
  destruct (str_eqb (p_id r) s!".m.rule.contains_user_name" && carries_mentions ev).
  - now destruct (p_enabled r).
  - destruct (p_enabled r); [|reflexivity]. cbn [negb andb]. change k_body with sk_body.
    apply check_event_match_correct.
Qed.

Lemma room_correct r c :
  srule_applies lowercase regex_fits k_room_id r F c = Some (Ok (s_matches (RRoom r) ev c)).
Proof.
  unfold srule_applies, rule_matches. cbn [rule_enabled deprecated_mention_rule rule_conditions_hold].
  destruct (s_enabled r); [|reflexivity]. cbn [negb andb]. apply check_event_match_correct.
Qed.

Lemma sender_correct r c :
  srule_applies lowercase regex_fits k_sender r F c = Some (Ok (s_matches (RSender r) ev c)).
Proof.
  unfold srule_applies, rule_matches. cbn [rule_enabled deprecated_mention_rule rule_conditions_hold].
  destruct (s_enabled r); [|reflexivity]. cbn [negb andb]. apply check_event_match_correct.
Qed.

(** * The search through the five lists *)
Lemma find_rule_correct {R} (applies : R -> oob) (res : R -> N * str * N) (tag : R -> any_rule)
      (good : R -> Prop) c l rest :
  (forall r, good r -> applies r = Some (Ok (s_matches (tag r) ev c))) ->
  (forall r, res r = describe (tag r)) ->
  Forall good l ->
  find_rule applies res l rest =
  match List.find (fun r => s_matches r ev c) (List.map tag l) with
  | Some r => Some (Ok (Some (describe r)))
  | None => rest tt
  end.
Proof.
  intros Ha Hr. induction 1 as [|r l Hg _ IH]; [reflexivity|].
  cbn [find_rule List.map List.find]. rewrite (Ha r Hg).
  destruct (s_matches (tag r) ev c); [now rewrite Hr|exact IH].
Qed.

Lemma find_app {A} (f : A -> bool) a b :
  List.find f (a ++ b) = match List.find f a with Some x => Some x | None => List.find f b end.
Proof. induction a as [|x a IH]; [reflexivity|]. cbn. now destruct (f x). Qed.

Theorem get_match_correct rs c :
  ruleset_wf rs = true ->
  get_match lowercase regex_fits valid_user_id rs ev c
  = Some (Ok (spec_get_match lowercase valid_user_id rs ev c)).
Proof.
  intros Hrs. unfold get_match, spec_get_match. fold F. rewrite own_event_correct.
  destruct (Spec.own_event ev c) eqn:Hown; [reflexivity|].
  unfold ruleset_wf in Hrs. apply andb_true_iff in Hrs as [Ho Hu].
  rewrite forallb_forall in Ho, Hu.
  unfold rules_in_order. rewrite !find_app.
  rewrite (find_rule_correct _ _ ROverride (fun r => forallb cond_wf (c_conds r) = true) c);
    [|intros r Hr; now apply override_correct|reflexivity|apply Forall_forall; exact Ho].
  destruct (List.find _ (List.map ROverride (rs_override rs))); [reflexivity|].
  rewrite (find_rule_correct _ _ RContent (fun _ => True) c);
    [|intros r _; now apply content_correct|reflexivity|apply Forall_forall; auto].
  destruct (List.find _ (List.map RContent (rs_content rs))); [reflexivity|].
  rewrite (find_rule_correct _ _ RRoom (fun _ => True) c);
    [|intros r _; apply room_correct|reflexivity|apply Forall_forall; auto].
  destruct (List.find _ (List.map RRoom (rs_room rs))); [reflexivity|].
  rewrite (find_rule_correct _ _ RSender (fun _ => True) c);
    [|intros r _; apply sender_correct|reflexivity|apply Forall_forall; auto].
  destruct (List.find _ (List.map RSender (rs_sender rs))); [reflexivity|].
  rewrite (find_rule_correct _ _ RUnderride
             (fun r => forallb cond_wf (c_conds r) = true /\ underride_id_ok r = true) c).
  - now destruct (List.find _ (List.map RUnderride (rs_underride rs))).
  - intros r [H1 H2]. now apply underride_correct.
  - reflexivity.
  - apply Forall_forall. intros r Hin. apply Hu in Hin. now apply andb_true_iff in Hin.
Qed.

Theorem get_actions_correct rs c :
  ruleset_wf rs = true ->
  get_actions lowercase regex_fits valid_user_id rs ev c
  = Some (Ok (spec_get_actions lowercase valid_user_id rs ev c)).
Proof.
  intros Hrs. unfold get_actions, spec_get_actions. rewrite (get_match_correct rs c Hrs).
  destruct (spec_get_match lowercase valid_user_id rs ev c) as [[[k id] a]|]; reflexivity.
Qed.

End Eval.

(** * Totality: no panic, no error, and the fuel always suffices — for every ruleset, event,
    context, and whatever the external functions compute. *)
Section Total.
Variable lowercase : str -> str.
Variable regex_fits : str -> bool.
Variable valid_user_id : str -> bool.

Lemma check_event_match_total F key pattern c :
  exists b, check_event_match lowercase regex_fits F key pattern c = Some (Ok b).
Proof.
  unfold check_event_match.
  destruct (if str_eqb key k_room_id then Some (x_room_id c) else fget_str F key); [|now eexists].
  apply matches_pattern_total.
Qed.

Lemma cond_total cd F c : exists b, cond_applies lowercase regex_fits valid_user_id cd F c = Some (Ok b).
Proof.
  unfold cond_applies. destruct (Model.own_event F c); [now eexists|].
  destruct cd; try (now eexists).
  - apply check_event_match_total.
  - destruct (fget_str F k_body); [apply matches_pattern_total|now eexists].
  - destruct (x_power_levels c); [|now eexists]. destruct (fget_str F k_sender); [|now eexists].
    destruct (valid_user_id s); [|now eexists]. destruct (str_eqb key k_room); now eexists.
Qed.

Lemma all_conds_total cs F c : exists b, all_conds lowercase regex_fits valid_user_id cs F c = Some (Ok b).
Proof.
  induction cs as [|cd cs IH]; [now eexists|]. cbn [all_conds].
  destruct (cond_total cd F c) as [[|] ->]; [exact IH|now eexists].
Qed.

Lemma crule_total r F c : exists b, crule_applies lowercase regex_fits valid_user_id r F c = Some (Ok b).
Proof.
  unfold crule_applies. destruct (negb (c_enabled r)); [now eexists|].
  destruct (_ && contains_mentions F); [now eexists|apply all_conds_total].
Qed.

Lemma prule_total r F c : exists b, prule_applies lowercase regex_fits r F c = Some (Ok b).
Proof.
  unfold prule_applies. destruct (_ && contains_mentions F); [now eexists|].
  destruct (Model.own_event F c); [now eexists|]. destruct (p_enabled r); [|now eexists].
  apply check_event_match_total.
Qed.

Lemma srule_total key r F c : exists b, srule_applies lowercase regex_fits key r F c = Some (Ok b).
Proof. unfold srule_applies. destruct (s_enabled r); [apply check_event_match_total|now eexists]. Qed.

Lemma find_rule_total {R} (applies : R -> oob) res (l : list R) rest :
  (forall r, exists b, applies r = Some (Ok b)) ->
  (exists m, rest tt = Some (Ok m)) ->
  exists m, find_rule applies res l rest = Some (Ok m).
Proof.
  intros Ha Hr. induction l as [|r l IH]; [exact Hr|]. cbn [find_rule].
  destruct (Ha r) as [[|] ->]; [now eexists|exact IH].
Qed.

Theorem get_match_total rs ev c :
  exists m, get_match lowercase regex_fits valid_user_id rs ev c = Some (Ok m).
Proof.
  unfold get_match. destruct (Model.own_event (from_raw ev) c) eqn:Eo; [now eexists|].
  repeat (apply find_rule_total;
          [intros r; first [apply crule_total | apply prule_total | apply srule_total]|]).
  now eexists.
Qed.

Theorem get_actions_total rs ev c :
  exists n, get_actions lowercase regex_fits valid_user_id rs ev c = Some (Ok n).
Proof.
  unfold get_actions. destruct (get_match_total rs ev c) as [[[[k id] a]|] ->]; now eexists.
Qed.

End Total.
