(** C12.NonVacuity — the hypotheses of the theorems are satisfiable by non-trivial inputs. *)
From Base Require Import Prelude Sx Json.
From Coq Require Import ZifyBool ZifyNat ZifyN.
From C12 Require Import Types Text Glob Model Spec Proofs1 Proofs4 Proofs6.

Ltac Zify.zify_post_hook ::= Z.div_mod_to_equations.

(** A case-folding [lowercase] that meets [forall s, wf_utf8 (lowercase s) = true]: ASCII
    lowercasing of valid strings (anything else is mapped to the empty string). *)
Definition lower_b (b : N) : N := if (65 <=? b) && (b <=? 90) then b + 32 else b.
Definition ascii_lower (s : str) : str := if wf_utf8 s then List.map lower_b s else [].

Lemma wf_aux_lower s : forall k, wf_aux k (List.map lower_b s) = wf_aux k s.
Proof.
  induction s as [|b s IH]; intros k; [reflexivity|]. cbn [List.map wf_aux].
  assert (E1 : lead_len (lower_b b) = lead_len b).
  { unfold lower_b, lead_len. destruct ((65 <=? b) && (b <=? 90)) eqn:E; [|reflexivity].
    replace (b + 32 <? 128) with true by lia. replace (b <? 128) with true by lia. reflexivity. }
  assert (E2 : is_cont (lower_b b) = is_cont b).
  { unfold lower_b, is_cont. destruct ((65 <=? b) && (b <=? 90)) eqn:E; [lia|reflexivity]. }
  rewrite E1, E2. destruct k; [destruct (lead_len b); [apply IH|reflexivity]|now rewrite IH].
Qed.

Lemma ascii_lower_wf s : wf_utf8 (ascii_lower s) = true.
Proof.
  unfold ascii_lower. destruct (wf_utf8 s) eqn:E; [|reflexivity]. unfold wf_utf8. now rewrite wf_aux_lower.
Qed.

(** With it, an event / ruleset / context in the domain of [C12_get_match_eq_spec], on which a
    content rule with a wildcard pattern matches a body in upper case, after a disabled override
    rule and an override rule whose condition fails. *)
Definition nv_event : pjson :=
  PObj [(s!"content", PObj [(s!"body", PStr s!"An EXCITING triple-whammy"); (s!"msgtype", PStr s!"m.text")]);
        (s!"room_id", PStr s!"!r:x.y");
        (s!"sender", PStr s!"@other:x.y");
        (s!"type", PStr s!"m.room.message")].
Definition nv_rules : ruleset :=
  {| rs_override := [{| c_id := s!"off"; c_enabled := false; c_conds := []; c_actions := 3 |};
                     {| c_id := s!"notice"; c_enabled := true;
                        c_conds := [CEventMatch s!"content.msgtype" s!"m.notice"]; c_actions := 0 |}];
     rs_content := [{| p_id := s!"kw"; p_enabled := true; p_pattern := s!"ex*ple"; p_actions := 2 |}];
     rs_room := []; rs_sender := [];
     rs_underride := [{| c_id := s!"all"; c_enabled := true; c_conds := [CMemberCount OpGe 1]; c_actions := 1 |}] |}.
Definition nv_ctx : ctx :=
  {| x_room_id := s!"!r:x.y"; x_member_count := 3; x_user_id := s!"@me:x.y"; x_display_name := s!"me";
     x_power_levels := Some {| pl_users := []; pl_users_default := 0; pl_room := 50 |} |}.

Example nv_domain :
  pwfb nv_event = true /\ parseable nv_event = true /\ mentions_unrepresentable nv_event = false /\
  ruleset_wf nv_rules = true.
Proof. repeat split; vm_compute; reflexivity. Qed.

Example nv_match :
  get_match ascii_lower (fun _ => true) (fun _ => true) nv_rules nv_event nv_ctx
  = Some (Ok (Some (1, s!"kw", 2))) /\
  spec_get_match ascii_lower (fun _ => true) nv_rules nv_event nv_ctx = Some (1, s!"kw", 2).
Proof. split; vm_compute; reflexivity. Qed.

(** The scanner's hypotheses, with a value in which the first occurrence is not admissible and
    the restart finds the second one; the wildcard branch, with the example of the spec. *)
Example nv_scanner :
  s!"foo" <> [] /\ has_wild s!"foo" = false /\ wf_utf8 s!"foo" = true /\ wf_utf8 s!"foobar foo" = true /\
  matches_word (fun _ => true) (S (List.length s!"foobar foo")) s!"foobar foo" s!"foo" = Some (Ok true) /\
  matches_word (fun _ => true) (S (List.length s!"foobar foobar")) s!"foobar foobar" s!"foo" = Some (Ok false).
Proof. repeat split; try discriminate; vm_compute; reflexivity. Qed.

Example nv_wildcard :
  wf_utf8 s!"ex*ple" = true /\ wf_utf8 s!"An exciting triple-whammy" = true /\
  re_search (chunks_of s!"ex*ple") None s!"An exciting triple-whammy" = true /\
  re_search (chunks_of s!"a??b") None s!"x axyb" = true /\
  re_search (chunks_of s!"a??b") None s!"xaxyb" = false.
Proof. repeat split; vm_compute; reflexivity. Qed.
