(** C12.Model — executable model of ruma's push-rule evaluation, written from
      crates/ruma-common/src/push.rs                          (P:)
      crates/ruma-common/src/push/iter.rs                     (I:)
      crates/ruma-common/src/push/condition.rs                (C:)
      crates/ruma-common/src/push/condition/flattened_json.rs (F:)
      crates/ruma-common/src/push/condition/room_member_count_is.rs (R:)
    as they stand after the `fix:` commits listed in known_findings.d/C12.json.

    Strings are UTF-8 byte strings.  External behaviour is a section variable:
      [lowercase]      [str::to_lowercase]  (no assumption about what it computes)
      [valid_user_id]  [<&UserId>::try_from(s).is_ok()]  (identifier grammar: property C10)
      [regex_fits]     [Regex::new] accepts the regex built from a pattern (the regex crate's
                       compiled-size limit; a runtime limit of third-party code)
    [wildmatch::WildMatch] is modelled by its specification [Glob.globb]; the
    [regex::bytes::Regex] built by [matches_word] always has the shape
    [(?-u:^|\W|\b) chunks (?-u:\b|\W|$)] and is modelled by a matcher for exactly that shape.
    The legacy-mention rule ids come from [Gen.PushLegacyIds] (dumped from the compiled enum). *)
From Base Require Import Prelude Sx Json.
From Gen Require Import PushLegacyIds.
From C12 Require Import Types Text Glob.

(** * FlattenedJson *)

(** [FlattenedJsonValue] (F:217-236) is [Types.fval]; the four scalar variants are [FScalar]. *)
Definition fmap := amap fval.

(** F:90-92  [key.replace('\\', r"\\").replace('.', r"\.")] — two passes. *)
Definition replace_byte (x : N) (by_ : str) (s : str) : str :=
  flat_map (fun b => if b =? x then by_ else [b]) s.
Definition escape_key (k : str) : str :=
  replace_byte c_dot [c_bs; c_dot] (replace_byte c_bs [c_bs; c_bs] k).

(** F:126-137 [ScalarJsonValue::try_from_json_value]: [Int::try_from(num.as_i64()?)]. *)
Definition scalar_of (v : pjson) : option scalar :=
  match v with
  | PBool b => Some (SBool b)
  | PInt z => if int_in_range z then Some (SInt z) else None
  | PStr s => Some (SStr s)
  | PNull => Some SNull
  | _ => None
  end.

Fixpoint filter_map {A B} (f : A -> option B) (l : list A) : list B :=
  match l with
  | [] => []
  | x :: l' => match f x with Some y => y :: filter_map f l' | None => filter_map f l' end
  end.

(** F:241-255 [FlattenedJsonValue::from_json_value] (objects never reach it). *)
Definition fval_of (v : pjson) : option fval :=
  match v with
  | PArr l => Some (FArr (filter_map scalar_of l))
  | PObj _ => None
  | _ => match scalar_of v with Some s => Some (FScalar s) | None => None end
  end.

Definition path_str (p : option str) : str := match p with Some s => s | None => [] end.

(** F:39-67 [flatten_value]; [path = None] is the root. *)
Fixpoint flatten_value (v : pjson) (path : option str) (m : fmap) : fmap :=
  match v with
  | PObj [] => insert (path_str path) FEmptyObj m
  | PObj fields =>
      (fix go (fs : list (str * pjson)) (m : fmap) : fmap :=
         match fs with
         | [] => m
         | (k, x) :: fs' =>
             let key := escape_key k in
             let p := match path with Some p => p ++ [c_dot] ++ key | None => key end in
             go fs' (flatten_value x (Some p) m)
         end) fields m
  | _ => match fval_of v with Some fv => insert (path_str path) fv m | None => m end
  end.

(** [to_json_value(raw)] fails iff the text holds a number serde_json cannot represent. *)
Fixpoint has_bad (v : pjson) : bool :=
  match v with
  | PBad => true
  | PArr l => existsb has_bad l
  | PObj m => existsb (fun kv => has_bad (snd kv)) m
  | _ => false
  end.

(** F:21-33 [from_raw]. *)
Definition from_raw (ev : pjson) : fmap :=
  if has_bad ev then [] else flatten_value ev None [].

(** F:70-77 *)
Definition fget (m : fmap) (path : str) : option fval := lookup path m.
Definition fget_str (m : fmap) (path : str) : option str :=
  match lookup path m with Some (FScalar (SStr s)) => Some s | _ => None end.

(** F:80-84 *)
Definition k_mentions : str := s!"content.m\.mentions".
Definition contains_mentions (m : fmap) : bool :=
  existsb (fun kv => str_eqb (fst kv) k_mentions || starts_with (k_mentions ++ [c_dot]) (fst kv)) m.

(** * String matching (C:322-466) *)

Section Matching.
Variable lowercase : str -> str.
Variable regex_fits : str -> bool.

(** ** The regex of [matches_word]'s wildcard branch.
    [CLit s] is [regex::escape(s)] (the bytes of [s], literally); [CWild n star] is
    [wildcards_to_regex] of a run of wildcards with [n] question marks: [(?s:.{n,})] if the run
    contains a '*', [(?s:.{n})] otherwise (C:454-466). *)
Inductive chunk := CLit (s : str) | CWild (n : nat) (star : bool).

Definition count_qm (s : str) : nat := List.length (filter (fun b => b =? c_qm) s).
Definition wild_chunk (run : str) : chunk := CWild (count_qm run) (existsb (fun b => b =? c_star) run).

(** C:372-402  the chunk loop.  [pw] = [prev_wildcard]; [cur] = [pattern[chunk_start..i]],
    reversed; [i != 0] is [cur <> []] whenever it is tested.  '?' and '*' are ASCII, so the loop
    over [char_indices] sees them exactly at the bytes 63 and 42. *)
Fixpoint chunk_loop (p : str) (pw : bool) (cur : str) : list chunk :=
  match p with
  | [] => [if pw then wild_chunk (rev cur) else CLit (rev cur)]
  | c :: p' =>
      if is_wild c && negb pw then
        (if is_nil cur then [] else [CLit (rev cur)]) ++ chunk_loop p' true [c]
      else if negb (is_wild c) && pw then
        wild_chunk (rev cur) :: chunk_loop p' false [c]
      else chunk_loop p' pw (c :: cur)
  end.
Definition chunks_of (p : str) : list chunk := chunk_loop p false [].

(** The three alternatives of the closing group [(?-u:\b|\W|$)] at a position whose previous
    byte is [prev] and whose rest is [t]. *)
Definition wordo (o : option N) : bool := match o with Some b => is_wordb b | None => false end.
Definition end_ok (prev : option N) (t : str) : bool :=
  match t with
  | [] => true                                              (* $ (also \b when prev is a word byte) *)
  | b :: _ => negb (is_wordb b)                             (* \W *)
              || xorb (wordo prev) (is_wordb b)             (* \b *)
  end.

(** [(?s:.)*]: try the continuation at every character boundary from here on.  [mid]: inside
    a character being consumed. *)
Fixpoint m_star (k : option N -> str -> bool) (mid : bool) (prev : option N) (t : str) : bool :=
  match t with
  | [] => k prev []
  | b :: t' =>
      if is_cont b then (if mid then m_star k true (Some b) t' else k prev t)
      else k prev t || m_star k true (Some b) t'
  end.

(** The continuation bytes of the character whose lead byte was [last]. *)
Fixpoint eat_conts (last : N) (t : str) : N * str :=
  match t with
  | b :: t' => if is_cont b then eat_conts b t' else (last, t)
  | [] => (last, [])
  end.

(** [(?s:.){n}] *)
Fixpoint m_skip (n : nat) (k : option N -> str -> bool) (prev : option N) (t : str) : bool :=
  match n with
  | O => k prev t
  | S n' =>
      match t with
      | [] => false
      | b :: t' => if is_cont b then false
                   else let '(l, t'') := eat_conts b t' in m_skip n' k (Some l) t''
      end
  end.

Fixpoint strip_prefix (s t : str) : option str :=
  match s, t with
  | [], _ => Some t
  | x :: s', y :: t' => if x =? y then strip_prefix s' t' else None
  | _ :: _, [] => None
  end.

(** chunks, then the closing group *)
Fixpoint m_chunks (cs : list chunk) (prev : option N) (t : str) : bool :=
  match cs with
  | [] => end_ok prev t
  | CLit s :: cs' =>
      match strip_prefix s t with
      | Some t' => m_chunks cs' (last_opt s prev) t'
      | None => false
      end
  | CWild n star :: cs' =>
      m_skip n (if star then m_star (m_chunks cs') false else m_chunks cs') prev t
  end.

(** Unanchored search ([Regex::is_match] on the bytes) with the opening group [(?-u:^|\W|\b)]:
    at every byte position, [^] (no previous byte) or [\b] start the chunks here; [\W] consumes
    one non-word byte and starts them after it. *)
Fixpoint re_search (cs : list chunk) (prev : option N) (t : str) : bool :=
  ((match prev with None => true | Some _ => false end
    || xorb (wordo prev) (match t with b :: _ => is_wordb b | [] => false end))
   && m_chunks cs prev t)
  || match t with
     | [] => false
     | b :: t' => (negb (is_wordb b) && m_chunks cs (Some b) t') || re_search cs (Some b) t'
     end.

(** ** [matches_word] (C:361-452) *)

(** [str::find(pattern)]: byte index of the first occurrence. *)
Fixpoint find_sub (p v : str) : option nat :=
  if starts_with p v then Some O
  else match v with [] => None | _ :: v' => option_map S (find_sub p v') end.

(** [str::find(|c| pred c)] for a predicate that only looks at ASCII-ness / word-ness: the
    byte index of the first character satisfying it is the index of the first byte doing so. *)
Fixpoint find_idx (f : N -> bool) (l : str) : option nat :=
  match l with
  | [] => None
  | b :: l' => if f b then Some O else option_map S (find_idx f l')
  end.

(** C:331-336 [char_at(i).is_word_char()]: indexing past the end panics. *)
Definition char_at_is_word (v : str) (i : nat) : outcome bool :=
  match nth_error v i with Some b => Ok (is_wordb b) | None => Panic 1 end.
(** C:338-348 [find_prev_char(i)] mapped through [is_word_char]: the previous character is a
    word character iff the previous byte is one. *)
Definition prev_char_is_word (v : str) (i : nat) : option bool :=
  match i with O => None | S j => option_map is_wordb (nth_error v j) end.

Definition has_wild (p : str) : bool := existsb is_wild p.

Fixpoint matches_word (fuel : nat) (v p : str) : option (outcome bool) :=
  match fuel with
  | O => None
  | S fuel' =>
      if str_eqb v p then Some (Ok true)                                  (* C:362 *)
      else if is_nil p then Some (Ok false)                               (* C:365 *)
      else if has_wild p then                                             (* C:369-414 *)
        Some (Ok (if regex_fits p then re_search (chunks_of p) None v else false))
      else
        match find_sub p v with                                           (* C:416 *)
        | None => Some (Ok false)
        | Some start =>
            let e := (start + List.length p)%nat in
            match char_at_is_word v start with                            (* C:421 *)
            | Ok w0 =>
                let wb_start :=
                  negb w0 || negb (match prev_char_is_word v start with Some w => w | None => false end) in
                let next_word (_ : unit) :=                               (* C:434-447 *)
                  let non_word_str := skipn start v in
                  match find_idx (fun b => negb (is_wordb b)) non_word_str with
                  | None => Some (Ok false)
                  | Some nw =>
                      let word_str := skipn nw non_word_str in
                      match find_idx is_wordb word_str with
                      | None => Some (Ok false)
                      | Some w => matches_word fuel' (skipn w word_str) p
                      end
                  end in
                if wb_start then
                  (* C:425-427  end == len || !prev(end).unwrap().is_word || !char_at(end).is_word *)
                  if Nat.eqb e (List.length v) then Some (Ok true)
                  else match prev_char_is_word v e with
                       | None => Some (Panic 2)
                       | Some pw =>
                           if negb pw then Some (Ok true)
                           else match char_at_is_word v e with
                                | Ok w1 => if negb w1 then Some (Ok true) else next_word tt
                                | Err x => Some (Err x)
                                | Panic s => Some (Panic s)
                                end
                       end
                else next_word tt
            | Err x => Some (Err x)
            | Panic s => Some (Panic s)
            end
        end
  end.

(** C:350-359 [matches_pattern]; the fuel always suffices (Proofs: [matches_word_fuel]). *)
Definition matches_pattern (v p : str) (match_words : bool) : option (outcome bool) :=
  let v' := lowercase v in
  let p' := lowercase p in
  if match_words then matches_word (S (List.length v')) v' p'
  else Some (Ok (globb p' v')).

End Matching.

(** * Conditions and rules *)

Section Eval.
Variable lowercase : str -> str.
Variable regex_fits : str -> bool.
Variable valid_user_id : str -> bool.

Definition k_room_id : str := s!"room_id".
Definition k_sender : str := s!"sender".
Definition k_body : str := s!"content.body".
Definition k_room : str := s!"room".

Definition oob := option (outcome bool).
Definition ret (b : bool) : oob := Some (Ok b).

(** C:137-152 *)
Definition check_event_match (ev : fmap) (key pattern : str) (c : ctx) : oob :=
  match (if str_eqb key k_room_id then Some (x_room_id c) else fget_str ev key) with
  | None => ret false
  | Some value => matches_pattern lowercase regex_fits value pattern (str_eqb key k_body)
  end.

(** [event.get_str("sender").is_some_and(|sender| sender == context.user_id)] *)
Definition own_event (ev : fmap) (c : ctx) : bool :=
  match fget_str ev k_sender with Some s => str_eqb s (x_user_id c) | None => false end.

(** R:155-177 + [RangeBounds::contains] *)
Definition count_contains (op : cmp_op) (count item : N) : bool :=
  (match op with
   | OpEq => count <=? item            (* Included(count) <= item *)
   | OpLt | OpLe => true               (* Unbounded *)
   | OpGt => count <? item             (* Excluded *)
   | OpGe => count <=? item
   end)
  && (match op with
      | OpEq => item <=? count
      | OpGt | OpGe => true
      | OpLt => item <? count
      | OpLe => item <=? count
      end).

(** [PartialEq<ScalarJsonValue> for FlattenedJsonValue] (F:308-318) *)
Definition fval_eq_scalar (f : fval) (s : scalar) : bool :=
  match f with FScalar x => scalar_eqb x s | _ => false end.

(** C:162-213 [PushCondition::applies] *)
Definition cond_applies (cd : cond) (ev : fmap) (c : ctx) : oob :=
  if own_event ev c then ret false
  else match cd with
       | CEventMatch key pattern => check_event_match ev key pattern c
       | CDisplayName =>
           match fget_str ev k_body with
           | None => ret false
           | Some value => matches_pattern lowercase regex_fits value (x_display_name c) true
           end
       | CMemberCount op count => ret (count_contains op count (x_member_count c))
       | CSenderPerm key =>
           match x_power_levels c with
           | None => ret false
           | Some pl =>
               match fget_str ev k_sender with
               | None => ret false
               | Some s =>
                   if valid_user_id s then
                     let level := match lookup s (pl_users pl) with Some l => l | None => pl_users_default pl end in
                     if str_eqb key k_room then ret (pl_room pl <=? level)%Z else ret false
                   else ret false
               end
           end
       | CPropIs key value =>
           ret (match fget ev key with Some v => fval_eq_scalar v value | None => false end)
       | CPropContains key value =>
           ret (match fget ev key with
                | Some (FArr a) => existsb (fun x => scalar_eqb x value) a
                | _ => false
                end)
       | CCustom => ret false
       end.

(** [conditions.iter().all(..)] stops at the first condition that does not apply. *)
Fixpoint all_conds (cs : list cond) (ev : fmap) (c : ctx) : oob :=
  match cs with
  | [] => ret true
  | cd :: cs' =>
      match cond_applies cd ev c with
      | Some (Ok true) => all_conds cs' ev c
      | r => r
      end
  end.

(** P:483-521 [ConditionalPushRule::applies] (default features) *)
Definition crule_applies (r : crule) (ev : fmap) (c : ctx) : oob :=
  if negb (c_enabled r) then ret false
  else if (str_eqb (c_id r) id_roomnotif || str_eqb (c_id r) id_contains_display_name)
          && contains_mentions ev then ret false
  else all_conds (c_conds r) ev c.

(** P:612-631 [PatternedPushRule::applies_to] *)
Definition prule_applies (r : prule) (ev : fmap) (c : ctx) : oob :=
  if str_eqb (p_id r) id_contains_user_name && contains_mentions ev then ret false
  else if own_event ev c then ret false
  else if p_enabled r then check_event_match ev k_body (p_pattern r) c else ret false.

(** I:223-250 [AnyPushRuleRef::applies], room and sender arms *)
Definition srule_applies (key : str) (r : srule) (ev : fmap) (c : ctx) : oob :=
  if s_enabled r then check_event_match ev key (s_id r) c else ret false.

(** [Iterator::find] over one rule list. *)
Fixpoint find_rule {R} (applies : R -> oob) (res : R -> N * str * N) (l : list R)
         (rest : unit -> option (outcome match_result)) : option (outcome match_result) :=
  match l with
  | [] => rest tt
  | r :: l' =>
      match applies r with
      | Some (Ok true) => Some (Ok (Some (res r)))
      | Some (Ok false) => find_rule applies res l' rest
      | Some (Err e) => Some (Err e)
      | Some (Panic s) => Some (Panic s)
      | None => None
      end
  end.

(** P:290-303 [Ruleset::get_match]; the iteration order is that of I:262-275: override, content,
    room, sender, underride.  [AnyPushRuleRef::applies] repeats the own-event test (I:230). *)
Definition get_match (rs : ruleset) (event : pjson) (c : ctx) : option (outcome match_result) :=
  let ev := from_raw event in
  if own_event ev c then Some (Ok None)
  else
    let guard (x : oob) : oob := if own_event ev c then ret false else x in
    find_rule (fun r => guard (crule_applies r ev c)) (fun r => (0, c_id r, c_actions r)) (rs_override rs) (fun _ =>
    find_rule (fun r => guard (prule_applies r ev c)) (fun r => (1, p_id r, p_actions r)) (rs_content rs) (fun _ =>
    find_rule (fun r => guard (srule_applies k_room_id r ev c)) (fun r => (2, s_id r, s_actions r)) (rs_room rs) (fun _ =>
    find_rule (fun r => guard (srule_applies k_sender r ev c)) (fun r => (3, s_id r, s_actions r)) (rs_sender rs) (fun _ =>
    find_rule (fun r => guard (crule_applies r ev c)) (fun r => (4, c_id r, c_actions r)) (rs_underride rs) (fun _ =>
    Some (Ok None)))))).

(** P:314-316 [get_actions]: the matched rule's actions, or none. *)
Definition get_actions (rs : ruleset) (event : pjson) (c : ctx) : option (outcome N) :=
  match get_match rs event c with
  | Some (Ok (Some (_, _, a))) => Some (Ok a)
  | Some (Ok None) => Some (Ok 0)
  | Some (Err e) => Some (Err e)
  | Some (Panic s) => Some (Panic s)
  | None => None
  end.

End Eval.
