(** C12.Spec — push rule evaluation as the Matrix specification states it (client-server API,
    "Push rules"; DESIGN.md Appendix A.8), written without reference to ruma's code structure.

    * The rule that matches an event is the first *enabled* rule, in the kind order override,
      content, room, sender, underride and in list order within a kind, all of whose conditions
      hold.  An event sent by the user themselves matches nothing.
    * [event_match]: [key] is a dot-separated path into the event; a '.' or '\' inside a field
      name is escaped by '\'.  The addressed value must be a string.  [pattern] is a glob
      ('*' any run of characters, '?' any one character), compared case-insensitively with the
      *whole* value — except for [content.body], where it must match a substring that starts and
      ends at a word boundary: the start or end of the value, or a position next to a character
      outside [A-Za-z0-9_].
    * [contains_display_name]: the user's display name, matched in [content.body] in the same way.
    * [event_property_is] / [event_property_contains]: the property equals the given string /
      integer / boolean / null, resp. is an array containing it.
    * [room_member_count]: [==] (default), [<], [>], [>=], [<=] against the member count.
    * [sender_notification_permission]: the sender's power level is at least
      [notifications[key]] (only [room] is defined).
    * Content rules are an [event_match] of their pattern on [content.body]; room and sender rules
      an [event_match] of their rule id on [room_id] / [sender].
    * The deprecated rules (override) [.m.rule.contains_display_name], (override)
      [.m.rule.roomnotif] and (content) [.m.rule.contains_user_name] do not apply to events whose
      content carries [m.mentions].

    Readings chosen where the text leaves room (see also the report):
    R1  "case-insensitively": value and pattern are compared after [lowercase], which is a
        parameter here (nothing is assumed about it).
    R2  The room an event is in is given by the room context (events received through /sync
        carry no [room_id]), so [event_match] on [room_id] looks at the context's room id.
    R3  The empty pattern is degenerate for word matching (every position of every value
        "contains" it); it is read as matching the empty value only.
    R4  A key that is not a well-formed escaped path (a '\' followed by anything but '.' or '\')
        addresses nothing. *)
From Base Require Import Prelude Sx Json.
From C12 Require Import Types Text Glob.

(** * Property paths *)

(** The field names a key addresses: split at unescaped dots, [\.] is a dot, [\\] a backslash.
    [cur] is the field name being read, reversed. *)
Fixpoint parse_path_from (s : str) (cur : str) : option (list str) :=
  match s with
  | [] => Some [rev cur]
  | b :: s' =>
      if b =? c_dot then option_map (cons (rev cur)) (parse_path_from s' [])
      else if b =? c_bs then
        match s' with
        | x :: s'' => if (x =? c_dot) || (x =? c_bs) then parse_path_from s'' (x :: cur) else None
        | [] => None
        end
      else parse_path_from s' (b :: cur)
  end.
Definition parse_path (s : str) : option (list str) := parse_path_from s [].

Fixpoint navigate (fields : list str) (v : pjson) : option pjson :=
  match fields with
  | [] => Some v
  | k :: rest =>
      match v with
      | PObj m => match lookup k m with Some x => navigate rest x | None => None end
      | _ => None
      end
  end.

(** The value of the event property addressed by [key]. *)
Definition property (ev : pjson) (key : str) : option pjson :=
  match parse_path key with Some fields => navigate fields ev | None => None end.

Definition property_str (ev : pjson) (key : str) : option str :=
  match property ev key with Some (PStr s) => Some s | _ => None end.

(** * Glob matching on word boundaries *)

(** Between [l] and [r] (with [l ++ r] the value) there is a word boundary. *)
Definition bnd (l r : str) : Prop :=
  l = [] \/ r = [] \/ is_wordb (last l 0) = false \/ is_wordb (hd 0 r) = false.

(** Some substring [mid] of whole characters, delimited by word boundaries, is matched by [p]. *)
Definition word_occ (p v : str) : Prop :=
  exists pre mid post,
    v = pre ++ mid ++ post /\ at_boundary (mid ++ post) = true /\ at_boundary post = true /\
    bnd pre (mid ++ post) /\ bnd (pre ++ mid) post /\ glob p mid.

(** The same, decidably: try every way of cutting the value in three. *)
Fixpoint splits (v : str) : list (str * str) :=
  ([], v) :: match v with
             | [] => []
             | b :: v' => List.map (fun lr => (b :: fst lr, snd lr)) (splits v')
             end.

Definition bndb (l r : str) : bool :=
  is_nil l || is_nil r || negb (is_wordb (last l 0)) || negb (is_wordb (hd 0 r)).

Definition word_occb (p v : str) : bool :=
  existsb (fun lr =>
             at_boundary (snd lr) && bndb (fst lr) (snd lr) &&
             existsb (fun mp => at_boundary (snd mp) && bndb (fst lr ++ fst mp) (snd mp) && globb p (fst mp))
                     (splits (snd lr)))
          (splits v).

Section Spec.
Variable lowercase : str -> str.
Variable valid_user_id : str -> bool.

(** [pattern] against [value]; [word]: on word boundaries (R1, R3). *)
Definition spec_matches (word : bool) (pattern value : str) : bool :=
  let p := lowercase pattern in
  let v := lowercase value in
  if word then (if is_nil p then is_nil v else word_occb p v) else globb p v.

(** * Conditions *)

Definition sk_room_id : str := s!"room_id".
Definition sk_sender : str := s!"sender".
Definition sk_body : str := s!"content.body".
Definition sk_room : str := s!"room".

Definition value_is (x : pjson) (s : scalar) : bool :=
  match x, s with
  | PNull, SNull => true
  | PBool a, SBool b => Bool.eqb a b
  | PInt a, SInt b => (a =? b)%Z
  | PStr a, SStr b => str_eqb a b
  | _, _ => false
  end.

Definition spec_event_match (key pattern : str) (ev : pjson) (c : ctx) : bool :=
  match (if str_eqb key sk_room_id then Some (x_room_id c) else property_str ev key) with
  | Some value => spec_matches (str_eqb key sk_body) pattern value
  | None => false
  end.

Definition spec_count (op : cmp_op) (count members : N) : bool :=
  match op with
  | OpEq => members =? count
  | OpLt => members <? count
  | OpGt => count <? members
  | OpGe => count <=? members
  | OpLe => members <=? count
  end.

Definition spec_cond (cd : cond) (ev : pjson) (c : ctx) : bool :=
  match cd with
  | CEventMatch key pattern => spec_event_match key pattern ev c
  | CDisplayName =>
      match property_str ev sk_body with
      | Some body => spec_matches true (x_display_name c) body
      | None => false
      end
  | CMemberCount op count => spec_count op count (x_member_count c)
  | CSenderPerm key =>
      match x_power_levels c, property_str ev sk_sender with
      | Some pl, Some sender =>
          valid_user_id sender && str_eqb key sk_room &&
          (pl_room pl <=? match lookup sender (pl_users pl) with Some l => l | None => pl_users_default pl end)%Z
      | _, _ => false
      end
  | CPropIs key value =>
      match property ev key with Some x => value_is x value | None => false end
  | CPropContains key value =>
      match property ev key with
      | Some (PArr l) => existsb (fun x => value_is x value) l
      | _ => false
      end
  | CCustom => false
  end.

(** * Rules *)

Inductive any_rule :=
| ROverride (r : crule) | RContent (r : prule) | RRoom (r : srule) | RSender (r : srule) | RUnderride (r : crule).

(** Kind order: override, content, room, sender, underride; list order within a kind. *)
Definition rules_in_order (rs : ruleset) : list any_rule :=
  List.map ROverride (rs_override rs) ++ List.map RContent (rs_content rs) ++ List.map RRoom (rs_room rs)
  ++ List.map RSender (rs_sender rs) ++ List.map RUnderride (rs_underride rs).

Definition rule_enabled (r : any_rule) : bool :=
  match r with
  | ROverride r | RUnderride r => c_enabled r
  | RContent r => p_enabled r
  | RRoom r | RSender r => s_enabled r
  end.

Definition deprecated_mention_rule (r : any_rule) : bool :=
  match r with
  | ROverride r => str_eqb (c_id r) s!".m.rule.contains_display_name" || str_eqb (c_id r) s!".m.rule.roomnotif"
  | RContent r => str_eqb (p_id r) s!".m.rule.contains_user_name"
  | _ => false
  end.

Definition carries_mentions (ev : pjson) : bool :=
  match navigate [s!"content"; s!"m.mentions"] ev with Some _ => true | None => false end.

Definition rule_conditions_hold (r : any_rule) (ev : pjson) (c : ctx) : bool :=
  match r with
  | ROverride r | RUnderride r => forallb (fun cd => spec_cond cd ev c) (c_conds r)
  | RContent r => spec_event_match sk_body (p_pattern r) ev c
  | RRoom r => spec_event_match sk_room_id (s_id r) ev c
  | RSender r => spec_event_match sk_sender (s_id r) ev c
  end.

Definition rule_matches (r : any_rule) (ev : pjson) (c : ctx) : bool :=
  rule_enabled r && negb (deprecated_mention_rule r && carries_mentions ev) && rule_conditions_hold r ev c.

Definition describe (r : any_rule) : N * str * N :=
  match r with
  | ROverride r => (0, c_id r, c_actions r)
  | RContent r => (1, p_id r, p_actions r)
  | RRoom r => (2, s_id r, s_actions r)
  | RSender r => (3, s_id r, s_actions r)
  | RUnderride r => (4, c_id r, c_actions r)
  end.

Definition own_event (ev : pjson) (c : ctx) : bool :=
  match property_str ev sk_sender with Some s => str_eqb s (x_user_id c) | None => false end.

(** The match: nothing for the user's own events, otherwise the first rule that matches. *)
Definition spec_get_match (rs : ruleset) (ev : pjson) (c : ctx) : match_result :=
  if own_event ev c then None
  else option_map describe (List.find (fun r => rule_matches r ev c) (rules_in_order rs)).

Definition spec_get_actions (rs : ruleset) (ev : pjson) (c : ctx) : N :=
  match spec_get_match rs ev c with Some (_, _, a) => a | None => 0 end.

End Spec.

(** * What a flattened event exposes of a property value
    (the observations of [FlattenedJson::get]): scalars, arrays reduced to their scalar members,
    the empty object.  Integers must fit [js_int::Int]; other numbers are not representable. *)
Definition scalar_view (v : pjson) : option scalar :=
  match v with
  | PNull => Some SNull
  | PBool b => Some (SBool b)
  | PInt z => if int_in_range z then Some (SInt z) else None
  | PStr s => Some (SStr s)
  | _ => None
  end.

Definition view_of (v : pjson) : option fval :=
  match v with
  | PArr l =>
      Some (FArr (flat_map (fun x => match scalar_view x with Some s => [s] | None => [] end) l))
  | PObj [] => Some FEmptyObj
  | PObj _ => None
  | _ => option_map FScalar (scalar_view v)
  end.

(** * Domain of the theorems *)

(** Guaranteed by the Rust types: the integer a condition compares with is a [js_int::Int]. *)
Definition cond_wf (cd : cond) : bool :=
  match cd with
  | CPropIs _ (SInt z) | CPropContains _ (SInt z) => int_in_range z
  | _ => true
  end.

(** The ids of the deprecated override rules are not used by underride rules (ids starting with
    '.' are reserved for the server-default rules; [Ruleset::insert] refuses them). *)
Definition underride_id_ok (r : crule) : bool :=
  negb (str_eqb (c_id r) s!".m.rule.contains_display_name" || str_eqb (c_id r) s!".m.rule.roomnotif").

Definition ruleset_wf (rs : ruleset) : bool :=
  forallb (fun r => forallb cond_wf (c_conds r)) (rs_override rs)
  && forallb (fun r => forallb cond_wf (c_conds r) && underride_id_ok r) (rs_underride rs).

(** Known finding C12-mentions-unrepresentable: [v] has a part that a flattened event keeps. *)
Fixpoint representable (v : pjson) : bool :=
  match v with
  | PNum | PBad => false
  | PInt z => int_in_range z
  | PObj [] => true
  | PObj m => existsb (fun kv => representable (snd kv)) m
  | _ => true
  end.

(** The class of events on which ruma is known to deviate: [content] carries an [m.mentions] made
    of nothing but non-integer or out-of-range numbers (possibly inside objects). *)
Definition mentions_unrepresentable (ev : pjson) : bool :=
  match navigate [s!"content"; s!"m.mentions"] ev with
  | Some v => negb (representable v)
  | None => false
  end.

(** No number of the event is out of serde_json's range (otherwise the event is not a JSON
    value at all). *)
Fixpoint parseable (v : pjson) : bool :=
  match v with
  | PBad => false
  | PArr l => forallb parseable l
  | PObj m => forallb (fun kv => parseable (snd kv)) m
  | _ => true
  end.
