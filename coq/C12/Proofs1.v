(** C12.Proofs1 — characters, structural UTF-8 validity, and the glob relation vs. its
    decision procedure. *)
From Base Require Import Prelude.
From Coq Require Import ZifyBool ZifyNat ZifyN.
From C12 Require Import Text Glob.

Ltac Zify.zify_post_hook ::= Z.div_mod_to_equations.

Notation contb := (fun x : N => is_cont x = true).

(** * Continuation runs *)
Fixpoint take_conts (t : str) : str :=
  match t with
  | b :: t' => if is_cont b then b :: take_conts t' else []
  | [] => []
  end.

Lemma take_drop_conts t : t = take_conts t ++ drop_conts t.
Proof. induction t as [|b t IH]; cbn; [reflexivity|]. destruct (is_cont b); cbn; [now f_equal|reflexivity]. Qed.

Lemma take_conts_Forall t : Forall contb (take_conts t).
Proof. induction t as [|b t IH]; cbn; [constructor|]. destruct (is_cont b) eqn:E; constructor; assumption. Qed.

Lemma drop_conts_boundary t : at_boundary (drop_conts t) = true.
Proof. induction t as [|b t IH]; cbn; [reflexivity|]. destruct (is_cont b) eqn:E; [exact IH|]. cbn. now rewrite E. Qed.

Lemma drop_conts_app tl t : Forall contb tl -> at_boundary t = true -> drop_conts (tl ++ t) = t.
Proof.
  induction 1 as [|b tl Hb _ IH]; intros Ht; cbn.
  - destruct t as [|x t]; cbn in *; [reflexivity|]. now destruct (is_cont x).
  - rewrite Hb. now apply IH.
Qed.

Lemma take_conts_app tl t : Forall contb tl -> at_boundary t = true -> take_conts (tl ++ t) = tl.
Proof.
  induction 1 as [|b tl Hb _ IH]; intros Ht; cbn.
  - destruct t as [|x t]; cbn in *; [reflexivity|]. now destruct (is_cont x).
  - rewrite Hb. f_equal. now apply IH.
Qed.

Lemma one_char_inv c : one_char c -> exists b tl, c = b :: tl /\ is_cont b = false /\ Forall contb tl.
Proof. intros [b tl H1 H2]. now exists b, tl. Qed.

Lemma one_char_nonnil c : one_char c -> c <> [].
Proof. intros [b tl _ _]; discriminate. Qed.

Lemma one_char_first b t : is_cont b = false -> one_char (b :: take_conts t).
Proof. intros H. constructor; [exact H|apply take_conts_Forall]. Qed.

(** A text that starts with a non-continuation byte splits into its first character and the
    rest, uniquely. *)
Lemma first_char_split b t :
  is_cont b = false ->
  b :: t = (b :: take_conts t) ++ drop_conts t /\ one_char (b :: take_conts t)
  /\ at_boundary (drop_conts t) = true.
Proof.
  intros H. split; [cbn; f_equal; apply take_drop_conts|].
  split; [now apply one_char_first|apply drop_conts_boundary].
Qed.

Lemma first_char_unique c t' b t :
  one_char c -> at_boundary t' = true -> b :: t = c ++ t' ->
  c = b :: take_conts t /\ t' = drop_conts t /\ is_cont b = false.
Proof.
  intros [b0 tl Hb Htl] Hbd E. cbn in E. injection E as -> ->.
  rewrite take_conts_app, drop_conts_app by assumption. auto.
Qed.

Lemma next_char_spec t t' :
  next_char t = Some t' <-> exists c, t = c ++ t' /\ one_char c /\ at_boundary t' = true.
Proof.
  split.
  - destruct t as [|b t]; cbn; [discriminate|]. destruct (is_cont b) eqn:E; [discriminate|].
    intros [= <-]. destruct (first_char_split b t E) as (H1 & H2 & H3).
    exists (b :: take_conts t). auto.
  - intros (c & -> & Hc & Hb). destruct (one_char_inv _ Hc) as (b & tl & -> & Hb0 & Htl).
    cbn. rewrite Hb0. now rewrite drop_conts_app.
Qed.

(** * Structural UTF-8 validity *)
Lemma lead_len_not_cont b n : lead_len b = Some n -> is_cont b = false.
Proof. unfold lead_len, is_cont. intros H. destruct (b <? 128) eqn:E1; [lia|]. destruct (b <? 192) eqn:E2; [discriminate|lia]. Qed.

Lemma wf_aux_app k a t :
  wf_aux k (a ++ t) = true -> at_boundary t = true -> wf_aux k a = true /\ wf_utf8 t = true.
Proof.
  revert k; induction a as [|b a IH]; intros k H Hb; cbn [app] in H.
  - destruct k as [|k].
    + split; [reflexivity|exact H].
    + destruct t as [|x t]; cbn in H; [discriminate|]. cbn in Hb.
      apply andb_true_iff in H as [H _]. rewrite H in Hb. discriminate.
  - cbn [wf_aux] in *. destruct k as [|k].
    + destruct (lead_len b) as [n|]; [|discriminate]. now apply IH.
    + apply andb_true_iff in H as [H1 H2]. rewrite H1. cbn. now apply IH.
Qed.

Lemma wf_aux_compose k a t : wf_aux k a = true -> wf_utf8 t = true -> wf_aux k (a ++ t) = true.
Proof.
  revert k; induction a as [|b a IH]; intros k H Ht; cbn [app].
  - cbn in H. destruct k; [exact Ht|discriminate].
  - cbn [wf_aux] in *. destruct k as [|k].
    + destruct (lead_len b) as [n|]; [|discriminate]. now apply IH.
    + apply andb_true_iff in H as [H1 H2]. rewrite H1. cbn. now apply IH.
Qed.

Lemma wf_boundary t : wf_utf8 t = true -> at_boundary t = true.
Proof.
  destruct t as [|b t]; cbn; [reflexivity|]. unfold wf_utf8; cbn.
  destruct (lead_len b) eqn:E; [|discriminate]. intros _. now rewrite (lead_len_not_cont _ _ E).
Qed.

(** Cutting a valid string at a character boundary gives two valid strings. *)
Lemma wf_split a t : wf_utf8 (a ++ t) = true -> at_boundary t = true -> wf_utf8 a = true /\ wf_utf8 t = true.
Proof. apply wf_aux_app. Qed.

Lemma wf_app a t : wf_utf8 a = true -> wf_utf8 t = true -> wf_utf8 (a ++ t) = true.
Proof. apply wf_aux_compose. Qed.

(** A valid prefix of a valid string leaves a valid rest. *)
Lemma wf_aux_prefix k a t : wf_aux k a = true -> wf_aux k (a ++ t) = true -> wf_utf8 t = true.
Proof.
  revert k; induction a as [|b a IH]; intros k Ha H; cbn [app] in H.
  - cbn in Ha. destruct k; [exact H|discriminate].
  - cbn [wf_aux] in *. destruct k as [|k].
    + destruct (lead_len b) as [n|]; [|discriminate]. eapply IH; eauto.
    + apply andb_true_iff in Ha as [_ Ha]. apply andb_true_iff in H as [_ H]. eapply IH; eauto.
Qed.

Lemma wf_prefix a t : wf_utf8 a = true -> wf_utf8 (a ++ t) = true -> wf_utf8 t = true.
Proof. apply wf_aux_prefix. Qed.

Lemma wf_nil : wf_utf8 [] = true.
Proof. reflexivity. Qed.

(** An ASCII byte is a valid string of its own. *)
Lemma wf_ascii b : b <? 128 = true -> wf_utf8 [b] = true.
Proof. intros H. unfold wf_utf8; cbn. unfold lead_len. now rewrite H. Qed.

Lemma ascii_not_cont b : b <? 128 = true -> is_cont b = false.
Proof. unfold is_cont. lia. Qed.

Lemma wild_ascii b : is_wild b = true -> b <? 128 = true.
Proof. unfold is_wild, c_star, c_qm. lia. Qed.

Lemma word_ascii b : is_wordb b = true -> b <? 128 = true.
Proof. unfold is_wordb. lia. Qed.

Lemma cont_not_word b : is_cont b = true -> is_wordb b = false.
Proof. unfold is_cont, is_wordb. lia. Qed.

(** In a valid string, the bytes after a character form a valid string. *)
Lemma wf_one_char c t : one_char c -> at_boundary t = true -> wf_utf8 (c ++ t) = true -> wf_utf8 t = true.
Proof. intros _ Hb H. now apply (wf_split c t). Qed.

(** * [gstar] *)
Lemma gstar_mid k t : gstar k true t = gstar k false (drop_conts t).
Proof.
  induction t as [|b t IH]; cbn [gstar drop_conts]; [reflexivity|].
  destruct (is_cont b) eqn:E; [exact IH|]. cbn [gstar]. now rewrite E.
Qed.

Lemma gstar_unfold k t :
  gstar k false t = true <->
  k t = true \/ exists c t', t = c ++ t' /\ one_char c /\ at_boundary t' = true /\ gstar k false t' = true.
Proof.
  destruct t as [|b t]; cbn [gstar].
  - split; [auto|]. intros [H|(c & t' & E & Hc & _)]; [exact H|].
    apply one_char_nonnil in Hc. destruct c; [congruence|discriminate].
  - destruct (is_cont b) eqn:E.
    + split; [auto|]. intros [H|(c & t' & E' & Hc & _)]; [exact H|].
      destruct (one_char_inv _ Hc) as (b0 & tl & -> & Hb0 & _). cbn in E'. injection E' as -> _. congruence.
    + rewrite orb_true_iff, gstar_mid. split.
      * intros [H|H]; [now left|right].
        destruct (first_char_split b t E) as (H1 & H2 & H3).
        exists (b :: take_conts t), (drop_conts t). auto.
      * intros [H|(c & t' & E' & Hc & Hb & H)]; [now left|right].
        destruct (first_char_unique _ _ _ _ Hc Hb E') as (_ & -> & _). exact H.
Qed.

(** * [glob] and [globb] agree *)
Lemma gstar_sound k p :
  (forall t, k t = true -> glob p t) ->
  forall n t, (List.length t < n)%nat -> gstar k false t = true -> glob (c_star :: p) t.
Proof.
  intros Hk. induction n as [|n IH]; intros t Hlen H; [lia|].
  apply gstar_unfold in H as [H|(c & t' & -> & Hc & Hb & H)].
  - apply G_star0. now apply Hk.
  - apply G_star1; [assumption|assumption|].
    apply IH; [|exact H]. pose proof (one_char_nonnil _ Hc). rewrite app_length in Hlen.
    destruct c; [congruence|cbn in Hlen; lia].
Qed.

Lemma globb_sound p : forall t, globb p t = true -> glob p t.
Proof.
  induction p as [|x p IH]; intros t H; cbn [globb] in H.
  - destruct t; [constructor|discriminate].
  - destruct (x =? c_star) eqn:Es.
    + apply N.eqb_eq in Es as ->. eapply gstar_sound; [exact IH| |exact H]. apply Nat.lt_succ_diag_r.
    + destruct (x =? c_qm) eqn:Eq.
      * apply N.eqb_eq in Eq as ->. destruct (next_char t) as [t'|] eqn:En; [|discriminate].
        apply next_char_spec in En as (c & -> & Hc & Hb). apply G_qm; auto.
      * destruct t as [|b t]; [discriminate|]. apply andb_true_iff in H as [H1 H2].
        apply N.eqb_eq in H1 as <-. apply G_lit; [|auto]. unfold is_wild. now rewrite Es, Eq.
Qed.

Lemma globb_complete p t : glob p t -> globb p t = true.
Proof.
  induction 1 as [|p t _ IH|p c t Hc Hb _ IH|p c t Hc Hb _ IH|b p t Hw _ IH].
  - reflexivity.
  - cbn [globb]. rewrite N.eqb_refl. apply gstar_unfold. now left.
  - cbn [globb] in *. rewrite N.eqb_refl in *. apply gstar_unfold. right. exists c, t. auto.
  - cbn [globb]. change (c_qm =? c_star) with false. rewrite N.eqb_refl. cbv iota.
    assert (E : next_char (c ++ t) = Some t) by (apply next_char_spec; exists c; auto).
    now rewrite E.
  - cbn [globb]. unfold is_wild in Hw. apply orb_false_iff in Hw as [H1 H2]. rewrite H1, H2.
    now rewrite N.eqb_refl.
Qed.

Theorem globb_iff_glob p t : globb p t = true <-> glob p t.
Proof. split; [apply globb_sound|apply globb_complete]. Qed.

(** * Patterns without wildcards match themselves only *)
Lemma glob_literal p t : existsb is_wild p = false -> (glob p t <-> t = p).
Proof.
  revert t; induction p as [|b p IH]; intros t Hw.
  - split; [now inversion 1|intros ->; constructor].
  - cbn in Hw. apply orb_false_iff in Hw as [Hb Hp]. split.
    + assert (Hs : b <> c_star) by (intros ->; discriminate).
      assert (Hq : b <> c_qm) by (intros ->; discriminate).
      inversion 1; subst; try congruence. f_equal. now apply IH.
    + intros ->. apply G_lit; [exact Hb|]. now apply IH.
Qed.

(** A pattern matches the empty text iff it consists of stars. *)
Lemma glob_nil_stars p t : glob p t -> t = [] -> forallb (fun b => b =? c_star) p = true.
Proof.
  induction 1 as [|p t _ IH|p c t Hc Hb _ IH|p c t Hc Hb _ IH|b p t Hw _ IH]; intros E.
  - reflexivity.
  - cbn. rewrite N.eqb_refl. now apply IH.
  - exfalso. apply one_char_nonnil in Hc. destruct c; [congruence|discriminate].
  - exfalso. apply one_char_nonnil in Hc. destruct c; [congruence|discriminate].
  - discriminate.
Qed.

Lemma glob_nil_iff p : glob p [] <-> forallb (fun b => b =? c_star) p = true.
Proof.
  split; [intros H; now apply (glob_nil_stars p [])|].
  induction p as [|b p IH]; cbn; [constructor|].
  intros H. apply andb_true_iff in H as [H1 H2]. apply N.eqb_eq in H1 as ->.
  apply G_star0. now apply IH.
Qed.
