(** C12.Proofs2 — word matching: the decidable form of the specification, and the scanner of
    [matches_word] (patterns without wildcards). *)
From Base Require Import Prelude.
From Coq Require Import ZifyBool ZifyNat ZifyN.
From C12 Require Import Text Glob Model Spec Proofs1.

Ltac Zify.zify_post_hook ::= Z.div_mod_to_equations.

Lemma skipn_skipn {A} : forall (x y : nat) (l : list A), skipn x (skipn y l) = skipn (x + y) l.
Proof.
  intros x y; revert x; induction y as [|y IH]; intros x l.
  - now rewrite Nat.add_0_r.
  - destruct l as [|a l]; [now rewrite !skipn_nil|]. rewrite Nat.add_succ_r. cbn. apply IH.
Qed.

(** * [word_occb] decides [word_occ] *)
Lemma in_splits v : forall l r, In (l, r) (splits v) <-> l ++ r = v.
Proof.
  induction v as [|b v IH]; intros l r; cbn [splits].
  - split.
    + intros [E|[]]. now inversion E.
    + intros E. apply app_eq_nil in E as [-> ->]. now left.
  - split.
    + intros [E|H]; [now inversion E|].
      apply in_map_iff in H as ([l' r'] & E & H). cbn in E. inversion E; subst.
      apply IH in H. cbn. now f_equal.
    + intros E. destruct l as [|x l]; cbn in E.
      * left. now subst.
      * injection E as -> E. right. apply in_map_iff. exists (l, r). split; [reflexivity|]. now apply IH.
Qed.

Lemma is_nil_true {A} (l : list A) : is_nil l = true <-> l = [].
Proof. destruct l; cbn; split; congruence. Qed.

Lemma bndb_iff l r : bndb l r = true <-> bnd l r.
Proof.
  unfold bndb, bnd. rewrite !orb_true_iff, !is_nil_true, !negb_true_iff. tauto.
Qed.

Theorem word_occb_iff p v : word_occb p v = true <-> word_occ p v.
Proof.
  unfold word_occb, word_occ. rewrite existsb_exists. split.
  - intros ([pre rest] & Hin & H). cbn [fst snd] in H.
    apply andb_true_iff in H as [H H3]. apply andb_true_iff in H as [H1 H2].
    apply existsb_exists in H3 as ([mid post] & Hin2 & H3). cbn [fst snd] in H3.
    apply andb_true_iff in H3 as [H3 H6]. apply andb_true_iff in H3 as [H4 H5].
    apply in_splits in Hin, Hin2. subst rest. exists pre, mid, post.
    rewrite bndb_iff in H2, H5. apply globb_iff_glob in H6. auto 10.
  - intros (pre & mid & post & -> & H1 & H2 & H3 & H4 & H5).
    exists (pre, mid ++ post). split; [now apply in_splits|]. cbn [fst snd].
    rewrite H1. apply bndb_iff in H3. rewrite H3. cbn [andb].
    apply existsb_exists. exists (mid, post). split; [now apply in_splits|]. cbn [fst snd].
    apply bndb_iff in H4. apply globb_iff_glob in H5. now rewrite H2, H4, H5.
Qed.

(** * Index view of a byte string *)
Definition byte (v : str) (i : nat) : N := nth i v 0.

Lemma byte_skipn v i k : byte (skipn i v) k = byte v (i + k).
Proof.
  unfold byte. revert v; induction i as [|i IH]; intros v; [reflexivity|].
  destruct v as [|x v]; cbn [skipn]; [now destruct k|]. cbn. apply IH.
Qed.

Lemma byte_app_l a b k : (k < List.length a)%nat -> byte (a ++ b) k = byte a k.
Proof. intros H. unfold byte. now apply app_nth1. Qed.

Lemma hd_byte v : hd 0 v = byte v 0.
Proof. now destruct v. Qed.

Lemma last_firstn v i : (0 < i <= List.length v)%nat -> last (firstn i v) 0 = byte v (i - 1).
Proof.
  revert v; induction i as [|i IH]; intros v H; [lia|].
  destruct v as [|x v]; cbn in H; [lia|]. cbn [firstn]. destruct i as [|i].
  - reflexivity.
  - assert (E : firstn (S i) v <> []) by (destruct v; cbn in *; [lia|discriminate]).
    destruct (firstn (S i) v) eqn:Ef; [congruence|]. rewrite <- Ef.
    replace (S (S i) - 1)%nat with (S (S i - 1)) by lia. unfold byte. cbn [nth].
    change (last (x :: firstn (S i) v) 0) with (match firstn (S i) v with [] => x | _ => last (firstn (S i) v) 0 end).
    rewrite Ef. rewrite <- Ef. apply IH. lia.
Qed.

Lemma nth_error_byte v i : (i < List.length v)%nat -> nth_error v i = Some (byte v i).
Proof. intros H. unfold byte. now apply nth_error_nth'. Qed.

(** Boundary at index [i]. *)
Definition bndI (v : str) (i : nat) : Prop :=
  i = O \/ i = List.length v \/ is_wordb (byte v (i - 1)) = false \/ is_wordb (byte v i) = false.

Lemma bnd_bndI v i : (i <= List.length v)%nat -> (bnd (firstn i v) (skipn i v) <-> bndI v i).
Proof.
  intros Hi. unfold bnd, bndI.
  assert (E1 : firstn i v = [] <-> i = O \/ v = []).
  { destruct i, v; cbn; split; intros; auto; try discriminate; destruct H; try discriminate; auto. }
  assert (E2 : skipn i v = [] <-> i = List.length v).
  { split; [|intros ->; apply skipn_all].
    intros H. pose proof (f_equal (@List.length N) H) as HL. rewrite skipn_length in HL. cbn in HL. lia. }
  rewrite hd_byte, byte_skipn, Nat.add_0_r.
  destruct (Nat.eq_dec i 0) as [->|Hn]; [tauto|].
  rewrite last_firstn by lia. rewrite E1, E2.
  split; intros [H|[H|H]]; auto; try tauto.
  destruct H as [H|H]; [lia|]. subst v. cbn in Hi. lia.
Qed.

(** [p] occurs in [v] at index [i]. *)
Definition occ (p v : str) (i : nat) : Prop := exists post, skipn i v = p ++ post.

Lemma occ_byte p v i k : occ p v i -> (k < List.length p)%nat -> byte v (i + k) = byte p k.
Proof. intros [post E] Hk. rewrite <- byte_skipn, E. now apply byte_app_l. Qed.

Lemma occ_len p v i : p <> [] -> occ p v i -> (i + List.length p <= List.length v)%nat.
Proof.
  intros Hp [post E]. pose proof (f_equal (@List.length N) E) as HL.
  rewrite skipn_length, app_length in HL. destruct p; [congruence|]. cbn in *. lia.
Qed.

Lemma occ_starts p v i : occ p v i <-> starts_with p (skipn i v) = true.
Proof. unfold occ. now rewrite starts_with_spec. Qed.

Definition admI (p v : str) (i : nat) : Prop := occ p v i /\ bndI v i /\ bndI v (i + List.length p).

(** The specification for a pattern without wildcards, in index form. *)
Lemma word_occ_literal p v :
  p <> [] -> has_wild p = false -> wf_utf8 p = true -> wf_utf8 v = true ->
  (word_occ p v <-> exists i, admI p v i).
Proof.
  intros Hp Hw Hwfp Hwfv. split.
  - intros (pre & mid & post & -> & _ & _ & H3 & H4 & H5).
    apply glob_literal in H5; [|exact Hw]. subst mid.
    exists (List.length pre). unfold admI.
    assert (Es : skipn (List.length pre) (pre ++ p ++ post) = p ++ post).
    { rewrite skipn_app, skipn_all, Nat.sub_diag. reflexivity. }
    assert (Ef : firstn (List.length pre) (pre ++ p ++ post) = pre).
    { rewrite firstn_app, firstn_all, Nat.sub_diag. cbn. apply app_nil_r. }
    split; [exists post; exact Es|]. split.
    + apply bnd_bndI; [rewrite app_length; lia|]. now rewrite Es, Ef.
    + apply bnd_bndI; [rewrite !app_length; lia|].
      replace (pre ++ p ++ post) with ((pre ++ p) ++ post) by now rewrite app_assoc.
      rewrite <- app_length.
      rewrite skipn_app, skipn_all, Nat.sub_diag, firstn_app, firstn_all, Nat.sub_diag. cbn.
      now rewrite app_nil_r.
  - intros (i & [post E] & H1 & H2).
    assert (Hlen : (i + List.length p <= List.length v)%nat) by (apply occ_len; [exact Hp|now exists post]).
    assert (Ev : v = firstn i v ++ p ++ post) by (rewrite <- E; symmetry; apply firstn_skipn).
    exists (firstn i v), p, post.
    assert (Hbp : at_boundary (p ++ post) = true).
    { destruct p as [|x p]; [congruence|]. apply wf_boundary in Hwfp. exact Hwfp. }
    assert (Hwf2 : wf_utf8 (p ++ post) = true).
    { rewrite Ev in Hwfv. now apply (wf_split (firstn i v)). }
    assert (Hbpost : at_boundary post = true).
    { apply wf_boundary. now apply (wf_prefix p). }
    split; [exact Ev|]. split; [exact Hbp|]. split; [exact Hbpost|].
    split; [|split].
    + rewrite <- E. apply bnd_bndI; [lia|exact H1].
    + assert (E2 : skipn (i + List.length p) v = post).
      { rewrite Nat.add_comm, <- skipn_skipn, E. rewrite skipn_app, skipn_all, Nat.sub_diag. reflexivity. }
      assert (E3 : firstn (i + List.length p) v = firstn i v ++ p).
      { rewrite Ev at 1. rewrite firstn_app. rewrite firstn_length_le by lia.
        replace (i + List.length p - i)%nat with (List.length p) by lia.
        rewrite firstn_app, firstn_all, Nat.sub_diag. cbn. rewrite app_nil_r.
        f_equal. rewrite firstn_firstn. f_equal. lia. }
      rewrite <- E2, <- E3. apply bnd_bndI; [lia|exact H2].
    + apply glob_literal; [exact Hw|reflexivity].
Qed.

(** * [str::find] *)
Lemma find_sub_some p v : forall i,
  find_sub p v = Some i -> occ p v i /\ forall j, (j < i)%nat -> ~ occ p v j.
Proof.
  induction v as [|x v IH]; intros i; cbn [find_sub].
  - destruct (starts_with p []) eqn:E; [|discriminate]. intros [= <-]. split; [now apply occ_starts|lia].
  - destruct (starts_with p (x :: v)) eqn:E.
    + intros [= <-]. split; [now apply occ_starts|lia].
    + destruct (find_sub p v) as [k|] eqn:Ef; [|discriminate]. cbn. intros [= <-].
      destruct (IH k eq_refl) as [H1 H2]. split; [exact H1|].
      intros j Hj Ho. destruct j as [|j].
      * apply occ_starts in Ho. cbn in Ho. congruence.
      * apply (H2 j); [lia|exact Ho].
Qed.

Lemma find_sub_none p v : p <> [] -> find_sub p v = None -> forall j, ~ occ p v j.
Proof.
  intros Hp. induction v as [|x v IH]; cbn [find_sub].
  - intros _ j Ho. apply occ_starts in Ho. rewrite skipn_nil in Ho. destruct p; [congruence|discriminate].
  - destruct (starts_with p (x :: v)) eqn:E; [discriminate|].
    destruct (find_sub p v) eqn:Ef; [discriminate|]. intros _ j Ho.
    destruct j as [|j]; [apply occ_starts in Ho; cbn in Ho; congruence|].
    now apply (IH eq_refl j).
Qed.

Lemma find_idx_some f l : forall k,
  find_idx f l = Some k ->
  (k < List.length l)%nat /\ f (byte l k) = true /\ forall j, (j < k)%nat -> f (byte l j) = false.
Proof.
  induction l as [|b l IH]; intros k; cbn [find_idx]; [discriminate|].
  destruct (f b) eqn:E.
  - intros [= <-]. cbn. split; [lia|]. split; [exact E|lia].
  - destruct (find_idx f l) as [k'|]; [|discriminate]. cbn. intros [= <-].
    destruct (IH k' eq_refl) as (H1 & H2 & H3). cbn. split; [lia|]. split; [exact H2|].
    intros [|j] Hj; [exact E|]. apply H3. lia.
Qed.

Lemma find_idx_none f l : find_idx f l = None -> forall j, (j < List.length l)%nat -> f (byte l j) = false.
Proof.
  induction l as [|b l IH]; cbn [find_idx]; [cbn; lia|].
  destruct (f b) eqn:E; [discriminate|]. destruct (find_idx f l); [discriminate|].
  intros _ [|j] Hj; [exact E|]. apply IH; [reflexivity|cbn in Hj; lia].
Qed.

(** * The restart of the scanner never skips an admissible occurrence *)
Section Restart.
Variables (p v : str) (s n1 r : nat).
Hypothesis Hp : p <> [].
Hypothesis Hocc : occ p v s.
Hypothesis Hfirst : forall j, (j < s)%nat -> ~ occ p v j.
Hypothesis Hnot : ~ admI p v s.
Hypothesis Hn1 : (s <= n1)%nat.
Hypothesis Hword : forall i, (s <= i < n1)%nat -> is_wordb (byte v i) = true.

Lemma no_adm_in_word_run i : (s < i < n1)%nat -> ~ admI p v i.
Proof using Hp Hword.
  clear Hocc Hnot Hn1 Hfirst r.
  intros Hi (Ho & Hb & _). pose proof (occ_len _ _ _ Hp Ho).
  assert (List.length p <> O) by (destruct p; [congruence|cbn; lia]).
  destruct Hb as [B|[B|[B|B]]]; try lia.
  - rewrite Hword in B by lia. discriminate.
  - rewrite Hword in B by lia. discriminate.
Qed.

(** If the pattern starts with a non-word byte, the word run is empty. *)
Lemma nonword_start : is_wordb (byte p 0) = false -> n1 = s.
Proof using Hp Hocc Hword Hn1.
  clear Hnot Hfirst r.
  intros H. destruct (Nat.eq_dec n1 s) as [|Hne]; [assumption|exfalso].
  assert (List.length p <> O) by (destruct p; [congruence|cbn; lia]).
  pose proof (occ_byte _ _ _ 0 Hocc ltac:(lia)) as E. rewrite Nat.add_0_r in E.
  rewrite <- E, Hword in H by lia. discriminate.
Qed.

Section NonwordRun.
Hypothesis Hr : (n1 <= r <= List.length v)%nat.
Hypothesis Hnon : forall i, (n1 <= i < r)%nat -> is_wordb (byte v i) = false.
(** the byte at [r], if any, is a word byte *)
Hypothesis Hrw : (r < List.length v)%nat -> is_wordb (byte v r) = true.

Lemma no_adm_in_nonword_run i : (n1 <= i < r)%nat -> (s < i)%nat -> ~ admI p v i.
Proof using All.
  intros Hi Hsi (Ho & _ & _).
  assert (Hlp : List.length p <> O) by (destruct p; [congruence|cbn; lia]).
  pose proof (occ_len _ _ _ Hp Ho) as Hle.
  (* the pattern starts with a non-word byte, so the first occurrence does too *)
  assert (Hp0 : is_wordb (byte p 0) = false).
  { pose proof (occ_byte _ _ _ 0 Ho ltac:(lia)) as E. rewrite Nat.add_0_r in E. rewrite <- E. apply Hnon. lia. }
  pose proof (nonword_start Hp0) as ->.
  (* the first occurrence starts at a boundary; it is not admissible, so its end is not one *)
  assert (Hend : ~ bndI v (s + List.length p)).
  { intros Hb. apply Hnot. split; [exact Hocc|]. split; [|exact Hb].
    right; right; right. apply Hnon. lia. }
  pose proof (occ_len _ _ _ Hp Hocc) as Hle0.
  assert (Hw1 : is_wordb (byte v (s + List.length p - 1)) = true).
  { destruct (is_wordb (byte v (s + List.length p - 1))) eqn:E; [reflexivity|].
    exfalso. apply Hend. right; right; left. exact E. }
  assert (Hge : (r <= s + List.length p - 1)%nat).
  { destruct (le_lt_dec r (s + List.length p - 1)); [assumption|].
    rewrite Hnon in Hw1 by lia. discriminate. }
  (* byte r of v is a word byte and lies inside both occurrences *)
  assert (Hlt : (r < List.length v)%nat) by lia.
  pose proof (occ_byte _ _ _ (r - i) Ho ltac:(lia)) as E1.
  replace (i + (r - i))%nat with r in E1 by lia.
  pose proof (occ_byte _ _ _ (r - i) Hocc ltac:(lia)) as E2.
  assert (Ea : is_wordb (byte p (r - i)) = true) by (rewrite <- E1; apply Hrw; lia).
  assert (Eb : is_wordb (byte p (r - i)) = false) by (rewrite <- E2; apply Hnon; lia).
  congruence.
Qed.

Lemma adm_after_restart i : admI p v i -> (r <= i)%nat.
Proof using All.
  intros H. destruct (le_lt_dec r i) as [|Hlt]; [assumption|exfalso].
  assert (Hsi : (s <= i)%nat).
  { destruct (le_lt_dec s i); [assumption|]. exfalso. apply (Hfirst i); [lia|apply H]. }
  destruct (Nat.eq_dec i s) as [->|Hne]; [now apply Hnot|].
  destruct (le_lt_dec n1 i).
  - apply (no_adm_in_nonword_run i); [lia|lia|exact H].
  - apply (no_adm_in_word_run i); [lia|exact H].
Qed.
End NonwordRun.
End Restart.

(** Occurrences and boundaries in a suffix. *)
Lemma occ_suffix p v r j : occ p (skipn r v) j <-> occ p v (r + j).
Proof. unfold occ. now rewrite skipn_skipn, Nat.add_comm. Qed.

Lemma bndI_suffix v r j :
  (r <= List.length v)%nat -> (0 < r)%nat -> is_wordb (byte v (r - 1)) = false ->
  (bndI (skipn r v) j <-> bndI v (r + j)).
Proof.
  intros Hr Hr0 Hprev. destruct j as [|j].
  - rewrite Nat.add_0_r. unfold bndI. split; intros _; [|now left]. right; right; left. exact Hprev.
  - unfold bndI. rewrite skipn_length, !byte_skipn. replace (r + (S j - 1))%nat with (r + S j - 1)%nat by lia.
    split; intros [H|[H|H]]; try lia; auto; right; left; lia.
Qed.

Lemma bndI_suffix_end v r j :
  (r <= List.length v)%nat -> (0 < j)%nat ->
  (bndI (skipn r v) j <-> bndI v (r + j)).
Proof.
  intros Hr Hj. unfold bndI. rewrite skipn_length, !byte_skipn.
  replace (r + (j - 1))%nat with (r + j - 1)%nat by lia.
  split; intros [H|[H|H]]; try lia; auto; right; left; lia.
Qed.

(** * The scanner *)
Section Scanner.
Variable regex_fits : str -> bool.
Variable p : str.
Hypothesis Hp : p <> [].
Hypothesis Hw : has_wild p = false.
Hypothesis Hwfp : wf_utf8 p = true.

Lemma plen : (0 < List.length p)%nat.
Proof. destruct p; [congruence|cbn; lia]. Qed.

Lemma char_at_ok v i : (i < List.length v)%nat -> char_at_is_word v i = Ok (is_wordb (byte v i)).
Proof. intros H. unfold char_at_is_word. now rewrite nth_error_byte. Qed.

Lemma prev_char_ok v i :
  (i <= List.length v)%nat ->
  prev_char_is_word v i = match i with O => None | S j => Some (is_wordb (byte v j)) end.
Proof. intros H. destruct i as [|j]; [reflexivity|]. cbn. rewrite nth_error_byte by lia. reflexivity. Qed.

Lemma scan_correct : forall fuel v,
  (List.length v < fuel)%nat -> wf_utf8 v = true ->
  exists b, matches_word regex_fits fuel v p = Some (Ok b) /\ (b = true <-> exists i, admI p v i).
Proof.
  induction fuel as [|fuel IH]; intros v Hfuel Hwfv; [lia|].
  cbn [matches_word].
  destruct (str_eqb_spec v p) as [->|Hne].
  { exists true. split; [reflexivity|]. split; [|reflexivity]. intros _. exists O.
    split; [exists []; cbn; now rewrite app_nil_r|]. split; [now left|right; left; reflexivity]. }
  assert (Enil : is_nil p = false) by (destruct p; [congruence|reflexivity]).
  rewrite Enil, Hw.
  destruct (find_sub p v) as [s|] eqn:Ef.
  2:{ exists false. split; [reflexivity|]. split; [discriminate|].
      intros (i & Ho & _). exfalso. eapply find_sub_none; eauto. }
  destruct (find_sub_some _ _ _ Ef) as [Hocc Hfirst].
  pose proof (occ_len _ _ _ Hp Hocc) as Hle. pose proof plen as Hpl.
  rewrite char_at_ok by lia. rewrite prev_char_ok by lia.
  set (e := (s + List.length p)%nat).
  (* the boolean boundary tests *)
  set (wbs := negb (is_wordb (byte v s)) ||
              negb match match s with O => None | S j => Some (is_wordb (byte v j)) end with
                   | Some w => w | None => false end).
  assert (Hwbs : wbs = true <-> bndI v s).
  { unfold wbs, bndI. rewrite orb_true_iff, !negb_true_iff. destruct s as [|j].
    - split; intros; auto.
    - replace (S j - 1)%nat with j by lia. split.
      + intros [H|H]; auto.
      + intros [H|[H|[H|H]]]; try lia; auto. }
  (* the continuation [next_word] *)
  set (next := match find_idx (fun b => negb (is_wordb b)) (skipn s v) with
               | Some nw =>
                   match find_idx is_wordb (skipn nw (skipn s v)) with
                   | Some w => matches_word regex_fits fuel (skipn w (skipn nw (skipn s v))) p
                   | None => Some (Ok false)
                   end
               | None => Some (Ok false)
               end).
  assert (Hnext : ~ admI p v s ->
                  exists b, next = Some (Ok b) /\ (b = true <-> exists i, admI p v i)).
  { intros Hnot. unfold next.
    destruct (find_idx (fun b => negb (is_wordb b)) (skipn s v)) as [nw|] eqn:E1.
    2:{ (* only word bytes from [s] on *)
        exists false. split; [reflexivity|]. split; [discriminate|]. intros (i & Hi). exfalso.
        pose proof (find_idx_none _ _ E1) as Hall. rewrite skipn_length in Hall.
        assert (Hword : forall i, (s <= i < List.length v)%nat -> is_wordb (byte v i) = true).
        { intros k Hk. specialize (Hall (k - s)%nat ltac:(lia)). rewrite byte_skipn in Hall.
          replace (s + (k - s))%nat with k in Hall by lia. now apply negb_false_iff in Hall. }
        assert (Hsi : (s <= i)%nat).
        { destruct (le_lt_dec s i); [assumption|]. exfalso. apply (Hfirst i); [lia|apply Hi]. }
        destruct (Nat.eq_dec i s) as [->|Hn]; [now apply Hnot|].
        pose proof (occ_len _ _ _ Hp (proj1 Hi)).
        apply (no_adm_in_word_run p v s (List.length v) Hp Hword i); [lia|exact Hi]. }
    destruct (find_idx_some _ _ _ E1) as (Hnw1 & Hnw2 & Hnw3). rewrite skipn_length in Hnw1.
    set (n1 := (s + nw)%nat).
    assert (Hword : forall i, (s <= i < n1)%nat -> is_wordb (byte v i) = true).
    { intros k Hk. specialize (Hnw3 (k - s)%nat ltac:(lia)). rewrite byte_skipn in Hnw3.
      replace (s + (k - s))%nat with k in Hnw3 by lia. now apply negb_false_iff in Hnw3. }
    rewrite byte_skipn in Hnw2. apply negb_true_iff in Hnw2. fold n1 in Hnw2.
    destruct (find_idx is_wordb (skipn nw (skipn s v))) as [w|] eqn:E2.
    2:{ (* only non-word bytes from [n1] on *)
        exists false. split; [reflexivity|]. split; [discriminate|]. intros (i & Hi). exfalso.
        pose proof (find_idx_none _ _ E2) as Hall. rewrite !skipn_length in Hall.
        assert (Hnon : forall i, (n1 <= i < List.length v)%nat -> is_wordb (byte v i) = false).
        { intros k Hk. specialize (Hall (k - n1)%nat ltac:(lia)). rewrite !byte_skipn in Hall.
          replace (s + (nw + (k - n1)))%nat with k in Hall by lia. exact Hall. }
        pose proof (adm_after_restart p v s n1 (List.length v) Hp Hocc Hfirst Hnot ltac:(lia) Hword
                      ltac:(lia) Hnon ltac:(lia) i Hi) as Hge.
        pose proof (occ_len _ _ _ Hp (proj1 Hi)). lia. }
    destruct (find_idx_some _ _ _ E2) as (Hw1 & Hw2 & Hw3). rewrite !skipn_length in Hw1.
    rewrite !byte_skipn in Hw2.
    set (r := (s + (nw + w))%nat). fold r in Hw2.
    assert (Hnon : forall i, (n1 <= i < r)%nat -> is_wordb (byte v i) = false).
    { intros k Hk. specialize (Hw3 (k - n1)%nat ltac:(lia)). rewrite !byte_skipn in Hw3.
      replace (s + (nw + (k - n1)))%nat with k in Hw3 by lia. exact Hw3. }
    assert (Hw0 : (0 < w)%nat).
    { destruct (Nat.eq_dec w 0) as [E0|]; [|lia]. exfalso.
      assert (Er : r = n1) by (unfold r, n1; lia). rewrite Er in Hw2. congruence. }
    assert (Esk : skipn w (skipn nw (skipn s v)) = skipn r v).
    { rewrite !skipn_skipn. f_equal. unfold r. lia. }
    rewrite Esk.
    assert (Hwfr : wf_utf8 (skipn r v) = true).
    { rewrite <- (firstn_skipn r v) in Hwfv. apply wf_split in Hwfv; [apply Hwfv|].
      destruct (skipn r v) as [|x t] eqn:Es; [reflexivity|]. cbn.
      assert (x = byte v r) as ->.
      { pose proof (byte_skipn v r 0) as Eb. rewrite Es, Nat.add_0_r in Eb. exact Eb. }
      rewrite ascii_not_cont; [reflexivity|]. now apply word_ascii. }
    destruct (IH (skipn r v)) as (b & Hb1 & Hb2); [rewrite skipn_length; lia|exact Hwfr|].
    exists b. split; [exact Hb1|]. rewrite Hb2. split.
    - intros (j & Ho & B1 & B2). exists (r + j)%nat.
      assert (Hprev : is_wordb (byte v (r - 1)) = false) by (apply Hnon; unfold r, n1; lia).
      split; [now apply occ_suffix|]. split.
      + apply (bndI_suffix v r j); [unfold r; lia|unfold r; lia|exact Hprev|exact B1].
      + rewrite <- Nat.add_assoc. apply (bndI_suffix_end v r); [unfold r; lia|lia|exact B2].
    - intros (i & Hi).
      pose proof (adm_after_restart p v s n1 r Hp Hocc Hfirst Hnot ltac:(unfold n1; lia) Hword
                    ltac:(unfold r, n1; lia) Hnon ltac:(intros _; exact Hw2) i Hi) as Hge.
      exists (i - r)%nat. destruct Hi as (Ho & B1 & B2).
      assert (Hprev : is_wordb (byte v (r - 1)) = false) by (apply Hnon; unfold r, n1; lia).
      replace i with (r + (i - r))%nat in Ho, B1, B2 by lia.
      split; [now apply occ_suffix|]. split.
      + apply (bndI_suffix v r (i - r)); [unfold r; lia|unfold r; lia|exact Hprev|exact B1].
      + rewrite <- Nat.add_assoc in B2. apply (bndI_suffix_end v r); [unfold r; lia|lia|exact B2]. }
  fold next.
  destruct wbs eqn:Ewbs.
  2:{ apply Hnext. intros (_ & B & _). apply Hwbs in B. congruence. }
  assert (Bs : bndI v s) by now apply Hwbs.
  destruct (Nat.eqb_spec e (List.length v)) as [Ee|Ee].
  { exists true. split; [reflexivity|]. split; [|reflexivity]. intros _. exists s.
    split; [exact Hocc|]. split; [exact Bs|]. right; left. exact Ee. }
  rewrite prev_char_ok by (unfold e; lia).
  assert (Ee' : e = S (e - 1)) by (unfold e; lia). rewrite Ee'.
  destruct (is_wordb (byte v (e - 1))) eqn:Ew1; cbn [negb].
  2:{ exists true. split; [reflexivity|]. split; [|reflexivity]. intros _. exists s.
      split; [exact Hocc|]. split; [exact Bs|]. right; right; left. exact Ew1. }
  rewrite <- Ee'. rewrite char_at_ok by (unfold e in *; lia).
  destruct (is_wordb (byte v e)) eqn:Ew2; cbn [negb].
  2:{ exists true. split; [reflexivity|]. split; [|reflexivity]. intros _. exists s.
      split; [exact Hocc|]. split; [exact Bs|]. right; right; right. exact Ew2. }
  apply Hnext. intros (_ & _ & [B|[B|[B|B]]]); fold e in B; try (unfold e in *; lia); congruence.
Qed.

End Scanner.
