(** C12.Types — the data the push evaluation works on (shared by Model and Spec; data only).

    Strings are byte strings (UTF-8).  An event is the JSON value serde_json makes of the raw
    event text ([serde_json::Value], objects = BTreeMap = sorted association lists):
    numbers are [PInt z] when [Number::as_i64] is [Some z], [PNum] otherwise (fractions,
    exponents, integers above i64::MAX), and [PBad] stands for a number literal that is valid
    JSON syntax (so a [Raw<T>] can hold it) but that serde_json refuses to turn into a
    [Value] ("number out of range", e.g. [1e999]). *)
From Base Require Import Prelude Sx Json.

Inductive pjson : Type :=
| PNull
| PBool (b : bool)
| PInt (z : Z)
| PNum
| PBad
| PStr (s : str)
| PArr (l : list pjson)
| PObj (m : list (str * pjson)).

Section PjsonInd.
  Variable P : pjson -> Prop.
  Hypothesis Hnull : P PNull.
  Hypothesis Hbool : forall b, P (PBool b).
  Hypothesis Hint : forall z, P (PInt z).
  Hypothesis Hnum : P PNum.
  Hypothesis Hbad : P PBad.
  Hypothesis Hstr : forall s, P (PStr s).
  Hypothesis Harr : forall l, Forall P l -> P (PArr l).
  Hypothesis Hobj : forall m, Forall (fun kv => P (snd kv)) m -> P (PObj m).
  Fixpoint pjson_ind' (j : pjson) : P j :=
    match j with
    | PNull => Hnull
    | PBool b => Hbool b
    | PInt z => Hint z
    | PNum => Hnum
    | PBad => Hbad
    | PStr s => Hstr s
    | PArr l => Harr l ((fix go (l : list pjson) : Forall P l :=
                  match l with [] => Forall_nil _ | x :: l' => Forall_cons _ (pjson_ind' x) (go l') end) l)
    | PObj m => Hobj m ((fix go (m : list (str * pjson)) : Forall (fun kv => P (snd kv)) m :=
                  match m with [] => Forall_nil _ | kv :: m' => Forall_cons _ (pjson_ind' (snd kv)) (go m') end) m)
    end.
End PjsonInd.

(** What the Rust type guarantees: the keys of every object are strictly increasing (BTreeMap). *)
Fixpoint pwfb (v : pjson) : bool :=
  match v with
  | PArr l => forallb pwfb l
  | PObj m => sortedb m && forallb (fun kv => pwfb (snd kv)) m
  | _ => true
  end.

(** [ScalarJsonValue] (flattened_json.rs:95-108): the values a condition can compare with. *)
Inductive scalar : Type :=
| SNull
| SBool (b : bool)
| SInt (z : Z)
| SStr (s : str).

Definition scalar_eqb (a b : scalar) : bool :=
  match a, b with
  | SNull, SNull => true
  | SBool x, SBool y => Bool.eqb x y
  | SInt x, SInt y => (x =? y)%Z
  | SStr x, SStr y => str_eqb x y
  | _, _ => false
  end.

Lemma scalar_eqb_eq a b : scalar_eqb a b = true <-> a = b.
Proof.
  destruct a, b; cbn [scalar_eqb]; split; intros H; try discriminate; try reflexivity.
  - apply Bool.eqb_prop in H. now subst.
  - injection H as ->. apply Bool.eqb_reflx.
  - apply Z.eqb_eq in H. now subst.
  - injection H as ->. apply Z.eqb_refl.
  - apply str_eqb_eq in H. now subst.
  - injection H as ->. apply str_eqb_refl.
Qed.

(** A property value as a flattened event exposes it ([FlattenedJsonValue]): a scalar, an array
    reduced to its scalar members, or the empty object. *)
Inductive fval : Type :=
| FScalar (s : scalar)
| FArr (l : list scalar)
| FEmptyObj.

(** [js_int::Int]: |z| <= 2^53 - 1. *)
Definition int_in_range (z : Z) : bool := ((-9007199254740991 <=? z) && (z <=? 9007199254740991))%Z.

(** [ComparisonOperator] (room_member_count_is.rs:15-31), in this order: 0 Eq 1 Lt 2 Gt 3 Ge 4 Le. *)
Inductive cmp_op := OpEq | OpLt | OpGt | OpGe | OpLe.

(** [PushCondition] (condition.rs:69-135, default features). *)
Inductive cond : Type :=
| CEventMatch (key pattern : str)
| CDisplayName
| CMemberCount (op : cmp_op) (count : N)
| CSenderPerm (key : str)
| CPropIs (key : str) (value : scalar)
| CPropContains (key : str) (value : scalar)
| CCustom.

(** Rules.  [actions] stands for the rule's action list (the runs use its length). *)
Record crule := { c_id : str; c_enabled : bool; c_conds : list cond; c_actions : N }.
Record prule := { p_id : str; p_enabled : bool; p_pattern : str; p_actions : N }.
Record srule := { s_id : str; s_enabled : bool; s_actions : N }.

Record ruleset := {
  rs_override : list crule;
  rs_content : list prule;
  rs_room : list srule;
  rs_sender : list srule;
  rs_underride : list crule }.

(** [PushConditionPowerLevelsCtx] / [PushConditionRoomCtx] (condition.rs:232-267). *)
Record plctx := { pl_users : list (str * Z); pl_users_default : Z; pl_room : Z }.
Record ctx := {
  x_room_id : str;
  x_member_count : N;
  x_user_id : str;
  x_display_name : str;
  x_power_levels : option plctx }.

(** Rule kinds in the numbering used on the wire: 0 override, 1 content, 2 room, 3 sender,
    4 underride.  A match is (kind, rule id, actions). *)
Definition match_result := option (N * str * N).

(** ** Wire decoding *)
Fixpoint pjson_of_sx (x : sx) : option pjson :=
  match x with
  | SL (SN 0 :: []) => Some PNull
  | SL (SN 1 :: SN b :: []) => Some (PBool (negb (b =? 0)%Z))
  | SL (SN 2 :: SN z :: []) => Some (PInt z)
  | SL (SN 3 :: SS s :: []) => Some (PStr s)
  | SL (SN 4 :: l) =>
      (fix go (l : list sx) : option pjson :=
         match l with
         | [] => Some (PArr [])
         | y :: l' => match pjson_of_sx y, go l' with
                      | Some v, Some (PArr r) => Some (PArr (v :: r))
                      | _, _ => None
                      end
         end) l
  | SL (SN 5 :: l) =>
      (fix go (l : list sx) : option pjson :=
         match l with
         | [] => Some (PObj [])
         | SL (SS k :: y :: []) :: l' =>
             match pjson_of_sx y, go l' with
             | Some v, Some (PObj r) => Some (PObj (insert k v r))
             | _, _ => None
             end
         | _ => None
         end) l
  | SL (SN 6 :: _) => Some PNum
  | SL (SN 7 :: _) => Some PBad
  | _ => None
  end.

Definition scalar_of_sx (x : sx) : option scalar :=
  match x with
  | SL (SN 0 :: []) => Some SNull
  | SL (SN 1 :: SN b :: []) => Some (SBool (negb (b =? 0)%Z))
  | SL (SN 2 :: SN z :: []) => Some (SInt z)
  | SL (SN 3 :: SS s :: []) => Some (SStr s)
  | _ => None
  end.

Definition op_of_N (n : N) : option cmp_op :=
  if n =? 0 then Some OpEq else if n =? 1 then Some OpLt else if n =? 2 then Some OpGt
  else if n =? 3 then Some OpGe else if n =? 4 then Some OpLe else None.

Definition cond_of_sx (x : sx) : option cond :=
  match x with
  | SL [SN 0; SS k; SS p] => Some (CEventMatch k p)
  | SL [SN 1] => Some CDisplayName
  | SL [SN 2; o; c] =>
      match as_N o, as_N c with
      | Some o, Some c => match op_of_N o with Some o => Some (CMemberCount o c) | None => None end
      | _, _ => None
      end
  | SL [SN 3; SS k] => Some (CSenderPerm k)
  | SL [SN 4; SS k; v] => match scalar_of_sx v with Some v => Some (CPropIs k v) | None => None end
  | SL [SN 5; SS k; v] => match scalar_of_sx v with Some v => Some (CPropContains k v) | None => None end
  | SL [SN 6] => Some CCustom
  | _ => None
  end.

Definition crule_of_sx (x : sx) : option crule :=
  match x with
  | SL [SS id; en; cs; a] =>
      match as_bool en, as_list_of cond_of_sx cs, as_N a with
      | Some en, Some cs, Some a => Some {| c_id := id; c_enabled := en; c_conds := cs; c_actions := a |}
      | _, _, _ => None
      end
  | _ => None
  end.

Definition prule_of_sx (x : sx) : option prule :=
  match x with
  | SL [SS id; en; SS p; a] =>
      match as_bool en, as_N a with
      | Some en, Some a => Some {| p_id := id; p_enabled := en; p_pattern := p; p_actions := a |}
      | _, _ => None
      end
  | _ => None
  end.

Definition srule_of_sx (x : sx) : option srule :=
  match x with
  | SL [SS id; en; a] =>
      match as_bool en, as_N a with
      | Some en, Some a => Some {| s_id := id; s_enabled := en; s_actions := a |}
      | _, _ => None
      end
  | _ => None
  end.

Definition ruleset_of_sx (x : sx) : option ruleset :=
  match x with
  | SL [o; c; r; s; u] =>
      match as_list_of crule_of_sx o, as_list_of prule_of_sx c, as_list_of srule_of_sx r,
            as_list_of srule_of_sx s, as_list_of crule_of_sx u with
      | Some o, Some c, Some r, Some s, Some u =>
          Some {| rs_override := o; rs_content := c; rs_room := r; rs_sender := s; rs_underride := u |}
      | _, _, _, _, _ => None
      end
  | _ => None
  end.

Definition user_level_of_sx (x : sx) : option (str * Z) :=
  match x with SL [SS u; SN z] => Some (u, z) | _ => None end.

Definition plctx_of_sx (x : sx) : option plctx :=
  match x with
  | SL [us; SN d; SN r] =>
      match as_list_of user_level_of_sx us with
      | Some us => Some {| pl_users := us; pl_users_default := d; pl_room := r |}
      | None => None
      end
  | _ => None
  end.

Definition ctx_of_sx (x : sx) : option ctx :=
  match x with
  | SL [SS room; mc; SS user; SS dn; pl] =>
      match as_N mc, as_opt plctx_of_sx pl with
      | Some mc, Some pl =>
          Some {| x_room_id := room; x_member_count := mc; x_user_id := user; x_display_name := dn;
                  x_power_levels := pl |}
      | _, _ => None
      end
  | _ => None
  end.

Definition sx_match (r : match_result) : sx :=
  match r with
  | None => SL []
  | Some (k, id, a) => SL [sx_N k; SS id; sx_N a]
  end.
