(** C20.Proofs7 — power-levels events derived from the current content: re-sending it
    unchanged, and setting one user's level ([user_can_change_user_power_level]).  Rule 10 /
    [check_room_power_levels] then reduces to "the [notifications] of the content are levels"
    (every other member was already read by ruma-events) and to the [users] entry that changes. *)
From Base Require Import Prelude Sx Json Rules.
From Gen Require Import RoomRules TypeAliases PowerLevelTables.
From C08 Require Import Types Model Spec.
From C08 Require Proofs1 Proofs2 Proofs3 Proofs4.
From C20 Require Import Model Spec Proofs1 Proofs2 Proofs3 Proofs4.
From Coq Require Import ZifyBool ZifyN.

(** ** Small facts *)
Lemma oZ_eqb_refl o : oZ_eqb o o = true.
Proof. destruct o; cbn; [apply Z.eqb_refl|reflexivity]. Qed.

Lemma oZ_eqb_neq a b : a <> b -> oZ_eqb a b = false.
Proof.
  destruct a as [x|], b as [y|]; cbn; intros H; try reflexivity; try congruence.
  apply Z.eqb_neq. congruence.
Qed.

Lemma check_maps_refl m sl rej : check_power_level_maps m m sl rej = true.
Proof.
  unfold check_power_level_maps. apply forallb_forall. intros k _. now rewrite oZ_eqb_refl.
Qed.

Lemma forallb_but_one (g : str -> bool) (t : str) l :
  (forall k, str_eqb k t = false -> g k = true) -> In t l -> forallb g l = g t.
Proof.
  intros Hg. induction l as [|x l IH]; [intros []|]. intros Hin. cbn [forallb].
  destruct (str_eqb_spec x t) as [->|Hne].
  - destruct (g t) eqn:Et; cbn [andb]; [|reflexivity].
    apply forallb_forall. intros k _. destruct (str_eqb_spec k t) as [->|Hk]; [exact Et|].
    apply Hg. now apply str_eqb_neq.
  - rewrite (Hg x); [|now apply str_eqb_neq]. cbn [andb]. apply IH.
    destruct Hin as [E|Hin]; [congruence|exact Hin].
Qed.

Lemma in_keys_insert {A} k (x : A) m : In k (keys (insert k x m)).
Proof.
  unfold keys. induction m as [|[k' y] m IH]; cbn [insert]; [now left|].
  destruct (str_ltb k k'); [now left|]. destruct (str_eqb k k'); [now left|]. right. exact IH.
Qed.

(** [int_map_entries] commutes with [insert] of an integer entry. *)
Lemma entries_insert r keyok m x k n :
  int_map_entries r keyok m = Some x -> keyok k = true -> in_int_range n = true ->
  int_map_entries r keyok (insert k (JInt n) m) = Some (insert k n x).
Proof.
  intros Hm Hk Hn. revert x Hm. induction m as [|[k' j] m IH]; intros x Hm.
  - cbn in Hm. injection Hm as <-. cbn [insert int_map_entries pl_int]. now rewrite Hk, Hn.
  - cbn [int_map_entries] in Hm. destruct (keyok k') eqn:Ek'; [|discriminate].
    destruct (pl_int r j) as [z|] eqn:Ej; [|discriminate].
    destruct (int_map_entries r keyok m) as [rest|] eqn:Er; [|discriminate].
    injection Hm as <-. cbn [insert]. destruct (str_ltb k k').
    + cbn [int_map_entries pl_int]. now rewrite Hk, Hn, Ek', Ej, Er.
    + destruct (str_eqb k k').
      * cbn [int_map_entries pl_int]. now rewrite Hk, Hn, Er.
      * cbn [int_map_entries]. now rewrite Ek', Ej, (IH rest eq_refl).
Qed.

(** The accessors read the content only. *)
Section SameContent.
Variable uid_ok : str -> bool.
Variable r : auth_rules.
Variables e1 e2 : event.

Lemma get_as_int_same f :
  lookup (field_name f) (e_content e1) = lookup (field_name f) (e_content e2) ->
  get_as_int r e1 f = get_as_int r e2 f.
Proof. unfold get_as_int. now intros ->. Qed.

Lemma get_as_int_map_same keyok name :
  lookup name (e_content e1) = lookup name (e_content e2) ->
  get_as_int_map r keyok e1 name = get_as_int_map r keyok e2 name.
Proof. unfold get_as_int_map. now intros ->. Qed.
End SameContent.

(** ** [check_room_power_levels] when only [users] may differ *)
Section OnlyUsers.
Variable uid_ok : str -> bool.
Variable r : auth_rules.
Variables ev cur : event.
Hypothesis Hfields : forall f, lookup (field_name f) (e_content ev) = lookup (field_name f) (e_content cur).
Hypothesis Hevents : lookup s!"events" (e_content ev) = lookup s!"events" (e_content cur).
Hypothesis Hnotif : lookup s!"notifications" (e_content ev) = lookup s!"notifications" (e_content cur).

Lemma crpl_only_users sl fo eo no cu nu :
  (forall f, get_as_int r cur f = Some (fo f)) ->
  pl_events r cur = Some eo -> pl_notifications r cur = Some no ->
  pl_users uid_ok r cur = Some cu -> pl_users uid_ok r ev = Some nu ->
  check_room_power_levels uid_ok r ev (Some cur) sl
  = check_power_level_maps cu nu sl (fun u z => negb (str_eqb u (e_sender ev)) && (z >=? sl)%Z).
Proof.
  intros Hf He Hn Hcu Hnu. unfold check_room_power_levels.
  assert (Hf' : forall f, get_as_int r ev f = Some (fo f)).
  { intros f. rewrite (get_as_int_same r ev cur f (Hfields f)). apply Hf. }
  destruct (C08.Proofs3.int_fields_map_some r ev) as [nif [-> Hnif]].
  { apply forallb_forall. intros f _. now rewrite Hf'. }
  assert (He' : pl_events r ev = Some eo).
  { unfold pl_events in *. now rewrite (get_as_int_map_same r ev cur any_key s!"events" Hevents). }
  assert (Hn' : pl_notifications r ev = Some no).
  { unfold pl_notifications in *. now rewrite (get_as_int_map_same r ev cur any_key s!"notifications" Hnotif). }
  rewrite He', Hn', Hnu, He, Hn, Hcu. cbv beta iota.
  rewrite !check_maps_refl.
  assert (Hall : forallb (fun f =>
            match get_as_int r cur f with
            | Some c0 =>
                if oZ_eqb c0 (field_get f nif) then true
                else negb ((with_default c0 f >? sl)%Z || (with_default (field_get f nif) f >? sl)%Z)
            | None => false
            end) all_fields = true).
  { apply forallb_forall. intros f _. rewrite Hf.
    assert (E : fo f = field_get f nif).
    { pose proof (Hnif f) as H1. rewrite Hf' in H1. now injection H1. }
    now rewrite E, oZ_eqb_refl. }
  rewrite Hall. cbn [andb]. destruct (limit_notifications_power_levels r); reflexivity.
Qed.

End OnlyUsers.

(** ** On the content ruma-events has read *)
Section Derived.
Variable uid_ok : str -> bool.
Variable sn_ok : str -> bool.
Variable verify : str -> str -> str -> obj -> bool.
Variable r : auth_rules.
Variable cr : str.
Variable c : obj.
Variable p : power_levels.
Hypothesis Hcr : uid_ok cr = true.
Hypothesis Hp : of_content uid_ok c = Some p.
Hypothesis Hc : compat r c.
(** the one thing ruma-events does not check: every member of [notifications] is a level *)
Variable no : option (amap Z).
Hypothesis Hno : pl_notifications r (power_ev cr c) = Some no.

Let pe := power_ev cr c.

Lemma cur_fields : exists fo, forall f, get_as_int r pe f = Some (fo f).
Proof.
  exists (fun f => match lookup (field_name f) c with Some _ => Some (proj f p) | None => None end).
  intros f. pose proof (level_read uid_ok r c Hc pe eq_refl p Hp f) as H.
  unfold get_as_int_or_default in H. unfold get_as_int in *. cbn [e_content pe power_ev] in *.
  destruct (lookup (field_name f) c) as [j|]; [|reflexivity].
  destruct (pl_int r j); [|discriminate]. now injection H as ->.
Qed.

Lemma cur_events : exists eo, pl_events r pe = Some eo.
Proof.
  destruct (of_content_inv uid_ok c p Hp) as [_ [[es [He _]] _]].
  destruct (events_read r c Hc pe eq_refl es He) as [eo [Ho _]]. now exists eo.
Qed.

(** Re-sending the content unchanged. *)
Lemma unchanged_ok actor sk sl :
  check_room_power_levels uid_ok r (candidate actor t_power (Some sk) c) (Some pe) sl = true.
Proof.
  destruct cur_fields as [fo Hf]. destruct cur_events as [eo He].
  destruct (of_content_inv uid_ok c p Hp) as [_ [_ [Hu _]]].
  destruct (users_read uid_ok r c Hc pe eq_refl _ Hu) as [uo [Huo _]].
  rewrite (crpl_only_users uid_ok r (candidate actor t_power (Some sk) c) pe (fun _ => eq_refl) eq_refl eq_refl
             sl fo eo no uo uo Hf He Hno Huo).
  - apply check_maps_refl.
  - unfold pl_users in *. exact Huo.
Qed.

Lemma unchanged_eq actor target tm sk :
  auth_check uid_ok sn_ok verify r (minimal_event (ASendState t_power sk) actor target c)
    (state_of cr c actor target tm)
  = user_can_send_state p actor t_power_levels && state_key_ok actor sk.
Proof.
  cbn [minimal_event]. change (str_eqb t_power t_power) with true. cbv iota.
  rewrite (send_power_levels_eq uid_ok sn_ok verify r cr c p Hcr Hp Hc).
  fold pe. rewrite unchanged_ok. apply andb_true_r.
Qed.

(** Setting one user's level. *)
Lemma field_not_users f : str_eqb (field_name f) s!"users" = false.
Proof. destruct f; reflexivity. Qed.

Lemma changed_users target n :
  uid_ok target = true -> in_int_range n = true ->
  exists cu, pl_users uid_ok r pe = Some cu /\
    pl_users uid_ok r (candidate target t_power (Some []) (with_user_level c target n))
    = Some (Some (insert target n (p_users p))) /\
    (forall u, olookup u cu = lookup u (p_users p)).
Proof.
  intros Ht Hn. destruct (of_content_inv uid_ok c p Hp) as [_ [_ [Hu _]]].
  unfold pl_users, get_as_int_map, with_user_level. cbn [e_content pe power_ev candidate].
  rewrite lookup_insert, str_eqb_refl.
  unfold lv_map in Hu. destruct (lookup s!"users" c) as [j|] eqn:El.
  - destruct j; try discriminate.
    assert (Hm : int_map_entries r uid_ok m = Some (p_users p)).
    { apply entries_read; [|exact Hu]. destruct Hc as [Hi|Hs]; [now left|right].
      apply (no_string_map c s!"users" m Hs (or_introl eq_refl) El). }
    rewrite Hm, (entries_insert r uid_ok m (p_users p) target n Hm Ht Hn).
    exists (Some (p_users p)). repeat split.
  - injection Hu as Hu. rewrite <- Hu.
    rewrite (entries_insert r uid_ok [] [] target n eq_refl Ht Hn).
    exists None. repeat split.
Qed.

Lemma change_level_eq actor target tm n :
  uid_ok target = true -> in_int_range n = true ->
  (n <= for_user p actor)%Z -> lookup target (p_users p) <> Some n ->
  auth_check uid_ok sn_ok verify r (minimal_event (AChangeLevel n) actor target c)
    (state_of cr c actor target tm)
  = user_can_change_user_power_level p actor target.
Proof.
  intros Ht Hn Hle Hdiff. cbn [minimal_event].
  rewrite (send_power_levels_eq uid_ok sn_ok verify r cr c p Hcr Hp Hc). fold pe.
  change (state_key_ok actor []) with true. rewrite andb_true_r.
  unfold user_can_change_user_power_level.
  destruct (user_can_send_state p actor t_power_levels); cbn [negb andb]; [|reflexivity].
  destruct cur_fields as [fo Hf]. destruct cur_events as [eo He].
  destruct (changed_users target n Ht Hn) as [cu [Hcu [Hnu Hlk]]].
  set (ev := candidate actor t_power (Some []) (with_user_level c target n)).
  assert (Hnu' : pl_users uid_ok r ev = Some (Some (insert target n (p_users p)))).
  { unfold pl_users, get_as_int_map in *. exact Hnu. }
  rewrite (crpl_only_users uid_ok r ev pe) with (fo := fo) (eo := eo) (no := no) (cu := cu)
    (nu := Some (insert target n (p_users p))); auto.
  - unfold check_power_level_maps.
    rewrite (forallb_but_one _ target).
    + rewrite Hlk. cbn [olookup]. rewrite lookup_insert, str_eqb_refl.
      rewrite (oZ_eqb_neq _ _ Hdiff). cbn [e_sender ev candidate].
      rewrite (str_eqb_sym target actor).
      destruct (str_eqb actor target); cbn [negb andb orb];
        destruct (lookup target (p_users p)) as [z|]; cbn [negb andb orb]; lia.
    + intros k Hk. rewrite Hlk. cbn [olookup]. rewrite lookup_insert, Hk. now rewrite oZ_eqb_refl.
    + apply in_or_app. right. cbn [okeys]. apply in_keys_insert.
  - intros f. unfold ev, with_user_level. cbn [e_content candidate pe power_ev].
    now rewrite lookup_insert, field_not_users.
  - unfold ev, with_user_level. cbn [e_content candidate pe power_ev]. now rewrite lookup_insert.
  - unfold ev, with_user_level. cbn [e_content candidate pe power_ev]. now rewrite lookup_insert.
Qed.

End Derived.

(** ** Room versions: [notifications_typed] is what the model's accessor needs *)
Lemma any_key_all (m : obj) : forallb (fun kv => any_key (fst kv)) m = true.
Proof. induction m as [|kv m IH]; [reflexivity|exact IH]. Qed.

Lemma notifications_readable v R cr c :
  rules_of v = Some R -> notifications_typed v c = true ->
  exists no, pl_notifications (authorization R) (power_ev cr c) = Some no.
Proof.
  intros HR Hn. pose proof (C08.Proofs4.rules_table v R HR) as A.
  unfold pl_notifications. rewrite (C08.Proofs2.get_as_int_map_spec v (authorization R) A).
  unfold level_map, notifications_typed in *. cbn [e_content power_ev].
  destruct (lookup s!"notifications" c) as [j|]; [|now exists None].
  destruct j; try discriminate. rewrite any_key_all.
  assert (H : exists l, map_opt (fun kv : str * json =>
                match level_value v (snd kv) with Some z => Some (fst kv, z) | None => None end) m = Some l).
  { induction m as [|[k j] m IH]; [now exists []|].
    cbn [forallb snd] in Hn. apply andb_true_iff in Hn as [Hj Hm].
    destruct (IH Hm) as [l Hl]. cbn [map_opt fst snd].
    destruct (level_value v j) as [z|]; [|discriminate]. rewrite Hl. now eexists. }
  destruct H as [l ->]. now eexists.
Qed.

Section FinalPowerLevels.
Variable uid_ok : str -> bool.
Variable sn_ok : str -> bool.
Variable verify : str -> str -> str -> obj -> bool.
Variable v : N.
Variable R : room_rules.
Variable cr : str.
Variable c : obj.
Variable p : power_levels.
Hypothesis HR : rules_of v = Some R.
Hypothesis Hv : 3 <= v.
Hypothesis Hcr : uid_ok cr = true.
Hypothesis Hp : of_content uid_ok c = Some p.
Hypothesis Hl : levels_readable v c = true.
Hypothesis Hn : notifications_typed v c = true.

Lemma resend_power_levels_iff actor target tm sk :
  user_can_send_state p actor t_power_levels && state_key_ok actor sk
  = auth_check uid_ok sn_ok verify (authorization R)
      (minimal_event (ASendState t_power sk) actor target c) (state_of cr c actor target tm).
Proof.
  destruct (version_facts v R c HR Hv Hl) as [Hc _].
  destruct (notifications_readable v R cr c HR Hn) as [no Hno].
  symmetry. now apply (unchanged_eq uid_ok sn_ok verify (authorization R) cr c p Hcr Hp Hc no Hno).
Qed.

Lemma can_change_user_power_level_iff actor target tm n :
  uid_ok target = true -> in_int_range n = true ->
  (n <= for_user p actor)%Z -> lookup target (p_users p) <> Some n ->
  user_can_change_user_power_level p actor target
  = auth_check uid_ok sn_ok verify (authorization R)
      (minimal_event (AChangeLevel n) actor target c) (state_of cr c actor target tm).
Proof.
  intros Ht Hr Hle Hd. destruct (version_facts v R c HR Hv Hl) as [Hc _].
  destruct (notifications_readable v R cr c HR Hn) as [no Hno].
  symmetry. now apply (change_level_eq uid_ok sn_ok verify (authorization R) cr c p Hcr Hp Hc no Hno).
Qed.

End FinalPowerLevels.
