(** C20.Proofs6 — witnesses of the classes the theorems exclude (computed on C08's model of
    [auth_check], on the rules, and on the model of the helpers, with the concrete identifier
    predicates of C08.Ids). *)
From Base Require Import Prelude Sx Json Rules.
From Gen Require Import RoomRules TypeAliases PowerLevelTables.
From C08 Require Import Types Ids Model Spec.
From C20 Require Import Model Spec Proofs1 Proofs4.

Definition w_alice : str := s!"@alice:s1".
Definition w_bob : str := s!"@bob:s1".
Definition w_creator : str := s!"@creator:s1".
Definition w_verify (_ _ _ : str) (_ : obj) : bool := false.

Definition w_model_accepts (R : room_rules) (c : obj) (a : action) : bool :=
  auth_check uid_ok sn_ok w_verify (authorization R) (minimal_event a w_alice w_bob c)
    (state_of w_creator c w_alice w_bob None).

Definition w_rules_accept (v : N) (c : obj) (a : action) : bool :=
  rules_accept uid_ok sn_ok w_verify v w_creator c a w_alice w_bob None.

(** Open finding C20-special-types: outside [plain_type] the "send this type" helpers and the
    rules differ.  With the empty content (every default) a user of level 0 may send
    m.room.third_party_invite (gated by [invite] = 0) and, in room version 5, m.room.aliases
    with its server as state key (no level at all); [user_can_send_state] asks for
    [state_default] = 50. *)
Lemma special_types_witness :
  plain_type 9 s!"m.room.third_party_invite" = false /\ plain_type 5 s!"m.room.aliases" = false /\
  (forall p, of_content uid_ok [] = Some p ->
     user_can_send_state p w_alice s!"m.room.third_party_invite" = false /\
     user_can_send_state p w_alice s!"m.room.aliases" = false) /\
  of_content uid_ok [] <> None /\
  w_model_accepts rules_v9 [] (ASendState s!"m.room.third_party_invite" s!"token") = true /\
  w_rules_accept 9 [] (ASendState s!"m.room.third_party_invite" s!"token") = true /\
  w_model_accepts rules_v5 [] (ASendState s!"m.room.aliases" s!"s1") = true /\
  w_rules_accept 5 [] (ASendState s!"m.room.aliases" s!"s1") = true.
Proof.
  split; [reflexivity|]. split; [reflexivity|]. split.
  - intros p. vm_compute. intros [= <-]. split; reflexivity.
  - split; [vm_compute; discriminate|]. vm_compute. repeat split; reflexivity.
Qed.
