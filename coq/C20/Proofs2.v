(** C20.Proofs2 — running C08's model of [auth_check] on the events of [C20.Spec]: generic step
    lemmas (preamble, membership dispatch, ban / leave / invite, gated events), stated for an
    arbitrary event and state with the facts they need as premises. *)
From Base Require Import Prelude Sx Json Rules.
From C08 Require Import Types Model.
From Coq Require Import ZifyBool ZifyN.

Ltac step := cbn [run negb andb orb]; cbv beta iota.

(** The membership the model reads for a user. *)
Definition mem_of (st : state) (u : str) : option str :=
  match st (k_member u) with
  | None => Some s!"leave"
  | Some e => ev_membership e
  end.

Lemma run_read_mem u k st :
  run (read_membership u k) st = match mem_of st u with Some m => run (k m) st | None => false end.
Proof.
  unfold read_membership, mem_of. cbn [run].
  destruct (st (k_member u)) as [e|]; [|reflexivity].
  destruct (ev_membership e); reflexivity.
Qed.

Definition has_create (ev ce : event) : bool := existsb (fun i => str_eqb i (e_id ce)) (e_auth ev).

Section Steps.
Variable uid_ok : str -> bool.
Variable sn_ok : str -> bool.
Variable verify : str -> str -> str -> obj -> bool.
Variable r : auth_rules.

(** ** m.room.member *)
Lemma preamble_member ev st ce :
  e_type ev = t_member -> st k_create = Some ce -> has_create ev ce = true ->
  federate ce = Some true ->
  auth_check uid_ok sn_ok verify r ev st = run (check_room_member uid_ok verify r ev ce) st.
Proof.
  intros Hty Hst Hc Hf. unfold auth_check, auth_prog. rewrite Hty.
  change (str_eqb t_member t_create) with false. step. rewrite Hst. step.
  unfold has_create in Hc. rewrite Hc. step. rewrite Hf. step.
  change (str_eqb t_member t_aliases) with false. rewrite andb_false_r. step.
  change (str_eqb t_member t_member) with true. step. reflexivity.
Qed.

Lemma member_ban ev ce st target :
  e_skey ev = Some target -> uid_ok target = true -> ev_membership ev = Some s!"ban" ->
  run (check_room_member uid_ok verify r ev ce) st = run (check_room_member_ban uid_ok r ev target ce) st.
Proof. intros H1 H2 H3. unfold check_room_member. rewrite H1, H2, H3. reflexivity. Qed.

Lemma member_leave ev ce st target :
  e_skey ev = Some target -> uid_ok target = true -> ev_membership ev = Some s!"leave" ->
  run (check_room_member uid_ok verify r ev ce) st = run (check_room_member_leave uid_ok r ev target ce) st.
Proof. intros H1 H2 H3. unfold check_room_member. rewrite H1, H2, H3. reflexivity. Qed.

Lemma member_invite ev ce st target :
  e_skey ev = Some target -> uid_ok target = true -> ev_membership ev = Some s!"invite" ->
  run (check_room_member uid_ok verify r ev ce) st
  = run (check_room_member_invite uid_ok verify r ev target ce) st.
Proof. intros H1 H2 H3. unfold check_room_member. rewrite H1, H2, H3. reflexivity. Qed.

Lemma ban_run ev target ce st p cr sl bl tl :
  mem_of st (e_sender ev) = Some s!"join" ->
  creator uid_ok r ce = Some cr -> st k_power = Some p ->
  user_power_level uid_ok r (Some p) (e_sender ev) cr = Some sl ->
  int_or_default r (Some p) FBan = Some bl ->
  user_power_level uid_ok r (Some p) target cr = Some tl ->
  run (check_room_member_ban uid_ok r ev target ce) st = (sl >=? bl)%Z && (tl <? sl)%Z.
Proof.
  intros Hm Hcr Hp Hsl Hbl Htl. unfold check_room_member_ban.
  rewrite run_read_mem, Hm. step. change (is s!"join" s!"join") with true. step.
  rewrite Hcr. step. rewrite Hp. step. rewrite Hsl. step. rewrite Hbl. step. rewrite Htl. step.
  reflexivity.
Qed.

Lemma leave_run ev target ce st p cr tmv sl bl kl tl :
  str_eqb (e_sender ev) target = false ->
  mem_of st (e_sender ev) = Some s!"join" ->
  creator uid_ok r ce = Some cr -> st k_power = Some p ->
  mem_of st target = Some tmv ->
  user_power_level uid_ok r (Some p) (e_sender ev) cr = Some sl ->
  int_or_default r (Some p) FBan = Some bl ->
  int_or_default r (Some p) FKick = Some kl ->
  user_power_level uid_ok r (Some p) target cr = Some tl ->
  run (check_room_member_leave uid_ok r ev target ce) st
  = if str_eqb tmv s!"ban" && (sl <? bl)%Z then false else (sl >=? kl)%Z && (tl <? sl)%Z.
Proof.
  intros Hne Hm Hcr Hp Htm Hsl Hbl Hkl Htl. unfold check_room_member_leave.
  rewrite run_read_mem, Hm. step. rewrite Hne. step.
  change (is s!"join" s!"join") with true. step.
  rewrite Hcr. step. rewrite Hp. step. rewrite run_read_mem, Htm. step.
  rewrite Hsl. step. rewrite Hbl. step. unfold is.
  destruct (str_eqb tmv s!"ban" && (sl <? bl)%Z); step; [reflexivity|].
  rewrite Hkl. step. rewrite Htl. step. reflexivity.
Qed.

Lemma invite_run ev target ce st p cr tmv sl il :
  third_party_invite ev = Some None ->
  mem_of st (e_sender ev) = Some s!"join" ->
  mem_of st target = Some tmv ->
  creator uid_ok r ce = Some cr -> st k_power = Some p ->
  user_power_level uid_ok r (Some p) (e_sender ev) cr = Some sl ->
  int_or_default r (Some p) FInvite = Some il ->
  run (check_room_member_invite uid_ok verify r ev target ce) st
  = if str_eqb tmv s!"join" || str_eqb tmv s!"ban" then false else (sl >=? il)%Z.
Proof.
  intros Htpi Hm Htm Hcr Hp Hsl Hil. unfold check_room_member_invite.
  rewrite Htpi. step. rewrite run_read_mem, Hm. step.
  change (is s!"join" s!"join") with true. step.
  rewrite run_read_mem, Htm. step. unfold is.
  destruct (str_eqb tmv s!"join" || str_eqb tmv s!"ban"); step; [reflexivity|].
  rewrite Hcr. step. rewrite Hp. step. rewrite Hsl. step. rewrite Hil. step. reflexivity.
Qed.

(** ** Events gated by their required level (rules 6-12) *)
Definition at_key_violation (ev : event) : bool :=
  match e_skey ev with Some k => starts_with [at_sign] k | None => false end
  && negb (ostr_eqb (e_skey ev) (Some (e_sender ev))).

Lemma gated_run ev st ce p cr sl need :
  str_eqb (e_type ev) t_create = false ->
  st k_create = Some ce -> has_create ev ce = true -> federate ce = Some true ->
  special_case_room_aliases r && str_eqb (e_type ev) t_aliases = false ->
  str_eqb (e_type ev) t_member = false ->
  mem_of st (e_sender ev) = Some s!"join" ->
  creator uid_ok r ce = Some cr -> st k_power = Some p ->
  user_power_level uid_ok r (Some p) (e_sender ev) cr = Some sl ->
  str_eqb (e_type ev) t_tpi = false ->
  event_power_level r (Some p) (e_type ev) (e_skey ev) = Some need ->
  auth_check uid_ok sn_ok verify r ev st
  = if (sl <? need)%Z then false
    else if at_key_violation ev then false
    else if str_eqb (e_type ev) t_power then check_room_power_levels uid_ok r ev (Some p) sl
    else if special_case_room_redaction r && str_eqb (e_type ev) t_redaction
         then check_room_redaction r ev (Some p) sl
    else true.
Proof.
  intros Hty Hst Hc Hf Hal Hmem Hm Hcr Hp Hsl Htpi Hneed. unfold auth_check, auth_prog.
  rewrite Hty. step. rewrite Hst. step. unfold has_create in Hc. rewrite Hc. step.
  rewrite Hf. step. rewrite Hal. step. rewrite Hmem. step.
  rewrite run_read_mem, Hm. step. change (is s!"join" s!"join") with true. step.
  rewrite Hcr. step. rewrite Hp. step. rewrite Hsl. step. rewrite Htpi. step.
  rewrite Hneed. step. unfold at_key_violation.
  destruct (sl <? need)%Z; step; [reflexivity|].
  destruct (match e_skey ev with Some k => starts_with [at_sign] k | None => false end
            && negb (ostr_eqb (e_skey ev) (Some (e_sender ev)))); step; [reflexivity|].
  destruct (str_eqb (e_type ev) t_power); step; [reflexivity|].
  destruct (special_case_room_redaction r && str_eqb (e_type ev) t_redaction); step; reflexivity.
Qed.

(** ** m.room.third_party_invite (rule 7) *)
Lemma tpi_run ev st ce p cr sl il :
  e_type ev = t_tpi ->
  st k_create = Some ce -> has_create ev ce = true -> federate ce = Some true ->
  mem_of st (e_sender ev) = Some s!"join" ->
  creator uid_ok r ce = Some cr -> st k_power = Some p ->
  user_power_level uid_ok r (Some p) (e_sender ev) cr = Some sl ->
  int_or_default r (Some p) FInvite = Some il ->
  auth_check uid_ok sn_ok verify r ev st = negb (sl <? il)%Z.
Proof.
  intros Hty Hst Hc Hf Hm Hcr Hp Hsl Hil. unfold auth_check, auth_prog. rewrite Hty.
  change (str_eqb t_tpi t_create) with false. step. rewrite Hst. step.
  unfold has_create in Hc. rewrite Hc. step. rewrite Hf. step.
  change (str_eqb t_tpi t_aliases) with false. rewrite andb_false_r. step.
  change (str_eqb t_tpi t_member) with false. step.
  rewrite run_read_mem, Hm. step. change (is s!"join" s!"join") with true. step.
  rewrite Hcr. step. rewrite Hp. step. rewrite Hsl. step.
  change (str_eqb t_tpi t_tpi) with true. step. rewrite Hil. step. reflexivity.
Qed.

End Steps.
