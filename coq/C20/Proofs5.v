(** C20.Proofs5 — the statements of [Properties.v], assembled: for room versions 3-11, against
    the model of ruma's [auth_check] and (with [events_plain]) against the rules themselves. *)
From Base Require Import Prelude Sx Json Rules.
From Gen Require Import RoomRules TypeAliases PowerLevelTables.
From C08 Require Import Types Model Spec Known.
From C12 Require Types Model Spec.
From C20 Require Import Model Spec Proofs1 Proofs2 Proofs3 Proofs4.
From Coq Require Import ZifyBool ZifyN.

Section Final.
Variable uid_ok : str -> bool.
Variable sn_ok : str -> bool.
Variable verify : str -> str -> str -> obj -> bool.
Variable v : N.
Variable R : room_rules.
Variable cr : str.
Variable c : obj.
Variable p : power_levels.
Hypothesis HR : rules_of v = Some R.
Hypothesis Hv : 3 <= v.
Hypothesis Hcr : uid_ok cr = true.
Hypothesis Hp : of_content uid_ok c = Some p.
Hypothesis Hl : levels_readable v c = true.

Let r := authorization R.
Let model_accepts a actor target tm :=
  auth_check uid_ok sn_ok verify r (minimal_event a actor target c) (state_of cr c actor target tm).
Let rules a actor target tm := rules_accept uid_ok sn_ok verify v cr c a actor target tm.

Lemma both a actor target tm (h : bool) :
  plain_action a = true -> model_accepts a actor target tm = h ->
  h = model_accepts a actor target tm /\ (events_plain c = true -> h = rules a actor target tm).
Proof.
  intros Ha H. split; [now symmetry|]. intros Hpl. unfold rules.
  rewrite <- (action_to_rules uid_ok sn_ok verify v R cr c a actor target tm HR Hv Hpl Ha).
  now symmetry.
Qed.

Lemma can_ban_user_iff actor target tm :
  uid_ok target = true ->
  user_can_ban_user p actor target = model_accepts ABan actor target tm /\
  (events_plain c = true -> user_can_ban_user p actor target = rules ABan actor target tm).
Proof.
  intros Ht. destruct (version_facts v R c HR Hv Hl) as [Hc _].
  apply both; [reflexivity|]. now apply ban_user_eq.
Qed.

Lemma can_kick_user_iff actor target tm :
  uid_ok target = true -> applies AKick actor target tm = true ->
  user_can_kick_user p actor target = model_accepts AKick actor target tm /\
  (events_plain c = true -> user_can_kick_user p actor target = rules AKick actor target tm).
Proof.
  intros Ht Ha. destruct (version_facts v R c HR Hv Hl) as [Hc _].
  apply both; [reflexivity|]. now apply kick_user_eq.
Qed.

Lemma can_unban_user_iff actor target tm :
  uid_ok target = true -> applies AUnban actor target tm = true ->
  user_can_unban_user p actor target = model_accepts AUnban actor target tm /\
  (events_plain c = true -> user_can_unban_user p actor target = rules AUnban actor target tm).
Proof.
  intros Ht Ha. destruct (version_facts v R c HR Hv Hl) as [Hc _].
  apply both; [reflexivity|]. now apply unban_user_eq.
Qed.

Lemma can_invite_iff actor target tm :
  uid_ok target = true -> applies AInvite actor target tm = true ->
  user_can_invite p actor = model_accepts AInvite actor target tm /\
  (events_plain c = true -> user_can_invite p actor = rules AInvite actor target tm).
Proof.
  intros Ht Ha. destruct (version_facts v R c HR Hv Hl) as [Hc _].
  apply both; [reflexivity|]. now apply invite_eq.
Qed.

Lemma plain_not_power ty : plain_type v ty = true -> negb (str_eqb ty t_power) = true.
Proof. unfold plain_type. rewrite !andb_true_iff. tauto. Qed.

Lemma can_send_message_iff actor target tm ty :
  plain_type v ty = true -> not_alias ty ->
  user_can_send_message p actor ty = model_accepts (ASendMessage ty) actor target tm /\
  (events_plain c = true -> user_can_send_message p actor ty = rules (ASendMessage ty) actor target tm).
Proof.
  intros Hpt Hna. destruct (version_facts v R c HR Hv Hl) as [Hc [Hal Hred]].
  apply both; [now apply plain_not_power|]. now apply (send_message_eq uid_ok sn_ok verify r cr c p Hcr Hp Hc v).
Qed.

Lemma can_send_state_iff actor target tm ty sk :
  plain_type v ty = true -> not_alias ty ->
  user_can_send_state p actor ty && state_key_ok actor sk = model_accepts (ASendState ty sk) actor target tm /\
  (events_plain c = true ->
   user_can_send_state p actor ty && state_key_ok actor sk = rules (ASendState ty sk) actor target tm).
Proof.
  intros Hpt Hna. destruct (version_facts v R c HR Hv Hl) as [Hc [Hal Hred]].
  apply both; [now apply plain_not_power|]. now apply (send_state_eq uid_ok sn_ok verify r cr c p Hcr Hp Hc v).
Qed.

Lemma can_send_power_levels_iff actor target tm sk content :
  auth_check uid_ok sn_ok verify r (candidate actor t_power (Some sk) content) (state_of cr c actor target tm)
  = user_can_send_state p actor t_power_levels && state_key_ok actor sk
    && check_room_power_levels uid_ok r (candidate actor t_power (Some sk) content)
         (Some (power_ev cr c)) (for_user p actor).
Proof.
  destruct (version_facts v R c HR Hv Hl) as [Hc _].
  now apply send_power_levels_eq.
Qed.

Lemma can_redact_own_iff actor target tm :
  user_can_redact_own_event p actor = model_accepts ARedact actor target tm /\
  (events_plain c = true -> user_can_redact_own_event p actor = rules ARedact actor target tm).
Proof.
  destruct (version_facts v R c HR Hv Hl) as [Hc [Hal Hred]].
  apply both; [reflexivity|]. now apply (redact_eq uid_ok sn_ok verify r cr c p Hcr Hp Hc v).
Qed.

Lemma third_party_invite_iff actor target tm sk :
  user_can_invite p actor = model_accepts (AThirdPartyInvite sk) actor target tm /\
  (events_plain c = true -> user_can_invite p actor = rules (AThirdPartyInvite sk) actor target tm).
Proof.
  destruct (version_facts v R c HR Hv Hl) as [Hc _].
  apply both; [reflexivity|]. now apply third_party_invite_eq.
Qed.

Lemma for_user_eq_auth_level u :
  ev_user_power_level uid_ok r (power_ev cr c) u = Some (for_user p u) /\
  rules_level uid_ok v cr c u = Some (for_user p u).
Proof.
  destruct (version_facts v R c HR Hv Hl) as [Hc _]. split.
  - now apply for_user_eq.
  - now apply (rules_level_eq uid_ok v R).
Qed.

End Final.

Lemma can_trigger_room_notification_iff lowercase regex_fits valid_user_id p actor viewer :
  valid_user_id actor = true ->
  (forall ev : C12.Model.fmap,
     C12.Model.fget_str ev s!"sender" = Some actor -> str_eqb actor viewer = false ->
     C12.Model.cond_applies lowercase regex_fits valid_user_id notify_condition ev
       (notify_ctx viewer (push_ctx_of p))
     = Some (Ok (user_can_trigger_room_notification p actor)))
  /\ (forall ev : C12.Types.pjson,
     C12.Spec.property_str ev s!"sender" = Some actor ->
     C12.Spec.spec_cond lowercase valid_user_id notify_condition ev (notify_ctx viewer (push_ctx_of p))
     = user_can_trigger_room_notification p actor).
Proof.
  intros Hv. split.
  - intros ev Hs Hne. now apply notify_model.
  - intros ev Hs. now apply notify_spec.
Qed.
