(** C20.Proofs4 — room versions 3-11 (the generated rules table), the authorization rules
    themselves (C08's theorem), the push condition (C12), and the helpers among themselves. *)
From Base Require Import Prelude Sx Json Rules.
From Gen Require Import RoomRules TypeAliases PowerLevelTables.
From C08 Require Import Types Model Spec Known.
From C08 Require Proofs1 Proofs2 Proofs4.
From C12 Require Types Model Spec.
From C20 Require Import Model Spec Proofs1 Proofs2 Proofs3.
From Coq Require Import ZifyBool ZifyN.

(** ** Room versions *)
Lemma version_facts v R c :
  rules_of v = Some R -> 3 <= v -> levels_readable v c = true ->
  compat (authorization R) c /\
  special_case_room_aliases (authorization R) = (v <=? 5) /\
  special_case_room_redaction (authorization R) = false.
Proof.
  intros HR Hv Hl. pose proof (C08.Proofs4.rules_table v R HR) as A.
  repeat split.
  - unfold compat. rewrite (C08.Proofs1.ra_integer _ _ A).
    unfold levels_readable in Hl. apply orb_true_iff in Hl as [Hl|Hl]; [left|now right]. lia.
  - apply (C08.Proofs1.ra_aliases _ _ A).
  - rewrite (C08.Proofs1.ra_redaction _ _ A). lia.
Qed.

(** ** From the model of [auth_check] to the rules (C08_auth_eq_spec).
    The [events] object of the power-levels content has strictly increasing keys (any parsed
    JSON object has) and none of them is an alias of another event type (finding C08-type-alias). *)
Definition events_plain (c : obj) : bool :=
  match lookup s!"events" c with
  | Some (JObj m) => sortedb m && negb (existsb (fun kv => is_alias (fst kv)) m)
  | _ => true
  end.

Lemma events_plain_sorted cr c : events_plain c = true -> events_sorted (power_ev cr c) = true.
Proof.
  unfold events_plain, events_sorted. cbn [e_content power_ev].
  destruct (lookup s!"events" c) as [j|]; [|reflexivity]. destruct j; try reflexivity.
  intros H. now apply andb_true_iff in H.
Qed.

Lemma events_plain_no_alias cr c : events_plain c = true -> has_alias_key (power_ev cr c) = false.
Proof.
  unfold events_plain, has_alias_key. cbn [e_content power_ev].
  destruct (lookup s!"events" c) as [j|]; [|reflexivity]. destruct j; try reflexivity.
  intros H. apply andb_true_iff in H as [_ H]. now apply negb_true_iff in H.
Qed.

Section Rules.
Variable uid_ok : str -> bool.
Variable sn_ok : str -> bool.
Variable verify : str -> str -> str -> obj -> bool.

Lemma to_rules v R cr c actor target tm ev :
  rules_of v = Some R -> 3 <= v -> events_plain c = true ->
  str_eqb (e_type ev) t_power = false -> events_sorted ev = true ->
  lookup s!"third_party_invite" (e_content ev) = None ->
  auth_check uid_ok sn_ok verify (authorization R) ev (state_of cr c actor target tm)
  = spec_auth uid_ok sn_ok verify v ev (state_of cr c actor target tm).
Proof.
  intros HR Hv Hpl Hty Hs Htpi. apply C08.Proofs4.auth_eq_spec_versions; [exact HR| |].
  - unfold wf_inputs, wf_inputsb.
    change (state_of cr c actor target tm (t_power, [])) with (Some (power_ev cr c)).
    rewrite Hs, (events_plain_sorted cr c Hpl). cbn [andb].
    destruct (N.leb_spec v 2); [lia|reflexivity].
  - unfold known_deviation, pl_strict, serde_shapes, type_alias.
    change (state_of cr c actor target tm (t_power, [])) with (Some (power_ev cr c)).
    rewrite Hty, Htpi, (events_plain_no_alias cr c Hpl).
    rewrite andb_false_r. cbn [andb orb]. now rewrite andb_false_r.
Qed.

(** The event of every action but the power-levels ones satisfies the side conditions. *)
Definition plain_action (a : action) : bool :=
  match a with
  | ASendMessage ty => negb (str_eqb ty t_power)
  | ASendState ty _ => negb (str_eqb ty t_power)
  | AChangeLevel _ => false
  | _ => true
  end.

Lemma action_to_rules v R cr c a actor target tm :
  rules_of v = Some R -> 3 <= v -> events_plain c = true -> plain_action a = true ->
  auth_check uid_ok sn_ok verify (authorization R) (minimal_event a actor target c)
    (state_of cr c actor target tm)
  = rules_accept uid_ok sn_ok verify v cr c a actor target tm.
Proof.
  intros HR Hv Hpl Ha. unfold rules_accept. apply to_rules; auto.
  - destruct a; cbn [plain_action] in Ha; try discriminate; try reflexivity;
      now apply negb_true_iff in Ha.
  - destruct a; cbn [plain_action minimal_event] in *; try discriminate; try reflexivity.
    apply negb_true_iff in Ha. rewrite Ha. reflexivity.
  - destruct a; cbn [plain_action minimal_event] in *; try discriminate; try reflexivity.
    apply negb_true_iff in Ha. rewrite Ha. reflexivity.
Qed.

(** The level of a user under the rules. *)
Lemma rules_level_eq v R cr c p u :
  rules_of v = Some R -> 3 <= v -> levels_readable v c = true ->
  of_content uid_ok c = Some p ->
  rules_level uid_ok v cr c u = Some (for_user p u).
Proof.
  intros HR Hv Hl Hp. destruct (version_facts v R c HR Hv Hl) as [Hc _].
  unfold rules_level.
  rewrite <- (C08.Proofs2.user_power_level_spec uid_ok v (authorization R) (C08.Proofs4.rules_table v R HR)).
  apply (user_power_level_read uid_ok (authorization R) c Hc (power_ev cr c) eq_refl p Hp).
Qed.

End Rules.

(** ** Notifications: the push condition on the context made from the same power levels *)
Lemma geb_leb a b : (a >=? b)%Z = (b <=? a)%Z.
Proof. apply Z.geb_leb. Qed.

Lemma notify_model lowercase regex_fits valid_user_id p actor viewer (ev : C12.Model.fmap) :
  C12.Model.fget_str ev s!"sender" = Some actor -> valid_user_id actor = true ->
  str_eqb actor viewer = false ->
  C12.Model.cond_applies lowercase regex_fits valid_user_id notify_condition ev
    (notify_ctx viewer (push_ctx_of p))
  = Some (Ok (user_can_trigger_room_notification p actor)).
Proof.
  intros Hs Hv Hne. unfold C12.Model.cond_applies, C12.Model.own_event, notify_condition.
  change C12.Model.k_sender with s!"sender". rewrite Hs.
  cbn [C12.Types.x_user_id C12.Types.x_power_levels notify_ctx]. rewrite Hne, Hv.
  change (str_eqb s!"room" C12.Model.k_room) with true. cbv beta iota zeta.
  unfold C12.Model.ret, user_can_trigger_room_notification, for_user, push_ctx_of.
  cbn [C12.Types.pl_users C12.Types.pl_users_default C12.Types.pl_room].
  now rewrite geb_leb.
Qed.

Lemma notify_spec lowercase valid_user_id p actor viewer (ev : C12.Types.pjson) :
  C12.Spec.property_str ev s!"sender" = Some actor -> valid_user_id actor = true ->
  C12.Spec.spec_cond lowercase valid_user_id notify_condition ev (notify_ctx viewer (push_ctx_of p))
  = user_can_trigger_room_notification p actor.
Proof.
  intros Hs Hv. unfold C12.Spec.spec_cond, notify_condition.
  cbn [C12.Types.x_power_levels notify_ctx].
  change C12.Spec.sk_sender with s!"sender". rewrite Hs, Hv.
  change (str_eqb s!"room" C12.Spec.sk_room) with true. cbn [andb].
  unfold user_can_trigger_room_notification, for_user, push_ctx_of.
  cbn [C12.Types.pl_users C12.Types.pl_users_default C12.Types.pl_room].
  now rewrite geb_leb.
Qed.

(** The event of [C20.Spec.notify_event] has the sender the lemmas ask for. *)
Lemma notify_event_sender_model actor :
  C12.Model.fget_str (C12.Model.from_raw (notify_event actor)) s!"sender" = Some actor.
Proof. reflexivity. Qed.

Lemma notify_event_sender_spec actor : C12.Spec.property_str (notify_event actor) s!"sender" = Some actor.
Proof. reflexivity. Qed.

(** ** The helpers among themselves *)

(** [user_can_do] asks whether the user's level reaches [for_action]. *)
Lemma user_can_do_level p u a : user_can_do p u a = (for_user p u >=? for_action p a)%Z.
Proof.
  destruct a; cbn [user_can_do for_action]; try reflexivity.
  - unfold user_can_unban. cbv zeta. lia.
  - unfold user_can_redact_event_of_other, user_can_redact_own_event, user_can_send_message. lia.
Qed.

(** The targeted helpers add "the target is strictly below the actor". *)
Lemma targeted_helpers p a t :
  user_can_ban_user p a t = user_can_ban p a && (for_user p t <? for_user p a)%Z /\
  user_can_kick_user p a t = user_can_kick p a && (for_user p t <? for_user p a)%Z /\
  user_can_unban_user p a t = user_can_unban p a && (for_user p t <? for_user p a)%Z.
Proof. repeat split. Qed.

Lemma dispatch_to_user p a t :
  user_can_do_to_user p a t UBan = user_can_ban_user p a t /\
  user_can_do_to_user p a t UUnban = user_can_unban_user p a t /\
  user_can_do_to_user p a t UInvite = user_can_invite p a /\
  user_can_do_to_user p a t UKick = user_can_kick_user p a t /\
  user_can_do_to_user p a t UChangePowerLevel = user_can_change_user_power_level p a t.
Proof. repeat split. Qed.
