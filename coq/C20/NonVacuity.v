(** C20.NonVacuity — the hypotheses of the theorems are satisfiable by non-trivial inputs, both
    answers occur, and every restriction of the statements is needed: outside it helper and
    rules do differ (witnesses, by computation on the model of [auth_check] and on the rules). *)
From Base Require Import Prelude Sx Json Rules.
From Gen Require Import RoomRules TypeAliases PowerLevelTables.
From C08 Require Import Types Ids Model Spec.
From C20 Require Import Model Spec Proofs1 Proofs4.

Definition alice : str := s!"@alice:s1".
Definition bob : str := s!"@bob:s1".
Definition cr : str := s!"@creator:s1".
Definition nv (_ _ _ : str) (_ : obj) : bool := false.

(** A content with every kind of field: absent (ban, redact), integer, string-typed. *)
Definition c1 : obj :=
  [ (s!"events", JObj [(s!"m.room.name", JInt 30); (s!"m.room.topic", JStr s!" +70 ")]);
    (s!"events_default", JInt 5);
    (s!"invite", JStr s!"20");
    (s!"kick", JInt 40);
    (s!"notifications", JObj [(s!"room", JInt 45)]);
    (s!"state_default", JInt 60);
    (s!"users", JObj [(alice, JInt 50); (bob, JStr s!"45")]);
    (s!"users_default", JInt 10) ].

Definition p1 : power_levels :=
  {| p_ban := 50; p_events := [(s!"m.room.name", 30); (s!"m.room.topic", 70)]; p_events_default := 5;
     p_invite := 20; p_kick := 40; p_redact := 50; p_state_default := 60;
     p_users := [(alice, 50); (bob, 45)]; p_users_default := 10; p_notif_room := 45 |}%Z.

Example setting_v9 :
  of_content uid_ok c1 = Some p1 /\ levels_readable 9 c1 = true /\ levels_readable 10 c1 = false /\
  events_plain c1 = true /\ uid_ok cr = true /\ uid_ok bob = true.
Proof. vm_compute. repeat split; reflexivity. Qed.

Definition model_accepts (v : N) (R : room_rules) (c : obj) (a : action) (actor target : str)
    (tm : option str) : bool :=
  auth_check uid_ok sn_ok nv (authorization R) (minimal_event a actor target c) (state_of cr c actor target tm).

(** Both answers occur: alice (50) may ban bob (45); bob may not ban alice; nobody bans an equal. *)
Example ban_yes_no :
  user_can_ban_user p1 alice bob = true /\ model_accepts 9 rules_v9 c1 ABan alice bob (Some s!"join") = true /\
  rules_accept uid_ok sn_ok nv 9 cr c1 ABan alice bob (Some s!"join") = true /\
  user_can_ban_user p1 bob alice = false /\ model_accepts 9 rules_v9 c1 ABan bob alice (Some s!"join") = false /\
  user_can_ban_user p1 alice alice = false /\ model_accepts 9 rules_v9 c1 ABan alice alice None = false.
Proof. vm_compute. repeat split; reflexivity. Qed.

(** kick (40) and ban (50) thresholds: bob (45) kicks a default user (10) but cannot unban one. *)
Definition carol : str := s!"@carol:s1".
Example kick_unban :
  applies AKick bob carol (Some s!"join") = true /\
  user_can_kick_user p1 bob carol = true /\ model_accepts 9 rules_v9 c1 AKick bob carol (Some s!"join") = true /\
  applies AUnban bob carol (Some s!"ban") = true /\
  user_can_unban_user p1 bob carol = false /\ model_accepts 9 rules_v9 c1 AUnban bob carol (Some s!"ban") = false /\
  user_can_unban_user p1 alice carol = true /\ model_accepts 9 rules_v9 c1 AUnban alice carol (Some s!"ban") = true.
Proof. vm_compute. repeat split; reflexivity. Qed.

(** Message and state events: levels from [events], [events_default], [state_default]. *)
Example send_yes_no :
  user_can_send_message p1 carol s!"m.room.message" = true /\
  model_accepts 9 rules_v9 c1 (ASendMessage s!"m.room.message") carol bob None = true /\
  user_can_send_state p1 alice s!"m.room.topic" = false /\
  model_accepts 9 rules_v9 c1 (ASendState s!"m.room.topic" []) alice bob None = false /\
  user_can_send_state p1 bob s!"m.room.name" = true /\
  model_accepts 9 rules_v9 c1 (ASendState s!"m.room.name" []) bob alice None = true /\
  (* rule 9: a state key naming another user *)
  model_accepts 9 rules_v9 c1 (ASendState s!"m.room.name" alice) bob alice None = false /\
  state_key_ok bob alice = false /\ state_key_ok bob bob = true /\ state_key_ok bob [] = true.
Proof. vm_compute. repeat split; reflexivity. Qed.

(** ** The restrictions are needed *)

(** [applies AKick]: the helper does not look at the target's membership; a [leave] event for a
    banned user is an unban (needs the ban level as well), and for oneself it is leaving. *)
Example kick_needs_applies :
  applies AKick bob carol (Some s!"ban") = false /\
  user_can_kick_user p1 bob carol = true /\ model_accepts 9 rules_v9 c1 AKick bob carol (Some s!"ban") = false /\
  applies AKick carol carol (Some s!"join") = false /\
  user_can_kick_user p1 carol carol = false /\ model_accepts 9 rules_v9 c1 AKick carol carol (Some s!"join") = true.
Proof. vm_compute. repeat split; reflexivity. Qed.

(** [applies AInvite]: a joined or banned user cannot be invited, whatever the levels. *)
Example invite_needs_applies :
  applies AInvite alice bob (Some s!"join") = false /\
  user_can_invite p1 alice = true /\ model_accepts 9 rules_v9 c1 AInvite alice bob (Some s!"join") = false /\
  model_accepts 9 rules_v9 c1 AInvite alice bob (Some s!"leave") = true.
Proof. vm_compute. repeat split; reflexivity. Qed.

(** [levels_readable]: from room version 10 a string-typed level makes the rules reject, while
    ruma-events still reads it. *)
Example strings_need_v9 :
  user_can_ban_user p1 alice bob = true /\ model_accepts 10 rules_v10 c1 ABan alice bob (Some s!"join") = false /\
  rules_accept uid_ok sn_ok nv 10 cr c1 ABan alice bob (Some s!"join") = false.
Proof. vm_compute. repeat split; reflexivity. Qed.

(** [events_plain] (finding C08-type-alias): with an alias as a key of [events], helper and
    ruma's [auth_check] read it as the standard type; the rules compare the strings. *)
Definition c_alias : obj :=
  [ (s!"events", JObj [(s!"org.matrix.call.sdp_stream_metadata_changed", JInt 70)]) ].
Example alias_witness :
  events_plain c_alias = false /\
  (forall p, of_content uid_ok c_alias = Some p ->
     user_can_send_message p alice s!"m.call.sdp_stream_metadata_changed" = false) /\
  model_accepts 9 rules_v9 c_alias (ASendMessage s!"m.call.sdp_stream_metadata_changed") alice bob None = false /\
  rules_accept uid_ok sn_ok nv 9 cr c_alias (ASendMessage s!"m.call.sdp_stream_metadata_changed") alice bob None = true.
Proof.
  split; [reflexivity|]. split.
  - intros p. vm_compute. intros [= <-]. reflexivity.
  - vm_compute. split; reflexivity.
Qed.
