(** C20.Proofs1 — reading the power-levels event: what ruma-events deserializes
    ([C20.Model.of_content]) is what ruma-state-res' lazy accessors ([C08.Model]) read from the
    same content, field by field, provided the room version accepts the way the levels are
    written ([compat]: string-typed levels only where [integer_power_levels] is off).
    Also: the generated defaults against C08's, the generated alias tables against each other. *)
From Base Require Import Prelude Sx Json Rules.
From Gen Require Import TypeAliases PowerLevelTables.
From C08 Require Import Types Model.
From C20 Require Import Model Spec.
From Coq Require Import ZifyBool ZifyN.

(** ** The generated tables: the obligations that re-check when ruma's defaults change *)

Definition ddefault (f : plfield) : Z :=
  match f with
  | FUsersDefault => d_users_default | FEventsDefault => d_events_default
  | FStateDefault => d_state_default | FBan => d_ban | FRedact => d_redact
  | FKick => d_kick | FInvite => d_invite
  end.

Definition proj (f : plfield) (p : power_levels) : Z :=
  match f with
  | FUsersDefault => p_users_default p | FEventsDefault => p_events_default p
  | FStateDefault => p_state_default p | FBan => p_ban p | FRedact => p_redact p
  | FKick => p_kick p | FInvite => p_invite p
  end.

(** ruma-events' defaults are the defaults of the authorization rules (state-res). *)
Lemma defaults_table_ok :
  forallb (fun f => (ddefault f =? field_default f)%Z) all_fields = true.
Proof. vm_compute. reflexivity. Qed.

Lemma ddefault_ok f : ddefault f = field_default f.
Proof.
  pose proof defaults_table_ok as H. rewrite forallb_forall in H.
  apply Z.eqb_eq, H. destruct f; cbn; tauto.
Qed.

(** The aliases of the two helper enums are aliases of [TimelineEventType], with the same target. *)
Definition sub_table (t : list (str * str)) : bool :=
  forallb (fun kv => match lookup (fst kv) type_aliases with
                     | Some x => str_eqb x (snd kv)
                     | None => false
                     end) t.

Lemma alias_tables_ok : sub_table message_type_aliases && sub_table state_type_aliases = true.
Proof. vm_compute. reflexivity. Qed.

Lemma sub_table_lookup t s : sub_table t = true -> lookup s type_aliases = None -> lookup s t = None.
Proof.
  unfold sub_table. induction t as [|[k x] t IH]; cbn [forallb lookup fst snd]; [reflexivity|].
  intros H Hn. apply andb_true_iff in H as [Hk Ht].
  dse s k; [now rewrite Hn in Hk|]. now apply IH.
Qed.

Definition not_alias (ty : str) : Prop := lookup ty type_aliases = None.

Lemma canon_message ty : not_alias ty -> canon_with message_type_aliases ty = ty.
Proof.
  intros H. unfold canon_with. rewrite sub_table_lookup; [reflexivity| |exact H].
  pose proof alias_tables_ok as A. now apply andb_true_iff in A as [A _].
Qed.

Lemma canon_state ty : not_alias ty -> canon_with state_type_aliases ty = ty.
Proof.
  intros H. unfold canon_with. rewrite sub_table_lookup; [reflexivity| |exact H].
  pose proof alias_tables_ok as A. now apply andb_true_iff in A as [_ A].
Qed.

Lemma canon_type_id ty : not_alias ty -> canon_type ty = ty.
Proof. unfold not_alias, canon_type. now intros ->. Qed.

(** [m.room.redaction] and [m.room.power_levels] are nobody's alias. *)
Lemma fixed_types_ok : (match lookup t_redaction_msg type_aliases with None => true | Some _ => false end)
                       && (match lookup t_power_levels type_aliases with None => true | Some _ => false end) = true.
Proof. vm_compute. reflexivity. Qed.

Lemma redaction_not_alias : not_alias t_redaction_msg.
Proof.
  pose proof fixed_types_ok as H. apply andb_true_iff in H as [H _]. unfold not_alias.
  destruct (lookup t_redaction_msg type_aliases); [discriminate|reflexivity].
Qed.

Lemma power_levels_not_alias : not_alias t_power_levels.
Proof.
  pose proof fixed_types_ok as H. apply andb_true_iff in H as [_ H]. unfold not_alias.
  destruct (lookup t_power_levels type_aliases); [discriminate|reflexivity].
Qed.

(** ** Level values *)

(** The room version reads the levels of the content the way ruma-events does. *)
Definition compat (r : auth_rules) (c : obj) : Prop :=
  integer_power_levels r = false \/ no_string_levels c = true.

Lemma v1_pl_int r j z :
  v1_level j = Some z -> integer_power_levels r = false \/ not_string j = true -> pl_int r j = Some z.
Proof.
  destruct j; cbn [v1_level pl_int not_string]; try discriminate; auto.
  intros H [Hi|Hn]; [now rewrite Hi|discriminate].
Qed.

Lemma no_string_field c name :
  no_string_levels c = true -> In name level_names -> field_not_string c name = true.
Proof.
  unfold no_string_levels. rewrite !andb_true_iff. intros [[[H _] _] _] Hin.
  rewrite forallb_forall in H. now apply H.
Qed.

Lemma field_name_in f : In (field_name f) level_names.
Proof. destruct f; cbn; tauto. Qed.

Lemma no_string_map c name m :
  no_string_levels c = true -> name = s!"users" \/ name = s!"events" \/ name = s!"notifications" ->
  lookup name c = Some (JObj m) -> forallb (fun kv => not_string (snd kv)) m = true.
Proof.
  unfold no_string_levels, map_not_string. rewrite !andb_true_iff. intros [[[_ Hu] He] Hn] Hname Hl.
  destruct Hname as [-> | [-> | ->]]; [rewrite Hl in Hu|rewrite Hl in He|rewrite Hl in Hn]; assumption.
Qed.

Section Readers.
Variable uid_ok : str -> bool.
Variable r : auth_rules.
Variable c : obj.
Hypothesis Hc : compat r c.
(** any event carrying the content: the current power-levels event, or a new one *)
Variable e : event.
Hypothesis He : e_content e = c.

Lemma value_compat name j :
  In name level_names -> lookup name c = Some j ->
  integer_power_levels r = false \/ not_string j = true.
Proof.
  intros Hin Hl. destruct Hc as [Hi|Hs]; [now left|right].
  pose proof (no_string_field c name Hs Hin) as H. unfold field_not_string in H. now rewrite Hl in H.
Qed.

(** One level field: state-res' [get_as_int_or_default] reads what serde put into the struct. *)
Lemma field_read f z :
  lv_field c (field_name f) (ddefault f) = Some z ->
  get_as_int_or_default r e f = Some z.
Proof.
  unfold lv_field, get_as_int_or_default, get_as_int. rewrite He.
  destruct (lookup (field_name f) c) as [j|] eqn:El.
  - intros H. rewrite (v1_pl_int r j z H); [reflexivity|].
    eapply value_compat; [apply field_name_in|exact El].
  - intros [= <-]. apply f_equal. symmetry. apply ddefault_ok.
Qed.

Lemma entries_read keyok m x :
  integer_power_levels r = false \/ forallb (fun kv => not_string (snd kv)) m = true ->
  lv_entries keyok m = Some x -> int_map_entries r keyok m = Some x.
Proof.
  revert x. induction m as [|[k j] m IH]; intros x Hm; cbn [lv_entries int_map_entries]; [auto|].
  destruct (keyok k); [|discriminate].
  destruct (v1_level j) as [z|] eqn:Ej; [|discriminate].
  destruct (lv_entries keyok m) as [rest|] eqn:Er; [|discriminate]. intros [= <-].
  assert (Hj : integer_power_levels r = false \/ not_string j = true).
  { destruct Hm as [Hi|Hm]; [now left|right]. cbn [forallb snd] in Hm. now apply andb_true_iff in Hm. }
  assert (Hrest : integer_power_levels r = false \/ forallb (fun kv => not_string (snd kv)) m = true).
  { destruct Hm as [Hi|Hm]; [now left|right]. cbn [forallb snd] in Hm. now apply andb_true_iff in Hm. }
  now rewrite (v1_pl_int r j z Ej Hj), (IH rest Hrest eq_refl).
Qed.

Lemma map_read keyok name x :
  name = s!"users" \/ name = s!"events" \/ name = s!"notifications" ->
  lv_map keyok c name = Some x ->
  exists o, get_as_int_map r keyok e name = Some o /\
            (o = Some x \/ (o = None /\ x = [])).
Proof.
  intros Hname. unfold lv_map, get_as_int_map. rewrite He.
  destruct (lookup name c) as [j|] eqn:El.
  - destruct j; try discriminate. intros H. exists (Some x). split; [|now left].
    rewrite (entries_read keyok m x); [reflexivity| |exact H].
    destruct Hc as [Hi|Hs]; [now left|right]. eapply no_string_map; eauto.
  - intros [= <-]. exists None. split; [reflexivity|now right].
Qed.

(** [users]: the map state-res reads answers every lookup as the struct's map does. *)
Lemma users_read us :
  lv_map uid_ok c s!"users" = Some us ->
  exists uo, pl_users uid_ok r e = Some uo /\ forall u, olookup u uo = lookup u us.
Proof.
  intros H. destruct (map_read uid_ok s!"users" us (or_introl eq_refl) H) as [o [Ho Hx]].
  exists o. split; [exact Ho|]. intros u. destruct Hx as [->|[-> ->]]; reflexivity.
Qed.

(** [events]: both sides fill a [BTreeMap<TimelineEventType, Int>] from the same entries. *)
Lemma events_read es :
  lv_map any_key c s!"events" = Some es ->
  exists eo, pl_events r e = Some eo /\ forall t, olookup t eo = lookup t (canon_map es).
Proof.
  intros H. destruct (map_read any_key s!"events" es (or_intror (or_introl eq_refl)) H) as [o [Ho Hx]].
  unfold pl_events. rewrite Ho. destruct Hx as [->|[-> ->]].
  - exists (Some (canon_map es)). split; reflexivity.
  - exists None. split; reflexivity.
Qed.

Variable p : power_levels.
Hypothesis Hp : of_content uid_ok c = Some p.

Lemma of_content_inv :
  (forall f, lv_field c (field_name f) (ddefault f) = Some (proj f p)) /\
  (exists es, lv_map any_key c s!"events" = Some es /\ p_events p = canon_map es) /\
  lv_map uid_ok c s!"users" = Some (p_users p) /\
  notifications_room c = Some (p_notif_room p).
Proof.
  revert Hp. unfold of_content.
  destruct (lv_field c s!"ban" d_ban) as [ban|] eqn:E1; [|discriminate].
  destruct (lv_map any_key c s!"events") as [es|] eqn:E2; [|discriminate].
  destruct (lv_field c s!"events_default" d_events_default) as [ed|] eqn:E3; [|discriminate].
  destruct (lv_field c s!"invite" d_invite) as [inv|] eqn:E4; [|discriminate].
  destruct (lv_field c s!"kick" d_kick) as [kick|] eqn:E5; [|discriminate].
  destruct (lv_field c s!"redact" d_redact) as [red|] eqn:E6; [|discriminate].
  destruct (lv_field c s!"state_default" d_state_default) as [sd|] eqn:E7; [|discriminate].
  destruct (lv_map uid_ok c s!"users") as [us|] eqn:E8; [|discriminate].
  destruct (lv_field c s!"users_default" d_users_default) as [ud|] eqn:E9; [|discriminate].
  destruct (notifications_room c) as [room|] eqn:E10; [|discriminate].
  intros [= <-]. repeat split.
  - intros f. destruct f; cbn [field_name ddefault proj p_users_default p_events_default
      p_state_default p_ban p_redact p_kick p_invite]; assumption.
  - exists es. split; reflexivity.
Qed.

Lemma level_read f : get_as_int_or_default r e f = Some (proj f p).
Proof. apply field_read. apply of_content_inv. Qed.

Lemma int_or_default_read f : int_or_default r (Some e) f = Some (proj f p).
Proof. cbn [int_or_default]. apply level_read. Qed.

(** The user's level: [users[u]], else [users_default]. *)
Lemma user_level_read u : ev_user_power_level uid_ok r e u = Some (for_user p u).
Proof.
  destruct of_content_inv as [_ [_ [Hu _]]].
  destruct (users_read _ Hu) as [uo [Ho Hl]].
  unfold ev_user_power_level. rewrite Ho, Hl. unfold for_user.
  destruct (lookup u (p_users p)); [reflexivity|]. apply (level_read FUsersDefault).
Qed.

Lemma user_power_level_read u x :
  user_power_level uid_ok r (Some e) u x = Some (for_user p u).
Proof. cbn [user_power_level]. apply user_level_read. Qed.

(** The level an event type requires: [events[type]], else the default of its kind. *)
Lemma event_level_read ty skey :
  event_power_level r (Some e) ty skey
  = Some (match lookup ty (p_events p) with
          | Some z => z
          | None => proj (default_field skey) p
          end).
Proof.
  destruct of_content_inv as [_ [[es [Hes Hpe]] _]].
  destruct (events_read _ Hes) as [eo [Ho Hl]].
  cbn [event_power_level]. rewrite Ho, Hl, Hpe.
  destruct (lookup ty (canon_map es)); [reflexivity|]. apply level_read.
Qed.

Lemma message_level_read ty :
  not_alias ty -> event_power_level r (Some e) ty None = Some (for_message p ty).
Proof.
  intros H. rewrite event_level_read. unfold for_message. now rewrite (canon_message ty H).
Qed.

Lemma state_level_read ty sk :
  not_alias ty -> event_power_level r (Some e) ty (Some sk) = Some (for_state p ty).
Proof.
  intros H. rewrite event_level_read. unfold for_state. now rewrite (canon_state ty H).
Qed.

End Readers.
