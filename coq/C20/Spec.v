(** C20.Spec — what the power-level helpers are measured against: the authorization rules
    themselves (C08.Spec.spec_auth, DESIGN.md A.4) applied to the event a client would send, in
    a room with exactly these power levels; and the [sender_notification_permission] push
    condition (C12.Spec.spec_cond, DESIGN.md A.8).

    Written from the property text: no reference to [C20.Model], to [C08.Model] or to Gen tables.

    The room ([state_of]): a create event by someone else ([cr]), exactly this
    [m.room.power_levels] event, the acting user joined, the target user with the membership
    [tm] ([None]: no member event).  When actor and target are the same user the actor's
    member event stands.

    The event ([minimal_event]): sent by the actor, with the create event among its auth events:
      ban / kick / unban / invite   m.room.member for the target with membership ban / leave /
                                    leave / invite (no third_party_invite)
      send a message type           an event of that type without state key
      send a state type             an event of that type with the given state key; for
                                    m.room.power_levels the content is the current content
                                    (a client re-sending the levels unchanged)
      third-party invite            m.room.third_party_invite with the given state key
      redact                        m.room.redaction, as a message event
      change a user's level         m.room.power_levels with users[target] := n.

    [applies]: the target memberships / pairs an action is about (a kick is about another user
    who is not banned, an unban about a banned one, an invite about a user who is neither joined
    nor banned; a ban applies to everybody).

    [no_string_levels]: no level of the content is written as a string (from room version 10 the
    rules accept integers only, the helpers still read strings). *)
From Base Require Import Prelude Sx Json.
From C08 Require Import Types Spec.
From C12 Require Types Spec.

(** ** The room *)
Definition room_id : str := s!"!room:s1".
Definition id_create : str := s!"$create".
Definition id_pl : str := s!"$pl".
Definition id_ma : str := s!"$ma".
Definition id_mt : str := s!"$mt".
Definition id_ev : str := s!"$ev".
Definition id_prev : str := s!"$prev".

Definition create_ev (cr : str) : event :=
  {| e_id := id_create; e_room := room_id; e_sender := cr; e_type := t_create; e_skey := Some [];
     e_content := [(s!"creator", JStr cr)]; e_prev := []; e_auth := []; e_redacts := None |}.

Definition power_ev (cr : str) (c : obj) : event :=
  {| e_id := id_pl; e_room := room_id; e_sender := cr; e_type := t_power; e_skey := Some [];
     e_content := c; e_prev := [id_create]; e_auth := [id_create]; e_redacts := None |}.

Definition member_content (m : str) : obj := [(s!"membership", JStr m)].

Definition member_ev (id user m : str) : event :=
  {| e_id := id; e_room := room_id; e_sender := user; e_type := t_member; e_skey := Some user;
     e_content := member_content m; e_prev := [id_create]; e_auth := [id_create]; e_redacts := None |}.

Definition state_of (cr : str) (c : obj) (actor target : str) (tm : option str) : state :=
  fun k =>
    if str_eqb (fst k) t_create then (if str_eqb (snd k) [] then Some (create_ev cr) else None)
    else if str_eqb (fst k) t_power then (if str_eqb (snd k) [] then Some (power_ev cr c) else None)
    else if str_eqb (fst k) t_member then
      if str_eqb (snd k) actor then Some (member_ev id_ma actor s!"join")
      else if str_eqb (snd k) target then option_map (member_ev id_mt target) tm
      else None
    else None.

(** ** The event *)
Inductive action :=
| ABan | AKick | AUnban | AInvite
| ASendMessage (ty : str)
| ASendState (ty : str) (skey : str)
| AThirdPartyInvite (skey : str)
| ARedact
| AChangeLevel (n : Z).

Definition candidate (actor ty : str) (skey : option str) (content : obj) : event :=
  {| e_id := id_ev; e_room := room_id; e_sender := actor; e_type := ty; e_skey := skey;
     e_content := content; e_prev := [id_prev]; e_auth := [id_create; id_pl; id_ma];
     e_redacts := None |}.

(** [users[target] := n] in a power-levels content. *)
Definition with_user_level (c : obj) (target : str) (n : Z) : obj :=
  let users := match lookup s!"users" c with Some (JObj m) => m | _ => [] end in
  insert s!"users" (JObj (insert target (JInt n) users)) c.

Definition minimal_event (a : action) (actor target : str) (c : obj) : event :=
  match a with
  | ABan => candidate actor t_member (Some target) (member_content s!"ban")
  | AKick | AUnban => candidate actor t_member (Some target) (member_content s!"leave")
  | AInvite => candidate actor t_member (Some target) (member_content s!"invite")
  | ASendMessage ty => candidate actor ty None []
  | ASendState ty sk => candidate actor ty (Some sk) (if str_eqb ty t_power then c else [])
  | AThirdPartyInvite sk => candidate actor t_tpi (Some sk) []
  | ARedact => candidate actor t_redaction None []
  | AChangeLevel n => candidate actor t_power (Some []) (with_user_level c target n)
  end.

(** ** What an action is about *)
Definition tm_is (tm : option str) (m : str) : bool :=
  match tm with Some x => str_eqb x m | None => false end.

Definition applies (a : action) (actor target : str) (tm : option str) : bool :=
  match a with
  | ABan => true
  | AKick => negb (str_eqb actor target) && negb (tm_is tm s!"ban")
  | AUnban => negb (str_eqb actor target) && tm_is tm s!"ban"
  | AInvite => negb (str_eqb actor target) && negb (tm_is tm s!"join") && negb (tm_is tm s!"ban")
  | _ => true
  end.

(** Event types the rules treat on their own (rules 1, 4, 5, 7, 10): the helpers for "send a
    message / state event of this type" are not about them. *)
Definition plain_type (v : N) (ty : str) : bool :=
  negb (str_eqb ty t_create) && negb (str_eqb ty t_member) && negb (str_eqb ty t_tpi)
  && negb (str_eqb ty t_power) && negb ((v <=? 5) && str_eqb ty t_aliases).

(** Rule 9: a state key that starts with '@' must be the sender. *)
Definition state_key_ok (actor sk : str) : bool :=
  negb (starts_with [at_sign] sk && negb (str_eqb sk actor)).

(** ** Levels written as strings *)
Definition not_string (j : json) : bool := match j with JStr _ => false | _ => true end.

Definition field_not_string (c : obj) (name : str) : bool :=
  match lookup name c with Some j => not_string j | None => true end.

Definition map_not_string (c : obj) (name : str) : bool :=
  match lookup name c with
  | Some (JObj m) => forallb (fun kv => not_string (snd kv)) m
  | Some (JArr l) => forallb not_string l
  | _ => true
  end.

Definition level_names : list str :=
  [s!"ban"; s!"kick"; s!"redact"; s!"state_default"; s!"invite"; s!"events_default"; s!"users_default"].

Definition no_string_levels (c : obj) : bool :=
  forallb (field_not_string c) level_names
  && map_not_string c s!"users" && map_not_string c s!"events" && map_not_string c s!"notifications".

(** String-typed levels are part of the quantifier only before room version 10. *)
Definition levels_readable (v : N) (c : obj) : bool := (v <=? 9) || no_string_levels c.

(** Every member of [notifications] is a level (what rule 10 demands of a *new* power-levels
    event from v10, and ruma in every version: finding C08-pl-strict). *)
Definition notifications_typed (v : N) (c : obj) : bool :=
  match lookup s!"notifications" c with
  | None => true
  | Some (JObj m) => forallb (fun kv => match level_value v (snd kv) with Some _ => true | None => false end) m
  | Some _ => false
  end.

Section Spec.
Variable uid_ok : str -> bool.
Variable sn_ok : str -> bool.
Variable verify : str -> str -> str -> obj -> bool.

(** The authorization rules accept the event of the action. *)
Definition rules_accept (v : N) (cr : str) (c : obj) (a : action) (actor target : str)
    (tm : option str) : bool :=
  spec_auth uid_ok sn_ok verify v (minimal_event a actor target c) (state_of cr c actor target tm).

(** The power level the rules give to a user of this room. *)
Definition rules_level (v : N) (cr : str) (c : obj) (u : str) : option Z :=
  level_of_user uid_ok v (Some (power_ev cr c)) cr u.

End Spec.

(** ** Notifications: the push condition, on an event sent by [actor] seen by another user. *)
Definition notify_event (actor : str) : C12.Types.pjson :=
  C12.Types.PObj [(s!"sender", C12.Types.PStr actor)].

Definition notify_ctx (viewer : str) (pl : C12.Types.plctx) : C12.Types.ctx :=
  {| C12.Types.x_room_id := room_id; C12.Types.x_member_count := 3; C12.Types.x_user_id := viewer;
     C12.Types.x_display_name := s!"viewer"; C12.Types.x_power_levels := Some pl |}.

Definition notify_condition : C12.Types.cond := C12.Types.CSenderPerm s!"room".
