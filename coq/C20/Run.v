(** C20.Run — case decoding, model run, and the specification evaluated on the implementation's
    outcome (the failing-input search).

    case    = ( version content actor target tm op type state_key n extra )      (harness/src/c20.rs)
    outcome = ( h ( helper dispatch levels auth built users ) ) | ( 2 )

    [spec_ok] looks at the implementation's outcome only: inside the domain of the property
    (levels readable in this room version, a target membership the action is about, a type
    without rules of its own) the helper's answer must be the verdict of the real [auth_check]
    (resp. of the real push condition, of state-res' user level), and that verdict must be the
    one the authorization rules (C08.Spec) give for the event and room built in [C20.Spec] —
    outside C08's known deviation classes; and the helpers' answers must be consistent among
    themselves ([helpers_consistent]). *)
From Base Require Import Prelude Sx Json Rules.
From Gen Require Import RoomRules TypeAliases PowerLevelTables.
From C08 Require Import Types Ids Codec Model Spec Known.
From C12 Require Types Model.
From C20 Require Import Model Spec.

Definition room_creator : str := s!"@creator:s1".
Definition no_verify (_ _ _ : str) (_ : obj) : bool := false.

Record tcase := {
  k_v : N; k_content : obj; k_actor : str; k_target : str; k_tm : option str; k_op : N;
  k_ty : str; k_sk : str; k_n : Z; k_extra : option (option event * list (key * event)) }.

Definition extra_of_sx (x : sx) : option (option (option event * list (key * event))) :=
  match x with
  | SL [] => Some None
  | SL [ev; st] =>
      match as_opt event_of_sx ev, state_of_sx st with
      | Some ev, Some st => Some (Some (ev, st))
      | _, _ => None
      end
  | _ => None
  end.

Definition case_of_sx (x : sx) : option tcase :=
  match x with
  | SL [v; c; a; t; tm; op; ty; sk; n; ex] =>
      match as_N v, obj_of_sx c, as_str a, as_str t, as_opt as_str tm, as_N op, as_str ty, as_str sk,
            as_Z n, extra_of_sx ex with
      | Some v, Some c, Some a, Some t, Some tm, Some op, Some ty, Some sk, Some n, Some ex =>
          Some {| k_v := v; k_content := c; k_actor := a; k_target := t; k_tm := tm; k_op := op;
                  k_ty := ty; k_sk := sk; k_n := n; k_extra := ex |}
      | _, _, _, _, _, _, _, _, _, _ => None
      end
  | _ => None
  end.

(** The action of an op code, when the question is decided by an event.  The event carries
    the type as [TimelineEventType] prints it. *)
Definition action_of (k : tcase) : option action :=
  let op := k_op k in
  if op =? 0 then Some ABan
  else if op =? 1 then Some AKick
  else if op =? 2 then Some AUnban
  else if op =? 3 then Some AInvite
  else if op =? 4 then Some (ASendMessage (canon_type (k_ty k)))
  else if op =? 5 then Some (ASendState (canon_type (k_ty k)) (k_sk k))
  else if op =? 12 then Some ARedact
  else if op =? 14 then Some (AThirdPartyInvite (k_sk k))
  else if op =? 15 then Some (AChangeLevel (k_n k))
  else None.

Definition known_op (op : N) : bool :=
  existsb (N.eqb op) [0; 1; 2; 3; 4; 5; 6; 7; 8; 9; 10; 12; 13; 14; 15].

Definition one (x : sx) : sx := SL [x].
Definition none_sx : sx := SL [].
Definition lvl (z : Z) : sx := SN z.
Definition yes (b : bool) : sx := one (sx_bool b).

(** ** The model's outcome *)

(** ( yes?, helper, dispatch, levels ) of the ruma-events side (harness: [helper_side]). *)
Definition helper_side (k : tcase) (p : power_levels) : bool * sx * sx * sx :=
  let a := k_actor k in
  let t := k_target k in
  let op := k_op k in
  let both h d lv := (h, yes h, yes d, SL lv) in
  if op =? 0 then both (user_can_ban_user p a t) (user_can_do_to_user p a t UBan) [lvl (for_action p PBan)]
  else if op =? 1 then both (user_can_kick_user p a t) (user_can_do_to_user p a t UKick) [lvl (for_action p PKick)]
  else if op =? 2 then both (user_can_unban_user p a t) (user_can_do_to_user p a t UUnban) [lvl (for_action p PUnban)]
  else if (op =? 3) || (op =? 14) then
    let d1 := user_can_do_to_user p a t UInvite in
    let d2 := user_can_do p a PInvite in
    (user_can_invite p a, yes (user_can_invite p a),
     (if Bool.eqb d1 d2 then yes d1 else one (SN 2)), SL [lvl (for_action p PInvite)])
  else if op =? 4 then
    both (user_can_send_message p a (k_ty k)) (user_can_do p a (PSendMessage (k_ty k)))
         [lvl (for_action p (PSendMessage (k_ty k))); lvl (for_message p (k_ty k))]
  else if op =? 5 then
    both (user_can_send_state p a (k_ty k)) (user_can_do p a (PSendState (k_ty k)))
         [lvl (for_action p (PSendState (k_ty k))); lvl (for_state p (k_ty k))]
  else if op =? 6 then
    both (user_can_trigger_room_notification p a) (user_can_do p a PTriggerRoom) [lvl (for_action p PTriggerRoom)]
  else if op =? 7 then (true, one (lvl (for_user p a)), none_sx, SL [lvl (max_level p)])
  else if op =? 8 then both (user_can_ban p a) (user_can_do p a PBan) [lvl (for_action p PBan)]
  else if op =? 9 then both (user_can_kick p a) (user_can_do p a PKick) [lvl (for_action p PKick)]
  else if op =? 10 then both (user_can_unban p a) (user_can_do p a PUnban) [lvl (for_action p PUnban)]
  else if op =? 12 then both (user_can_redact_own_event p a) (user_can_do p a PRedactOwn) [lvl (for_action p PRedactOwn)]
  else if op =? 13 then
    both (user_can_redact_event_of_other p a) (user_can_do p a PRedactOther) [lvl (for_action p PRedactOther)]
  else (* 15 *)
    both (user_can_change_user_power_level p a t) (user_can_do_to_user p a t UChangePowerLevel) [].

Definition id_fun (s : str) : str := s.
Definition always (_ : str) : bool := true.

(** The push condition on the context built from the same [RoomPowerLevels] (C12's model). *)
Definition model_notify (p : power_levels) (actor : str) : sx :=
  match C12.Model.cond_applies id_fun always uid_ok notify_condition
          (C12.Model.from_raw (notify_event actor)) (notify_ctx room_creator (push_ctx_of p)) with
  | Some (Ok b) => yes b
  | _ => SL [SN 2]
  end.

(** The verdict of the other side (harness: [auth_side]); C08's model of [auth_check]. *)
Definition auth_side (k : tcase) (r : auth_rules) (p : option power_levels) : sx :=
  let op := k_op k in
  if op =? 6 then match p with Some p => model_notify p (k_actor k) | None => none_sx end
  else if op =? 7 then
    match ev_user_power_level uid_ok r (power_ev room_creator (k_content k)) (k_actor k) with
    | Some z => SL [SN 0; lvl z]
    | None => SL [SN 1]
    end
  else match action_of k with
       | None => none_sx
       | Some a =>
           yes (auth_check uid_ok sn_ok no_verify r
                  (minimal_event a (k_actor k) (k_target k) (k_content k))
                  (state_of room_creator (k_content k) (k_actor k) (k_target k) (k_tm k)))
       end.

(** The event and the room the harness ran on are the ones [C20.Spec] defines. *)
Definition same_state (st : state) (l : list (key * event)) : bool :=
  forallb (fun ke => oevent_eqb (st (fst ke)) (Some (snd ke))) l.

Definition expected_entries (k : tcase) : nat :=
  if str_eqb (k_actor k) (k_target k) then 3
  else match k_tm k with Some _ => 4 | None => 3 end.

Definition built_ok (k : tcase) : sx :=
  match k_extra k with
  | None => none_sx
  | Some (ev, st) =>
      let ev_ok :=
        match action_of k, ev with
        | Some a, Some e => event_eqb e (minimal_event a (k_actor k) (k_target k) (k_content k))
        | None, None => true
        | _, _ => false
        end in
      let st_ok :=
        same_state (state_of room_creator (k_content k) (k_actor k) (k_target k) (k_tm k)) st
        && Nat.eqb (List.length st) (expected_entries k) in
      one (sx_bool (ev_ok && st_ok))
  end.

Definition model_out (k : tcase) (r : auth_rules) : sx :=
  let p := of_content uid_ok (k_content k) in
  let auth := auth_side k r p in
  match p with
  | None => SL [SN 1; SL [none_sx; none_sx; SL []; auth; built_ok k; none_sx]]
  | Some pl =>
      match helper_side k pl with
      | (h, hs, ds, ls) =>
          SL [SN (if h then 0 else 1);
              SL [hs; ds; ls; auth; built_ok k;
                  SL [lvl (for_user pl (k_actor k)); lvl (for_user pl (k_target k))]]]
      end
  end.

(** ** The specification on the implementation's outcome *)
Definition impl_bool (x : sx) : option bool :=
  match x with SL [SN z] => Some (negb (z =? 0)%Z) | _ => None end.

(** Is the case inside the domain of the property? *)
Definition in_domain (k : tcase) : bool :=
  let v := k_v k in
  let op := k_op k in
  (3 <=? v) && (v <=? 11) && levels_readable v (k_content k) &&
  (if op =? 4 then plain_type v (canon_type (k_ty k)) && negb (is_alias (k_ty k))
   else if op =? 5 then
     (plain_type v (canon_type (k_ty k)) || str_eqb (k_ty k) t_power) && negb (is_alias (k_ty k))
   else if op =? 15 then
     notifications_typed v (k_content k)
     && match rules_level uid_ok v room_creator (k_content k) (k_actor k) with
        | Some sl => (k_n k <=? sl)%Z
        | None => false
        end
     && negb (oZ_eqb (match level_map v uid_ok (power_ev room_creator (k_content k)) s!"users" with
                      | Some (Some m) => lookup (k_target k) m
                      | _ => None
                      end) (Some (k_n k)))
   else match action_of k with
        | Some a => applies a (k_actor k) (k_target k) (k_tm k)
        | None => true
        end).

(** What the verdict has to be, given the helper's answer [h]. *)
Definition expected_verdict (k : tcase) (h : bool) : bool :=
  if k_op k =? 5 then
    h && state_key_ok (k_actor k) (k_sk k)
    && (negb (str_eqb (k_ty k) t_power) || notifications_typed (k_v k) (k_content k))
  else h.

Definition rules_ok (k : tcase) (verdict : bool) : bool :=
  match action_of k with
  | None => true
  | Some a =>
      let ev := minimal_event a (k_actor k) (k_target k) (k_content k) in
      let st := state_of room_creator (k_content k) (k_actor k) (k_target k) (k_tm k) in
      negb (wf_inputsb (k_v k) ev st) || known_deviation (k_v k) ev st
      || Bool.eqb verdict (spec_auth uid_ok sn_ok no_verify (k_v k) ev st)
  end.

(** The helpers among themselves, on the implementation's answers: [user_can_do] and the
    untargeted helpers say "the user's level reaches [for_action]"; the targeted ones add "the
    target is strictly below"; [for_action] of a send action is [for_message] / [for_state]. *)
Definition helpers_consistent (op : N) (h d lv us : sx) : bool :=
  match us, lv with
  | SL [SN ua; SN ut], SL (SN req :: rest) =>
      let reach := (ua >=? req)%Z in
      let below := (ut <? ua)%Z in
      let is_h (b : bool) := match h with SL [SN x] => Bool.eqb (negb (x =? 0)%Z) b | _ => false end in
      let is_d (b : bool) := match d with SL [SN x] => Bool.eqb (negb (x =? 0)%Z) b | _ => false end in
      if (op =? 0) || (op =? 1) || (op =? 2) then is_h (reach && below) && is_d (reach && below)
      else if op =? 7 then match h with SL [SN x] => (x =? ua)%Z && (req >=? ua)%Z | _ => false end
      else if (op =? 4) || (op =? 5) then
        is_h reach && is_d reach && match rest with [SN x] => (x =? req)%Z | _ => false end
      else is_h reach && is_d reach
  | _, _ => true
  end.

Definition spec_ok (k : tcase) (impl : sx) : bool :=
  match impl with
  | SL [SN 2] => false                                    (* a panic *)
  | SL [_; SL [h; d; lv; a; _; us]] =>
      let op := k_op k in
      helpers_consistent op h d lv us &&
      (* the dispatchers answer as the helper they stand for *)
      (match h, d with
       | SL [SN x], SL [SN y] => (x =? y)%Z
       | _, _ => true
       end)
      &&
      (if op =? 7 then
         match h, a with
         | SL [SN lh], SL [SN 0; SN la] =>
             (lh =? la)%Z
             && (negb (levels_readable (k_v k) (k_content k))
                 || match rules_level uid_ok (k_v k) room_creator (k_content k) (k_actor k) with
                    | Some z => (z =? la)%Z | None => false end)
         | SL [SN _], _ => negb (in_domain k)
         | _, _ => true
         end
       else
         match impl_bool a with
         | None => true                                   (* no verdict for this helper *)
         | Some verdict =>
             (if op =? 6 then true else rules_ok k verdict)
             && match impl_bool h with
                | None => true                            (* no helper: content does not deserialize *)
                | Some hb => negb (in_domain k) || Bool.eqb verdict (expected_verdict k hb)
                end
         end)
  | _ => false
  end.

Definition run (x : sx) : sx :=
  match x with
  | SL [c; impl] =>
      match case_of_sx c with
      | Some k =>
          if known_op (k_op k) then
            match rules_of (k_v k) with
            | Some R => SL [model_out k (authorization R); sx_bool (spec_ok k impl)]
            | None => sx_bad
            end
          else sx_bad
      | None => sx_bad
      end
  | _ => sx_bad
  end.
