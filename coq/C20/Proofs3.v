(** C20.Proofs3 — each helper against C08's model of [auth_check] on the event and the room of
    [C20.Spec], for any rules record [r] that reads the content's levels ([compat]). *)
From Base Require Import Prelude Sx Json Rules.
From Gen Require Import TypeAliases PowerLevelTables.
From C08 Require Import Types Model.
From C20 Require Import Model Spec Proofs1 Proofs2.
From Coq Require Import ZifyBool ZifyN.

(** ** The room of [C20.Spec] *)
Section Room.
Variable cr : str.
Variable c : obj.
Variable actor target : str.
Variable tm : option str.
Let st := state_of cr c actor target tm.

Lemma st_create : st k_create = Some (create_ev cr).
Proof. reflexivity. Qed.

Lemma st_power : st k_power = Some (power_ev cr c).
Proof. reflexivity. Qed.

Lemma mem_actor : mem_of st actor = Some s!"join".
Proof.
  unfold mem_of, st, state_of, k_member. cbn [fst snd].
  change (str_eqb t_member t_create) with false. change (str_eqb t_member t_power) with false.
  change (str_eqb t_member t_member) with true. cbv iota. now rewrite str_eqb_refl.
Qed.

Definition tm_value : str := match tm with Some m => m | None => s!"leave" end.

Lemma mem_target : str_eqb actor target = false -> mem_of st target = Some tm_value.
Proof.
  intros Hne. unfold mem_of, st, state_of, k_member, tm_value. cbn [fst snd].
  change (str_eqb t_member t_create) with false. change (str_eqb t_member t_power) with false.
  change (str_eqb t_member t_member) with true. cbv iota.
  rewrite (str_eqb_sym target actor), Hne, str_eqb_refl. destruct tm; reflexivity.
Qed.

Lemma federate_create : federate (create_ev cr) = Some true.
Proof. reflexivity. Qed.

Lemma has_create_candidate ty sk content :
  has_create (candidate actor ty sk content) (create_ev cr) = true.
Proof. reflexivity. Qed.

End Room.

Lemma creator_create uid_ok r cr : uid_ok cr = true -> creator uid_ok r (create_ev cr) = Some cr.
Proof.
  intros H. unfold creator. destruct (use_room_create_sender r); [reflexivity|].
  change (lookup s!"creator" (e_content (create_ev cr))) with (Some (JStr cr)). cbv beta iota. now rewrite H.
Qed.

Lemma tm_is_value tm m : tm_is tm m = true -> tm_value tm = m.
Proof. destruct tm as [x|]; cbn [tm_is tm_value]; [|discriminate]. apply str_eqb_eq. Qed.

Lemma tm_not_value tm m :
  str_eqb s!"leave" m = false -> tm_is tm m = false -> str_eqb (tm_value tm) m = false.
Proof. destruct tm as [x|]; cbn [tm_is tm_value]; auto. Qed.

(** ** The helpers *)
Section Helpers.
Variable uid_ok : str -> bool.
Variable sn_ok : str -> bool.
Variable verify : str -> str -> str -> obj -> bool.
Variable r : auth_rules.
Variable cr : str.
Variable c : obj.
Variable p : power_levels.
Hypothesis Hcr : uid_ok cr = true.
Hypothesis Hp : of_content uid_ok c = Some p.
Hypothesis Hc : compat r c.

Let auth := auth_check uid_ok sn_ok verify r.
Let pe := power_ev cr c.

Lemma pe_content : e_content pe = c.
Proof. reflexivity. Qed.

Let user_level u x := user_power_level_read uid_ok r c Hc pe pe_content p Hp u x.
Let field_level f := int_or_default_read uid_ok r c Hc pe pe_content p Hp f.

(** ban *)
Lemma ban_user_eq actor target tm :
  uid_ok target = true ->
  auth (minimal_event ABan actor target c) (state_of cr c actor target tm)
  = user_can_ban_user p actor target.
Proof.
  intros Ht. unfold auth. cbn [minimal_event].
  rewrite (preamble_member uid_ok sn_ok verify r _ _ (create_ev cr));
    [|reflexivity|apply st_create|apply has_create_candidate|apply federate_create].
  rewrite (member_ban uid_ok verify r _ _ _ target); [|reflexivity|exact Ht|reflexivity].
  rewrite (ban_run uid_ok r _ target _ _ pe cr (for_user p actor) (p_ban p) (for_user p target));
    [reflexivity|apply mem_actor|now apply creator_create|apply st_power|apply user_level
    |apply (field_level FBan)|apply user_level].
Qed.

(** kick / unban: the [leave] event for another user *)
Lemma leave_eq a actor target tm :
  a = AKick \/ a = AUnban ->
  uid_ok target = true -> str_eqb actor target = false ->
  auth (minimal_event a actor target c) (state_of cr c actor target tm)
  = if str_eqb (tm_value tm) s!"ban" && (for_user p actor <? p_ban p)%Z then false
    else (for_user p actor >=? p_kick p)%Z && (for_user p target <? for_user p actor)%Z.
Proof.
  intros Ha Ht Hne. unfold auth.
  assert (Hev : minimal_event a actor target c
                = candidate actor t_member (Some target) (member_content s!"leave"))
    by (destruct Ha as [-> | ->]; reflexivity).
  rewrite Hev.
  rewrite (preamble_member uid_ok sn_ok verify r _ _ (create_ev cr));
    [|reflexivity|apply st_create|apply has_create_candidate|apply federate_create].
  rewrite (member_leave uid_ok verify r _ _ _ target); [|reflexivity|exact Ht|reflexivity].
  rewrite (leave_run uid_ok r _ target _ _ pe cr (tm_value tm) (for_user p actor) (p_ban p) (p_kick p)
             (for_user p target));
    [reflexivity|exact Hne|apply mem_actor|now apply creator_create|apply st_power
    |now apply mem_target|apply user_level|apply (field_level FBan)|apply (field_level FKick)
    |apply user_level].
Qed.

Lemma kick_user_eq actor target tm :
  uid_ok target = true -> applies AKick actor target tm = true ->
  auth (minimal_event AKick actor target c) (state_of cr c actor target tm)
  = user_can_kick_user p actor target.
Proof.
  intros Ht Ha. cbn [applies] in Ha. apply andb_true_iff in Ha as [Hne Hnb].
  apply negb_true_iff in Hne, Hnb.
  rewrite (leave_eq AKick); auto.
  rewrite (tm_not_value tm s!"ban"); [reflexivity|reflexivity|exact Hnb].
Qed.

Lemma unban_user_eq actor target tm :
  uid_ok target = true -> applies AUnban actor target tm = true ->
  auth (minimal_event AUnban actor target c) (state_of cr c actor target tm)
  = user_can_unban_user p actor target.
Proof.
  intros Ht Ha. cbn [applies] in Ha. apply andb_true_iff in Ha as [Hne Hb].
  apply negb_true_iff in Hne.
  rewrite (leave_eq AUnban); auto.
  rewrite (tm_is_value tm s!"ban" Hb). change (str_eqb s!"ban" s!"ban") with true.
  unfold user_can_unban_user. cbn [andb]. cbv zeta.
  destruct (for_user p actor <? p_ban p)%Z eqn:E1, (for_user p actor >=? p_ban p)%Z eqn:E2;
    cbn [andb]; try reflexivity; lia.
Qed.

(** invite *)
Lemma invite_eq actor target tm :
  uid_ok target = true -> applies AInvite actor target tm = true ->
  auth (minimal_event AInvite actor target c) (state_of cr c actor target tm)
  = user_can_invite p actor.
Proof.
  intros Ht Ha. cbn [applies] in Ha. apply andb_true_iff in Ha as [Ha Hnb].
  apply andb_true_iff in Ha as [Hne Hnj]. apply negb_true_iff in Hne, Hnj, Hnb.
  unfold auth. cbn [minimal_event].
  rewrite (preamble_member uid_ok sn_ok verify r _ _ (create_ev cr));
    [|reflexivity|apply st_create|apply has_create_candidate|apply federate_create].
  rewrite (member_invite uid_ok verify r _ _ _ target); [|reflexivity|exact Ht|reflexivity].
  rewrite (invite_run uid_ok verify r _ target _ _ pe cr (tm_value tm) (for_user p actor) (p_invite p));
    [|reflexivity|apply mem_actor|now apply mem_target|now apply creator_create|apply st_power
     |apply user_level|apply (field_level FInvite)].
  rewrite (tm_not_value tm s!"join"), (tm_not_value tm s!"ban"); [reflexivity|reflexivity|exact Hnb
    |reflexivity|exact Hnj].
Qed.

(** events gated by their required level: one lemma for messages and state events *)
Lemma gated_eq actor target tm ty sk content need :
  str_eqb ty t_create = false -> str_eqb ty t_member = false -> str_eqb ty t_tpi = false ->
  special_case_room_aliases r && str_eqb ty t_aliases = false ->
  event_power_level r (Some pe) ty sk = Some need ->
  auth (candidate actor ty sk content) (state_of cr c actor target tm)
  = if (for_user p actor <? need)%Z then false
    else if at_key_violation (candidate actor ty sk content) then false
    else if str_eqb ty t_power
         then check_room_power_levels uid_ok r (candidate actor ty sk content) (Some pe) (for_user p actor)
    else if special_case_room_redaction r && str_eqb ty t_redaction
         then check_room_redaction r (candidate actor ty sk content) (Some pe) (for_user p actor)
    else true.
Proof.
  intros H1 H2 H3 H4 Hneed. unfold auth.
  rewrite (gated_run uid_ok sn_ok verify r _ _ (create_ev cr) pe cr (for_user p actor) need);
    [reflexivity|exact H1|apply st_create|apply has_create_candidate|apply federate_create
    |exact H4|exact H2|apply mem_actor|now apply creator_create|apply st_power|apply user_level
    |exact H3|exact Hneed].
Qed.

Lemma plain_type_facts v ty :
  special_case_room_aliases r = (v <=? 5) -> plain_type v ty = true ->
  str_eqb ty t_create = false /\ str_eqb ty t_member = false /\ str_eqb ty t_tpi = false /\
  str_eqb ty t_power = false /\ special_case_room_aliases r && str_eqb ty t_aliases = false.
Proof.
  intros Hal. unfold plain_type. rewrite !andb_true_iff, !negb_true_iff, Hal. tauto.
Qed.

(** send a message event *)
Lemma send_message_eq v actor target tm ty :
  special_case_room_aliases r = (v <=? 5) -> special_case_room_redaction r = false ->
  plain_type v ty = true -> not_alias ty ->
  auth (minimal_event (ASendMessage ty) actor target c) (state_of cr c actor target tm)
  = user_can_send_message p actor ty.
Proof.
  intros Hal Hred Hpt Hna. destruct (plain_type_facts v ty Hal Hpt) as [H1 [H2 [H3 [H4 H5]]]].
  cbn [minimal_event].
  rewrite (gated_eq actor target tm ty None [] (for_message p ty)); auto.
  - rewrite H4, Hred. unfold at_key_violation. cbn [e_skey candidate andb].
    unfold user_can_send_message. destruct (for_user p actor <? for_message p ty)%Z eqn:E; lia.
  - apply (message_level_read uid_ok r c Hc pe pe_content p Hp ty Hna).
Qed.

Lemma at_key_state actor ty sk content :
  at_key_violation (candidate actor ty (Some sk) content) = negb (state_key_ok actor sk).
Proof.
  unfold at_key_violation, state_key_ok. cbn [e_skey e_sender candidate ostr_eqb].
  now rewrite negb_involutive.
Qed.

(** send a state event of a type without rules of its own: rule 9 is the one extra condition *)
Lemma send_state_eq v actor target tm ty sk :
  special_case_room_aliases r = (v <=? 5) -> special_case_room_redaction r = false ->
  plain_type v ty = true -> not_alias ty ->
  auth (minimal_event (ASendState ty sk) actor target c) (state_of cr c actor target tm)
  = user_can_send_state p actor ty && state_key_ok actor sk.
Proof.
  intros Hal Hred Hpt Hna. destruct (plain_type_facts v ty Hal Hpt) as [H1 [H2 [H3 [H4 H5]]]].
  cbn [minimal_event]. rewrite H4.
  rewrite (gated_eq actor target tm ty (Some sk) [] (for_state p ty)); auto.
  - rewrite H4, Hred, at_key_state. cbn [andb].
    unfold user_can_send_state.
    destruct (for_user p actor <? for_state p ty)%Z eqn:E, (state_key_ok actor sk);
      cbn [negb andb]; lia.
  - apply (state_level_read uid_ok r c Hc pe pe_content p Hp ty sk Hna).
Qed.

(** m.room.power_levels with any new content: rule 10 is the extra condition *)
Lemma send_power_levels_eq actor target tm sk content :
  auth (candidate actor t_power (Some sk) content) (state_of cr c actor target tm)
  = user_can_send_state p actor t_power_levels && state_key_ok actor sk
    && check_room_power_levels uid_ok r (candidate actor t_power (Some sk) content) (Some pe)
         (for_user p actor).
Proof.
  rewrite (gated_eq actor target tm t_power (Some sk) content (for_state p t_power_levels));
    try reflexivity.
  - change (str_eqb t_power t_power) with true. rewrite at_key_state. unfold user_can_send_state.
    destruct (for_user p actor <? for_state p t_power_levels)%Z eqn:E, (state_key_ok actor sk);
      cbn [negb andb];
      try (destruct (check_room_power_levels uid_ok r _ (Some pe) (for_user p actor)));
      lia.
  - change (str_eqb t_power t_aliases) with false. apply andb_false_r.
  - apply (state_level_read uid_ok r c Hc pe pe_content p Hp t_power_levels sk power_levels_not_alias).
Qed.

(** redact (one's own event): the m.room.redaction message *)
Lemma redact_eq v actor target tm :
  special_case_room_aliases r = (v <=? 5) -> special_case_room_redaction r = false ->
  auth (minimal_event ARedact actor target c) (state_of cr c actor target tm)
  = user_can_redact_own_event p actor.
Proof.
  intros Hal Hred. unfold user_can_redact_own_event.
  rewrite <- (send_message_eq v actor target tm t_redaction_msg Hal Hred);
    [reflexivity| |apply redaction_not_alias].
  unfold plain_type. change (str_eqb t_redaction_msg t_aliases) with false.
  now rewrite andb_false_r.
Qed.

(** m.room.third_party_invite is gated by the invite level (rule 7) *)
Lemma third_party_invite_eq actor target tm sk :
  auth (minimal_event (AThirdPartyInvite sk) actor target c) (state_of cr c actor target tm)
  = user_can_invite p actor.
Proof.
  unfold auth. cbn [minimal_event].
  rewrite (tpi_run uid_ok sn_ok verify r _ _ (create_ev cr) pe cr (for_user p actor) (p_invite p));
    [|reflexivity|apply st_create|apply has_create_candidate|apply federate_create|apply mem_actor
     |now apply creator_create|apply st_power|apply user_level|apply (field_level FInvite)].
  unfold user_can_invite. lia.
Qed.

(** the level of a user *)
Lemma for_user_eq u : ev_user_power_level uid_ok r pe u = Some (for_user p u).
Proof. apply (user_level_read uid_ok r c Hc pe pe_content p Hp). Qed.

End Helpers.
