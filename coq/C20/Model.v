(** C20.Model — executable model of the power-level helpers of ruma-events
      crates/ruma-events/src/room/power_levels.rs                      (P:)
    together with the reading of an [m.room.power_levels] content into [RoomPowerLevels]
    (the serde-derived [Deserialize] of [RoomPowerLevelsEventContent], P:25-110, and
    [From<RoomPowerLevelsEventContent> for RoomPowerLevels], P:568-583) and
    [NotificationPowerLevels] (crates/ruma-common/src/power_levels.rs).  No proofs here.

    Reused from C08.Model (the same Rust functions are called by both crates):
      [parse_v1_string]   [deserialize_v1_powerlevel]'s [visit_str]  (ruma-common serde/strings.rs)
      [canon_map]         [BTreeMap<TimelineEventType, Int>] filled in the order of the JSON object,
                          every key through [TimelineEventType::from] (Gen.TypeAliases)
    The defaults and the aliases of [MessageLikeEventType] / [StateEventType] come from
    [Gen.PowerLevelTables] (dumped from the compiled crate on every run).

    Conventions.
    - The content is a JSON object without floats ([Base.Json.obj], canonical JSON).
    - [Result<_, serde_json::Error>] is modelled up to Ok/Err: [of_content] returns [option].
    - [js_int::Int] is [Z] within [in_int_range]; comparisons of [Int] are comparisons of [Z].
    - External behaviour = Section variable [uid_ok] ([OwnedUserId]'s [Deserialize]: user_id::validate). *)
From Base Require Import Prelude Sx Json.
From Gen Require Import PowerLevelTables.
From C08 Require Import Types Model.
From C12 Require Types.

(** [RoomPowerLevels] (P:313-349). *)
Record power_levels := {
  p_ban : Z;
  p_events : amap Z;          (* BTreeMap<TimelineEventType, Int>, keys as their strings *)
  p_events_default : Z;
  p_invite : Z;
  p_kick : Z;
  p_redact : Z;
  p_state_default : Z;
  p_users : amap Z;           (* BTreeMap<OwnedUserId, Int> *)
  p_users_default : Z;
  p_notif_room : Z }.         (* notifications.room *)

(** ** Deserialization *)

(** [deserialize_v1_powerlevel] on a JSON value (strings.rs:133-198): an integer in the [Int]
    range, or a string [visit_str] accepts — whatever the room version. *)
Definition v1_level (j : json) : option Z :=
  match j with
  | JInt z => if in_int_range z then Some z else None
  | JStr s => parse_v1_string s
  | _ => None
  end.

(** A field with [#[serde(default .., deserialize_with = "deserialize_v1_powerlevel")]]. *)
Definition lv_field (c : obj) (name : str) (default : Z) : option Z :=
  match lookup name c with
  | None => Some default
  | Some j => v1_level j
  end.

(** [btreemap_deserialize_v1_powerlevel_values] (strings.rs:204-256): every key must
    deserialize as [T] ([keyok]) and every value as a power level. *)
Fixpoint lv_entries (keyok : str -> bool) (m : obj) : option (amap Z) :=
  match m with
  | [] => Some []
  | (k, j) :: m' =>
      if keyok k then
        match v1_level j, lv_entries keyok m' with
        | Some z, Some rest => Some ((k, z) :: rest)
        | _, _ => None
        end
      else None
  end.

(** [#[serde(default, deserialize_with = "btreemap_deserialize_v1_powerlevel_values")]]:
    [deserialize_map] refuses anything but an object. *)
Definition lv_map (keyok : str -> bool) (c : obj) (name : str) : option (amap Z) :=
  match lookup name c with
  | None => Some []
  | Some (JObj m) => lv_entries keyok m
  | Some _ => None
  end.

(** [notifications: NotificationPowerLevels] with [#[serde(default)]]; the struct is
    serde-derived: an object whose unknown members are ignored, or its sequence form [[room]]
    ([visit_seq]: a missing element takes the field's default, a surplus one is an error). *)
Definition notifications_room (c : obj) : option Z :=
  match lookup s!"notifications" c with
  | None => Some d_notifications_room
  | Some (JObj m) => lv_field m s!"room" d_notifications_room_field
  | Some (JArr []) => Some d_notifications_room_field
  | Some (JArr [j]) => v1_level j
  | Some _ => None
  end.

Section Deserialize.
Variable uid_ok : str -> bool.

(** [serde_json::from_str::<RoomPowerLevelsEventContent>] followed by [RoomPowerLevels::from]
    (P:25-110, 568-583); unknown members of the content are ignored. *)
Definition of_content (c : obj) : option power_levels :=
  let* ban := lv_field c s!"ban" d_ban in
  let* events := lv_map any_key c s!"events" in
  let* events_default := lv_field c s!"events_default" d_events_default in
  let* invite := lv_field c s!"invite" d_invite in
  let* kick := lv_field c s!"kick" d_kick in
  let* redact := lv_field c s!"redact" d_redact in
  let* state_default := lv_field c s!"state_default" d_state_default in
  let* users := lv_map uid_ok c s!"users" in
  let* users_default := lv_field c s!"users_default" d_users_default in
  let* room := notifications_room c in
  Some {| p_ban := ban; p_events := canon_map events; p_events_default := events_default;
          p_invite := invite; p_kick := kick; p_redact := redact; p_state_default := state_default;
          p_users := users; p_users_default := users_default; p_notif_room := room |}.

End Deserialize.

(** ** Event types as the helpers receive them.  [MessageLikeEventType::from] /
    [StateEventType::from] map their own aliases to the standard variant; the conversion into
    [TimelineEventType] keeps the string; [BTreeMap::get] compares the string forms. *)
Definition canon_with (tbl : list (str * str)) (s : str) : str :=
  match lookup s tbl with Some t => t | None => s end.

Definition t_redaction_msg : str := s!"m.room.redaction".
Definition t_power_levels : str := s!"m.room.power_levels".

(** ** The helpers (P:351-566) *)

(** P:353-355 *)
Definition for_user (p : power_levels) (u : str) : Z :=
  match lookup u (p_users p) with Some z => z | None => p_users_default p end.

(** P:377-379 *)
Definition for_message (p : power_levels) (ty : str) : Z :=
  match lookup (canon_with message_type_aliases ty) (p_events p) with
  | Some z => z
  | None => p_events_default p
  end.

(** P:382-384 *)
Definition for_state (p : power_levels) (ty : str) : Z :=
  match lookup (canon_with state_type_aliases ty) (p_events p) with
  | Some z => z
  | None => p_state_default p
  end.

(** [PowerLevelAction] (P:626-655). *)
Inductive pl_action :=
| PBan | PUnban | PInvite | PKick | PRedactOwn | PRedactOther
| PSendMessage (ty : str) | PSendState (ty : str) | PTriggerRoom.

(** [PowerLevelUserAction] (P:666-683). *)
Inductive pl_user_action := UBan | UUnban | UInvite | UKick | UChangePowerLevel.

(** P:358-374 *)
Definition for_action (p : power_levels) (a : pl_action) : Z :=
  match a with
  | PBan => p_ban p
  | PUnban => Z.max (p_ban p) (p_kick p)
  | PInvite => p_invite p
  | PKick => p_kick p
  | PRedactOwn => for_message p t_redaction_msg
  | PRedactOther => Z.max (p_redact p) (for_message p t_redaction_msg)
  | PSendMessage ty => for_message p ty
  | PSendState ty => for_state p ty
  | PTriggerRoom => p_notif_room p
  end.

(** P:389-391 *)
Definition user_can_ban (p : power_levels) (u : str) : bool := (for_user p u >=? p_ban p)%Z.

(** P:400-404 *)
Definition user_can_ban_user (p : power_levels) (actor target : str) : bool :=
  let acting_pl := for_user p actor in
  let target_pl := for_user p target in
  (acting_pl >=? p_ban p)%Z && (target_pl <? acting_pl)%Z.

(** P:411-414 *)
Definition user_can_unban (p : power_levels) (u : str) : bool :=
  let pl := for_user p u in (pl >=? p_ban p)%Z && (pl >=? p_kick p)%Z.

(** P:425-429 *)
Definition user_can_unban_user (p : power_levels) (actor target : str) : bool :=
  let acting_pl := for_user p actor in
  let target_pl := for_user p target in
  (acting_pl >=? p_ban p)%Z && (acting_pl >=? p_kick p)%Z && (target_pl <? acting_pl)%Z.

(** P:434-436 *)
Definition user_can_invite (p : power_levels) (u : str) : bool := (for_user p u >=? p_invite p)%Z.

(** P:441-443 *)
Definition user_can_kick (p : power_levels) (u : str) : bool := (for_user p u >=? p_kick p)%Z.

(** P:452-456 *)
Definition user_can_kick_user (p : power_levels) (actor target : str) : bool :=
  let acting_pl := for_user p actor in
  let target_pl := for_user p target in
  (acting_pl >=? p_kick p)%Z && (target_pl <? acting_pl)%Z.

(** P:475-477 *)
Definition user_can_send_message (p : power_levels) (u ty : str) : bool :=
  (for_user p u >=? for_message p ty)%Z.

(** P:482-484 *)
Definition user_can_send_state (p : power_levels) (u ty : str) : bool :=
  (for_user p u >=? for_state p ty)%Z.

(** P:461-463 *)
Definition user_can_redact_own_event (p : power_levels) (u : str) : bool :=
  user_can_send_message p u t_redaction_msg.

(** P:468-470 *)
Definition user_can_redact_event_of_other (p : power_levels) (u : str) : bool :=
  user_can_redact_own_event p u && (for_user p u >=? p_redact p)%Z.

(** P:490-492 *)
Definition user_can_trigger_room_notification (p : power_levels) (u : str) : bool :=
  (for_user p u >=? p_notif_room p)%Z.

(** P:498-520 *)
Definition user_can_change_user_power_level (p : power_levels) (actor target : str) : bool :=
  if negb (user_can_send_state p actor t_power_levels) then false
  else if str_eqb actor target then true
  else match lookup target (p_users p) with
       | Some target_pl => (for_user p actor >? target_pl)%Z
       | None => true
       end.

(** P:523-541 *)
Definition user_can_do (p : power_levels) (u : str) (a : pl_action) : bool :=
  match a with
  | PBan => user_can_ban p u
  | PUnban => user_can_unban p u
  | PInvite => user_can_invite p u
  | PKick => user_can_kick p u
  | PRedactOwn => user_can_redact_own_event p u
  | PRedactOther => user_can_redact_event_of_other p u
  | PSendMessage ty => user_can_send_message p u ty
  | PSendState ty => user_can_send_state p u ty
  | PTriggerRoom => user_can_trigger_room_notification p u
  end.

(** P:545-560 *)
Definition user_can_do_to_user (p : power_levels) (actor target : str) (a : pl_user_action) : bool :=
  match a with
  | UBan => user_can_ban_user p actor target
  | UUnban => user_can_unban_user p actor target
  | UInvite => user_can_invite p actor
  | UKick => user_can_kick_user p actor target
  | UChangePowerLevel => user_can_change_user_power_level p actor target
  end.

(** P:563-565 [max]: the fold starts from [users_default]. *)
Definition max_level (p : power_levels) : Z :=
  fold_left (fun acc kv => Z.max acc (snd kv)) (p_users p) (p_users_default p).

(** [From<RoomPowerLevels> for PushConditionPowerLevelsCtx] (P:619-623). *)
Definition push_ctx_of (p : power_levels) : C12.Types.plctx :=
  {| C12.Types.pl_users := p_users p;
     C12.Types.pl_users_default := p_users_default p;
     C12.Types.pl_room := p_notif_room p |}.
