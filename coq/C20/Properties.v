(** placeholder *)
From Base Require Import Prelude.
Theorem C20_placeholder : True. Proof. exact I. Qed.
Eval compute in "PA:C20_placeholder"%string.
Print Assumptions C20_placeholder.
