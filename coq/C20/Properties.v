(** C20.Properties — the theorems that decide C20, and nothing else.

    Setting of every theorem: a room version [v] in 3..11 with its rules record [R] regenerated
    from ruma ([rules_of v = Some R]); a power-levels content [c] that ruma-events deserializes
    into the [RoomPowerLevels] [p] ([of_content uid_ok c = Some p]: every field absent or
    present, integer or string-typed); string-typed levels only before room version 10
    ([levels_readable v c]); a room created by [cr] whose state is the create event, exactly
    this power-levels event, the actor joined and the target with any membership [tm]
    ([state_of]); the event a client would send for the action ([minimal_event]).

    Each helper is shown equal (a) to C08's model of [ruma_state_res::auth_check] on that event
    and room, and (b) to the authorization rules themselves ([rules_accept] = C08.Spec.spec_auth)
    when the [events] object of the content has strictly increasing keys, none of them an
    event-type alias ([events_plain]: the open finding C08-type-alias is the one place where
    ruma's [auth_check] and the rules differ on these events).

    [uid_ok], [sn_ok] (identifier grammar) and [verify] (signature check) are universally
    quantified: external behaviour. *)
From Base Require Import Prelude Sx Json Rules.
From Gen Require Import RoomRules TypeAliases PowerLevelTables.
From C08 Require Import Types Model Spec.
From C12 Require Types Model Spec.
From C20 Require Import Model Spec Proofs1 Proofs2 Proofs3 Proofs4 Proofs5 Proofs6 Proofs7.

(** Ban: every actor/target pair (the actor included), every target membership. *)
Theorem C20_can_ban_user_iff :
  forall uid_ok sn_ok verify v R cr c p,
  rules_of v = Some R -> 3 <= v -> uid_ok cr = true -> of_content uid_ok c = Some p ->
  levels_readable v c = true ->
  forall actor target tm, uid_ok target = true ->
  user_can_ban_user p actor target
  = auth_check uid_ok sn_ok verify (authorization R) (minimal_event ABan actor target c)
      (state_of cr c actor target tm)
  /\ (events_plain c = true ->
      user_can_ban_user p actor target = rules_accept uid_ok sn_ok verify v cr c ABan actor target tm).
Proof. exact can_ban_user_iff. Qed.
Eval compute in "PA:C20_can_ban_user_iff"%string.
Print Assumptions C20_can_ban_user_iff.

(** Kick: another user who is not banned (join, invite, leave, knock, no member event, ...). *)
Theorem C20_can_kick_user_iff :
  forall uid_ok sn_ok verify v R cr c p,
  rules_of v = Some R -> 3 <= v -> uid_ok cr = true -> of_content uid_ok c = Some p ->
  levels_readable v c = true ->
  forall actor target tm, uid_ok target = true -> applies AKick actor target tm = true ->
  user_can_kick_user p actor target
  = auth_check uid_ok sn_ok verify (authorization R) (minimal_event AKick actor target c)
      (state_of cr c actor target tm)
  /\ (events_plain c = true ->
      user_can_kick_user p actor target = rules_accept uid_ok sn_ok verify v cr c AKick actor target tm).
Proof. exact can_kick_user_iff. Qed.
Eval compute in "PA:C20_can_kick_user_iff"%string.
Print Assumptions C20_can_kick_user_iff.

(** Unban: another user who is banned. *)
Theorem C20_can_unban_user_iff :
  forall uid_ok sn_ok verify v R cr c p,
  rules_of v = Some R -> 3 <= v -> uid_ok cr = true -> of_content uid_ok c = Some p ->
  levels_readable v c = true ->
  forall actor target tm, uid_ok target = true -> applies AUnban actor target tm = true ->
  user_can_unban_user p actor target
  = auth_check uid_ok sn_ok verify (authorization R) (minimal_event AUnban actor target c)
      (state_of cr c actor target tm)
  /\ (events_plain c = true ->
      user_can_unban_user p actor target = rules_accept uid_ok sn_ok verify v cr c AUnban actor target tm).
Proof. exact can_unban_user_iff. Qed.
Eval compute in "PA:C20_can_unban_user_iff"%string.
Print Assumptions C20_can_unban_user_iff.

(** Invite: another user who is neither joined nor banned. *)
Theorem C20_can_invite_iff :
  forall uid_ok sn_ok verify v R cr c p,
  rules_of v = Some R -> 3 <= v -> uid_ok cr = true -> of_content uid_ok c = Some p ->
  levels_readable v c = true ->
  forall actor target tm, uid_ok target = true -> applies AInvite actor target tm = true ->
  user_can_invite p actor
  = auth_check uid_ok sn_ok verify (authorization R) (minimal_event AInvite actor target c)
      (state_of cr c actor target tm)
  /\ (events_plain c = true ->
      user_can_invite p actor = rules_accept uid_ok sn_ok verify v cr c AInvite actor target tm).
Proof. exact can_invite_iff. Qed.
Eval compute in "PA:C20_can_invite_iff"%string.
Print Assumptions C20_can_invite_iff.

(** Send a message event of a type the rules do not treat on their own. *)
Theorem C20_can_send_message_iff :
  forall uid_ok sn_ok verify v R cr c p,
  rules_of v = Some R -> 3 <= v -> uid_ok cr = true -> of_content uid_ok c = Some p ->
  levels_readable v c = true ->
  forall actor target tm ty, plain_type v ty = true -> not_alias ty ->
  user_can_send_message p actor ty
  = auth_check uid_ok sn_ok verify (authorization R) (minimal_event (ASendMessage ty) actor target c)
      (state_of cr c actor target tm)
  /\ (events_plain c = true ->
      user_can_send_message p actor ty
      = rules_accept uid_ok sn_ok verify v cr c (ASendMessage ty) actor target tm).
Proof. exact can_send_message_iff. Qed.
Eval compute in "PA:C20_can_send_message_iff"%string.
Print Assumptions C20_can_send_message_iff.

(** Send a state event of a type without rules of its own, with any state key: the one extra
    condition is rule 9 (a state key starting with '@' must be the sender's id). *)
Theorem C20_can_send_state_iff :
  forall uid_ok sn_ok verify v R cr c p,
  rules_of v = Some R -> 3 <= v -> uid_ok cr = true -> of_content uid_ok c = Some p ->
  levels_readable v c = true ->
  forall actor target tm ty sk, plain_type v ty = true -> not_alias ty ->
  user_can_send_state p actor ty && state_key_ok actor sk
  = auth_check uid_ok sn_ok verify (authorization R) (minimal_event (ASendState ty sk) actor target c)
      (state_of cr c actor target tm)
  /\ (events_plain c = true ->
      user_can_send_state p actor ty && state_key_ok actor sk
      = rules_accept uid_ok sn_ok verify v cr c (ASendState ty sk) actor target tm).
Proof. exact can_send_state_iff. Qed.
Eval compute in "PA:C20_can_send_state_iff"%string.
Print Assumptions C20_can_send_state_iff.

(** m.room.power_levels with any new content: on top of the helper and rule 9, rule 10 (the
    model's [check_room_power_levels]: the new content is well-typed and every change is within
    the sender's level). *)
Theorem C20_can_send_power_levels_iff :
  forall uid_ok sn_ok verify v R cr c p,
  rules_of v = Some R -> 3 <= v -> uid_ok cr = true -> of_content uid_ok c = Some p ->
  levels_readable v c = true ->
  forall actor target tm sk content,
  auth_check uid_ok sn_ok verify (authorization R) (candidate actor t_power (Some sk) content)
    (state_of cr c actor target tm)
  = user_can_send_state p actor t_power_levels && state_key_ok actor sk
    && check_room_power_levels uid_ok (authorization R) (candidate actor t_power (Some sk) content)
         (Some (power_ev cr c)) (for_user p actor).
Proof. exact can_send_power_levels_iff. Qed.
Eval compute in "PA:C20_can_send_power_levels_iff"%string.
Print Assumptions C20_can_send_power_levels_iff.

(** Re-sending the current power levels unchanged (what [minimal_event] sends for the type
    m.room.power_levels): the new event must be well-typed as a whole; ruma-events has read
    everything but the members of [notifications] other than [room]. *)
Theorem C20_resend_power_levels_iff :
  forall uid_ok sn_ok verify v R cr c p,
  rules_of v = Some R -> 3 <= v -> uid_ok cr = true -> of_content uid_ok c = Some p ->
  levels_readable v c = true -> notifications_typed v c = true ->
  forall actor target tm sk,
  user_can_send_state p actor t_power_levels && state_key_ok actor sk
  = auth_check uid_ok sn_ok verify (authorization R)
      (minimal_event (ASendState t_power sk) actor target c) (state_of cr c actor target tm).
Proof. exact resend_power_levels_iff. Qed.
Eval compute in "PA:C20_resend_power_levels_iff"%string.
Print Assumptions C20_resend_power_levels_iff.

(** Changing a user's level: the helper says yes exactly when the power-levels event that sets
    [users[target]] to a different level [n] within the actor's own level is accepted. *)
Theorem C20_can_change_user_power_level_iff :
  forall uid_ok sn_ok verify v R cr c p,
  rules_of v = Some R -> 3 <= v -> uid_ok cr = true -> of_content uid_ok c = Some p ->
  levels_readable v c = true -> notifications_typed v c = true ->
  forall actor target tm n,
  uid_ok target = true -> in_int_range n = true ->
  (n <= for_user p actor)%Z -> lookup target (p_users p) <> Some n ->
  user_can_change_user_power_level p actor target
  = auth_check uid_ok sn_ok verify (authorization R)
      (minimal_event (AChangeLevel n) actor target c) (state_of cr c actor target tm).
Proof. exact can_change_user_power_level_iff. Qed.
Eval compute in "PA:C20_can_change_user_power_level_iff"%string.
Print Assumptions C20_can_change_user_power_level_iff.

(** Redacting one's own event = sending m.room.redaction (room versions 3-11 have no
    redaction rule of their own). *)
Theorem C20_can_redact_own_iff :
  forall uid_ok sn_ok verify v R cr c p,
  rules_of v = Some R -> 3 <= v -> uid_ok cr = true -> of_content uid_ok c = Some p ->
  levels_readable v c = true ->
  forall actor target tm,
  user_can_redact_own_event p actor
  = auth_check uid_ok sn_ok verify (authorization R) (minimal_event ARedact actor target c)
      (state_of cr c actor target tm)
  /\ (events_plain c = true ->
      user_can_redact_own_event p actor = rules_accept uid_ok sn_ok verify v cr c ARedact actor target tm).
Proof. exact can_redact_own_iff. Qed.
Eval compute in "PA:C20_can_redact_own_iff"%string.
Print Assumptions C20_can_redact_own_iff.

(** m.room.third_party_invite is gated by the invite level (rule 7), not by [events] /
    [state_default]: [user_can_invite] is the helper that answers for it. *)
Theorem C20_third_party_invite_iff :
  forall uid_ok sn_ok verify v R cr c p,
  rules_of v = Some R -> 3 <= v -> uid_ok cr = true -> of_content uid_ok c = Some p ->
  levels_readable v c = true ->
  forall actor target tm sk,
  user_can_invite p actor
  = auth_check uid_ok sn_ok verify (authorization R) (minimal_event (AThirdPartyInvite sk) actor target c)
      (state_of cr c actor target tm)
  /\ (events_plain c = true ->
      user_can_invite p actor
      = rules_accept uid_ok sn_ok verify v cr c (AThirdPartyInvite sk) actor target tm).
Proof. exact third_party_invite_iff. Qed.
Eval compute in "PA:C20_third_party_invite_iff"%string.
Print Assumptions C20_third_party_invite_iff.

(** Room notifications: the helper is the [sender_notification_permission] condition for the
    key [room], evaluated on the context made from the same [RoomPowerLevels] — by C12's model
    of [PushCondition::applies] (for a viewer other than the sender) and by C12's specification. *)
Theorem C20_can_trigger_room_notification_iff :
  forall lowercase regex_fits valid_user_id p actor viewer,
  valid_user_id actor = true ->
  (forall ev : C12.Model.fmap,
     C12.Model.fget_str ev s!"sender" = Some actor -> str_eqb actor viewer = false ->
     C12.Model.cond_applies lowercase regex_fits valid_user_id notify_condition ev
       (notify_ctx viewer (push_ctx_of p))
     = Some (Ok (user_can_trigger_room_notification p actor)))
  /\ (forall ev : C12.Types.pjson,
     C12.Spec.property_str ev s!"sender" = Some actor ->
     C12.Spec.spec_cond lowercase valid_user_id notify_condition ev (notify_ctx viewer (push_ctx_of p))
     = user_can_trigger_room_notification p actor).
Proof. exact can_trigger_room_notification_iff. Qed.
Eval compute in "PA:C20_can_trigger_room_notification_iff"%string.
Print Assumptions C20_can_trigger_room_notification_iff.

(** A user's effective level: what state-res' accessor reads from the event, and what the
    rules define ([users[u]], else [users_default], else 0). *)
Theorem C20_for_user_eq_auth_level :
  forall uid_ok v R cr c p,
  rules_of v = Some R -> 3 <= v -> of_content uid_ok c = Some p -> levels_readable v c = true ->
  forall u,
  ev_user_power_level uid_ok (authorization R) (power_ev cr c) u = Some (for_user p u) /\
  rules_level uid_ok v cr c u = Some (for_user p u).
Proof. exact for_user_eq_auth_level. Qed.
Eval compute in "PA:C20_for_user_eq_auth_level"%string.
Print Assumptions C20_for_user_eq_auth_level.

(** [user_can_do] asks whether the user's level reaches [for_action]; the targeted helpers add
    "the target is strictly below the actor"; [user_can_do_to_user] dispatches to them. *)
Theorem C20_user_can_do_eq_for_action :
  forall p u a, user_can_do p u a = (for_user p u >=? for_action p a)%Z.
Proof. exact user_can_do_level. Qed.
Eval compute in "PA:C20_user_can_do_eq_for_action"%string.
Print Assumptions C20_user_can_do_eq_for_action.

Theorem C20_targeted_helpers :
  forall p a t,
  user_can_ban_user p a t = user_can_ban p a && (for_user p t <? for_user p a)%Z /\
  user_can_kick_user p a t = user_can_kick p a && (for_user p t <? for_user p a)%Z /\
  user_can_unban_user p a t = user_can_unban p a && (for_user p t <? for_user p a)%Z.
Proof. exact targeted_helpers. Qed.
Eval compute in "PA:C20_targeted_helpers"%string.
Print Assumptions C20_targeted_helpers.

(** The defaults ruma-events gives to absent fields (regenerated from the compiled crate) are
    the defaults of the authorization rules; the event-type aliases of the helper enums are
    aliases of [TimelineEventType].  These re-check when ruma's tables change. *)
Theorem C20_defaults_table :
  forallb (fun f => (ddefault f =? field_default f)%Z) all_fields = true
  /\ sub_table message_type_aliases && sub_table state_type_aliases = true.
Proof. split; [exact defaults_table_ok|exact alias_tables_ok]. Qed.
Eval compute in "PA:C20_defaults_table"%string.
Print Assumptions C20_defaults_table.

(** Open finding C20-special-types — the class [plain_type] excludes from
    [C20_can_send_state_iff] is not empty: for the event types the rules treat on their own the
    "send this type" helpers and the rules give different answers (empty content = all
    defaults, a user of level 0; C08.Ids identifier predicates). *)
Theorem C20_special_types_witness :
  plain_type 9 s!"m.room.third_party_invite" = false /\ plain_type 5 s!"m.room.aliases" = false /\
  (forall p, of_content C08.Ids.uid_ok [] = Some p ->
     user_can_send_state p w_alice s!"m.room.third_party_invite" = false /\
     user_can_send_state p w_alice s!"m.room.aliases" = false) /\
  of_content C08.Ids.uid_ok [] <> None /\
  w_model_accepts rules_v9 [] (ASendState s!"m.room.third_party_invite" s!"token") = true /\
  w_rules_accept 9 [] (ASendState s!"m.room.third_party_invite" s!"token") = true /\
  w_model_accepts rules_v5 [] (ASendState s!"m.room.aliases" s!"s1") = true /\
  w_rules_accept 5 [] (ASendState s!"m.room.aliases" s!"s1") = true.
Proof. exact special_types_witness. Qed.
Eval compute in "PA:C20_special_types_witness"%string.
Print Assumptions C20_special_types_witness.
