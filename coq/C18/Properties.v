(** C18.Properties — the theorems that decide the dispatch layer of C18, and nothing else.
    [deser tg ev] is the model of [serde_json::from_str::<Any..Event>] for the target enum [tg]
    on the JSON object [ev], over the dispatch tables generated from ruma's [event_enum!]
    input on every run ([Gen.event_tables]; [all_tables] adds the all-features configuration).
    The content clause of C18 (serialize typed content -> deserialize is a fixpoint, no duplicate
    keys, unknown members ignored, specification-shaped contents accepted) is decided, for the content
    structs whose (de)serialization is plain serde-derive, by the [C18_content_*] theorems at the end:
    they are about the generic derive interpreters of [C18.Serde] run on the schemas the translator
    regenerates from ruma's source ([Gen.SerdeSchemas.content_schemas]); the structs outside that
    subset are listed, with the reason, in [Gen.SerdeSchemas.custom_contents]. *)
From Base Require Import Prelude Sx Json EnumDecl.
From Gen Require Import StringEnums.
From C19 Require Model Spec.
From C18 Require Import Model Spec Bridge Proofs.
From Gen Require SerdeSchemas.
From C18 Require Serde SerdeSpec SerdeProofs SerdeSpecProofs SpecSchemas SerdeBridge SerdeTables.

(** The per-table obligation: in every generated dispatch table no arm can capture a type
    meant for another arm — types and aliases pairwise distinct, no exact type below a `.*`
    prefix (so none is shadowed by a prefix arm, earlier or later), prefixes not nested. *)
Theorem C18_all_tables_wf : forallb table_okb all_tables = true.
Proof. exact all_tables_wf. Qed.
Eval compute in "PA:C18_all_tables_wf"%string.
Print Assumptions C18_all_tables_wf.

(** The variant, the timeline group and the reported type depend on nothing but the `type`
    string (and, for the timeline enums, on whether a `state_key` is present). *)
Theorem C18_dispatch_is_function_of_type :
  forall tg ev ev' o o', deser tg ev = Ok o -> deser tg ev' = Ok o' ->
  lookup k_type ev = lookup k_type ev' -> has_state_key ev = has_state_key ev' ->
  o_group o = o_group o' /\ o_variant o = o_variant o' /\ o_type o = o_type o'.
Proof. exact dispatch_function_of_type. Qed.
Eval compute in "PA:C18_dispatch_is_function_of_type"%string.
Print Assumptions C18_dispatch_is_function_of_type.

(** ... and they are the ones [Spec] demands: the variant dedicated to the type (custom for a
    type the table does not know), [event_type()] = the type up to declared aliases. *)
Theorem C18_variant_meets_spec :
  forall tg ev o, deser tg ev = Ok o ->
  exists ty, lookup k_type ev = Some (JStr ty) /\
    o_variant o = expected_variant (type_table_of (table (kind_of tg (carries_state_key ev)))) ty /\
    o_type o = expected_type (type_table_of (table (kind_of tg (carries_state_key ev)))) ty.
Proof. exact variant_meets_spec. Qed.
Eval compute in "PA:C18_variant_meets_spec"%string.
Print Assumptions C18_variant_meets_spec.

(** Every type (and alias) of every generated table selects its own variant ... *)
Theorem C18_known_type_to_own_variant :
  forall kt i nm v a, In kt all_tables -> nth_error (snd kt) i = Some (nm, v) -> v_kind v = VExact ->
  (a = v_out v \/ In a (v_arms v)) ->
  variant_ident (snd kt) (dispatch (snd kt) a) = nm /\ variant_type (snd kt) (dispatch (snd kt) a) = v_out v.
Proof. intros kt i nm v a H. exact (known_type_own_variant (snd kt) (In_all_tables_wf kt H) i nm v a). Qed.
Eval compute in "PA:C18_known_type_to_own_variant"%string.
Print Assumptions C18_known_type_to_own_variant.

(** ... a `.*` type with any fragment selects its variant and keeps the fragment ... *)
Theorem C18_wildcard_type_to_own_variant :
  forall kt i nm v p suf, In kt all_tables -> nth_error (snd kt) i = Some (nm, v) -> v_kind v = VPrefix ->
  (p = v_out v \/ In p (v_arms v)) ->
  variant_ident (snd kt) (dispatch (snd kt) (p ++ suf)) = nm /\
  variant_type (snd kt) (dispatch (snd kt) (p ++ suf)) = v_out v ++ suf.
Proof. intros kt i nm v p suf H. exact (wildcard_type_own_variant (snd kt) (In_all_tables_wf kt H) i nm v p suf). Qed.
Eval compute in "PA:C18_wildcard_type_to_own_variant"%string.
Print Assumptions C18_wildcard_type_to_own_variant.

(** ... and a type that no arm of the table accepts goes to the custom variant, unaltered. *)
Theorem C18_unknown_type_to_custom :
  forall t ty,
  (forall nm v a, In (nm, v) t -> v_kind v = VExact -> In a (v_arms v) -> a <> ty) ->
  (forall nm v p, In (nm, v) t -> v_kind v = VPrefix -> In p (v_arms v) -> starts_with p ty = false) ->
  variant_ident t (dispatch t ty) = custom_name /\ variant_type t (dispatch t ty) = ty.
Proof. exact unknown_type_custom. Qed.
Eval compute in "PA:C18_unknown_type_to_custom"%string.
Print Assumptions C18_unknown_type_to_custom.

(** The redacted form is selected exactly when `unsigned.redacted_because` is present
    (JSON null counts as absent), for the enums that have a redacted form. *)
Theorem C18_redacted_iff_redacted_because :
  forall tg ev o, deser tg ev = Ok o ->
  o_redacted o = (if maybe_redacted (kind_of tg (carries_state_key ev)) (format_of tg)
                  then (if carries_redacted_because ev then 1 else 0) else 2)%N.
Proof. exact redacted_spec. Qed.
Eval compute in "PA:C18_redacted_iff_redacted_because"%string.
Print Assumptions C18_redacted_iff_redacted_because.

(** The generic accessors return the members of the JSON object; a timeline event is a state
    event exactly when it carries a `state_key`. *)
Theorem C18_accessors_eq_json :
  forall tg ev o, deser tg ev = Ok o ->
  (forall s, o_sender o = Some s -> lookup k_sender ev = Some (JStr s)) /\
  (forall s, o_event_id o = Some s -> lookup k_event_id ev = Some (JStr s)) /\
  (forall s, o_room_id o = Some s -> lookup k_room_id ev = Some (JStr s)) /\
  (forall z, o_ts o = Some z -> lookup k_ts ev = Some (JInt z)) /\
  (forall s, o_state_key o = Some s ->
     lookup k_state_key ev = Some (JStr s) \/ (tg = TInitial /\ lookup k_state_key ev = None /\ s = [])) /\
  (o_group o = s!"State" -> carries_state_key ev = true) /\
  (o_group o = s!"MessageLike" -> carries_state_key ev = false).
Proof. exact accessors_json. Qed.
Eval compute in "PA:C18_accessors_eq_json"%string.
Print Assumptions C18_accessors_eq_json.

(** [Raw]: the stored text is the JSON value's text, byte for byte (only whitespace around the
    value is not part of it). *)
Theorem C18_raw_json_identity :
  forall text,
  match text with c :: _ => is_ws c = false | [] => True end ->
  match rev text with c :: _ => is_ws c = false | [] => True end ->
  raw_json text = text.
Proof. exact raw_json_id. Qed.
Eval compute in "PA:C18_raw_json_identity"%string.
Print Assumptions C18_raw_json_identity.

(** * The content clause, through the derive model *)

(** The per-struct obligations, evaluated on the schemas regenerated from ruma's source: member names
    and aliases of a struct pairwise distinct; every member that can be left out on output
    ([skip_serializing_if]) is re-created on input by the missing-member rule with the very value that
    was skipped; no [Option<Option<_>>] / [Option<Value>]; enum aliases map to canonical spellings. *)
Theorem C18_content_schemas_wf : SerdeBridge.all_wf SerdeSchemas.content_schemas = true.
Proof. exact SerdeTables.content_schemas_wf. Qed.
Eval compute in "PA:C18_content_schemas_wf"%string.
Print Assumptions C18_content_schemas_wf.

(** Every derive schema accepts every value of the specification's schema for its event type (hand
    transcription in [C18.SpecSchemas]): required members are enough, optional ones may be absent,
    types as specified, unknown members anywhere. *)
Theorem C18_content_schemas_meet_spec :
  SerdeBridge.all_compat SpecSchemas.spec_contents SerdeSchemas.content_schemas = true.
Proof. exact SerdeTables.spec_compat. Qed.
Eval compute in "PA:C18_content_schemas_meet_spec"%string.
Print Assumptions C18_content_schemas_meet_spec.

(** Serialize a typed content, deserialize the result: the same typed value, and the text has no
    duplicate keys at any depth - for every content struct of the table, every identifier validator and
    every value the Rust types can hold. *)
Theorem C18_content_roundtrip :
  forall valid k n t v,
  In (k, n, t) SerdeSchemas.content_schemas -> SerdeProofs.ok valid t v ->
  exists j, Serde.ser t v = Some j /\ Serde.deser valid t j = Some v /\ Serde.nodup_deep j = true.
Proof. exact SerdeTables.content_roundtrip. Qed.
Eval compute in "PA:C18_content_roundtrip"%string.
Print Assumptions C18_content_roundtrip.

(** The fixpoint clause: whatever JSON was accepted, printing the typed value and reading it again
    gives the same typed value (no present value changed, none invented), without duplicate keys. *)
Theorem C18_content_fixpoint :
  forall valid k n t j v,
  In (k, n, t) SerdeSchemas.content_schemas -> Serde.nodup_deep j = true -> Serde.deser valid t j = Some v ->
  exists j', Serde.ser t v = Some j' /\ Serde.deser valid t j' = Some v /\ Serde.nodup_deep j' = true.
Proof. exact SerdeTables.content_fixpoint. Qed.
Eval compute in "PA:C18_content_fixpoint"%string.
Print Assumptions C18_content_fixpoint.

(** A struct reads its object through [lookup] on its own member names only: the order of the
    members is irrelevant and ... *)
Theorem C18_content_reads_own_members_only :
  forall valid fs m m',
  (forall k, In k (flat_map SerdeProofs.field_names fs) -> lookup k m = lookup k m') ->
  Serde.deser valid (Serde.TStruct fs) (JObj m) = Serde.deser valid (Serde.TStruct fs) (JObj m').
Proof. exact SerdeProofs.struct_reads_own_names. Qed.
Eval compute in "PA:C18_content_reads_own_members_only"%string.
Print Assumptions C18_content_reads_own_members_only.

(** ... an unknown member never changes the outcome (in particular never causes a failure). *)
Theorem C18_content_unknown_member_ignored :
  forall valid fs m k x,
  ~ In k (flat_map SerdeProofs.field_names fs) ->
  Serde.deser valid (Serde.TStruct fs) (JObj (insert k x m)) = Serde.deser valid (Serde.TStruct fs) (JObj m).
Proof. exact SerdeProofs.unknown_member_ignored. Qed.
Eval compute in "PA:C18_content_unknown_member_ignored"%string.
Print Assumptions C18_content_unknown_member_ignored.

(** Deserialization succeeds for every content shaped as the specification describes (identifiers
    judged by C10's validator models), whatever else the object carries - except member names that only
    ruma knows (aliases, unstable members: [extra_free]). *)
Theorem C18_spec_shaped_content_accepted :
  forall k n s,
  In (k, n, s) SpecSchemas.spec_contents ->
  exists t, In (k, n, t) SerdeSchemas.content_schemas /\
    forall j, SerdeSpec.conforms SerdeBridge.id_valid s j = true -> SerdeSpec.extra_free s t j = true ->
              exists v, Serde.deser SerdeBridge.id_valid t j = Some v.
Proof. exact SerdeTables.spec_shaped_accepted. Qed.
Eval compute in "PA:C18_spec_shaped_content_accepted"%string.
Print Assumptions C18_spec_shaped_content_accepted.
