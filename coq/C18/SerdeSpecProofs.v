(** C18.SerdeSpecProofs — [compat] is sound: every value conforming to the specification schema is
    accepted by the derive model. *)
From Base Require Import Prelude Sx Json.
From C18 Require Import Serde SerdeSpec SerdeProofs.
Require Import Lia ZifyBool ZifyN.

Section SpecProofs.
  Variable valid : N -> str -> bool.
  Hypothesis valid0 : forall s, valid 0 s = true.

  Notation deser := (deser valid).
  Notation conforms := (conforms valid).
  Notation compat := (compat valid).

  Definition conforms_fields (fs : list (str * (bool * sty))) (m : obj) : bool :=
    (fix go (fs : list (str * (bool * sty))) : bool :=
       match fs with
       | [] => true
       | (n, (req, s')) :: r =>
           match lookup n m with Some x => conforms s' x | None => negb req end && go r
       end) fs.

  Lemma conforms_assoc sfs m n req s' :
    conforms_fields sfs m = true -> assoc n sfs = Some (req, s') ->
    match lookup n m with Some x => conforms s' x = true | None => req = false end.
  Proof.
    induction sfs as [|[n' [req' s'']] r IH]; cbn [conforms_fields assoc]; intros H Ha; [discriminate|].
    apply andb_true_iff in H as [H1 H2].
    destruct (str_eqb_spec n n') as [->|Hne].
    - injection Ha as <- <-. destruct (lookup n' m); [exact H1|]. now destruct req'.
    - now apply IH.
  Qed.

  Definition compat_fields (sfs : list (str * (bool * sty))) (fs : list (fmeta * ty)) : bool :=
    (fix go (fs : list (fmeta * ty)) : bool :=
       match fs with
       | [] => true
       | (fm, ft) :: r =>
           match assoc (f_name fm) sfs with
           | Some (req, s') => compat s' ft && (req || optional valid fm ft)
           | None => optional valid fm ft
           end && go r
       end) fs.

  Definition extra_free_fields (sfs : list (str * (bool * sty))) (m : obj) (fs : list (fmeta * ty)) : bool :=
    (fix go (fs : list (fmeta * ty)) : bool :=
       match fs with
       | [] => true
       | (fm, ft) :: r =>
           forallb (fun a => is_none (lookup a m)) (f_aliases fm)
           && match assoc (f_name fm) sfs with
              | Some (_, s') => match lookup (f_name fm) m with Some x => extra_free s' ft x | None => true end
              | None => is_none (lookup (f_name fm) m)
              end
           && go r
       end) fs.

  Lemma optional_default fm ft :
    optional valid fm ft = true ->
    exists v, match f_default fm with
              | DDefault => default_of ft
              | DConst c => deser ft c
              | DRequired => match ft with TOpt _ => Some VNone | _ => None end
              | DStrict => None
              end = Some v.
  Proof.
    unfold optional. destruct (f_default fm).
    - destruct ft; try discriminate. eauto.
    - destruct (default_of ft); [eauto|discriminate].
    - destruct (Serde.deser valid ft c); [eauto|discriminate].
    - discriminate.
  Qed.

  Theorem compat_accepts t : forall s j,
    compat s t = true -> conforms s j = true -> extra_free s t j = true -> exists v, deser t j = Some v.
  Proof.
    induction t as [|c|al| |lo hi|lo hi| |k| |t IH|t IH|c t IH|al t IH|fs IH] using ty_ind'; intros s j Hc Hj He; cbn [SerdeSpec.compat] in Hc.
    - destruct s; try discriminate; destruct j; try discriminate; cbn; eauto.
    - destruct s; try discriminate. apply N.eqb_eq in Hc. subst. destruct j; try discriminate. cbn in Hj. cbn.
      rewrite Hj. eauto.
    - destruct s; try discriminate; destruct j; try discriminate; cbn; eauto.
    - destruct s; try discriminate; destruct j; try discriminate; cbn; eauto.
    - destruct s; try discriminate. destruct j; try discriminate. cbn in Hj. cbn.
      replace ((lo <=? z)%Z && (z <=? hi)%Z) with true by lia. eauto.
    - destruct s; try discriminate. destruct j; try discriminate. cbn in Hj. cbn.
      replace ((lo <=? z)%Z && (z <=? hi)%Z) with true by lia. eauto.
    - cbn. eauto.
    - cbn. eauto.
    - destruct s; try discriminate; destruct j; try discriminate; cbn; eauto.
    - apply andb_true_iff in Hc as [Hna Hc]. cbn [extra_free] in He.
      destruct (IH s j Hc Hj He) as [v Hv]. cbn [Serde.deser].
      destruct j; try (rewrite Hv; cbn; eauto). eauto.
    - destruct s; try discriminate. destruct j; try discriminate. cbn [SerdeSpec.conforms] in Hj. cbn [extra_free] in He.
      change (Serde.deser valid (TVec t) (JArr l)) with (option_map VVec (deser_vec valid t l)).
      assert (G : exists vs, deser_vec valid t l = Some vs).
      { induction l as [|x l IHl]; [exists []; reflexivity|]. cbn [forallb] in Hj, He.
        apply andb_true_iff in Hj as [Hx Hl]. apply andb_true_iff in He as [Ex El].
        destruct (IH s x Hc Hx Ex) as [v Hv]. destruct (IHl Hl El) as [vs Hvs].
        exists (v :: vs). now rewrite deser_vec_cons, Hv, Hvs. }
      destruct G as [vs ->]. cbn. eauto.
    - destruct s; try discriminate. apply andb_true_iff in Hc as [Hcc Hc].
      destruct j; try discriminate. cbn [SerdeSpec.conforms] in Hj. cbn [extra_free] in He.
      change (Serde.deser valid (TMap c t) (JObj m)) with (option_map VMap (deser_map valid c t m)).
      assert (G : exists vs, deser_map valid c t m = Some vs).
      { induction m as [|[k x] m IHm]; [exists []; reflexivity|]. cbn [forallb fst snd] in Hj, He.
        apply andb_true_iff in Hj as [Hx Hm]. apply andb_true_iff in Hx as [Hk Hx]. apply andb_true_iff in He as [Ex Em].
        destruct (IH s x Hc Hx Ex) as [v Hv]. destruct (IHm Hm Em) as [vs Hvs].
        exists ((k, v) :: vs). rewrite deser_map_cons, Hv, Hvs.
        assert (Hvk : valid c k = true).
        { apply orb_true_iff in Hcc as [E|E]; apply N.eqb_eq in E; subst; [exact Hk|apply valid0]. }
        now rewrite Hvk. }
      destruct G as [vs ->]. cbn. eauto.
    - destruct s; try discriminate. destruct j; try discriminate. cbn [SerdeSpec.conforms] in Hj. cbn [extra_free] in He.
      change (Serde.deser valid (TMapEnum al t) (JObj m)) with (option_map VMap (deser_mapenum valid al t m [])).
      assert (G : forall acc, exists vs, deser_mapenum valid al t m acc = Some vs).
      { induction m as [|[k x] m IHm]; intros acc; [exists acc; reflexivity|]. cbn [forallb fst snd] in Hj, He.
        apply andb_true_iff in Hj as [Hx Hm]. apply andb_true_iff in Hx as [_ Hx]. apply andb_true_iff in He as [Ex Em].
        destruct (IH s x Hc Hx Ex) as [v Hv]. rewrite deser_mapenum_cons, Hv. apply IHm; assumption. }
      destruct (G []) as [vs ->]. cbn. eauto.
    - destruct s as [| | | | | | | |sfs]; try discriminate. destruct j; try discriminate.
      apply andb_true_iff in Hc as [_ Hc].
      change (compat_fields sfs fs = true) in Hc.
      change (conforms_fields sfs m = true) in Hj.
      change (extra_free_fields sfs m fs = true) in He.
      rewrite deser_struct.
      assert (G : exists vs, deser_fields valid fs m = Some vs); [|destruct G as [vs ->]; cbn; eauto].
      induction IH as [|[fm ft] r Hft _ IHr]; [exists []; reflexivity|].
      cbn [compat_fields] in Hc. apply andb_true_iff in Hc as [Hcf Hcr].
      cbn [extra_free_fields] in He. apply andb_true_iff in He as [He Her]. apply andb_true_iff in He as [Hal Hef].
      destruct (IHr Hcr Her) as [vs Hvs]. rewrite deser_fields_cons, Hvs. cbn [snd] in Hft.
      assert (G : exists v, field_value valid fm ft m = Some v); [|destruct G as [v ->]; eauto].
      unfold field_value. rewrite find_aliases_cons.
      assert (Hno : find_aliases (f_aliases fm) m = []).
      { apply find_aliases_none. intros a Ha. rewrite forallb_forall in Hal. specialize (Hal a Ha).
        destruct (lookup a m); [discriminate|reflexivity]. }
      rewrite Hno.
      destruct (assoc (f_name fm) sfs) as [[req s']|] eqn:Ea.
      + apply andb_true_iff in Hcf as [Hcs Hopt].
        pose proof (conforms_assoc _ _ _ _ _ Hj Ea) as Hl.
        destruct (lookup (f_name fm) m) as [x|].
        * eapply Hft; eauto.
        * subst req. cbn [orb] in Hopt. now apply optional_default.
      + destruct (lookup (f_name fm) m); [discriminate|]. now apply optional_default.
  Qed.
End SpecProofs.
