(** C18.Run — case decoding, model run, and the [Spec] predicates evaluated on the
    implementation's outcome (the failing-input search).  Cases: see harness/src/c18.rs. *)
From Base Require Import Prelude Sx Json JsonText EnumDecl.
From Gen Require Import StringEnums SerdeSchemas.
From C19 Require Spec.
From C18 Require Import Model Spec Bridge.
From C18 Require Serde SerdeSpec SpecSchemas SerdeBridge.

Definition targets : list (str * target) :=
  [ (s!"AnyTimelineEvent", TTimeline); (s!"AnySyncTimelineEvent", TSyncTimeline);
    (s!"AnyMessageLikeEvent", TMessageLike); (s!"AnySyncMessageLikeEvent", TSyncMessageLike);
    (s!"AnyStateEvent", TState); (s!"AnySyncStateEvent", TSyncState);
    (s!"AnyStrippedStateEvent", TStripped); (s!"AnyInitialStateEvent", TInitial);
    (s!"AnyToDeviceEvent", TToDevice); (s!"AnyEphemeralRoomEvent", TEphemeral);
    (s!"AnySyncEphemeralRoomEvent", TSyncEphemeral); (s!"AnyGlobalAccountDataEvent", TGlobalAccountData);
    (s!"AnyRoomAccountDataEvent", TRoomAccountData) ].

Definition sx_ostr (o : option str) : sx := sx_opt SS o.

Definition sx_obs (o : observation) : sx :=
  SL [ SS (o_group o); SS (o_variant o); sx_N (o_redacted o); SS (o_type o);
       sx_ostr (o_sender o); sx_ostr (o_event_id o); sx_opt SN (o_ts o); sx_ostr (o_room_id o);
       sx_ostr (o_state_key o); sx_bool true ].

Definition all_true (n : nat) : sx := SL (List.repeat (SN 1) n).

(** * The specification evaluated on what the implementation returned *)
Definition as_ostr (x : sx) : option (option str) := as_opt as_str x.

Definition spec_event (tg : target) (ev : obj) (shaped : bool) (impl : sx) : bool :=
  match impl with
  | SL [SN 0; SL [SS group; SS variant; SN red; SS ty; sender; event_id; ts; room_id; state_key; order_ok]] =>
      match json_str s!"type" ev, as_ostr sender, as_ostr event_id, as_ostr room_id, as_ostr state_key with
      | Some jty, Some sender, Some event_id, Some room_id, Some state_key =>
          let sk := carries_state_key ev in
          let t := type_table_of (table (kind_of tg sk)) in
          str_eqb variant (expected_variant t jty)                 (* variant dedicated to the type / custom *)
          && str_eqb ty (expected_type t jty)                      (* event_type() = type up to aliases *)
          && str_eqb group (group_of tg sk)                        (* state iff state_key present *)
          && (if maybe_redacted (kind_of tg sk) (format_of tg)
              then (red =? (if carries_redacted_because ev then 1 else 0))%Z
              else (red =? 2)%Z)                                   (* redacted iff redacted_because *)
          && accessor_ok sender s!"sender" ev
          && accessor_ok event_id s!"event_id" ev
          && accessor_ok room_id s!"room_id" ev
          && (match state_key with
              | Some s => opt_str_eqb (Some s) (json_str s!"state_key" ev)
                          || (match tg, lookup s!"state_key" ev, s with TInitial, None, [] => true | _, _, _ => false end)
              | None => true
              end)
          && (match ts with
              | SL [] => true
              | SL [SN z] => match json_int s!"origin_server_ts" ev with Some z' => (z =? z')%Z | None => false end
              | _ => false
              end)
          && (match order_ok with SN 1 => true | _ => false end)   (* key order irrelevant *)
      | _, _, _, _, _ => false
      end
  | SL [SN 1; SN 0] => negb shaped       (* rejected (consistently): only allowed for input that is not spec-shaped *)
  | _ => false                           (* a panic, or acceptance depending on key order *)
  end.

(** * The content clause through the derive model (case kind 4) *)

(** the specification evaluated on the implementation's outcome: a content that conforms to the
    specification's schema (and uses no ruma-only member name) must be accepted; what was accepted
    must print without duplicate keys and read back as the same typed value *)
Definition spec_schema_case (kind ty : str) (t : Serde.ty) (j : json) (impl : sx) : bool :=
  let must_accept :=
    match SerdeBridge.find_schema kind ty SpecSchemas.spec_contents with
    | Some s => SerdeSpec.conforms SerdeBridge.id_valid s j && SerdeSpec.extra_free s t j
    | None => false
    end in
  match impl with
  | SL [SN 0; SS text] => SerdeBridge.reread_ok t j text
  | SL [SN 1; SN _] => negb must_accept
  | _ => false
  end.

Definition run (x : sx) : sx :=
  match x with
  | SL [SL [SN 0; SS tname; ev; shaped; _perm]; impl] =>
      match assoc_str tname targets, obj_of_sx ev, as_bool shaped with
      | Some tg, Some ev, Some shaped =>
          SL [sx_outcome sx_obs (deser tg ev); sx_bool (spec_event tg ev shaped impl)]
      | _, _, _ => sx_bad
      end
  | SL [SL [SN 1; SS _kind; SS _ty; _full; _hard; _perm]; impl] =>
      (* content clause: not modelled — the expected outcome is "accepted, fixpoint, no duplicate
         keys, present values preserved, key order irrelevant" *)
      let expect := SL [SN 0; all_true 5] in
      SL [expect; sx_bool (match impl with SL [SN 0; SL [SN 1; SN 1; SN 1; SN 1; SN 1]] => true | _ => false end)]
  | SL [SL [SN 2; SS text; SS _field]; impl] =>
      let expect := SL [SN 0; SL [SS (raw_json text); SN 1; SN 1]] in
      SL [expect; sx_bool (match impl with
                           | SL [SN 0; SL [SS stored; SN 1; SN 1]] => str_eqb stored (raw_json text)
                           | _ => false
                           end)]
  | SL [SL [SN 4; SS kind; SS ty; content]; impl] =>
      match json_of_sx content, SerdeBridge.find_schema kind ty content_schemas with
      | Some j, Some t => SL [SerdeBridge.model_schema_case t j; sx_bool (spec_schema_case kind ty t j impl)]
      | _, _ => sx_bad
      end
  | SL [SL [SN 3; SS _t; SS _text]; impl] =>
      SL [SL [SN 0; SL []]; sx_bool (match impl with SL [SN 2] => false | _ => true end)]
  | _ => sx_bad
  end.
