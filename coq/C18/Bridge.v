(** C18.Bridge — the type table (of [Spec]) a generated dispatch table stands for, and the
    C19 declaration with the same arms (so that the C19 theorems apply to the dispatch). *)
From Base Require Import Prelude Json EnumDecl.
From C19 Require Model Spec Bridge.
From C18 Require Import Model Spec.

Fixpoint type_table_go (t : list (str * variant)) (i : nat) : type_table :=
  match t with
  | [] => []
  | (n, v) :: r =>
      match v_kind v with
      | VFallback => type_table_go r (S i)
      | k => {| te_ident := n;
                te_spelling := {| C19.Spec.sp_index := i; C19.Spec.sp_canon := v_out v;
                                  C19.Spec.sp_aliases := v_arms v;
                                  C19.Spec.sp_wild := C19.Model.vkind_eqb k VPrefix |} |}
              :: type_table_go r (S i)
      end
  end.

Definition type_table_of (t : list (str * variant)) : type_table := type_table_go t 0.

Definition decl_of_table (t : list (str * variant)) : decl :=
  {| d_name := []; d_variants := List.map snd t; d_eq := NoImpl; d_ord := NoImpl |}.

(** the kind (and format) whose table a target dispatches on, given whether the event has a state key *)
Definition kind_of (tg : target) (state_key : bool) : ekind :=
  match tg with
  | TTimeline | TSyncTimeline => if state_key then KState else KMessageLike
  | TMessageLike | TSyncMessageLike => KMessageLike
  | TState | TSyncState | TStripped | TInitial => KState
  | TToDevice => KToDevice
  | TEphemeral | TSyncEphemeral => KEphemeral
  | TGlobalAccountData => KGlobalAccountData
  | TRoomAccountData => KRoomAccountData
  end.

Definition format_of (tg : target) : eformat :=
  match tg with
  | TTimeline | TMessageLike | TState | TEphemeral => FFull
  | TSyncTimeline | TSyncMessageLike | TSyncState | TSyncEphemeral => FSync
  | TStripped => FStripped
  | TInitial => FInitial
  | TToDevice | TGlobalAccountData | TRoomAccountData => FPlain
  end.

Definition group_of (tg : target) (state_key : bool) : str :=
  match tg with
  | TTimeline | TSyncTimeline => if state_key then s!"State" else s!"MessageLike"
  | _ => []
  end.
