(** C18.Proofs — the dispatch layer meets [Spec]: generic lemmas over any dispatch table whose
    arms satisfy C19's decidable side condition, discharged on the generated tables by
    computation. *)
From Base Require Import Prelude Sx Json EnumDecl.
From Gen Require Import StringEnums.
From C19 Require Model Spec Bridge Proofs.
From C18 Require Import Model Spec Bridge.
Local Open Scope nat_scope.

Module M19 := C19.Model.
Module S19 := C19.Spec.
Module P19 := C19.Proofs.

(** * [deser_kind] and [deser], opened up *)

Lemma deser_target tables tg ev :
  deser_in tables tg ev =
  deser_kind tables (group_of tg (has_state_key ev)) (kind_of tg (has_state_key ev)) (format_of tg) ev.
Proof. destruct tg; cbn [deser_in group_of kind_of format_of]; try reflexivity; destruct (has_state_key ev); reflexivity. Qed.

Definition field_spec (need : bool) (k : str) (ev : obj) (got : option str) : Prop :=
  if need then exists s, got = Some s /\ lookup k ev = Some (JStr s) else got = None.

Lemma get_str_ok k ev s : get_str k ev = Ok s -> lookup k ev = Some (JStr s).
Proof. unfold get_str. destruct (lookup k ev) as [[]|]; try discriminate. intros E; inversion E; reflexivity. Qed.

Lemma opt_field_spec need k ev got : opt_field need k ev = Ok got -> field_spec need k ev got.
Proof.
  unfold opt_field, field_spec. destruct need.
  - destruct (get_str k ev) as [s| |] eqn:E; cbn [obind]; try discriminate.
    intros H; inversion H; subst. exists s. split; [reflexivity|now apply get_str_ok].
  - intros H; now inversion H.
Qed.

Lemma deser_kind_ok tables g k f ev o :
  deser_kind tables g k f ev = Ok o ->
  exists ty red,
    lookup k_type ev = Some (JStr ty) /\
    (if maybe_redacted k f then redaction_state ev = Ok red else red = false) /\
    o_group o = g /\
    o_variant o = variant_ident (table_in tables k) (dispatch (table_in tables k) ty) /\
    o_type o = variant_type (table_in tables k) (dispatch (table_in tables k) ty) /\
    o_redacted o = (if maybe_redacted k f then (if red then 1 else 0) else 2)%N /\
    field_spec (has_sender k f) k_sender ev (o_sender o) /\
    field_spec (has_ids k f) k_event_id ev (o_event_id o) /\
    field_spec (has_room_id k f) k_room_id ev (o_room_id o) /\
    (if has_ids k f then exists z, o_ts o = Some z /\ lookup k_ts ev = Some (JInt z) else o_ts o = None) /\
    (if has_state_key_field k then
       exists s, o_state_key o = Some s /\
                 (lookup k_state_key ev = Some (JStr s) \/ (f = FInitial /\ lookup k_state_key ev = None /\ s = []))
     else o_state_key o = None).
Proof.
  unfold deser_kind.
  destruct (get_str k_type ev) as [ty| |] eqn:Ety; cbn [obind]; try discriminate.
  destruct (if maybe_redacted k f then redaction_state ev else Ok false) as [red| |] eqn:Ered; cbn [obind]; try discriminate.
  destruct (negb match lookup k_content ev with Some _ => true | None => false end); [discriminate|].
  destruct (maybe_redacted k f && negb (unsigned_ok red ev)); [discriminate|].
  destruct (opt_field (has_sender k f) k_sender ev) as [sender| |] eqn:Es; cbn [obind]; try discriminate.
  destruct (opt_field (has_ids k f) k_event_id ev) as [eid| |] eqn:Ee; cbn [obind]; try discriminate.
  destruct (if has_ids k f then obind (get_ts ev) (fun z => Ok (Some z)) else Ok None) as [ts| |] eqn:Et;
    cbn [obind]; try discriminate.
  destruct (opt_field (has_room_id k f) k_room_id ev) as [rid| |] eqn:Er; cbn [obind]; try discriminate.
  match goal with |- obind ?X _ = _ -> _ => destruct X as [sk| |] eqn:Ek end; cbn [obind]; try discriminate.
  intros H; inversion H; subst o; clear H. cbn [o_group o_variant o_type o_redacted o_sender o_event_id o_ts o_room_id o_state_key].
  exists ty, red. split; [now apply get_str_ok|].
  split; [destruct (maybe_redacted k f); [exact Ered|now inversion Ered]|].
  repeat (split; [reflexivity|]).
  split; [now apply opt_field_spec|]. split; [now apply opt_field_spec|]. split; [now apply opt_field_spec|].
  split.
  - destruct (has_ids k f); [|now inversion Et].
    unfold get_ts in Et. destruct (lookup k_ts ev) as [[]|]; cbn [obind] in Et; try discriminate.
    destruct ((0 <=? z)%Z && (z <=? max_uint)%Z); cbn [obind] in Et; try discriminate.
    inversion Et; subst. exists z. auto.
  - destruct (has_state_key_field k); [|now inversion Ek].
    destruct f; try (destruct (get_str k_state_key ev) as [s| |] eqn:E; cbn [obind] in Ek; try discriminate;
                     inversion Ek; subst; exists s; split; [reflexivity|left; now apply get_str_ok]).
    destruct (lookup k_state_key ev) eqn:L.
    + destruct (get_str k_state_key ev) as [s| |] eqn:E; cbn [obind] in Ek; try discriminate.
      inversion Ek; subst. exists s. split; [reflexivity|]. left. rewrite <- L. now apply get_str_ok.
    + inversion Ek; subst. exists []. split; [reflexivity|]. right. auto.
Qed.

(** * Dispatch, through C19's theorems *)

Lemma dispatch_from_str t ty : dispatch t ty = M19.from_str (decl_of_table t) ty.
Proof. reflexivity. Qed.

Lemma variant_type_as_str t v : variant_type t v = M19.as_str (decl_of_table t) v.
Proof.
  unfold variant_type, M19.as_str, decl_of_table. cbn [d_variants].
  destruct v as [i|i suf|s]; try reflexivity; rewrite nth_error_map; destruct (nth_error t i) as [[n x]|]; reflexivity.
Qed.

Lemma spellings_table_go t : forall n, spellings (type_table_go t n) = C19.Bridge.table_go (List.map snd t) n.
Proof.
  induction t as [|[nm v] r IH]; intros n; cbn [type_table_go List.map snd C19.Bridge.table_go]; [reflexivity|].
  destruct (v_kind v); cbn [spellings List.map te_spelling]; fold (spellings (type_table_go r (S n))); now rewrite IH.
Qed.

Lemma spellings_table_of t : spellings (type_table_of t) = C19.Bridge.table_of (decl_of_table t).
Proof. apply spellings_table_go. Qed.

Lemma ident_of_go t : forall n i nm v, n <= i -> nth_error t (i - n) = Some (nm, v) -> v_kind v <> VFallback ->
  ident_of (type_table_go t n) i = Some nm.
Proof.
  induction t as [|[nm0 v0] r IH]; intros n i nm v Hle Hn Hk; [destruct (i - n); discriminate|].
  cbn [type_table_go].
  destruct (Nat.eq_dec i n) as [->|Hne].
  - rewrite Nat.sub_diag in Hn. cbn [nth_error] in Hn. inversion Hn; subst.
    destruct (v_kind v) eqn:Ek; try congruence; cbn [ident_of te_spelling S19.sp_index te_ident]; now rewrite Nat.eqb_refl.
  - assert (Hn' : nth_error r (i - S n) = Some (nm, v)).
    { replace (i - n) with (S (i - S n)) in Hn by lia. exact Hn. }
    assert (Hrec : ident_of (type_table_go r (S n)) i = Some nm) by (apply (IH (S n) i nm v); [lia|exact Hn'|exact Hk]).
    destruct (v_kind v0); cbn [ident_of te_spelling S19.sp_index te_ident]; try exact Hrec;
      destruct (Nat.eqb_spec n i); try lia; exact Hrec.
Qed.

Section Table.
Variable t : list (str * variant).
Hypothesis W : P19.wf_decl (decl_of_table t).

(** [event_type()] is the JSON type up to declared aliases; the variant is the dedicated one *)
Lemma dispatch_meets_spec ty :
  variant_type t (dispatch t ty) = expected_type (type_table_of t) ty /\
  variant_ident t (dispatch t ty) = expected_variant (type_table_of t) ty.
Proof.
  split.
  - rewrite variant_type_as_str, dispatch_from_str. unfold expected_type. rewrite spellings_table_of.
    exact (P19.roundtrip _ W ty).
  - unfold expected_variant, S19.dedicated. rewrite spellings_table_of, dispatch_from_str.
    pose proof (P19.from_str_spec _ W ty) as H.
    destruct (M19.from_str (decl_of_table t) ty) as [i|i suf|s]; cbn [variant_ident].
    + destruct H as (e & v & -> & Hi & Hn & Hk & _). rewrite Hi.
      unfold decl_of_table in Hn. cbn [d_variants] in Hn. rewrite nth_error_map in Hn.
      destruct (nth_error t i) as [[nm x]|] eqn:En; [|discriminate]. cbn in Hn. inversion Hn; subst x.
      unfold type_table_of. rewrite (ident_of_go t 0 i nm v); [reflexivity|lia|now rewrite Nat.sub_0_r|congruence].
    + destruct H as (-> & e & v & -> & Hi & Hn & Hk & _). rewrite Hi.
      unfold decl_of_table in Hn. cbn [d_variants] in Hn. rewrite nth_error_map in Hn.
      destruct (nth_error t i) as [[nm x]|] eqn:En; [|discriminate]. cbn in Hn. inversion Hn; subst x.
      unfold type_table_of. rewrite (ident_of_go t 0 i nm v); [reflexivity|lia|now rewrite Nat.sub_0_r|congruence].
    + destruct H as (_ & -> & ->). reflexivity.
Qed.

(** every declared type (or alias) of an entry selects that entry's variant *)
Lemma known_type_own_variant i nm v a :
  nth_error t i = Some (nm, v) -> v_kind v = VExact -> (a = v_out v \/ In a (v_arms v)) ->
  variant_ident t (dispatch t a) = nm /\ variant_type t (dispatch t a) = v_out v.
Proof.
  intros Hn Hk Ha.
  assert (Hn' : nth_error (d_variants (decl_of_table t)) i = Some v).
  { unfold decl_of_table. cbn [d_variants]. rewrite nth_error_map, Hn. reflexivity. }
  destruct (P19.own_variant _ W i v a Hn' Hk Ha) as [F _].
  rewrite dispatch_from_str, F. cbn [variant_ident variant_type]. now rewrite Hn.
Qed.

Lemma wildcard_type_own_variant i nm v p suf :
  nth_error t i = Some (nm, v) -> v_kind v = VPrefix -> (p = v_out v \/ In p (v_arms v)) ->
  variant_ident t (dispatch t (p ++ suf)) = nm /\ variant_type t (dispatch t (p ++ suf)) = v_out v ++ suf.
Proof.
  intros Hn Hk Hp.
  assert (Hn' : nth_error (d_variants (decl_of_table t)) i = Some v).
  { unfold decl_of_table. cbn [d_variants]. rewrite nth_error_map, Hn. reflexivity. }
  destruct (P19.wildcard_keeps_suffix _ W i v p suf Hn' Hk Hp) as [F _].
  rewrite dispatch_from_str, F. cbn [variant_ident variant_type]. now rewrite Hn.
Qed.
End Table.

(** a type no arm accepts goes to the custom variant and keeps its string (no side condition) *)
Lemma match_arms_none l s :
  (forall a i, In (VExact, a, i) l -> a <> s) ->
  (forall p i, In (VPrefix, p, i) l -> starts_with p s = false) ->
  M19.match_arms l s = M19.VCustom s.
Proof.
  induction l as [|[[k a] i] r IH]; intros HE HP; cbn [M19.match_arms]; [reflexivity|].
  assert (IH' : M19.match_arms r s = M19.VCustom s).
  { apply IH; [intros a0 i0 H; apply (HE a0 i0); now right|intros p0 i0 H; apply (HP p0 i0); now right]. }
  destruct k.
  - dse s a; [exfalso; exact (HE a i (or_introl eq_refl) eq_refl)|exact IH'].
  - rewrite (HP a i (or_introl eq_refl)). exact IH'.
  - exact IH'.
Qed.

Lemma unknown_type_custom t ty :
  (forall nm v a, In (nm, v) t -> v_kind v = VExact -> In a (v_arms v) -> a <> ty) ->
  (forall nm v p, In (nm, v) t -> v_kind v = VPrefix -> In p (v_arms v) -> starts_with p ty = false) ->
  variant_ident t (dispatch t ty) = custom_name /\ variant_type t (dispatch t ty) = ty.
Proof.
  intros HE HP. unfold dispatch. rewrite match_arms_none; [split; reflexivity| |].
  - intros a i Hin. apply P19.flat_arms_In in Hin as (v & Hn & _ & Hk & _ & Ha).
    rewrite nth_error_map in Hn. destruct (nth_error t (i - 0)) as [[nm x]|] eqn:En; [|discriminate].
    cbn in Hn. inversion Hn; subst x. apply (HE nm v a); auto. eapply nth_error_In; eassumption.
  - intros p i Hin. apply P19.flat_arms_In in Hin as (v & Hn & _ & Hk & _ & Ha).
    rewrite nth_error_map in Hn. destruct (nth_error t (i - 0)) as [[nm x]|] eqn:En; [|discriminate].
    cbn in Hn. inversion Hn; subst x. apply (HP nm v p); auto. eapply nth_error_In; eassumption.
Qed.

(** * Redaction detection *)
Lemma redaction_state_spec ev red : redaction_state ev = Ok red -> red = carries_redacted_because ev.
Proof.
  unfold redaction_state, carries_redacted_because. fold k_unsigned k_redacted_because.
  destruct (lookup k_unsigned ev) as [[| | | | |u]|]; try discriminate; try (intros H; now inversion H).
  destruct (lookup k_redacted_because u) as [[]|]; intros H; now inversion H.
Qed.

(** * [Raw] *)
Lemma trim_left_id s : match s with c :: _ => is_ws c = false | [] => True end -> trim_left s = s.
Proof. destruct s as [|c r]; [reflexivity|]. cbn [trim_left]. now intros ->. Qed.

Lemma raw_json_id text :
  match text with c :: _ => is_ws c = false | [] => True end ->
  match rev text with c :: _ => is_ws c = false | [] => True end ->
  raw_json text = text.
Proof.
  intros H1 H2. unfold raw_json, trim. rewrite (trim_left_id text H1), (trim_left_id (rev text) H2).
  apply rev_involutive.
Qed.

(** * The obligation on the generated tables *)
Definition all_tables : list (str * list (str * variant)) := event_tables ++ event_tables_all_features.

Definition table_okb (kt : str * list (str * variant)) : bool := M19.wf_declb (decl_of_table (snd kt)).

Lemma all_tables_wf : forallb table_okb all_tables = true.
Proof. vm_compute. reflexivity. Qed.

Lemma table_in_wf tables k : forallb table_okb tables = true -> P19.wf_decl (decl_of_table (table_in tables k)).
Proof.
  intros H. unfold table_in.
  assert (G : forall l, forallb table_okb l = true ->
              P19.wf_decl (decl_of_table match assoc_str (kind_name k) l with Some t => t | None => [] end)).
  { induction l as [|[k' t'] r IH]; cbn [assoc_str forallb]; intros A; [reflexivity|].
    apply andb_true_iff in A as [A1 A2]. destruct (str_eqb (kind_name k) k'); [exact A1|now apply IH]. }
  now apply G.
Qed.

Lemma forallb_app_l {A} (f : A -> bool) l1 l2 : forallb f (l1 ++ l2) = true -> forallb f l1 = true.
Proof. rewrite forallb_app. intros H. now apply andb_true_iff in H as [H _]. Qed.

Lemma forallb_app_r {A} (f : A -> bool) l1 l2 : forallb f (l1 ++ l2) = true -> forallb f l2 = true.
Proof. rewrite forallb_app. intros H. now apply andb_true_iff in H as [_ H]. Qed.

(** * The final statements *)

Lemma field_spec_json need k ev got s : field_spec need k ev got -> got = Some s -> lookup k ev = Some (JStr s).
Proof. unfold field_spec. destruct need; [|congruence]. intros (s' & -> & L) E. now inversion E; subst. Qed.

Lemma deser_ok tg ev o : deser tg ev = Ok o ->
  let k := kind_of tg (has_state_key ev) in let f := format_of tg in
  exists ty, lookup k_type ev = Some (JStr ty) /\
    o_group o = group_of tg (has_state_key ev) /\
    o_variant o = variant_ident (table k) (dispatch (table k) ty) /\
    o_type o = variant_type (table k) (dispatch (table k) ty) /\
    o_redacted o = (if maybe_redacted k f then (if carries_redacted_because ev then 1 else 0) else 2)%N /\
    field_spec (has_sender k f) k_sender ev (o_sender o) /\
    field_spec (has_ids k f) k_event_id ev (o_event_id o) /\
    field_spec (has_room_id k f) k_room_id ev (o_room_id o) /\
    (if has_ids k f then exists z, o_ts o = Some z /\ lookup k_ts ev = Some (JInt z) else o_ts o = None) /\
    (if has_state_key_field k then
       exists s, o_state_key o = Some s /\
                 (lookup k_state_key ev = Some (JStr s) \/ (f = FInitial /\ lookup k_state_key ev = None /\ s = []))
     else o_state_key o = None).
Proof.
  unfold deser. rewrite deser_target. intros H. apply deser_kind_ok in H as (ty & red & H1 & H2 & H3 & H4 & H5 & H6 & H7).
  exists ty. split; [exact H1|]. split; [exact H3|]. split; [exact H4|]. split; [exact H5|]. split; [|exact H7].
  rewrite H6. destruct (maybe_redacted _ _); [|reflexivity]. apply redaction_state_spec in H2. now subst red.
Qed.

Lemma dispatch_function_of_type tg ev ev' o o' :
  deser tg ev = Ok o -> deser tg ev' = Ok o' ->
  lookup k_type ev = lookup k_type ev' -> has_state_key ev = has_state_key ev' ->
  o_group o = o_group o' /\ o_variant o = o_variant o' /\ o_type o = o_type o'.
Proof.
  intros H H' Et Es. apply deser_ok in H as (ty & T & G & V & Y & _). apply deser_ok in H' as (ty' & T' & G' & V' & Y' & _).
  rewrite Es in *. rewrite Et in T. rewrite T in T'. inversion T'; subst ty'.
  rewrite G, G', V, V', Y, Y'. auto.
Qed.

Lemma variant_meets_spec tg ev o : deser tg ev = Ok o ->
  exists ty, lookup k_type ev = Some (JStr ty) /\
    o_variant o = expected_variant (type_table_of (table (kind_of tg (carries_state_key ev)))) ty /\
    o_type o = expected_type (type_table_of (table (kind_of tg (carries_state_key ev)))) ty.
Proof.
  intros H. apply deser_ok in H as (ty & T & _ & V & Y & _). exists ty. split; [exact T|].
  change (carries_state_key ev) with (has_state_key ev).
  assert (W : P19.wf_decl (decl_of_table (table (kind_of tg (has_state_key ev))))).
  { apply table_in_wf. exact (forallb_app_l _ _ _ all_tables_wf). }
  destruct (dispatch_meets_spec _ W ty) as [A B]. rewrite V, Y. auto.
Qed.

Lemma In_all_tables_wf kt : In kt all_tables -> P19.wf_decl (decl_of_table (snd kt)).
Proof. intros H. pose proof all_tables_wf as A. rewrite forallb_forall in A. exact (A kt H). Qed.

Lemma redacted_spec tg ev o : deser tg ev = Ok o ->
  o_redacted o = (if maybe_redacted (kind_of tg (carries_state_key ev)) (format_of tg)
                  then (if carries_redacted_because ev then 1 else 0) else 2)%N.
Proof. intros H. apply deser_ok in H as (ty & _ & _ & _ & _ & R & _). exact R. Qed.

Lemma accessors_json tg ev o : deser tg ev = Ok o ->
  (forall s, o_sender o = Some s -> lookup k_sender ev = Some (JStr s)) /\
  (forall s, o_event_id o = Some s -> lookup k_event_id ev = Some (JStr s)) /\
  (forall s, o_room_id o = Some s -> lookup k_room_id ev = Some (JStr s)) /\
  (forall z, o_ts o = Some z -> lookup k_ts ev = Some (JInt z)) /\
  (forall s, o_state_key o = Some s ->
     lookup k_state_key ev = Some (JStr s) \/ (tg = TInitial /\ lookup k_state_key ev = None /\ s = [])) /\
  (o_group o = s!"State" -> carries_state_key ev = true) /\
  (o_group o = s!"MessageLike" -> carries_state_key ev = false).
Proof.
  intros H. apply deser_ok in H as (ty & _ & G & _ & _ & _ & S & E & R & T & K).
  split; [intros s; now apply field_spec_json with (1 := S)|].
  split; [intros s; now apply field_spec_json with (1 := E)|].
  split; [intros s; now apply field_spec_json with (1 := R)|].
  split.
  { intros z Hz. destruct (has_ids _ _); [|congruence]. destruct T as (z' & E1 & E2). rewrite E1 in Hz. now inversion Hz; subst. }
  split.
  { intros s Hs. destruct (has_state_key_field _); [|congruence]. destruct K as (s' & E1 & E2). rewrite E1 in Hs. inversion Hs; subst s'.
    destruct E2 as [E2|(F & E2 & E3)]; [now left|]. right. split; [|auto]. destruct tg; cbn in F; congruence. }
  change (carries_state_key ev) with (has_state_key ev). rewrite G.
  split; destruct tg; cbn [group_of]; destruct (has_state_key ev); try reflexivity; intros X; try discriminate X;
    vm_compute in X; discriminate X.
Qed.
