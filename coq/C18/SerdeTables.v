(** C18.SerdeTables — the generic derive theorems applied to the tables: the derive schemas the
    translator regenerates from ruma's source ([Gen.SerdeSchemas]) satisfy [wf_ty], and each is
    compatible with the specification's schema of its event type ([C18.SpecSchemas]).  These two
    computations are the obligations that are re-checked whenever a content struct changes. *)
From Base Require Import Prelude Sx Json.
From Gen Require Import SerdeSchemas.
From C18 Require Import Serde SerdeSpec SerdeProofs SerdeSpecProofs SpecSchemas SerdeBridge.

Lemma content_schemas_wf : all_wf content_schemas = true.
Proof. vm_compute. reflexivity. Qed.

Lemma spec_compat : all_compat spec_contents content_schemas = true.
Proof. vm_compute. reflexivity. Qed.

Lemma schema_wf k n t : In (k, n, t) content_schemas -> wf_ty t = true.
Proof.
  intros H. pose proof content_schemas_wf as W. unfold all_wf in W. rewrite forallb_forall in W.
  exact (W _ H).
Qed.

Lemma content_roundtrip valid k n t v :
  In (k, n, t) content_schemas -> ok valid t v ->
  exists j, ser t v = Some j /\ deser valid t j = Some v /\ nodup_deep j = true.
Proof.
  intros Hin Hok. pose proof (schema_wf _ _ _ Hin) as W.
  destruct (roundtrip valid t W v Hok) as (j & E & D). exists j. repeat split; auto.
  eapply ser_nodup; eauto.
Qed.

Lemma content_fixpoint valid k n t j v :
  In (k, n, t) content_schemas -> nodup_deep j = true -> deser valid t j = Some v ->
  exists j', ser t v = Some j' /\ deser valid t j' = Some v /\ nodup_deep j' = true.
Proof.
  intros Hin Hj H. apply (content_roundtrip valid k n t v Hin).
  eapply deser_ok; eauto using schema_wf.
Qed.

Lemma spec_shaped_accepted k n s :
  In (k, n, s) spec_contents ->
  exists t, In (k, n, t) content_schemas /\
    forall j, conforms id_valid s j = true -> extra_free s t j = true -> exists v, deser id_valid t j = Some v.
Proof.
  intros Hin. pose proof spec_compat as C. unfold all_compat in C. rewrite forallb_forall in C.
  specialize (C _ Hin). cbn [spec_covered] in C.
  destruct (find_schema k n content_schemas) as [t|] eqn:E; [|discriminate].
  exists t. split; [now apply find_schema_In|]. intros j Hc He.
  eapply compat_accepts; eauto using id_valid0.
Qed.
