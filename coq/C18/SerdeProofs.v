(** C18.SerdeProofs — the derive model of [C18.Serde] round-trips, yields no duplicate keys, ignores
    unknown members, reads an object through [lookup] only, and accepts every value of a compatible
    specification schema.  Generic in the schema; the side conditions [wf_ty] / [compat] are
    booleans that [C18.Properties] evaluates on the tables the translator regenerates. *)
From Base Require Import Prelude Sx Json.
From C18 Require Import Serde.
Require Import Lia ZifyBool.

(** * Induction principles for the nested types *)
Section TyInd.
  Variable P : ty -> Prop.
  Hypothesis Hstr : P TStr.
  Hypothesis Hid : forall c, P (TId c).
  Hypothesis Henum : forall al, P (TEnum al).
  Hypothesis Hbool : P TBool.
  Hypothesis Hint : forall lo hi, P (TInt lo hi).
  Hypothesis Hintlax : forall lo hi, P (TIntLax lo hi).
  Hypothesis Hany : P TAny.
  Hypothesis Hconst : forall c, P (TConst c).
  Hypothesis Hobjany : P TObjAny.
  Hypothesis Hopt : forall t, P t -> P (TOpt t).
  Hypothesis Hvec : forall t, P t -> P (TVec t).
  Hypothesis Hmap : forall c t, P t -> P (TMap c t).
  Hypothesis Hmapenum : forall al t, P t -> P (TMapEnum al t).
  Hypothesis Hstruct : forall fs, Forall (fun ft => P (snd ft)) fs -> P (TStruct fs).
  Fixpoint ty_ind' (t : ty) : P t :=
    match t with
    | TStr => Hstr | TId c => Hid c | TEnum al => Henum al | TBool => Hbool | TInt lo hi => Hint lo hi | TIntLax lo hi => Hintlax lo hi
    | TAny => Hany | TConst c => Hconst c | TObjAny => Hobjany
    | TOpt t' => Hopt t' (ty_ind' t') | TVec t' => Hvec t' (ty_ind' t') | TMap c t' => Hmap c t' (ty_ind' t') | TMapEnum al t' => Hmapenum al t' (ty_ind' t')
    | TStruct fs =>
        Hstruct fs ((fix go (fs : list (fmeta * ty)) : Forall (fun ft => P (snd ft)) fs :=
                       match fs with
                       | [] => Forall_nil _
                       | ft :: r => Forall_cons _ (ty_ind' (snd ft)) (go r)
                       end) fs)
    end.
End TyInd.

Section ValInd.
  Variable P : val -> Prop.
  Hypothesis Hstr : forall s, P (VStr s).
  Hypothesis Hbool : forall b, P (VBool b).
  Hypothesis Hint : forall z, P (VInt z).
  Hypothesis Hany : forall j, P (VAny j).
  Hypothesis Hnone : P VNone.
  Hypothesis Hsome : forall v, P v -> P (VSome v).
  Hypothesis Hvec : forall l, Forall P l -> P (VVec l).
  Hypothesis Hmap : forall m, Forall (fun kv => P (snd kv)) m -> P (VMap m).
  Hypothesis Hstruct : forall l, Forall P l -> P (VStruct l).
  Fixpoint val_ind' (v : val) : P v :=
    match v with
    | VStr s => Hstr s | VBool b => Hbool b | VInt z => Hint z | VAny j => Hany j | VNone => Hnone
    | VSome v' => Hsome v' (val_ind' v')
    | VVec l => Hvec l ((fix go (l : list val) : Forall P l :=
                           match l with [] => Forall_nil _ | x :: r => Forall_cons _ (val_ind' x) (go r) end) l)
    | VMap m => Hmap m ((fix go (m : list (str * val)) : Forall (fun kv => P (snd kv)) m :=
                           match m with [] => Forall_nil _ | kv :: r => Forall_cons _ (val_ind' (snd kv)) (go r) end) m)
    | VStruct l => Hstruct l ((fix go (l : list val) : Forall P l :=
                           match l with [] => Forall_nil _ | x :: r => Forall_cons _ (val_ind' x) (go r) end) l)
    end.
End ValInd.

(** * Equality tests decide equality *)
Lemma json_eqb_eq a : forall b, json_eqb a b = true -> a = b.
Proof.
  induction a as [|x|z|s|l IH|m IH] using json_ind'; intros b H; destruct b; cbn [json_eqb] in H; try discriminate.
  - reflexivity.
  - apply Bool.eqb_prop in H. now subst.
  - apply Z.eqb_eq in H. now subst.
  - apply str_eqb_eq in H. now subst.
  - f_equal. revert l0 H. induction IH as [|x l Hx _ IHl]; intros [|y l0] H; try discriminate; [reflexivity|].
    apply andb_true_iff in H as [H1 H2]. f_equal; [now apply Hx | now apply IHl].
  - f_equal. revert m0 H. induction IH as [|[k x] m Hx _ IHm]; intros [|[k' y] m0] H; try discriminate; [reflexivity|].
    apply andb_true_iff in H as [H12 H3]. apply andb_true_iff in H12 as [H1 H2].
    apply str_eqb_eq in H1. subst. cbn [snd] in Hx. f_equal; [f_equal; now apply Hx | now apply IHm].
Qed.

Lemma json_eqb_refl a : json_eqb a a = true.
Proof.
  induction a as [|x|z|s|l IH|m IH] using json_ind'; cbn [json_eqb]; auto.
  - now destruct x.
  - apply Z.eqb_refl.
  - apply str_eqb_refl.
  - induction IH as [|x l Hx _ IHl]; [reflexivity|]. now rewrite Hx, IHl.
  - induction IH as [|[k x] m Hx _ IHm]; [reflexivity|]. cbn [snd] in Hx. now rewrite str_eqb_refl, Hx, IHm.
Qed.

Lemma val_eqb_eq a : forall b, val_eqb a b = true -> a = b.
Proof.
  induction a as [s|x|z|j| |a IH|l IH|m IH|l IH] using val_ind'; intros b H; destruct b; cbn [val_eqb] in H;
    try discriminate.
  - apply str_eqb_eq in H. now subst.
  - apply Bool.eqb_prop in H. now subst.
  - apply Z.eqb_eq in H. now subst.
  - apply json_eqb_eq in H. now subst.
  - reflexivity.
  - f_equal. now apply IH.
  - f_equal. revert l0 H. induction IH as [|x l Hx _ IHl]; intros [|y l0] H; try discriminate; [reflexivity|].
    apply andb_true_iff in H as [H1 H2]. f_equal; [now apply Hx | now apply IHl].
  - f_equal. revert m0 H. induction IH as [|[k x] m Hx _ IHm]; intros [|[k' y] m0] H; try discriminate; [reflexivity|].
    apply andb_true_iff in H as [H12 H3]. apply andb_true_iff in H12 as [H1 H2].
    apply str_eqb_eq in H1. subst. cbn [snd] in Hx. f_equal; [f_equal; now apply Hx | now apply IHm].
  - f_equal. revert l0 H. induction IH as [|x l Hx _ IHl]; intros [|y l0] H; try discriminate; [reflexivity|].
    apply andb_true_iff in H as [H1 H2]. f_equal; [now apply Hx | now apply IHl].
Qed.

(** * Side conditions on a schema *)
Lemma nodup_strs_NoDup l : nodup_strs l = true -> NoDup l.
Proof.
  induction l as [|x r IH]; cbn [nodup_strs]; intros H; [constructor|].
  apply andb_true_iff in H as [H1 H2]. constructor; [|auto].
  intros Hin. apply mem_str_In in Hin. rewrite Hin in H1. discriminate.
Qed.

Definition field_names (f : fmeta * ty) : list str := f_name (fst f) :: f_aliases (fst f).

Definition is_opt (t : ty) : bool := match t with TOpt _ => true | _ => false end.

(** a skipped member must be re-created by the missing-member rule *)
Definition default_ok (fm : fmeta) : bool :=
  match f_default fm with DConst c => nodup_deep c | _ => true end.

Definition skip_ok (fm : fmeta) (ft : ty) : bool :=
  match f_skip fm with
  | SNever => true
  | SIfNone => is_opt ft && match f_default fm with DRequired | DDefault => true | _ => false end
  | SIfEmpty => match f_default fm, ft with
                | DDefault, (TStr | TVec _ | TMap _ _ | TMapEnum _ _ | TObjAny) => true
                | _, _ => false
                end
  | SIfDefault => match f_default fm, default_of ft with DDefault, Some _ => true | _, _ => false end
  | SIfEq c => match f_default fm with DConst c' => json_eqb c' c | _ => false end
  end.

Definition field_ok (fm : fmeta) (ft : ty) : bool := default_ok fm && skip_ok fm ft.

Fixpoint enum_ok (al : list (str * str)) (all : list (str * str)) : bool :=
  match al with [] => true | (_, c) :: r => str_eqb (assoc_alias c all) c && enum_ok r all end.

Fixpoint wf_ty (t : ty) : bool :=
  match t with
  | TEnum al => enum_ok al al
  | TConst c => nodup_deep c && negb (json_eqb c JNull)
  | TOpt t' => wf_ty t'
  | TVec t' | TMap _ t' => wf_ty t'
  | TMapEnum al t' => enum_ok al al && wf_ty t'
  | TStruct fs =>
      nodup_strs (flat_map field_names fs)
      && (fix go (fs : list (fmeta * ty)) : bool :=
            match fs with
            | [] => true
            | (fm, ft) :: r => wf_ty ft && field_ok fm ft && go r
            end) fs
  | _ => true
  end.

Definition wf_fields (fs : list (fmeta * ty)) : bool :=
  (fix go (fs : list (fmeta * ty)) : bool :=
     match fs with
     | [] => true
     | (fm, ft) :: r => wf_ty ft && field_ok fm ft && go r
     end) fs.

Lemma wf_fields_cons fm ft r : wf_fields ((fm, ft) :: r) = wf_ty ft && field_ok fm ft && wf_fields r.
Proof. reflexivity. Qed.

Lemma wf_struct fs : wf_ty (TStruct fs) = nodup_strs (flat_map field_names fs) && wf_fields fs.
Proof. reflexivity. Qed.

(** * Lookup in the member list a struct prints *)
Lemma NoDup_app_r {A} (a b : list A) : NoDup (a ++ b) -> NoDup b.
Proof. induction a as [|x a IH]; cbn; intros H; [exact H|]. inversion H; auto. Qed.

Lemma lookup_not_in {A} k (m : amap A) : ~ In k (List.map fst m) -> lookup k m = None.
Proof.
  induction m as [|[k' v] m IH]; cbn [lookup List.map fst]; intros H; [reflexivity|].
  destruct (str_eqb_spec k k') as [->|Hne].
  - exfalso. apply H. now left.
  - apply IH. intros Hin. apply H. now right.
Qed.

Lemma lookup_cons_ne {A} k k' (v : A) m : k <> k' -> lookup k ((k', v) :: m) = lookup k m.
Proof. intros H. cbn [lookup]. destruct (str_eqb_spec k k'); [contradiction|reflexivity]. Qed.

Lemma lookup_cons_eq {A} k (v : A) m : lookup k ((k, v) :: m) = Some v.
Proof. cbn [lookup]. now rewrite str_eqb_refl. Qed.

Section Proofs.
  Variable valid : N -> str -> bool.

  Notation deser := (deser valid).

  (** what the Rust types guarantee of a typed value *)
  Fixpoint ok (t : ty) (v : val) {struct t} : Prop :=
    match t, v with
    | TStr, VStr _ => True
    | TId c, VStr s => valid c s = true
    | TEnum al, VStr s => assoc_alias s al = s
    | TBool, VBool _ => True
    | TInt lo hi, VInt z | TIntLax lo hi, VInt z => (lo <= z <= hi)%Z
    | TAny, VAny j => nodup_deep j = true
    | TConst c, VAny j => j = c
    | TObjAny, VAny j => (exists m, j = JObj m) /\ nodup_deep j = true
    | TOpt _, VNone => True
    | TOpt t', VSome v' => ok t' v' /\ ser t' v' <> Some JNull   (* [Some(None)] / [Some(Null)] print as `null`, which reads back as [None]: such values never come from the wire *)
    | TVec t', VVec l => (fix go (l : list val) : Prop := match l with [] => True | x :: r => ok t' x /\ go r end) l
    | TMap c t', VMap m =>
        NoDup (List.map fst m)
        /\ (fix go (m : list (str * val)) : Prop :=
              match m with [] => True | (k, x) :: r => valid c k = true /\ ok t' x /\ go r end) m
    | TMapEnum al t', VMap m =>
        sorted m
        /\ (fix go (m : list (str * val)) : Prop :=
              match m with [] => True | (k, x) :: r => assoc_alias k al = k /\ ok t' x /\ go r end) m
    | TStruct fs, VStruct vs =>
        (fix go (fs : list (fmeta * ty)) (vs : list val) : Prop :=
           match fs, vs with
           | [], [] => True
           | (_, ft) :: r, x :: xs => ok ft x /\ go r xs
           | _, _ => False
           end) fs vs
    | _, _ => False
    end.

  Definition ok_mapenum (al : list (str * str)) (t : ty) (m : list (str * val)) : Prop :=
    (fix go (m : list (str * val)) : Prop :=
       match m with [] => True | (k, x) :: r => assoc_alias k al = k /\ ok t x /\ go r end) m.
  Definition deser_mapenum (al : list (str * str)) (t : ty) (m : list (str * json)) (acc : list (str * val)) :
    option (list (str * val)) :=
    (fix go (m : list (str * json)) (acc : list (str * val)) : option (list (str * val)) :=
       match m with
       | [] => Some acc
       | (k, x) :: r => match deser t x with
                        | Some v => go r (insert (assoc_alias k al) v acc)
                        | None => None
                        end
       end) m acc.
  Lemma deser_mapenum_cons al t k x r acc : deser_mapenum al t ((k, x) :: r) acc =
    match deser t x with Some v => deser_mapenum al t r (insert (assoc_alias k al) v acc) | None => None end.
  Proof. reflexivity. Qed.

  Definition ok_vec (t : ty) (l : list val) : Prop :=
    (fix go (l : list val) : Prop := match l with [] => True | x :: r => ok t x /\ go r end) l.
  Definition ok_map (c : N) (t : ty) (m : list (str * val)) : Prop :=
    (fix go (m : list (str * val)) : Prop :=
       match m with [] => True | (k, x) :: r => valid c k = true /\ ok t x /\ go r end) m.
  Definition ok_fields (fs : list (fmeta * ty)) (vs : list val) : Prop :=
    (fix go (fs : list (fmeta * ty)) (vs : list val) : Prop :=
       match fs, vs with
       | [], [] => True
       | (_, ft) :: r, x :: xs => ok ft x /\ go r xs
       | _, _ => False
       end) fs vs.

  (** the three nested loops of [ser] / [deser], named *)
  Definition ser_vec (t : ty) (l : list val) : option (list json) :=
    (fix go (l : list val) : option (list json) :=
       match l with
       | [] => Some []
       | x :: r => match ser t x, go r with Some y, Some ys => Some (y :: ys) | _, _ => None end
       end) l.
  Definition ser_map (t : ty) (m : list (str * val)) : option (list (str * json)) :=
    (fix go (m : list (str * val)) : option (list (str * json)) :=
       match m with
       | [] => Some []
       | (k, x) :: r => match ser t x, go r with Some y, Some ys => Some ((k, y) :: ys) | _, _ => None end
       end) m.
  Definition skipped (fm : fmeta) (ft : ty) (x : val) (y : json) : bool :=
    match f_skip fm with
    | SNever => false
    | SIfNone => match x with VNone => true | _ => false end
    | SIfEmpty => is_empty_val x
    | SIfDefault => match default_of ft with Some d => val_eqb x d | None => false end
    | SIfEq c => json_eqb y c
    end.
  Definition ser_fields (fs : list (fmeta * ty)) (vs : list val) : option (list (str * json)) :=
    (fix go (fs : list (fmeta * ty)) (vs : list val) : option (list (str * json)) :=
       match fs, vs with
       | [], [] => Some []
       | (fm, ft) :: r, x :: xs =>
           match ser ft x, go r xs with
           | Some y, Some ys => Some (if skipped fm ft x y then ys else (f_name fm, y) :: ys)
           | _, _ => None
           end
       | _, _ => None
       end) fs vs.
  Definition deser_vec (t : ty) (l : list json) : option (list val) :=
    (fix go (l : list json) : option (list val) :=
       match l with
       | [] => Some []
       | x :: r => match deser t x, go r with Some v, Some vs => Some (v :: vs) | _, _ => None end
       end) l.
  Definition deser_map (c : N) (t : ty) (m : list (str * json)) : option (list (str * val)) :=
    (fix go (m : list (str * json)) : option (list (str * val)) :=
       match m with
       | [] => Some []
       | (k, x) :: r => if valid c k
                        then match deser t x, go r with
                             | Some v, Some vs => Some ((k, v) :: vs)
                             | _, _ => None
                             end
                        else None
       end) m.
  Definition field_value (fm : fmeta) (ft : ty) (m : obj) : option val :=
    match find_aliases (f_name fm :: f_aliases fm) m with
    | [x] => deser ft x
    | [] =>
        match f_default fm with
        | DDefault => default_of ft
        | DConst c => deser ft c
        | DRequired => match ft with TOpt _ => Some VNone | _ => None end
        | DStrict => None
        end
    | _ => None
    end.
  Definition deser_fields (fs : list (fmeta * ty)) (m : obj) : option (list val) :=
    (fix go (fs : list (fmeta * ty)) : option (list val) :=
       match fs with
       | [] => Some []
       | (fm, ft) :: r =>
           match field_value fm ft m, go r with
           | Some v, Some vs => Some (v :: vs)
           | _, _ => None
           end
       end) fs.

  Lemma ser_vec_cons t x l : ser_vec t (x :: l) =
    match ser t x, ser_vec t l with Some y, Some ys => Some (y :: ys) | _, _ => None end.
  Proof. reflexivity. Qed.
  Lemma deser_vec_cons t x l : deser_vec t (x :: l) =
    match deser t x, deser_vec t l with Some v, Some vs => Some (v :: vs) | _, _ => None end.
  Proof. reflexivity. Qed.
  Lemma ser_map_cons t k x m : ser_map t ((k, x) :: m) =
    match ser t x, ser_map t m with Some y, Some ys => Some ((k, y) :: ys) | _, _ => None end.
  Proof. reflexivity. Qed.
  Lemma deser_map_cons c t k x m : deser_map c t ((k, x) :: m) =
    if valid c k then match deser t x, deser_map c t m with Some v, Some vs => Some ((k, v) :: vs) | _, _ => None end
    else None.
  Proof. reflexivity. Qed.

  Lemma ser_struct fs vs : ser (TStruct fs) (VStruct vs) = option_map JObj (ser_fields fs vs).
  Proof. reflexivity. Qed.
  Lemma deser_struct fs m : deser (TStruct fs) (JObj m) = option_map VStruct (deser_fields fs m).
  Proof. reflexivity. Qed.
  Lemma ser_fields_cons fm ft r x xs :
    ser_fields ((fm, ft) :: r) (x :: xs) =
    match ser ft x, ser_fields r xs with
    | Some y, Some ys => Some (if skipped fm ft x y then ys else (f_name fm, y) :: ys)
    | _, _ => None
    end.
  Proof. reflexivity. Qed.
  Lemma deser_fields_cons fm ft r m :
    deser_fields ((fm, ft) :: r) m =
    match field_value fm ft m, deser_fields r m with
    | Some v, Some vs => Some (v :: vs)
    | _, _ => None
    end.
  Proof. reflexivity. Qed.

  (** ** keys a struct prints are among its field names, in order, without repetition *)
  Lemma ser_fields_keys fs : forall vs ms,
    ser_fields fs vs = Some ms -> forall k, In k (List.map fst ms) -> In k (List.map (fun f => f_name (fst f)) fs).
  Proof.
    induction fs as [|[fm ft] r IH]; intros [|x xs] ms H k Hk; try (cbn in H; discriminate).
    - cbn in H. injection H as <-. destruct Hk.
    - rewrite ser_fields_cons in H.
      destruct (ser ft x) as [y|]; [|discriminate].
      destruct (ser_fields r xs) as [ys|] eqn:E; [|discriminate].
      injection H as <-. cbn [List.map fst].
      destruct (skipped fm ft x y).
      + right. eapply IH; eauto.
      + destruct Hk as [<-|Hk]; [now left|]. right. eapply IH; eauto.
  Qed.

  Lemma names_sub fs k : In k (List.map (fun f => f_name (fst f)) fs) -> In k (flat_map field_names fs).
  Proof.
    induction fs as [|f r IH]; cbn [List.map flat_map]; intros H; [destruct H|].
    apply in_or_app. destruct H as [<-|H]; [left; now left | right; auto].
  Qed.

  Lemma ser_fields_nodup fs : forall vs ms,
    NoDup (flat_map field_names fs) -> ser_fields fs vs = Some ms -> NoDup (List.map fst ms).
  Proof.
    induction fs as [|[fm ft] r IH]; intros [|x xs] ms Hnd H; try (cbn in H; discriminate).
    - cbn in H. injection H as <-. constructor.
    - rewrite ser_fields_cons in H.
      destruct (ser ft x) as [y|]; [|discriminate].
      destruct (ser_fields r xs) as [ys|] eqn:E; [|discriminate].
      injection H as <-.
      cbn [flat_map] in Hnd. unfold field_names at 1 in Hnd. cbn [fst] in Hnd.
      assert (Hr : NoDup (flat_map field_names r)).
      { apply (NoDup_app_r (f_name fm :: f_aliases fm)). exact Hnd. }
      destruct (skipped fm ft x y); [eapply IH; eauto|].
      cbn [List.map fst]. constructor; [|eapply IH; eauto].
      intros Hin. apply (ser_fields_keys _ _ _ E) in Hin. apply names_sub in Hin.
      rewrite <- app_comm_cons in Hnd. apply NoDup_cons_iff in Hnd as [Hnot _].
      apply Hnot. apply in_or_app. now right.
  Qed.

  (** ** The round trip *)
  Lemma find_aliases_none names m :
    (forall n, In n names -> lookup n m = None) -> find_aliases names m = [].
  Proof.
    induction names as [|n r IH]; cbn [find_aliases]; intros H; [reflexivity|].
    rewrite (H n (or_introl eq_refl)). apply IH. intros; apply H; now right.
  Qed.

  Lemma default_of_ok t : forall d, default_of t = Some d -> ok t d.
  Proof.
    induction t as [|c|al| |lo hi|lo hi| |k| |t IH|t IH|c t IH|al t IH|fs IH] using ty_ind'; intros d H; cbn [default_of] in H;
      try discriminate; try (injection H as <-; cbn; auto).
    - destruct ((lo <=? 0)%Z && (0 <=? hi)%Z) eqn:E; [|discriminate]. injection H as <-. cbn. lia.
    - destruct ((lo <=? 0)%Z && (0 <=? hi)%Z) eqn:E; [|discriminate]. injection H as <-. cbn. lia.
    - split; [now exists []|reflexivity].
    - split; [constructor|exact I].
    - revert d H. induction IH as [|[fm ft] r Hft _ IHr]; intros d H.
      + injection H as <-. exact I.
      + cbn [snd] in Hft. destruct (default_of ft) as [v|] eqn:Ev; [|discriminate].
        match type of H with match ?g with _ => _ end = _ => destruct g as [[]|] eqn:Eg end; try discriminate.
        injection H as <-. cbn. split; [now apply Hft|]. now apply (IHr (VStruct l)).
  Qed.

  Lemma assoc_alias_canon al all s :
    enum_ok al all = true -> assoc_alias s al <> s -> assoc_alias (assoc_alias s al) all = assoc_alias s al.
  Proof.
    induction al as [|[a c] r IH]; cbn [enum_ok assoc_alias]; intros H Hne; [congruence|].
    apply andb_true_iff in H as [H1 H2].
    destruct (str_eqb s a); [now apply str_eqb_eq in H1 | now apply IH].
  Qed.

  Lemma enum_idem al s : enum_ok al al = true -> assoc_alias (assoc_alias s al) al = assoc_alias s al.
  Proof.
    intros H. destruct (str_eqb_spec (assoc_alias s al) s) as [E|Hne]; [now rewrite !E|].
    now apply assoc_alias_canon.
  Qed.

  (** what [deser] reads from a non-null JSON value never prints as `null` *)
  Lemma deser_ser_not_null t : wf_ty t = true -> forall j v, deser t j = Some v -> j <> JNull -> ser t v <> Some JNull.
  Proof.
    induction t as [|c|al| |lo hi|lo hi| |k| |t IH|t IH|c t IH|al t IH|fs IH] using ty_ind'; intros Hwf j v H Hj; cbn [Serde.deser] in H.
    - destruct j; try discriminate. injection H as <-. discriminate.
    - destruct j; try discriminate. destruct (valid c s); [|discriminate]. injection H as <-. discriminate.
    - destruct j; try discriminate. injection H as <-. discriminate.
    - destruct j; try discriminate. injection H as <-. discriminate.
    - destruct j; try discriminate. destruct ((lo <=? z)%Z && (z <=? hi)%Z); [|discriminate]. injection H as <-. discriminate.
    - destruct j; try discriminate.
      + destruct ((lo <=? z)%Z && (z <=? hi)%Z); [|discriminate]. injection H as <-. discriminate.
      + destruct (C08.Model.parse_v1_string s) as [z|]; [|discriminate].
        destruct ((lo <=? z)%Z && (z <=? hi)%Z); [|discriminate]. injection H as <-. discriminate.
    - injection H as <-. cbn. congruence.
    - injection H as <-. cbn [ser]. cbn [wf_ty] in Hwf. apply andb_true_iff in Hwf as [_ Hk].
      intros E. injection E as ->. cbn in Hk. discriminate.
    - destruct j; try discriminate. injection H as <-. discriminate.
    - cbn [wf_ty] in Hwf. destruct j; try contradiction;
        (destruct (Serde.deser valid t _) as [v'|] eqn:E; [|discriminate]; injection H as <-; cbn [ser];
         eapply IH; [exact Hwf|exact E|discriminate]).
    - destruct j; try discriminate.
      match type of H with option_map _ ?x = _ => destruct x; [|discriminate] end. injection H as <-.
      cbn [ser]. match goal with |- option_map _ ?x <> _ => destruct x end; discriminate.
    - destruct j; try discriminate.
      match type of H with option_map _ ?x = _ => destruct x; [|discriminate] end. injection H as <-.
      cbn [ser]. match goal with |- option_map _ ?x <> _ => destruct x end; discriminate.
    - destruct j; try discriminate.
      match type of H with option_map _ ?x = _ => destruct x; [|discriminate] end. injection H as <-.
      cbn [ser]. match goal with |- option_map _ ?x <> _ => destruct x end; discriminate.
    - destruct j; try discriminate.
      match type of H with option_map _ ?x = _ => destruct x; [|discriminate] end. injection H as <-.
      cbn [ser]. match goal with |- option_map _ ?x <> _ => destruct x end; discriminate.
  Qed.

  (** values produced by [deser] satisfy [ok] *)
  Lemma deser_ok t : wf_ty t = true -> forall j v, nodup_deep j = true -> deser t j = Some v -> ok t v.
  Proof.
    induction t as [|c|al| |lo hi|lo hi| |k| |t IH|t IH|c t IH|al t IH|fs IH] using ty_ind'; intros Hwf j v Hj H; cbn [Serde.deser] in H.
    - destruct j; try discriminate. injection H as <-. exact I.
    - destruct j; try discriminate. destruct (valid c s) eqn:E; [|discriminate]. injection H as <-. exact E.
    - destruct j; try discriminate. injection H as <-. cbn. now apply enum_idem.
    - destruct j; try discriminate. injection H as <-. exact I.
    - destruct j; try discriminate. destruct ((lo <=? z)%Z && (z <=? hi)%Z) eqn:E; [|discriminate].
      injection H as <-. cbn. lia.
    - destruct j; try discriminate.
      + destruct ((lo <=? z)%Z && (z <=? hi)%Z) eqn:E; [|discriminate]. injection H as <-. cbn. lia.
      + destruct (C08.Model.parse_v1_string s) as [z|]; [|discriminate].
        destruct ((lo <=? z)%Z && (z <=? hi)%Z) eqn:E; [|discriminate]. injection H as <-. cbn. lia.
    - injection H as <-. exact Hj.
    - injection H as <-. reflexivity.
    - destruct j; try discriminate. injection H as <-. split; [eauto|exact Hj].
    - cbn [wf_ty] in Hwf.
      destruct j; try (injection H as <-; exact I);
        (destruct (Serde.deser valid t _) as [v'|] eqn:E; [|discriminate]; injection H as <-; cbn;
         split; [eapply IH; eauto | eapply deser_ser_not_null; [exact Hwf|exact E|discriminate]]).
    - destruct j; try discriminate. cbn [wf_ty] in Hwf. cbn [nodup_deep] in Hj.
      fold (deser_vec t l) in H. destruct (deser_vec t l) as [vs|] eqn:E; [|discriminate]. injection H as <-.
      cbn. fold (ok_vec t vs). revert vs E. induction l as [|x l IHl]; intros vs E; cbn in E.
      + injection E as <-. exact I.
      + cbn [forallb] in Hj. apply andb_true_iff in Hj as [Hx Hl].
        destruct (Serde.deser valid t x) as [v|] eqn:Ev; [|discriminate].
        fold (deser_vec t l) in E. destruct (deser_vec t l) as [vs'|]; [|discriminate]. injection E as <-.
        split; [eapply IH; eauto|]. now apply IHl.
    - destruct j; try discriminate. cbn [wf_ty] in Hwf. cbn [nodup_deep] in Hj.
      fold (deser_map c t m) in H. destruct (deser_map c t m) as [vs|] eqn:E; [|discriminate]. injection H as <-.
      apply andb_true_iff in Hj as [Hk Hm]. apply nodup_strs_NoDup in Hk.
      assert (Hkeys : List.map fst vs = List.map fst m /\ ok_map c t vs).
      { clear Hk. revert vs E. induction m as [|[k x] m IHm]; intros vs E; cbn in E.
        - injection E as <-. split; [reflexivity|exact I].
        - cbn [forallb snd] in Hm. apply andb_true_iff in Hm as [Hx Hm].
          destruct (valid c k) eqn:Ek; [|discriminate].
          destruct (Serde.deser valid t x) as [v|] eqn:Ev; [|discriminate].
          fold (deser_map c t m) in E. destruct (deser_map c t m) as [vs'|]; [|discriminate]. injection E as <-.
          destruct (IHm Hm vs' eq_refl) as [E1 E2]. split; [cbn; now rewrite E1|].
          split; [exact Ek|]. split; [eapply IH; eauto|exact E2]. }
      destruct Hkeys as [E1 E2]. split; [now rewrite E1|exact E2].
    - destruct j; try discriminate. cbn [wf_ty] in Hwf. apply andb_true_iff in Hwf as [Hen Hwf]. cbn [nodup_deep] in Hj.
      change (option_map VMap (deser_mapenum al t m []) = Some v) in H.
      destruct (deser_mapenum al t m []) as [vs|] eqn:E; [|discriminate]. injection H as <-.
      apply andb_true_iff in Hj as [_ Hm].
      assert (G : forall m acc vs, forallb (fun kv => nodup_deep (snd kv)) m = true ->
                   (forall x, In x (List.map snd m) -> forall v, nodup_deep x = true -> Serde.deser valid t x = Some v -> ok t v) ->
                   deser_mapenum al t m acc = Some vs ->
                   sorted acc /\ (forall k x, In (k, x) acc -> assoc_alias k al = k /\ ok t x) ->
                   sorted vs /\ (forall k x, In (k, x) vs -> assoc_alias k al = k /\ ok t x)).
      { clear -Hen. induction m as [|[k x] m IHm]; intros acc vs Hm Hel E Hacc.
        - cbn in E. injection E as <-. exact Hacc.
        - rewrite deser_mapenum_cons in E. cbn [forallb snd] in Hm. apply andb_true_iff in Hm as [Hx Hm].
          destruct (Serde.deser valid t x) as [v|] eqn:Ev; [|discriminate].
          eapply IHm; [exact Hm| |exact E|].
          + intros y Hy. apply Hel. cbn [List.map snd]. now right.
          + destruct Hacc as [Hs Hin]. split; [now apply sorted_insert|].
            intros k' x' Hin'. apply In_insert in Hin' as [[-> ->]|Hin'].
            * split; [now apply enum_idem|]. eapply Hel; eauto. cbn [List.map snd]. now left.
            * now apply Hin. }
      destruct (G m [] vs Hm) as [Hs Hall]; [|exact E| |].
      { intros x Hx v Hnx Hv. eapply IH; eauto. }
      { split; [exact I|intros ? ? []]. }
      cbn. split; [exact Hs|]. clear -Hall. induction vs as [|[k x] vs IHv]; [exact I|].
      destruct (Hall k x (or_introl eq_refl)) as [A B]. repeat split; auto. apply IHv. intros; apply Hall; now right.
    - destruct j; try discriminate. rewrite wf_struct in Hwf. apply andb_true_iff in Hwf as [_ Hwf].
      change (option_map VStruct (deser_fields fs m) = Some v) in H. destruct (deser_fields fs m) as [vs|] eqn:E; [|discriminate]. injection H as <-.
      cbn. fold (ok_fields fs vs). cbn [nodup_deep] in Hj. apply andb_true_iff in Hj as [_ Hm].
      revert vs E Hwf. induction IH as [|[fm ft] r Hft _ IHr]; intros vs E Hwf.
      + cbn in E. injection E as <-. exact I.
      + rewrite deser_fields_cons in E. rewrite wf_fields_cons in Hwf.
        apply andb_true_iff in Hwf as [Hwf Hr]. apply andb_true_iff in Hwf as [Hwft Hfo].
        destruct (field_value fm ft m) as [v|] eqn:Ev; [|discriminate].
        destruct (deser_fields r m) as [vs'|]; [|discriminate]. injection E as <-.
        cbn [snd] in Hft. split; [|now apply IHr].
        unfold field_value in Ev.
        destruct (find_aliases (f_name fm :: f_aliases fm) m) as [|x [|]] eqn:Ef; [| |discriminate].
        * destruct (f_default fm) eqn:Ed.
          -- destruct ft; try discriminate. injection Ev as <-. exact I.
          -- now apply default_of_ok.
          -- unfold field_ok, default_ok in Hfo. rewrite Ed in Hfo. apply andb_true_iff in Hfo as [Hc _].
             eapply Hft; eauto.
          -- discriminate.
        * (* the member found is one of [m]'s members *)
          assert (Hx : nodup_deep x = true).
          { clear -Ef Hm.
            assert (G : forall names, Forall (fun y => nodup_deep y = true) (find_aliases names m)).
            { induction names as [|n names IHn]; cbn [find_aliases]; [constructor|].
              destruct (lookup n m) as [y|] eqn:El; [|exact IHn]. constructor; [|exact IHn].
              apply lookup_In in El. rewrite forallb_forall in Hm. exact (Hm _ El). }
            specialize (G (f_name fm :: f_aliases fm)). rewrite Ef in G. now inversion G. }
          eapply Hft; eauto.
  Qed.

  Lemma find_aliases_cons n al m :
    find_aliases (n :: al) m = match lookup n m with Some x => x :: find_aliases al m | None => find_aliases al m end.
  Proof. reflexivity. Qed.

  (** the field loop, for a suffix [r] of the struct's fields, reading any object [M] that agrees
      with what the suffix printed on the suffix's names *)
  Lemma fields_roundtrip r :
    Forall (fun ft => wf_ty (snd ft) = true -> forall v, ok (snd ft) v ->
                      exists j, ser (snd ft) v = Some j /\ deser (snd ft) j = Some v) r ->
    wf_fields r = true -> NoDup (flat_map field_names r) ->
    forall vs, ok_fields r vs ->
    exists ms, ser_fields r vs = Some ms
               /\ forall M, (forall k, In k (flat_map field_names r) -> lookup k M = lookup k ms) ->
                            deser_fields r M = Some vs.
  Proof.
    induction 1 as [|[fm ft] r Hft _ IHr]; intros Hwf Hnd vs Hok.
    - destruct vs; [|destruct Hok]. exists []. split; [reflexivity|]. intros M _. reflexivity.
    - destruct vs as [|x xs]; [destruct Hok|]. destruct Hok as [Hx Hxs]. cbn [snd] in Hft.
      rewrite wf_fields_cons in Hwf. apply andb_true_iff in Hwf as [Hwf Hwr]. apply andb_true_iff in Hwf as [Hwt Hfo].
      cbn [flat_map] in Hnd. unfold field_names at 1 in Hnd. cbn [fst] in Hnd.
      pose proof (NoDup_app_r _ _ Hnd) as Hndr.
      destruct (IHr Hwr Hndr xs Hxs) as (ms & Ems & Hms).
      destruct (Hft Hwt x Hx) as (y & Ey & Dy).
      rewrite <- app_comm_cons in Hnd. apply NoDup_cons_iff in Hnd as [Hname Hnd'].
      assert (Hkeys : forall k, In k (List.map fst ms) -> In k (flat_map field_names r)).
      { intros k Hk. apply names_sub. eapply ser_fields_keys; eauto. }
      assert (Hname_ms : lookup (f_name fm) ms = None).
      { apply lookup_not_in. intros Hin. apply Hname. apply in_or_app. right. auto. }
      assert (Hal_ms : forall a, In a (f_aliases fm) -> lookup a ms = None /\ a <> f_name fm).
      { intros a Ha. split.
        - apply lookup_not_in. intros Hin. apply Hkeys in Hin.
          apply NoDup_app_r with (a := []) in Hnd'. revert Hnd' Ha Hin. clear. intros Hnd Ha Hin.
          induction (f_aliases fm) as [|b al IH]; [destruct Ha|]. cbn in Hnd. apply NoDup_cons_iff in Hnd as [Hb Hnd].
          destruct Ha as [->|Ha]; [apply Hb; apply in_or_app; now right | now apply IH].
        - intros ->. apply Hname. apply in_or_app. now left. }
      eexists. split.
      { rewrite ser_fields_cons, Ey, Ems. reflexivity. }
      intros M HM. rewrite deser_fields_cons.
      assert (Hrest : deser_fields r M = Some xs).
      { apply Hms. intros k Hk. rewrite HM by (right; apply in_or_app; now right).
        destruct (skipped fm ft x y); [reflexivity|].
        apply lookup_cons_ne. intros ->. apply Hname. apply in_or_app. now right. }
      rewrite Hrest.
      assert (Hal : find_aliases (f_aliases fm) M = []).
      { apply find_aliases_none. intros a Ha. destruct (Hal_ms a Ha) as [Hn Hne].
        rewrite HM by (right; apply in_or_app; now left).
        destruct (skipped fm ft x y); [exact Hn|]. rewrite lookup_cons_ne by exact Hne. exact Hn. }
      assert (Hfv : field_value fm ft M = Some x); [|now rewrite Hfv].
      unfold field_value. rewrite find_aliases_cons, Hal, HM by now left.
      destruct (skipped fm ft x y) eqn:Esk.
      + rewrite Hname_ms. unfold skipped in Esk. unfold field_ok in Hfo. apply andb_true_iff in Hfo as [_ Hso].
        unfold skip_ok in Hso. destruct (f_skip fm) as [| | | |c]; [discriminate| | | |].
        * destruct x; try discriminate. apply andb_true_iff in Hso as [Ho Hd].
          destruct ft; try discriminate. destruct (f_default fm); [reflexivity|reflexivity|discriminate|discriminate].
        * destruct (f_default fm); try discriminate.
          destruct ft; try discriminate; destruct x; cbn in Hx; try contradiction; cbn [is_empty_val] in Esk.
          -- destruct s; [reflexivity|discriminate].
          -- destruct Hx as [[m' ->] _]. destruct m'; [reflexivity|discriminate].
          -- destruct l; [reflexivity|discriminate].
          -- destruct m; [reflexivity|discriminate].
          -- destruct m; [reflexivity|discriminate].
        * destruct (f_default fm); try discriminate. destruct (default_of ft) as [d|]; [|discriminate].
          apply val_eqb_eq in Esk. now subst.
        * destruct (f_default fm) as [| |c'|]; try discriminate.
          apply json_eqb_eq in Hso. apply json_eqb_eq in Esk. subst. exact Dy.
      + rewrite lookup_cons_eq. exact Dy.
  Qed.

  (** ** serialize, then deserialize: the value comes back *)
  Theorem roundtrip t : wf_ty t = true -> forall v, ok t v -> exists j, ser t v = Some j /\ deser t j = Some v.
  Proof.
    induction t as [|c|al| |lo hi|lo hi| |k| |t IH|t IH|c t IH|al t IH|fs IH] using ty_ind'; intros Hwf v Hok.
    - destruct v; try contradiction. eexists; split; reflexivity.
    - destruct v; try contradiction. cbn in Hok. eexists; split; [reflexivity|]. cbn. now rewrite Hok.
    - destruct v; try contradiction. cbn in Hok. eexists; split; [reflexivity|]. cbn. now rewrite Hok.
    - destruct v; try contradiction. eexists; split; reflexivity.
    - destruct v; try contradiction. cbn in Hok. eexists; split; [reflexivity|]. cbn.
      replace ((lo <=? z)%Z && (z <=? hi)%Z) with true by lia. reflexivity.
    - destruct v; try contradiction. cbn in Hok. eexists; split; [reflexivity|]. cbn.
      replace ((lo <=? z)%Z && (z <=? hi)%Z) with true by lia. reflexivity.
    - destruct v; try contradiction. eexists; split; reflexivity.
    - destruct v; try contradiction. cbn in Hok. subst. eexists; split; reflexivity.
    - destruct v; try contradiction. destruct Hok as [[m ->] _]. eexists; split; reflexivity.
    - cbn [wf_ty] in Hwf.
      destruct v; try contradiction.
      + exists JNull. split; reflexivity.
      + cbn in Hok. destruct Hok as [Hok Hnn]. destruct (IH Hwf v Hok) as (j & Ej & Dj). exists j. split; [exact Ej|].
        rewrite Ej in Hnn.
        cbn [Serde.deser]. destruct j; try (rewrite Dj; reflexivity). congruence.
    - cbn [wf_ty] in Hwf. destruct v; try contradiction. cbn in Hok. fold (ok_vec t l) in Hok.
      assert (G : exists js, ser_vec t l = Some js /\ deser_vec t js = Some l).
      { induction l as [|x l IHl]; [exists []; split; reflexivity|]. destruct Hok as [Hx Hl].
        destruct (IH Hwf x Hx) as (j & Ej & Dj). destruct (IHl Hl) as (js & Ejs & Djs).
        exists (j :: js). split; [now rewrite ser_vec_cons, Ej, Ejs | now rewrite deser_vec_cons, Dj, Djs]. }
      destruct G as (js & Ejs & Djs). exists (JArr js). split.
      + change (option_map JArr (ser_vec t l) = Some (JArr js)). now rewrite Ejs.
      + change (option_map VVec (deser_vec t js) = Some (VVec l)). now rewrite Djs.
    - cbn [wf_ty] in Hwf. destruct v; try contradiction. cbn in Hok. destruct Hok as [_ Hok]. fold (ok_map c t m) in Hok.
      assert (G : exists js, ser_map t m = Some js /\ deser_map c t js = Some m).
      { induction m as [|[k x] m IHm]; [exists []; split; reflexivity|]. destruct Hok as (Hk & Hx & Hm).
        destruct (IH Hwf x Hx) as (j & Ej & Dj). destruct (IHm Hm) as (js & Ejs & Djs).
        exists ((k, j) :: js). split; [now rewrite ser_map_cons, Ej, Ejs | now rewrite deser_map_cons, Hk, Dj, Djs]. }
      destruct G as (js & Ejs & Djs). exists (JObj js). split.
      + change (option_map JObj (ser_map t m) = Some (JObj js)). now rewrite Ejs.
      + change (option_map VMap (deser_map c t js) = Some (VMap m)). now rewrite Djs.
    - cbn [wf_ty] in Hwf. apply andb_true_iff in Hwf as [Hen Hwf]. destruct v; try contradiction. cbn in Hok.
      destruct Hok as [Hs Hok]. fold (ok_mapenum al t m) in Hok.
      (* re-inserting the entries of a sorted map with canonical keys, in order, rebuilds it *)
      assert (G : forall m acc, ok_mapenum al t m -> sorted (acc ++ m) ->
                  exists js, ser_map t m = Some js /\ deser_mapenum al t js acc = Some (acc ++ m)).
      { clear Hs Hok m. induction m as [|[k x] m IHm]; intros acc Hok Hs.
        - exists []. split; [reflexivity|]. cbn. now rewrite app_nil_r.
        - destruct Hok as (Hk & Hx & Hm). destruct (IH Hwf x Hx) as (j & Ej & Dj).
          assert (Hs' : sorted ((acc ++ [(k, x)]) ++ m)) by now rewrite <- app_assoc.
          destruct (IHm (acc ++ [(k, x)]) Hm Hs') as (js & Ejs & Djs).
          exists ((k, j) :: js). split; [now rewrite ser_map_cons, Ej, Ejs|].
          rewrite deser_mapenum_cons, Dj, Hk.
          rewrite insert_append by (apply sorted_app_inv in Hs' as [Hs' _]; exact Hs').
          rewrite Djs, <- app_assoc. reflexivity. }
      destruct (G m [] Hok Hs) as (js & Ejs & Djs). exists (JObj js). split.
      + change (option_map JObj (ser_map t m) = Some (JObj js)). now rewrite Ejs.
      + change (option_map VMap (deser_mapenum al t js []) = Some (VMap m)). now rewrite Djs.
    - rewrite wf_struct in Hwf. apply andb_true_iff in Hwf as [Hnd Hwf]. apply nodup_strs_NoDup in Hnd.
      destruct v; try contradiction. cbn in Hok. fold (ok_fields fs l) in Hok.
      destruct (fields_roundtrip fs IH Hwf Hnd l Hok) as (ms & Ems & Hms).
      exists (JObj ms). split.
      + rewrite ser_struct, Ems. reflexivity.
      + rewrite deser_struct, (Hms ms); [reflexivity|]. intros; reflexivity.
  Qed.

  (** ** the fixpoint clause: what was read, printed and read again is what was read *)
  Theorem fixpoint t j v :
    wf_ty t = true -> nodup_deep j = true -> deser t j = Some v ->
    exists j', ser t v = Some j' /\ deser t j' = Some v.
  Proof. intros Hwf Hj H. apply roundtrip; [exact Hwf|]. eapply deser_ok; eauto. Qed.

  (** ** what is printed has no duplicate keys, at any depth *)
  Lemma NoDup_nodup_strs l : NoDup l -> nodup_strs l = true.
  Proof.
    induction 1 as [|x l Hx _ IH]; [reflexivity|]. cbn [nodup_strs]. rewrite IH, andb_true_r.
    destruct (mem_str x l) eqn:E; [|reflexivity]. apply mem_str_In in E. contradiction.
  Qed.

  Lemma ser_map_keys t m : forall js, ser_map t m = Some js -> List.map fst js = List.map fst m.
  Proof.
    induction m as [|[k x] m IH]; intros js H.
    - cbn in H. now injection H as <-.
    - rewrite ser_map_cons in H. destruct (ser t x); [|discriminate].
      destruct (ser_map t m) as [ys|]; [|discriminate]. injection H as <-. cbn. now rewrite (IH ys eq_refl).
  Qed.

  Lemma sorted_nodup_keys {A} (m : amap A) : sorted m -> NoDup (List.map fst m).
  Proof.
    induction m as [|[k v] m IH]; cbn [sorted List.map fst]; intros H; [constructor|].
    destruct H as [G S]. constructor; [|auto].
    intros Hin. apply in_map_iff in Hin as ([k' v'] & E & Hin). cbn in E. subst k'.
    specialize (G _ _ Hin). now rewrite str_ltb_irrefl in G.
  Qed.

  Theorem ser_nodup t : wf_ty t = true -> forall v j, ok t v -> ser t v = Some j -> nodup_deep j = true.
  Proof.
    induction t as [|c|al| |lo hi|lo hi| |k| |t IH|t IH|c t IH|al t IH|fs IH] using ty_ind'; intros Hwf v j Hok H;
      destruct v; try contradiction; cbn [ser] in H; try (injection H as <-; reflexivity).
    - injection H as <-. exact Hok.
    - injection H as <-. cbn in Hok. subst. cbn [wf_ty] in Hwf. now apply andb_true_iff in Hwf as [Hwf _].
    - injection H as <-. now destruct Hok.
    - cbn [wf_ty] in Hwf. destruct Hok as [Hok _]. eapply IH; eauto.
    - cbn [wf_ty] in Hwf. change (option_map JArr (ser_vec t l) = Some j) in H.
      destruct (ser_vec t l) as [js|] eqn:E; [|discriminate]. injection H as <-. cbn [nodup_deep].
      cbn in Hok. fold (ok_vec t l) in Hok. revert js E. induction l as [|x l IHl]; intros js E.
      + cbn in E. now injection E as <-.
      + rewrite ser_vec_cons in E. destruct (ser t x) as [y|] eqn:Ey; [|discriminate].
        destruct (ser_vec t l) as [ys|]; [|discriminate]. injection E as <-. destruct Hok as [Hx Hl].
        cbn [forallb]. rewrite (IH Hwf x y Hx Ey). now apply IHl.
    - cbn [wf_ty] in Hwf. change (option_map JObj (ser_map t m) = Some j) in H.
      destruct (ser_map t m) as [js|] eqn:E; [|discriminate]. injection H as <-. cbn [nodup_deep].
      cbn in Hok. destruct Hok as [Hnd Hok]. fold (ok_map c t m) in Hok.
      rewrite (ser_map_keys _ _ _ E), (NoDup_nodup_strs _ Hnd). cbn [andb]. clear Hnd.
      revert js E. induction m as [|[k x] m IHm]; intros js E.
      + cbn in E. now injection E as <-.
      + rewrite ser_map_cons in E. destruct (ser t x) as [y|] eqn:Ey; [|discriminate].
        destruct (ser_map t m) as [ys|]; [|discriminate]. injection E as <-. destruct Hok as (_ & Hx & Hm).
        cbn [forallb snd]. rewrite (IH Hwf x y Hx Ey). now apply IHm.
    - cbn [wf_ty] in Hwf. apply andb_true_iff in Hwf as [_ Hwf]. change (option_map JObj (ser_map t m) = Some j) in H.
      destruct (ser_map t m) as [js|] eqn:E; [|discriminate]. injection H as <-. cbn [nodup_deep].
      cbn in Hok. destruct Hok as [Hs Hok]. fold (ok_mapenum al t m) in Hok.
      rewrite (ser_map_keys _ _ _ E), (NoDup_nodup_strs _ (sorted_nodup_keys _ Hs)). cbn [andb]. clear Hs.
      revert js E. induction m as [|[k x] m IHm]; intros js E.
      + cbn in E. now injection E as <-.
      + rewrite ser_map_cons in E. destruct (ser t x) as [y|] eqn:Ey; [|discriminate].
        destruct (ser_map t m) as [ys|]; [|discriminate]. injection E as <-. destruct Hok as (_ & Hx & Hm).
        cbn [forallb snd]. rewrite (IH Hwf x y Hx Ey). now apply IHm.
    - rewrite wf_struct in Hwf. apply andb_true_iff in Hwf as [Hnd Hwf]. apply nodup_strs_NoDup in Hnd.
      change (option_map JObj (ser_fields fs l) = Some j) in H. destruct (ser_fields fs l) as [ms|] eqn:E; [|discriminate]. injection H as <-.
      cbn [nodup_deep]. rewrite (NoDup_nodup_strs _ (ser_fields_nodup _ _ _ Hnd E)). cbn [andb].
      cbn in Hok. fold (ok_fields fs l) in Hok. clear Hnd.
      revert l ms Hok E Hwf. induction IH as [|[fm ft] r Hft _ IHr]; intros vs ms Hok E Hwf.
      + destruct vs; [|destruct Hok]. cbn in E. now injection E as <-.
      + destruct vs as [|x xs]; [destruct Hok|]. destruct Hok as [Hx Hxs].
        rewrite wf_fields_cons in Hwf. apply andb_true_iff in Hwf as [Hwf Hwr]. apply andb_true_iff in Hwf as [Hwt _].
        rewrite ser_fields_cons in E. destruct (ser ft x) as [y|] eqn:Ey; [|discriminate].
        destruct (ser_fields r xs) as [ys|] eqn:Eys; [|discriminate]. injection E as <-. cbn [snd] in Hft.
        specialize (IHr xs ys Hxs Eys Hwr).
        destruct (skipped fm ft x y); [exact IHr|]. cbn [forallb snd]. now rewrite (Hft Hwt x y Hx Ey).
  Qed.

  (** ** a struct reads its object through [lookup] on its own field names only: members under other
      keys are ignored, and the order of the members is irrelevant *)
  Lemma find_aliases_ext names m m' :
    (forall k, In k names -> lookup k m = lookup k m') -> find_aliases names m = find_aliases names m'.
  Proof.
    induction names as [|n r IH]; intros H; [reflexivity|]. cbn [find_aliases].
    rewrite (H n (or_introl eq_refl)), IH; [reflexivity|]. intros; apply H; now right.
  Qed.

  Theorem struct_reads_own_names fs m m' :
    (forall k, In k (flat_map field_names fs) -> lookup k m = lookup k m') ->
    deser (TStruct fs) (JObj m) = deser (TStruct fs) (JObj m').
  Proof.
    intros H. rewrite !deser_struct. f_equal.
    induction fs as [|[fm ft] r IH]; [reflexivity|]. rewrite !deser_fields_cons.
    rewrite IH by (intros; apply H; cbn [flat_map]; apply in_or_app; now right).
    unfold field_value. erewrite find_aliases_ext; [reflexivity|].
    intros k Hk. apply H. cbn [flat_map]. apply in_or_app. now left.
  Qed.

  Corollary unknown_member_ignored fs m k x :
    ~ In k (flat_map field_names fs) ->
    deser (TStruct fs) (JObj (insert k x m)) = deser (TStruct fs) (JObj m).
  Proof.
    intros Hk. apply struct_reads_own_names. intros k' Hk'. rewrite lookup_insert.
    destruct (str_eqb_spec k' k) as [->|]; [contradiction|reflexivity].
  Qed.
End Proofs.
