(** C18.Serde — a model of what `#[derive(Serialize, Deserialize)]` generates for the plain
    subset of ruma's event-content structs, as a pair of interpreters over a *schema* that the
    translator (tools/translators/c18.py) reads off ruma's source text on every run.

    Mirrors (serde_derive 1.0 on a struct with named fields, driven by serde_json):
      deserialization  the generated visitor: for each member of the JSON object, match the key
                       against each field's name, then its aliases; a second member for the same field
                       is the error `duplicate field`; unknown members are skipped (IgnoredAny);
                       after the loop a field that was not seen takes `Default::default()` when it is
                       `#[serde(default)]`, the value of `path()` for `default = "path"`, `None` when
                       its type is `Option<_>`, and is otherwise the error `missing field`;
                       `Option<T>`: JSON null is `None`, anything else `Some(T::deserialize)`.
      serialization    the fields in declaration order, a field being left out when its
                       `skip_serializing_if` predicate holds of its value.
    Values of leaf types: strings (identifier types additionally validated by a class-indexed
    predicate [valid], a parameter), string enums (any string; a declared alias is canonicalised when
    the value is printed), booleans, integers of an interval (js_int::UInt / Int, u8.. u64),
    serde_json::Value (kept), JsonObject (kept, must be an object).
    Input objects are association lists read with [lookup] (first member for a key); the texts the
    harness feeds have no duplicate members, so "first" is "the".  No proofs here. *)
From Base Require Import Prelude Sx Json.
From C08 Require Model.   (* [parse_v1_string]: the string form of legacy power levels (ruma-common serde/strings.rs) *)

(** how a missing member is filled in *)
Inductive dkind :=
| DRequired                 (* no `default`: missing -> error, unless the type is Option *)
| DDefault                  (* #[serde(default)]: Default::default() of the field type *)
| DConst (c : json)         (* #[serde(default = "path")] with the value `path()` returns, as JSON *)
| DStrict.                  (* a `with` / `deserialize_with` member without `default`: missing -> error even for Option *)

(** when a member is left out on output *)
Inductive skind :=
| SNever
| SIfNone                   (* Option::is_none *)
| SIfEmpty                  (* Vec / BTreeMap / BTreeSet / String / JsonObject ::is_empty *)
| SIfDefault                (* ruma_common::serde::is_default *)
| SIfEq (c : json).         (* is_true, is_default_power_level, ...: the value prints as [c] *)

Record fmeta := { f_name : str; f_aliases : list str; f_default : dkind; f_skip : skind }.

Inductive ty :=
| TStr
| TId (c : N)
| TEnum (aliases : list (str * str))      (* alias spelling -> canonical spelling *)
| TBool
| TInt (lo hi : Z)
| TIntLax (lo hi : Z)                      (* `deserialize_with = deserialize_v1_powerlevel`: an integer, or a string holding one *)
| TAny
| TConst (c : json)                    (* the tag member of #[serde(tag = ..)] on a struct: always written as [c], not looked at when read *)
| TObjAny
| TOpt (t : ty)
| TVec (t : ty)
| TMap (c : N) (t : ty)                   (* key class 0 = String; otherwise an identifier class *)
| TMapEnum (al : list (str * str)) (t : ty)   (* BTreeMap keyed by a string enum: keys canonicalised, later entry wins *)
| TStruct (fs : list (fmeta * ty)).

Inductive val :=
| VStr (s : str) | VBool (b : bool) | VInt (z : Z) | VAny (j : json)
| VNone | VSome (v : val) | VVec (l : list val) | VMap (m : list (str * val)) | VStruct (l : list val).

Fixpoint nodup_strs (l : list str) : bool :=
  match l with [] => true | x :: r => negb (mem_str x r) && nodup_strs r end.

(** JSON whose objects have no duplicate keys, at every depth *)
Fixpoint nodup_deep (j : json) : bool :=
  match j with
  | JArr l => forallb nodup_deep l
  | JObj m => nodup_strs (List.map fst m) && forallb (fun kv => nodup_deep (snd kv)) m
  | _ => true
  end.

Section Serde.
  Variable valid : N -> str -> bool.      (* identifier validators (C10); class 0 is "any string" *)
  Hypothesis valid0 : forall s, valid 0 s = true.

  Fixpoint assoc_alias (s : str) (l : list (str * str)) : str :=
    match l with [] => s | (a, c) :: r => if str_eqb s a then c else assoc_alias s r end.

  (** Default::default() of a type, as a typed value (None when the type has no Default the
      translator knows of — such a `default` makes the struct "custom") *)
  Fixpoint default_of (t : ty) : option val :=
    match t with
    | TStr => Some (VStr [])
    | TBool => Some (VBool false)
    | TInt lo hi | TIntLax lo hi => if (lo <=? 0)%Z && (0 <=? hi)%Z then Some (VInt 0) else None
    | TOpt _ => Some VNone
    | TVec _ => Some (VVec [])
    | TMap _ _ | TMapEnum _ _ => Some (VMap [])
    | TObjAny => Some (VAny (JObj []))
    | TAny => Some (VAny JNull)
    | TConst c => Some (VAny c)
    | TId _ | TEnum _ => None
    | TStruct fs =>
        (fix go (fs : list (fmeta * ty)) : option val :=
           match fs with
           | [] => Some (VStruct [])
           | (m, t) :: r =>
               match default_of t, go r with
               | Some v, Some (VStruct vs) => Some (VStruct (v :: vs))
               | _, _ => None
               end
           end) fs
    end.

  (** first member of [m] whose key is the field's name or one of its aliases; [Err] when two
      different spellings of the field are present (serde: `duplicate field`) *)
  Fixpoint find_aliases (names : list str) (m : obj) : list json :=
    match names with
    | [] => []
    | n :: r => match lookup n m with Some x => x :: find_aliases r m | None => find_aliases r m end
    end.

  Fixpoint deser (t : ty) (j : json) {struct t} : option val :=
    match t with
    | TStr => match j with JStr s => Some (VStr s) | _ => None end
    | TId c => match j with JStr s => if valid c s then Some (VStr s) else None | _ => None end
    | TEnum al => match j with JStr s => Some (VStr (assoc_alias s al)) | _ => None end
    | TBool => match j with JBool b => Some (VBool b) | _ => None end
    | TInt lo hi => match j with
                    | JInt z => if (lo <=? z)%Z && (z <=? hi)%Z then Some (VInt z) else None
                    | _ => None
                    end
    | TIntLax lo hi =>
        match j with
        | JInt z => if (lo <=? z)%Z && (z <=? hi)%Z then Some (VInt z) else None
        | JStr s => match C08.Model.parse_v1_string s with
                    | Some z => if (lo <=? z)%Z && (z <=? hi)%Z then Some (VInt z) else None
                    | None => None
                    end
        | _ => None
        end
    | TAny => Some (VAny j)
    | TConst c => Some (VAny c)
    | TObjAny => match j with JObj _ => Some (VAny j) | _ => None end
    | TOpt t' => match j with JNull => Some VNone | _ => option_map VSome (deser t' j) end
    | TVec t' =>
        match j with
        | JArr l =>
            option_map VVec
              ((fix go (l : list json) : option (list val) :=
                  match l with
                  | [] => Some []
                  | x :: r => match deser t' x, go r with
                              | Some v, Some vs => Some (v :: vs)
                              | _, _ => None
                              end
                  end) l)
        | _ => None
        end
    | TMap c t' =>
        match j with
        | JObj m =>
            option_map VMap
              ((fix go (m : list (str * json)) : option (list (str * val)) :=
                  match m with
                  | [] => Some []
                  | (k, x) :: r => if valid c k
                                   then match deser t' x, go r with
                                        | Some v, Some vs => Some ((k, v) :: vs)
                                        | _, _ => None
                                        end
                                   else None
                  end) m)
        | _ => None
        end
    | TMapEnum al t' =>
        match j with
        | JObj m =>
            option_map VMap
              ((fix go (m : list (str * json)) (acc : list (str * val)) : option (list (str * val)) :=
                  match m with
                  | [] => Some acc
                  | (k, x) :: r => match deser t' x with
                                   | Some v => go r (insert (assoc_alias k al) v acc)
                                   | None => None
                                   end
                  end) m [])
        | _ => None
        end
    | TStruct fs =>
        match j with
        | JObj m =>
            option_map VStruct
              ((fix go (fs : list (fmeta * ty)) : option (list val) :=
                  match fs with
                  | [] => Some []
                  | (fm, ft) :: r =>
                      let fv :=
                        match find_aliases (f_name fm :: f_aliases fm) m with
                        | [x] => deser ft x
                        | [] =>
                            match f_default fm with
                            | DDefault => default_of ft
                            | DConst c => deser ft c
                            | DRequired => match ft with TOpt _ => Some VNone | _ => None end
                            | DStrict => None
                            end
                        | _ => None
                        end in
                      match fv, go r with
                      | Some v, Some vs => Some (v :: vs)
                      | _, _ => None
                      end
                  end) fs)
        | _ => None
        end
    end.

  Fixpoint val_eqb (a b : val) {struct a} : bool :=
    match a, b with
    | VStr x, VStr y => str_eqb x y
    | VBool x, VBool y => Bool.eqb x y
    | VInt x, VInt y => (x =? y)%Z
    | VAny x, VAny y => json_eqb x y
    | VNone, VNone => true
    | VSome x, VSome y => val_eqb x y
    | VVec x, VVec y =>
        (fix go (x y : list val) : bool :=
           match x, y with
           | [], [] => true
           | a :: x', b :: y' => val_eqb a b && go x' y'
           | _, _ => false
           end) x y
    | VMap x, VMap y =>
        (fix go (x : list (str * val)) (y : list (str * val)) : bool :=
           match x, y with
           | [], [] => true
           | (k, a) :: x', (k', b) :: y' => str_eqb k k' && val_eqb a b && go x' y'
           | _, _ => false
           end) x y
    | VStruct x, VStruct y =>
        (fix go (x y : list val) : bool :=
           match x, y with
           | [], [] => true
           | a :: x', b :: y' => val_eqb a b && go x' y'
           | _, _ => false
           end) x y
    | _, _ => false
    end.

  Definition is_empty_val (v : val) : bool :=
    match v with
    | VStr [] | VVec [] | VMap [] | VAny (JObj []) => true
    | _ => false
    end.

  (** serialization: JSON with the members of every struct in declaration order *)
  Fixpoint ser (t : ty) (v : val) {struct t} : option json :=
    match t, v with
    | TStr, VStr s | TId _, VStr s | TEnum _, VStr s => Some (JStr s)
    | TBool, VBool b => Some (JBool b)
    | TInt _ _, VInt z | TIntLax _ _, VInt z => Some (JInt z)
    | TAny, VAny j | TObjAny, VAny j | TConst _, VAny j => Some j
    | TOpt _, VNone => Some JNull
    | TOpt t', VSome v' => ser t' v'
    | TVec t', VVec l =>
        option_map JArr
          ((fix go (l : list val) : option (list json) :=
              match l with
              | [] => Some []
              | x :: r => match ser t' x, go r with
                          | Some y, Some ys => Some (y :: ys)
                          | _, _ => None
                          end
              end) l)
    | TMap _ t', VMap m | TMapEnum _ t', VMap m =>
        option_map JObj
          ((fix go (m : list (str * val)) : option (list (str * json)) :=
              match m with
              | [] => Some []
              | (k, x) :: r => match ser t' x, go r with
                               | Some y, Some ys => Some ((k, y) :: ys)
                               | _, _ => None
                               end
              end) m)
    | TStruct fs, VStruct vs =>
        option_map JObj
          ((fix go (fs : list (fmeta * ty)) (vs : list val) : option (list (str * json)) :=
              match fs, vs with
              | [], [] => Some []
              | (fm, ft) :: r, x :: xs =>
                  match ser ft x, go r xs with
                  | Some y, Some ys =>
                      let skipped :=
                        match f_skip fm with
                        | SNever => false
                        | SIfNone => match x with VNone => true | _ => false end
                        | SIfEmpty => is_empty_val x
                        | SIfDefault => match default_of ft with Some d => val_eqb x d | None => false end
                        | SIfEq c => json_eqb y c
                        end in
                      Some (if skipped then ys else (f_name fm, y) :: ys)
                  | _, _ => None
                  end
              | _, _ => None
              end) fs vs)
    | _, _ => None
    end.
End Serde.
