(** C18.SpecSchemas — hand transcription of the `content` definitions of the Matrix specification
    (client-server API v1.14, end-to-end encryption module, spaces, moderation policy lists, server
    ACLs) for the event types whose ruma content struct is in the
    modelled derive subset.  Written from the specification's tables: member name, "Required" column,
    JSON type.  No reference to ruma's code.  Identifier classes: 1 user ID, 2 room ID, 3 event ID,
    4 room alias, 5 server name, 9 room version, 10 server signing key ID (`ed25519:<version>`).  Integers are the specification's `integer`
    (canonical-JSON range); where the specification restricts further (non-negative sizes and
    timestamps) the narrower range is used.

    Readings (the text admits more than one):
    R1  m.space.child / m.space.parent `via`: the specification lists it without "Required" in the
        schema table but says an event without a valid `via` is to be ignored; ruma requires it.  The
        transcription follows the table's sibling text and makes it required (an event without it is not
        a usable child/parent relation; ruma rejecting it is the behaviour the text asks for).
    R3  m.room_key_request `body.sender_key` is deprecated for readers but still listed as required
        for senders ("must continue to be sent"); transcribed as required.
    R2  m.room.redaction `redacts` is optional in `content` (room versions before 11 carry it at the top
        level). *)
From Base Require Import Prelude Json.
From C18 Require Import SerdeSpec.

Definition maxi : Z := 9007199254740991.
Definition SIntAny := SInt (- maxi) maxi.
Definition SUInt := SInt 0 maxi.

Definition req (n : str) (s : sty) : str * (bool * sty) := (n, (true, s)).
Definition opt (n : str) (s : sty) : str * (bool * sty) := (n, (false, s)).

Definition thumbnail_info : sty :=
  SObj [opt s!"h" SUInt; opt s!"w" SUInt; opt s!"mimetype" SStr; opt s!"size" SUInt].

Definition avatar_image_info : sty :=
  SObj [opt s!"h" SUInt; opt s!"w" SUInt; opt s!"mimetype" SStr; opt s!"size" SUInt;
        opt s!"thumbnail_info" thumbnail_info; opt s!"thumbnail_url" SStr].

Definition policy_rule : sty := SObj [req s!"entity" SStr; req s!"recommendation" SStr; req s!"reason" SStr].

Definition requested_key_info : sty :=
  SObj [req s!"algorithm" SStr; req s!"room_id" (SId 2); req s!"sender_key" SStr; req s!"session_id" SStr].

Definition reference : sty := SObj [req s!"rel_type" SStr; req s!"event_id" (SId 3)].

Definition spec_contents : list (str * str * sty) := [
  (s!"EphemeralRoom", s!"m.typing", SObj [req s!"user_ids" (SArr (SId 1))]);
  (s!"GlobalAccountData", s!"m.ignored_user_list", SObj [req s!"ignored_users" (SMap 1 (SObj []))]);
  (s!"GlobalAccountData", s!"m.secret_storage.default_key", SObj [req s!"key" SStr]);
  (s!"MessageLike", s!"m.key.verification.cancel",
     SObj [req s!"reason" SStr; req s!"code" SStr; req s!"m.relates_to" reference]);
  (s!"MessageLike", s!"m.key.verification.done", SObj [req s!"m.relates_to" reference]);
  (s!"MessageLike", s!"m.key.verification.ready",
     SObj [req s!"from_device" SStr; req s!"methods" (SArr SStr); req s!"m.relates_to" reference]);
  (s!"MessageLike", s!"m.reaction",
     SObj [req s!"m.relates_to" (SObj [req s!"rel_type" SStr; req s!"event_id" (SId 3); req s!"key" SStr])]);
  (s!"MessageLike", s!"m.room.redaction", SObj [opt s!"redacts" (SId 3); opt s!"reason" SStr]);
  (s!"RoomAccountData", s!"m.fully_read", SObj [req s!"event_id" (SId 3)]);
  (s!"RoomAccountData", s!"m.marked_unread", SObj [req s!"unread" SBool]);
  (s!"State", s!"m.policy.rule.room", policy_rule);
  (s!"State", s!"m.policy.rule.server", policy_rule);
  (s!"State", s!"m.policy.rule.user", policy_rule);
  (s!"State", s!"m.room.aliases", SObj [req s!"aliases" (SArr (SId 4))]);
  (s!"State", s!"m.room.avatar", SObj [opt s!"url" SStr; opt s!"info" avatar_image_info]);
  (s!"State", s!"m.room.create",
     SObj [opt s!"creator" (SId 1); opt s!"m.federate" SBool; opt s!"room_version" (SId 9); opt s!"type" SStr;
           opt s!"predecessor" (SObj [req s!"room_id" (SId 2); req s!"event_id" (SId 3)])]);
  (s!"State", s!"m.room.member",
     SObj [req s!"membership" SStr; opt s!"avatar_url" SStr; opt s!"displayname" SStr; opt s!"is_direct" SBool;
           opt s!"reason" SStr; opt s!"join_authorised_via_users_server" (SId 1);
           opt s!"third_party_invite"
             (SObj [req s!"display_name" SStr;
                    req s!"signed" (SObj [req s!"mxid" (SId 1); req s!"token" SStr;
                                          req s!"signatures" (SMap 5 (SMap 10 SStr))])])]);
  (s!"State", s!"m.room.encryption",
     SObj [req s!"algorithm" SStr; opt s!"rotation_period_ms" SUInt; opt s!"rotation_period_msgs" SUInt]);
  (s!"State", s!"m.room.guest_access", SObj [req s!"guest_access" SStr]);
  (s!"State", s!"m.room.history_visibility", SObj [req s!"history_visibility" SStr]);
  (s!"State", s!"m.room.name", SObj [req s!"name" SStr]);
  (s!"State", s!"m.room.pinned_events", SObj [req s!"pinned" (SArr (SId 3))]);
  (s!"State", s!"m.room.power_levels",
     SObj [opt s!"ban" SIntAny; opt s!"events" (SMap 0 SIntAny); opt s!"events_default" SIntAny; opt s!"invite" SIntAny;
           opt s!"kick" SIntAny; opt s!"notifications" (SObj [opt s!"room" SIntAny]); opt s!"redact" SIntAny;
           opt s!"state_default" SIntAny; opt s!"users" (SMap 1 SIntAny); opt s!"users_default" SIntAny]);
  (s!"State", s!"m.room.server_acl",
     SObj [opt s!"allow_ip_literals" SBool; opt s!"allow" (SArr SStr); opt s!"deny" (SArr SStr)]);
  (s!"State", s!"m.room.third_party_invite",
     SObj [req s!"display_name" SStr; req s!"key_validity_url" SStr; req s!"public_key" SStr;
           opt s!"public_keys" (SArr (SObj [opt s!"key_validity_url" SStr; req s!"public_key" SStr]))]);
  (s!"State", s!"m.room.tombstone", SObj [req s!"body" SStr; req s!"replacement_room" (SId 2)]);
  (s!"State", s!"m.room.topic", SObj [req s!"topic" SStr]);
  (s!"State", s!"m.space.child",
     SObj [req s!"via" (SArr (SId 5)); opt s!"order" SStr; opt s!"suggested" SBool]);
  (s!"State", s!"m.space.parent", SObj [req s!"via" (SArr (SId 5)); opt s!"canonical" SBool]);
  (s!"ToDevice", s!"m.forwarded_room_key",
     SObj [req s!"algorithm" SStr; req s!"room_id" (SId 2); req s!"sender_key" SStr; req s!"session_id" SStr;
           req s!"session_key" SStr; req s!"sender_claimed_ed25519_key" SStr;
           req s!"forwarding_curve25519_key_chain" (SArr SStr)]);
  (s!"ToDevice", s!"m.key.verification.cancel",
     SObj [req s!"transaction_id" SStr; req s!"reason" SStr; req s!"code" SStr]);
  (s!"ToDevice", s!"m.key.verification.done", SObj [req s!"transaction_id" SStr]);
  (s!"ToDevice", s!"m.key.verification.ready",
     SObj [req s!"from_device" SStr; req s!"methods" (SArr SStr); req s!"transaction_id" SStr]);
  (s!"ToDevice", s!"m.key.verification.request",
     SObj [req s!"from_device" SStr; req s!"methods" (SArr SStr); req s!"transaction_id" SStr;
           req s!"timestamp" SUInt]);
  (s!"ToDevice", s!"m.room_key",
     SObj [req s!"algorithm" SStr; req s!"room_id" (SId 2); req s!"session_id" SStr; req s!"session_key" SStr]);
  (s!"ToDevice", s!"m.room_key_request",
     SObj [req s!"action" SStr; opt s!"body" requested_key_info; req s!"requesting_device_id" SStr;
           req s!"request_id" SStr]);
  (s!"ToDevice", s!"m.secret.send", SObj [req s!"request_id" SStr; req s!"secret" SStr]) ].
