(** C18.NonVacuity — [deser] succeeds on ordinary events, with every outcome the theorems
    speak about (known / aliased / unknown type, original / redacted, state / message-like). *)
From Base Require Import Prelude Sx Json EnumDecl.
From Gen Require Import StringEnums.
From C18 Require Import Model Spec Bridge Proofs.

Definition ev_message (ty : str) (unsigned : list (str * json)) : obj :=
  [ (s!"content", JObj []); (s!"event_id", JStr s!"$e:x.org"); (s!"origin_server_ts", JInt 5);
    (s!"room_id", JStr s!"!r:x.org"); (s!"sender", JStr s!"@a:x.org"); (s!"type", JStr ty) ] ++ unsigned.

Example known_original :
  exists o, deser TTimeline (ev_message s!"m.room.message" []) = Ok o /\
    o_group o = s!"MessageLike" /\ o_variant o = s!"RoomMessage" /\ o_redacted o = 0 /\ o_sender o = Some s!"@a:x.org".
Proof. eexists. split; [vm_compute; reflexivity|]. repeat split. Qed.

Example aliased_type :
  exists o, deser TMessageLike (ev_message s!"org.matrix.call.sdp_stream_metadata_changed" []) = Ok o /\
    o_variant o = s!"CallSdpStreamMetadataChanged" /\ o_type o = s!"m.call.sdp_stream_metadata_changed".
Proof. eexists. split; [vm_compute; reflexivity|]. repeat split. Qed.

Example unknown_type :
  exists o, deser TMessageLike (ev_message s!"org.example.custom" []) = Ok o /\
    o_variant o = s!"_Custom" /\ o_type o = s!"org.example.custom".
Proof. eexists. split; [vm_compute; reflexivity|]. repeat split. Qed.

Definition redaction : json :=
  JObj [ (s!"content", JObj []); (s!"event_id", JStr s!"$r:x.org"); (s!"origin_server_ts", JInt 6);
         (s!"sender", JStr s!"@a:x.org") ].

Example redacted :
  exists o, deser TTimeline (ev_message s!"m.room.message" [(s!"unsigned", JObj [(s!"redacted_because", redaction)])]) = Ok o /\
    o_redacted o = 1.
Proof. eexists. split; [vm_compute; reflexivity|]. reflexivity. Qed.

Example null_redacted_because_is_absent :
  exists o, deser TTimeline (ev_message s!"m.room.message" [(s!"unsigned", JObj [(s!"redacted_because", JNull)])]) = Ok o /\
    o_redacted o = 0.
Proof. eexists. split; [vm_compute; reflexivity|]. reflexivity. Qed.

Example missing_sender_rejected : deser TTimeline (remove s!"sender" (ev_message s!"m.room.message" [])) = Err 0.
Proof. vm_compute. reflexivity. Qed.
