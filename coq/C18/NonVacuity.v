(** C18.NonVacuity — [deser] succeeds on ordinary events, with every outcome the theorems
    speak about (known / aliased / unknown type, original / redacted, state / message-like). *)
From Base Require Import Prelude Sx Json EnumDecl.
From Gen Require Import StringEnums.
From C18 Require Import Model Spec Bridge Proofs.

Definition ev_message (ty : str) (unsigned : list (str * json)) : obj :=
  [ (s!"content", JObj []); (s!"event_id", JStr s!"$e:x.org"); (s!"origin_server_ts", JInt 5);
    (s!"room_id", JStr s!"!r:x.org"); (s!"sender", JStr s!"@a:x.org"); (s!"type", JStr ty) ] ++ unsigned.

Example known_original :
  exists o, deser TTimeline (ev_message s!"m.room.message" []) = Ok o /\
    o_group o = s!"MessageLike" /\ o_variant o = s!"RoomMessage" /\ o_redacted o = 0 /\ o_sender o = Some s!"@a:x.org".
Proof. eexists. split; [vm_compute; reflexivity|]. repeat split. Qed.

Example aliased_type :
  exists o, deser TMessageLike (ev_message s!"org.matrix.call.sdp_stream_metadata_changed" []) = Ok o /\
    o_variant o = s!"CallSdpStreamMetadataChanged" /\ o_type o = s!"m.call.sdp_stream_metadata_changed".
Proof. eexists. split; [vm_compute; reflexivity|]. repeat split. Qed.

Example unknown_type :
  exists o, deser TMessageLike (ev_message s!"org.example.custom" []) = Ok o /\
    o_variant o = s!"_Custom" /\ o_type o = s!"org.example.custom".
Proof. eexists. split; [vm_compute; reflexivity|]. repeat split. Qed.

Definition redaction : json :=
  JObj [ (s!"content", JObj []); (s!"event_id", JStr s!"$r:x.org"); (s!"origin_server_ts", JInt 6);
         (s!"sender", JStr s!"@a:x.org") ].

Example redacted :
  exists o, deser TTimeline (ev_message s!"m.room.message" [(s!"unsigned", JObj [(s!"redacted_because", redaction)])]) = Ok o /\
    o_redacted o = 1.
Proof. eexists. split; [vm_compute; reflexivity|]. reflexivity. Qed.

Example null_redacted_because_is_absent :
  exists o, deser TTimeline (ev_message s!"m.room.message" [(s!"unsigned", JObj [(s!"redacted_because", JNull)])]) = Ok o /\
    o_redacted o = 0.
Proof. eexists. split; [vm_compute; reflexivity|]. reflexivity. Qed.

Example missing_sender_rejected : deser TTimeline (remove s!"sender" (ev_message s!"m.room.message" [])) = Err 0.
Proof. vm_compute. reflexivity. Qed.

(** * The content clause through the derive model: the hypotheses of [C18_content_*] are met by
    ordinary contents, and the interesting branches (skipped members, defaults, unknown members, tag
    members, rejected input) all occur. *)
From Base Require JsonText.
From Gen Require SerdeSchemas.
From C18 Require Serde SerdeSpec SerdeProofs SpecSchemas SerdeBridge.

Definition acl_in : json :=
  JObj [ (s!"allow", JArr [JStr s!"*"]); (s!"allow_ip_literals", JBool true); (s!"deny", JArr []);
         (s!"x.unknown", JInt 1) ].

(** m.room.server_acl: `allow_ip_literals: true` and the empty `deny` are left out when printing (they
    are the defaults the missing-member rule re-creates), the unknown member is dropped, and the printed
    text reads back as the same typed value. *)
Example server_acl_fixpoint :
  exists t v j',
    SerdeBridge.find_schema s!"State" s!"m.room.server_acl" SerdeSchemas.content_schemas = Some t /\
    Serde.deser SerdeBridge.id_valid t acl_in = Some v /\ Serde.ser t v = Some j' /\
    JsonText.print j' = s!"{""allow"":[""*""]}" /\ Serde.deser SerdeBridge.id_valid t j' = Some v.
Proof. do 3 eexists. repeat split; vm_compute; reflexivity. Qed.

(** a specification-shaped m.room.member content with a third-party invite: conforms, uses no ruma-only
    member name, and is accepted *)
Definition member_in : json :=
  JObj [ (s!"displayname", JStr s!"Alice"); (s!"membership", JStr s!"invite");
         (s!"third_party_invite",
          JObj [ (s!"display_name", JStr s!"a...@e.org");
                 (s!"signed", JObj [ (s!"mxid", JStr s!"@alice:e.org");
                                     (s!"signatures", JObj [(s!"id.e.org", JObj [(s!"ed25519:0", JStr s!"c2ln")])]);
                                     (s!"token", JStr s!"tok") ]) ]) ].

Example member_spec_shaped :
  exists s t,
    SerdeBridge.find_schema s!"State" s!"m.room.member" SpecSchemas.spec_contents = Some s /\
    SerdeBridge.find_schema s!"State" s!"m.room.member" SerdeSchemas.content_schemas = Some t /\
    SerdeSpec.conforms SerdeBridge.id_valid s member_in = true /\ SerdeSpec.extra_free s t member_in = true /\
    exists v, Serde.deser SerdeBridge.id_valid t member_in = Some v.
Proof. do 2 eexists. repeat split; try (vm_compute; reflexivity). eexists. vm_compute. reflexivity. Qed.

(** an invalid user ID in `mxid` is rejected (the validators are C10's models, not a stub) *)
Example member_bad_mxid_rejected :
  forall t, SerdeBridge.find_schema s!"State" s!"m.room.member" SerdeSchemas.content_schemas = Some t ->
  Serde.deser SerdeBridge.id_valid t
    (JObj [ (s!"membership", JStr s!"invite");
            (s!"third_party_invite",
             JObj [ (s!"display_name", JStr s!"a"); 
                    (s!"signed", JObj [ (s!"mxid", JStr s!"alice"); (s!"signatures", JObj []); (s!"token", JStr s!"t") ]) ]) ]) = None.
Proof. intros t H. vm_compute in H. injection H as <-. vm_compute. reflexivity. Qed.

(** the tag member of a tagged struct (m.reaction's relation) is written as the constant and not looked
    at on input *)
Example reaction_tag :
  exists t v j',
    SerdeBridge.find_schema s!"MessageLike" s!"m.reaction" SerdeSchemas.content_schemas = Some t /\
    Serde.deser SerdeBridge.id_valid t
      (JObj [(s!"m.relates_to", JObj [(s!"event_id", JStr s!"$e:x.org"); (s!"key", JStr s!"+1"); (s!"rel_type", JStr s!"bogus")])]) = Some v /\
    Serde.ser t v = Some j' /\
    JsonText.print j' = s!"{""m.relates_to"":{""rel_type"":""m.annotation"",""event_id"":""$e:x.org"",""key"":""+1""}}".
Proof. do 3 eexists. repeat split; vm_compute; reflexivity. Qed.
