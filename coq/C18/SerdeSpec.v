(** C18.SerdeSpec — the specification side of the content clause: a schema language for what the
    Matrix specification says an event's `content` looks like (required / optional members and their
    JSON types), conformance of a JSON value to it, and the decidable relation [compat] between a
    specification schema and a derive schema ([C18.Serde.ty]) under which every conforming value is
    accepted.  Written without reference to ruma's code; the tables of specification schemas are in
    [C18.SpecSchemas] (hand transcription), the derive schemas in [Gen.SerdeSchemas] (translator). *)
From Base Require Import Prelude Sx Json.
From C18 Require Import Serde.
Require Import Lia ZifyBool.

Inductive sty :=
| SStr
| SId (c : N)
| SBool
| SInt (lo hi : Z)
| SAnyJson
| SObjAny
| SArr (s : sty)
| SMap (c : N) (s : sty)
| SObj (fs : list (str * (bool * sty))).     (* member name, required?, type *)

Fixpoint assoc {A} (k : str) (l : list (str * A)) : option A :=
  match l with [] => None | (k', v) :: r => if str_eqb k k' then Some v else assoc k r end.

Definition is_none {A} (o : option A) : bool := match o with None => true | Some _ => false end.
Definition is_some {A} (o : option A) : bool := match o with None => false | Some _ => true end.

Section Spec.
  Variable valid : N -> str -> bool.

  (** [j] has the shape the specification describes: required members present, every described
      member that is present has its described type; members the schema does not name are free *)
  Fixpoint conforms (s : sty) (j : json) {struct s} : bool :=
    match s, j with
    | SStr, JStr _ => true
    | SId c, JStr x => valid c x
    | SBool, JBool _ => true
    | SInt lo hi, JInt z => (lo <=? z)%Z && (z <=? hi)%Z
    | SAnyJson, _ => true
    | SObjAny, JObj _ => true
    | SArr s', JArr l => forallb (conforms s') l
    | SMap c s', JObj m => forallb (fun kv => valid c (fst kv) && conforms s' (snd kv)) m
    | SObj fs, JObj m =>
        (fix go (fs : list (str * (bool * sty))) : bool :=
           match fs with
           | [] => true
           | (n, (req, s')) :: r =>
               match lookup n m with
               | Some x => conforms s' x
               | None => negb req
               end && go r
           end) fs
    | _, _ => false
    end.

  (** a member may be left out of the input *)
  Definition optional (fm : fmeta) (ft : ty) : bool :=
    match f_default fm with
    | DRequired => match ft with TOpt _ => true | _ => false end
    | DDefault => is_some (default_of ft)
    | DConst c => is_some (deser valid ft c)
    | DStrict => false
    end.

  Definition not_any (s : sty) : bool := match s with SAnyJson => false | _ => true end.

  (** every value conforming to [s] is accepted by the derive schema [t] *)
  Fixpoint compat (s : sty) (t : ty) {struct t} : bool :=
    match t with
    | TAny | TConst _ => true
    | TOpt t' => not_any s && compat s t'
    | TStr | TEnum _ => match s with SStr | SId _ => true | _ => false end
    | TId c => match s with SId c' => (c =? c')%N | _ => false end
    | TBool => match s with SBool => true | _ => false end
    | TInt lo hi | TIntLax lo hi => match s with SInt lo' hi' => (lo <=? lo')%Z && (hi' <=? hi)%Z | _ => false end
    | TObjAny => match s with SObjAny | SObj _ | SMap _ _ => true | _ => false end
    | TVec t' => match s with SArr s' => compat s' t' | _ => false end
    | TMap c t' => match s with SMap c' s' => ((c =? c')%N || (c =? 0)%N) && compat s' t' | _ => false end
    | TMapEnum _ t' => match s with SMap _ s' => compat s' t' | _ => false end
    | TStruct fs =>
        match s with
        | SObj sfs =>
            (* every member the specification describes is one the struct reads (by name or alias):
               none is silently dropped as "unknown" *)
            forallb (fun sf => mem_str (fst sf) (flat_map (fun f => f_name (fst f) :: f_aliases (fst f)) fs)) sfs
            &&
            (fix go (fs : list (fmeta * ty)) : bool :=
               match fs with
               | [] => true
               | (fm, ft) :: r =>
                   match assoc (f_name fm) sfs with
                   | Some (req, s') => compat s' ft && (req || optional fm ft)
                   | None => optional fm ft
                   end && go r
               end) fs
        | _ => false
        end
    end.

  (** the input uses no deprecated alias spelling, and no member name that only ruma knows (an
      unstable or legacy member the specification schema does not describe) — such a member is
      not "unknown" to the code, so the clause "unknown fields never cause failure" does not speak
      about it *)
  Fixpoint extra_free (s : sty) (t : ty) (j : json) {struct t} : bool :=
    match t, j with
    | TOpt t', _ => extra_free s t' j
    | TVec t', JArr l => match s with SArr s' => forallb (extra_free s' t') l | _ => true end
    | TMap _ t', JObj m | TMapEnum _ t', JObj m =>
        match s with SMap _ s' => forallb (fun kv => extra_free s' t' (snd kv)) m | _ => true end
    | TStruct fs, JObj m =>
        match s with
        | SObj sfs =>
            (fix go (fs : list (fmeta * ty)) : bool :=
               match fs with
               | [] => true
               | (fm, ft) :: r =>
                   forallb (fun a => is_none (lookup a m)) (f_aliases fm)
                   && match assoc (f_name fm) sfs with
                      | Some (_, s') => match lookup (f_name fm) m with Some x => extra_free s' ft x | None => true end
                      | None => is_none (lookup (f_name fm) m)
                      end
                   && go r
               end) fs
        | _ => true
        end
    | _, _ => true
    end.
End Spec.
