(** C18.Model — the dispatch layer of ruma-events' typed (de)serialization, on JSON values
    (objects are sorted association lists; the harness feeds the same value as JSON text in
    several key orders).  Strings are byte strings.

    Mirrors
      ruma-macros/src/events/event_enum.rs:147-209  generated [Deserialize] of the [Any*Event] enums:
                                                     peek `type`, first matching arm of the kind's table
                                                     (exact arms, `starts_with` arms for `.*` types), else [_Custom]
      ruma-events/src/enums.rs:300-330              [AnyTimelineEvent] / [AnySyncTimelineEvent]: `state_key` present
                                                     (and not null) selects the state enum
      ruma-events/src/kinds.rs:630-650, lib.rs:236-251  redaction detection: [unsigned.redacted_because] present and not null
      ruma-macros/src/events/event.rs:59-250        the [Event] derive: which envelope fields each event struct needs
      ruma-events/src/unsigned.rs:100-135           [RedactedUnsigned] / [UnsignedRoomRedactionEvent]
      ruma-common/src/serde/raw.rs:36-200           [Raw]: the text is kept verbatim
    The content types (serde-derive impls) are NOT modelled: [deser] assumes the `content`
    (and `unsigned.prev_content`, relations) of the input is accepted by the content type the
    dispatch selects — the harness builds such inputs from schemas, and a rejected one shows up
    as a disagreement.  Identifier grammar (C10) is not re-modelled either: string-typed id
    fields are assumed to hold valid identifiers.  No proofs here. *)
From Base Require Import Prelude Sx Json EnumDecl.
From Gen Require Import StringEnums.
From C19 Require Model.

(** * Targets: the enums of [observe_at] *)
Inductive ekind := KMessageLike | KState | KToDevice | KEphemeral | KGlobalAccountData | KRoomAccountData.
Inductive eformat := FFull | FSync | FStripped | FInitial | FPlain.

Inductive target :=
| TTimeline | TSyncTimeline
| TMessageLike | TSyncMessageLike | TState | TSyncState | TStripped | TInitial
| TToDevice | TEphemeral | TSyncEphemeral | TGlobalAccountData | TRoomAccountData.

Definition kind_name (k : ekind) : str :=
  match k with
  | KMessageLike => s!"MessageLike" | KState => s!"State" | KToDevice => s!"ToDevice"
  | KEphemeral => s!"EphemeralRoom" | KGlobalAccountData => s!"GlobalAccountData"
  | KRoomAccountData => s!"RoomAccountData"
  end.

Fixpoint assoc_str {A} (k : str) (l : list (str * A)) : option A :=
  match l with [] => None | (k', v) :: r => if str_eqb k k' then Some v else assoc_str k r end.

(** the generated table of a kind: (variant identifier, declaration) in match order *)
Definition table_in (tables : list (str * list (str * variant))) (k : ekind) : list (str * variant) :=
  match assoc_str (kind_name k) tables with Some t => t | None => [] end.
Definition table (k : ekind) : list (str * variant) := table_in event_tables k.

(** * Dispatch on the `type` string — the generated `match &*ev_type { .. }` *)
Definition dispatch (t : list (str * variant)) (ty : str) : C19.Model.value :=
  C19.Model.match_arms (C19.Model.flat_arms (List.map snd t) 0) ty.

Definition custom_name : str := s!"_Custom".

Definition variant_ident (t : list (str * variant)) (v : C19.Model.value) : str :=
  match v with
  | C19.Model.VUnit i | C19.Model.VData i _ =>
      match nth_error t i with Some (n, _) => n | None => custom_name end
  | C19.Model.VCustom _ => custom_name
  end.

(** what [event_type()] prints: the variant's own type (a `.*` type with its fragment), or the
    `type` string itself for [_Custom] *)
Definition variant_type (t : list (str * variant)) (v : C19.Model.value) : str :=
  match v with
  | C19.Model.VUnit i => match nth_error t i with Some (_, x) => v_out x | None => [] end
  | C19.Model.VData i suf => match nth_error t i with Some (_, x) => v_out x ++ suf | None => suf end
  | C19.Model.VCustom s => s
  end.

(** * The envelope *)
Definition k_type := s!"type".
Definition k_content := s!"content".
Definition k_unsigned := s!"unsigned".
Definition k_redacted_because := s!"redacted_because".
Definition k_state_key := s!"state_key".
Definition k_sender := s!"sender".
Definition k_event_id := s!"event_id".
Definition k_room_id := s!"room_id".
Definition k_ts := s!"origin_server_ts".

Definition max_uint : Z := 9007199254740991.

Definition get_str (k : str) (ev : obj) : outcome str :=
  match lookup k ev with Some (JStr s) => Ok s | _ => Err 0 end.

(** [MilliSecondsSinceUnixEpoch(UInt)] *)
Definition get_ts (ev : obj) : outcome Z :=
  match lookup k_ts ev with
  | Some (JInt z) => if (0 <=? z)%Z && (z <=? max_uint)%Z then Ok z else Err 0
  | _ => Err 0
  end.

(** enums.rs:297-301 [EventDeHelper { state_key: Option<IgnoredAny> }]: absent or null = no state key *)
Definition has_state_key (ev : obj) : bool :=
  match lookup k_state_key ev with None | Some JNull => false | Some _ => true end.

(** lib.rs:236-251 [RedactionDeHelper]: [unsigned: Option<{ redacted_because: Option<IgnoredAny> }>].
    A non-object, non-null `unsigned` is a type error (arrays are not generated). *)
Definition redaction_state (ev : obj) : outcome bool :=
  match lookup k_unsigned ev with
  | None | Some JNull => Ok false
  | Some (JObj u) =>
      match lookup k_redacted_because u with None | Some JNull => Ok false | Some _ => Ok true end
  | Some _ => Err 0
  end.

Definition is_str (j : option json) : bool := match j with Some (JStr _) => true | _ => false end.
Definition is_obj (j : option json) : bool := match j with Some (JObj _) => true | _ => false end.
Definition is_ts (j : option json) : bool :=
  match j with Some (JInt z) => (0 <=? z)%Z && (z <=? max_uint)%Z | _ => false end.
Definition absent_or_obj (j : option json) : bool :=
  match j with None | Some (JObj _) => true | _ => false end.

(** unsigned.rs:118-135 [UnsignedRoomRedactionEvent]: content, event_id, sender, origin_server_ts
    required, `unsigned` defaulted *)
Definition redaction_event_ok (j : json) : bool :=
  match j with
  | JObj r => is_obj (lookup k_content r) && is_str (lookup k_event_id r) && is_str (lookup k_sender r)
              && is_ts (lookup k_ts r) && absent_or_obj (lookup k_unsigned r)
  | _ => false
  end.

(** the `unsigned` member as the selected event struct needs it *)
Definition unsigned_ok (redacted : bool) (ev : obj) : bool :=
  if redacted then
    match lookup k_unsigned ev with
    | Some (JObj u) => match lookup k_redacted_because u with Some r => redaction_event_ok r | None => false end
    | _ => false
    end
  else absent_or_obj (lookup k_unsigned ev).   (* `unwrap_or_default()`; null is a type error *)

(** what the accessors of the typed event return *)
Record observation := {
  o_group : str;                 (* MessageLike / State for the timeline enums, else empty *)
  o_variant : str;               (* variant identifier, or _Custom *)
  o_redacted : N;                (* 0 original, 1 redacted, 2 the enum has no redacted form *)
  o_type : str;                  (* event_type().to_string() *)
  o_sender : option str;
  o_event_id : option str;
  o_ts : option Z;
  o_room_id : option str;
  o_state_key : option str }.

Definition opt_field (need : bool) (k : str) (ev : obj) : outcome (option str) :=
  if need then obind (get_str k ev) (fun s => Ok (Some s)) else Ok None.

Definition maybe_redacted (k : ekind) (f : eformat) : bool :=
  match k, f with (KMessageLike | KState), (FFull | FSync) => true | _, _ => false end.

(** which members the event struct of (kind, format) has (kinds.rs) *)
Definition has_sender (k : ekind) (f : eformat) : bool :=
  match k, f with
  | (KMessageLike | KState), (FFull | FSync | FStripped) => true
  | KToDevice, _ => true
  | _, _ => false
  end.
Definition has_ids (k : ekind) (f : eformat) : bool :=       (* event_id, origin_server_ts *)
  match k, f with (KMessageLike | KState), (FFull | FSync) => true | _, _ => false end.
Definition has_room_id (k : ekind) (f : eformat) : bool :=
  match k, f with (KMessageLike | KState | KEphemeral), FFull => true | _, _ => false end.
Definition has_state_key_field (k : ekind) : bool := match k with KState => true | _ => false end.

Definition deser_kind (tables : list (str * list (str * variant))) (group : str) (k : ekind) (f : eformat)
    (ev : obj) : outcome observation :=
  obind (get_str k_type ev) (fun ty =>
  let t := table_in tables k in
  let v := dispatch t ty in
  obind (if maybe_redacted k f then redaction_state ev else Ok false) (fun red =>
  if negb (match lookup k_content ev with Some _ => true | None => false end) then Err 0
  else if maybe_redacted k f && negb (unsigned_ok red ev) then Err 0
  else
  obind (opt_field (has_sender k f) k_sender ev) (fun sender =>
  obind (opt_field (has_ids k f) k_event_id ev) (fun event_id =>
  obind (if has_ids k f then obind (get_ts ev) (fun z => Ok (Some z)) else Ok None) (fun ts =>
  obind (opt_field (has_room_id k f) k_room_id ev) (fun room_id =>
  obind (if has_state_key_field k then
           match f, lookup k_state_key ev with
           | FInitial, None => Ok (Some [])            (* event.rs:124-131: `unwrap_or_default()` *)
           | _, _ => obind (get_str k_state_key ev) (fun s => Ok (Some s))
           end
         else Ok None) (fun state_key =>
  Ok {| o_group := group; o_variant := variant_ident t v;
        o_redacted := if maybe_redacted k f then (if red then 1 else 0) else 2;
        o_type := variant_type t v;
        o_sender := sender; o_event_id := event_id; o_ts := ts; o_room_id := room_id;
        o_state_key := state_key |}))))))).

Definition deser_in (tables : list (str * list (str * variant))) (tg : target) (ev : obj) : outcome observation :=
  match tg with
  | TTimeline =>
      if has_state_key ev then deser_kind tables s!"State" KState FFull ev
      else deser_kind tables s!"MessageLike" KMessageLike FFull ev
  | TSyncTimeline =>
      if has_state_key ev then deser_kind tables s!"State" KState FSync ev
      else deser_kind tables s!"MessageLike" KMessageLike FSync ev
  | TMessageLike => deser_kind tables [] KMessageLike FFull ev
  | TSyncMessageLike => deser_kind tables [] KMessageLike FSync ev
  | TState => deser_kind tables [] KState FFull ev
  | TSyncState => deser_kind tables [] KState FSync ev
  | TStripped => deser_kind tables [] KState FStripped ev
  | TInitial => deser_kind tables [] KState FInitial ev
  | TToDevice => deser_kind tables [] KToDevice FPlain ev
  | TEphemeral => deser_kind tables [] KEphemeral FFull ev
  | TSyncEphemeral => deser_kind tables [] KEphemeral FSync ev
  | TGlobalAccountData => deser_kind tables [] KGlobalAccountData FPlain ev
  | TRoomAccountData => deser_kind tables [] KRoomAccountData FPlain ev
  end.

Definition deser : target -> obj -> outcome observation := deser_in event_tables.

(** * [Raw<T>] *)

(** JSON whitespace, which [RawValue::from_string] leaves outside the stored text *)
Definition is_ws (c : N) : bool := (c =? 32) || (c =? 9) || (c =? 10) || (c =? 13).
Fixpoint trim_left (s : str) : str :=
  match s with c :: r => if is_ws c then trim_left r else s | [] => [] end.
Definition trim (s : str) : str := rev (trim_left (rev (trim_left s))).

(** [Raw::from_json_string(text).json().get()] for a text that is valid JSON *)
Definition raw_json (text : str) : str := trim text.
