(** C18.SerdeBridge — the derive model instantiated: identifier validators from C10's model, schema
    lookup by (kind, type), and the decidable table checks that [C18.Properties] evaluates. *)
From Base Require Import Prelude Sx Json JsonText.
From Gen Require Import SerdeSchemas.
From C10 Require Model.
From C18 Require Import Serde SerdeSpec SerdeProofs SpecSchemas.

(** ruma-common/src/identifiers/session_id.rs validate_session_id: 1..255 bytes of [0-9a-zA-Z.=_-] *)
Definition session_id_byte (b : N) : bool :=
  ((48 <=? b) && (b <=? 57)) || ((65 <=? b) && (b <=? 90)) || ((97 <=? b) && (b <=? 122))
  || (b =? 46) || (b =? 61) || (b =? 95) || (b =? 45).
Definition valid_session_id (s : str) : bool :=
  negb (255 <? N.of_nat (List.length s)) && forallb session_id_byte s && negb (match s with [] => true | _ => false end).

Definition id_valid (c : N) (s : str) : bool :=
  match c with
  | 0 => true
  | 1 => is_ok (C10.Model.validate_user_id s)
  | 2 => is_ok (C10.Model.validate_room_id s)
  | 3 => is_ok (C10.Model.validate_event_id s)
  | 4 => is_ok (C10.Model.validate_room_alias_id s)
  | 5 => is_ok (C10.Model.validate_server_name s)
  | 6 => is_ok (C10.Model.validate_room_or_alias_id s)
  | 7 => is_ok (C10.Model.validate_base64_public_key s)
  | 8 => is_ok (C10.Model.validate_client_secret s)
  | 9 => is_ok (C10.Model.validate_room_version_id s)
  | 10 => is_ok (C10.Model.validate_key_id C10.Model.KSigningVersion s)
  | 11 => valid_session_id s
  | _ => false
  end%N.

Lemma id_valid0 s : id_valid 0 s = true.
Proof. reflexivity. Qed.

Fixpoint find_schema {A} (k n : str) (l : list (str * str * A)) : option A :=
  match l with
  | [] => None
  | (k', n', t) :: r => if str_eqb k k' && str_eqb n n' then Some t else find_schema k n r
  end.

Lemma find_schema_In {A} k n (l : list (str * str * A)) t : find_schema k n l = Some t -> In (k, n, t) l.
Proof.
  induction l as [|[[k' n'] t'] r IH]; cbn [find_schema]; intros H; [discriminate|].
  destruct (str_eqb k k' && str_eqb n n') eqn:E.
  - apply andb_true_iff in E as [E1 E2]. apply str_eqb_eq in E1, E2. injection H as <-. subst. now left.
  - right. auto.
Qed.

Definition all_wf (l : list (str * str * ty)) : bool := forallb (fun e => wf_ty (snd e)) l.

Definition spec_covered (code : list (str * str * ty)) (e : str * str * sty) : bool :=
  match e with
  | (k, n, s) => match find_schema k n code with Some t => compat id_valid s t | None => false end
  end.

Definition all_compat (spec : list (str * str * sty)) (code : list (str * str * ty)) : bool :=
  forallb (spec_covered code) spec.

(** the (kind, type) pairs of the specification table whose derive schema is not compatible (for
    diagnosis; empty when [all_compat] holds) *)
Definition incompatible (spec : list (str * str * sty)) (code : list (str * str * ty)) : list (str * str) :=
  List.map (fun e => (fst (fst e), snd (fst e))) (List.filter (fun e => negb (spec_covered code e)) spec).

(** * Running one case (shared by C18's content stream and C16's body stream) *)
Fixpoint raw_nodup (r : raw) : bool :=
  match r with
  | RArr l => forallb raw_nodup l
  | RObj m => nodup_strs (List.map fst m) && forallb (fun kv => raw_nodup (snd kv)) m
  | _ => true
  end.

(** the model: read with the derive schema, print in declaration order *)
Definition model_schema_case (t : ty) (j : json) : sx :=
  match deser id_valid t j with
  | Some v => match ser t v with
              | Some j' => SL [SN 0; SS (print j')]
              | None => sx_bad
              end
  | None => SL [SN 1; SN 0]
  end.

(** what the property demands of an accepted input, evaluated on the text the implementation
    printed: no duplicate keys, and it reads back as the typed value the input read as *)
Definition reread_ok (t : ty) (j : json) (text : str) : bool :=
  match parse_text text with
  | Some r =>
      raw_nodup r
      && match to_canonical r with
         | Some j2 =>
             match deser id_valid t j, deser id_valid t j2 with
             | Some v, Some v2 => val_eqb v v2
             | None, _ => true        (* left to the correspondence *)
             | Some _, None => false
             end
         | None => true
         end
  | None => false
  end.
