(** C18.Spec — what the property demands of typed event deserialization, stated on the JSON
    object and a *type table* (the event types the specification defines for a kind, with
    their aliases and wildcard entries, and the variant dedicated to each) — not on the shape
    of the generated code.

      the variant is the one dedicated to the event's `type`; an unknown type goes to the
        custom variant; [event_type()] gives the type back (a declared alias as its canonical
        spelling, a wildcard type with its suffix);
      the event is the redacted form exactly when `unsigned.redacted_because` is present;
      sender, event id, timestamp, room id and state key are those of the JSON;
      a timeline event is a state event exactly when it carries a `state_key`. *)
From Base Require Import Prelude Json.
From C19 Require Spec.

Record type_entry := { te_ident : str; te_spelling : C19.Spec.spelling }.
Definition type_table := list type_entry.
Definition spellings (t : type_table) : C19.Spec.table := List.map te_spelling t.

Fixpoint ident_of (t : type_table) (i : nat) : option str :=
  match t with
  | [] => None
  | e :: r => if Nat.eqb (C19.Spec.sp_index (te_spelling e)) i then Some (te_ident e) else ident_of r i
  end.

Definition custom : str := s!"_Custom".

Definition expected_variant (t : type_table) (ty : str) : str :=
  match C19.Spec.dedicated (spellings t) ty with
  | Some i => match ident_of t i with Some n => n | None => custom end
  | None => custom
  end.

Definition expected_type (t : type_table) (ty : str) : str := C19.Spec.canon (spellings t) ty.

(** `unsigned.redacted_because` present (JSON null = absent) *)
Definition carries_redacted_because (ev : obj) : bool :=
  match lookup s!"unsigned" ev with
  | Some (JObj u) => match lookup s!"redacted_because" u with None | Some JNull => false | Some _ => true end
  | _ => false
  end.

Definition json_str (k : str) (ev : obj) : option str :=
  match lookup k ev with Some (JStr s) => Some s | _ => None end.
Definition json_int (k : str) (ev : obj) : option Z :=
  match lookup k ev with Some (JInt z) => Some z | _ => None end.

Definition carries_state_key (ev : obj) : bool :=
  match lookup s!"state_key" ev with None | Some JNull => false | Some _ => true end.

Definition opt_str_eqb (a b : option str) : bool :=
  match a, b with Some x, Some y => str_eqb x y | None, None => true | _, _ => false end.

(** an accessor, when the typed event has it, returns the JSON member *)
Definition accessor_ok (got : option str) (k : str) (ev : obj) : bool :=
  match got with None => true | Some s => opt_str_eqb (Some s) (json_str k ev) end.
