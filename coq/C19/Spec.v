(** C19.Spec — what the property demands of a string-valued protocol enum, written against a
    *specification table* (the spellings the Matrix specification defines for the enum) and
    not against the shape of the generated `match`.

    A table lists, per dedicated variant, its canonical spelling, the other spellings that
    are accepted for it (declared aliases), and whether the entry is a wildcard (`m.foo.*`:
    the spellings are prefixes and the rest of the string is kept).

      canon t s    the string the enum must give back for [s]: [s] itself, except that a
                   declared alias maps to its canonical spelling (for a wildcard entry: the
                   aliased prefix is replaced, the suffix is kept)
      dedicated t s  the variant the spelling [s] must select, if [s] is specified

    The table order plays no role in these definitions beyond picking a result when the
    table is ambiguous (two entries claim the same spelling) — ruled out by [table_ok]. *)
From Base Require Import Prelude.

Record spelling := {
  sp_index : nat;            (* which variant of the enum the entry describes *)
  sp_canon : str;
  sp_aliases : list str;     (* other accepted spellings (may repeat the canonical one) *)
  sp_wild : bool }.

Definition table := list spelling.

(** exact lookup: [s] is the canonical spelling or an alias of a non-wildcard entry *)
Fixpoint find_exact (t : table) (s : str) : option spelling :=
  match t with
  | [] => None
  | e :: r =>
      if negb (sp_wild e) && (str_eqb s (sp_canon e) || mem_str s (sp_aliases e)) then Some e
      else find_exact r s
  end.

Fixpoint first_prefix (ps : list str) (s : str) : option str :=
  match ps with
  | [] => None
  | p :: r => if starts_with p s then Some p else first_prefix r s
  end.

(** wildcard lookup: [s] starts with the canonical prefix or an aliased prefix of a wildcard entry *)
Fixpoint find_wild (t : table) (s : str) : option (spelling * str) :=
  match t with
  | [] => None
  | e :: r =>
      if sp_wild e then
        match first_prefix (sp_canon e :: sp_aliases e) s with
        | Some p => Some (e, skipn (List.length p) s)
        | None => find_wild r s
        end
      else find_wild r s
  end.

Definition canon (t : table) (s : str) : str :=
  match find_exact t s with
  | Some e => sp_canon e
  | None => match find_wild t s with
            | Some (e, suffix) => sp_canon e ++ suffix
            | None => s
            end
  end.

Definition dedicated (t : table) (s : str) : option nat :=
  match find_exact t s with
  | Some e => Some (sp_index e)
  | None => match find_wild t s with
            | Some (e, _) => Some (sp_index e)
            | None => None
            end
  end.

(** [s] is a *non-canonical* declared spelling: the only strings an enum may alter. *)
Definition is_alias (t : table) (s : str) : Prop :=
  exists e a, In e t /\ In a (sp_aliases e) /\ a <> sp_canon e /\
              (if sp_wild e then starts_with a s = true else s = a).

(** Rust's [Ord for str] as a three-way result: 0 Less, 1 Equal, 2 Greater. *)
Definition str_cmp3 (a b : str) : N := if str_ltb a b then 0 else if str_ltb b a then 2 else 1.

(** * The observations the property speaks about, as predicates on what an implementation
    returned.  [out] = string form of [T::from(s)], [idx] = which variant it is
    ([custom] = the fallback). *)
Definition roundtrip_ok (t : table) (s out : str) : bool := str_eqb out (canon t s).

Definition dedicated_ok (t : table) (s : str) (idx : nat) : bool :=
  match dedicated t s with Some i => Nat.eqb idx i | None => true end.

Definition eq_ok (t : table) (a b : str) (r : bool) : bool :=
  Bool.eqb r (str_eqb (canon t a) (canon t b)).

Definition cmp_ok (t : table) (a b : str) (r : N) : bool :=
  N.eqb r (str_cmp3 (canon t a) (canon t b)).
