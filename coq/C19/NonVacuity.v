(** C19.NonVacuity — the hypotheses of the C19 theorems are met by the real declarations, on
    inputs where something happens (an alias, a wildcard, a rename rule). *)
From Base Require Import Prelude Sx EnumDecl.
From Gen Require Import StringEnums.
From C19 Require Import Model Spec Bridge Proofs.

Definition find_named (n : str) : option decl :=
  List.find (fun d => str_eqb (d_name d) n) all_decls.

(** the generated [MessageLikeEventType] declares an alias, and it is canonicalised *)
Example alias_is_canonicalised :
  exists d, find_named s!"ruma_events::MessageLikeEventType" = Some d /\ In d all_decls /\
    as_str d (from_str d s!"org.matrix.call.sdp_stream_metadata_changed") = s!"m.call.sdp_stream_metadata_changed" /\
    canon (table_of d) s!"org.matrix.call.sdp_stream_metadata_changed" <> s!"org.matrix.call.sdp_stream_metadata_changed".
Proof.
  destruct (find_named s!"ruma_events::MessageLikeEventType") as [d|] eqn:E; [|vm_compute in E; discriminate].
  exists d. split; [reflexivity|]. split.
  - apply List.find_some in E as [H _]. exact H.
  - vm_compute in E. inversion E; subst d. split; vm_compute; [reflexivity|discriminate].
Qed.

(** a wildcard type keeps its fragment *)
Example wildcard_fragment_kept :
  exists d i, find_named s!"ruma_events::GlobalAccountDataEventType" = Some d /\
    from_str d s!"m.secret_storage.key.abc" = VData i s!"abc" /\
    as_str d (VData i s!"abc") = s!"m.secret_storage.key.abc".
Proof.
  destruct (find_named s!"ruma_events::GlobalAccountDataEventType") as [d|] eqn:E; [|vm_compute in E; discriminate].
  vm_compute in E. inversion E; subst d. eexists. exists 5%nat. split; [reflexivity|]. split; vm_compute; reflexivity.
Qed.

(** rename rules, renames and the fallback are exercised by the real enums *)
Example rules_exercised :
  apply_rule MatrixErrorCase s!"UnableToAuthorizeJoin" = s!"M_UNABLE_TO_AUTHORIZE_JOIN" /\
  apply_rule MatrixRuleSnakeCase s!"IsUserMention" = s!".m.rule.is_user_mention" /\
  apply_rule KebabCase s!"HkdfHmacSha256V2" = s!"hkdf-hmac-sha256-v2" /\
  apply_rule CamelCase s!"VeryTasty" = s!"veryTasty" /\
  apply_rule MatrixDottedCase s!"VeryTasty" = s!"m.very.tasty".
Proof. vm_compute. repeat split. Qed.

Example unknown_string_kept :
  exists d, find_named s!"ruma_events::room::member::MembershipState" = Some d /\
    from_str d s!"Join" = VCustom s!"Join" /\ from_str d s!"join" = VUnit 2.
Proof.
  destruct (find_named s!"ruma_events::room::member::MembershipState") as [d|] eqn:E; [|vm_compute in E; discriminate].
  vm_compute in E. inversion E; subst d. eexists. split; [reflexivity|]. split; vm_compute; reflexivity.
Qed.
