(** C19.Model — executable model of ruma's string enums.  Strings are byte strings (UTF-8 of
    Rust's [&str]); [starts_with], [==] and [Ord for str] on them are byte-wise, as in Rust.

    Mirrors
      ruma-macros/src/serde/case.rs:50-84            [apply_rule]  (RenameRule::apply_to_variant)
      ruma-macros/src/serde/enum_from_string.rs:10-95  [decl_of_src], [from_str]
      ruma-macros/src/serde/enum_as_ref_str.rs:10-64   [decl_of_src], [as_str]
      ruma-macros/src/serde/{eq,ord}_as_ref_str.rs     [eq_model], [cmp_model] with [ByStr]
      ruma-macros/src/events/event_type.rs:85-273      the same functions on the generated
                                                      [*EventType] declarations ([VPrefix] arms)
    No proofs here. *)
From Base Require Import Prelude Sx EnumDecl.

(** * case.rs — rename rules (variant identifiers are ASCII; the translator enforces it) *)

Definition is_upper (c : N) : bool := (65 <=? c) && (c <=? 90).
Definition is_lower (c : N) : bool := (97 <=? c) && (c <=? 122).
Definition to_lower (c : N) : N := if is_upper c then c + 32 else c.
Definition to_upper (c : N) : N := if is_lower c then c - 32 else c.
Definition lower (s : str) : str := List.map to_lower s.     (* to_ascii_lowercase *)
Definition upper (s : str) : str := List.map to_upper s.     (* to_ascii_uppercase *)
Definition replace_byte (a b : N) (s : str) : str := List.map (fun c => if c =? a then b else c) s.

(** case.rs:57-66: `if i > 0 && ch.is_uppercase() { push('_') } push(ch.to_ascii_lowercase())` *)
Fixpoint snake_go (first : bool) (s : str) : str :=
  match s with
  | [] => []
  | c :: r => (if negb first && is_upper c then [95] else []) ++ to_lower c :: snake_go false r
  end.
Definition snake (s : str) : str := snake_go true s.

Definition apply_rule (r : rename_rule) (v : str) : str :=
  match r with
  | RNone | PascalCase => v
  | LowerCase => lower v
  | Uppercase => upper v
  | CamelCase => match v with [] => [] | c :: t => to_lower c :: t end   (* variant[..1] lowercased *)
  | SnakeCase => snake v
  | ScreamingSnakeCase => upper (snake v)
  | KebabCase => replace_byte 95 45 (snake v)
  | ScreamingKebabCase => replace_byte 95 45 (upper (snake v))
  | MatrixErrorCase => s!"M_" ++ upper (snake v)
  | MatrixLowerCase => s!"m." ++ lower v
  | MatrixSnakeCase => s!"m." ++ snake v
  | MatrixDottedCase => s!"m." ++ replace_byte 95 46 (snake v)
  | MatrixRuleSnakeCase => s!".m.rule." ++ snake v
  | MatrixRoleSnakeCase => s!"m.role." ++ snake v
  end.

(** * The declaration the two derives expand from *)

(** enum_from_string.rs:20-27 / enum_as_ref_str.rs:19-25: the variant's string is the
    [rename] literal if present, else the rule applied to the identifier; the [From] arm list
    of the variant is `aliases.., string` (enum_from_string.rs:65-70). *)
Definition variant_of_src (r : rename_rule) (v : src_variant) : variant :=
  if sv_fallback v then {| v_kind := VFallback; v_out := []; v_arms := [] |}
  else
    let s := match sv_rename v with Some x => x | None => apply_rule r (sv_ident v) end in
    {| v_kind := VExact; v_out := s; v_arms := sv_aliases v ++ [s] |}.

Definition decl_of_src (e : enum_src) : decl :=
  {| d_name := es_name e;
     d_variants := List.map (variant_of_src (es_rule e)) (es_variants e);
     d_eq := es_eq e; d_ord := es_ord e |}.

(** * Values and the conversions *)

Inductive value :=
| VUnit (i : nat)                 (* the i-th variant of the declaration, a unit variant *)
| VData (i : nat) (suffix : str)  (* the i-th variant, carrying the type fragment *)
| VCustom (s : str).              (* the fallback variant *)

(** The arms of the generated `match`, flattened, in the order the macro emits them. *)
Definition arm := (vkind * str * nat)%type.

Fixpoint flat_arms (vs : list variant) (i : nat) : list arm :=
  match vs with
  | [] => []
  | v :: r =>
      match v_kind v with
      | VFallback => flat_arms r (S i)
      | k => List.map (fun a => (k, a, i)) (v_arms v) ++ flat_arms r (S i)
      end
  end.

(** `match s { "a" | "b" => V, _s if _s.starts_with(p) => W(_s.strip_prefix(p).unwrap()), .., _ => _Custom(s) }`:
    the first arm that matches. *)
Fixpoint match_arms (l : list arm) (s : str) : value :=
  match l with
  | [] => VCustom s
  | (VExact, a, i) :: r => if str_eqb s a then VUnit i else match_arms r s
  | (VPrefix, p, i) :: r => if starts_with p s then VData i (skipn (List.length p) s) else match_arms r s
  | (VFallback, _, _) :: r => match_arms r s
  end.

Definition arms (d : decl) : list arm := flat_arms (d_variants d) 0.
Definition from_str (d : decl) (s : str) : value := match_arms (arms d) s.

(** `as_ref` / `to_cow_str`: the variant's own spelling; `format!("{prefix}{}", s)` for a
    data variant; the stored string for the fallback. *)
Definition as_str (d : decl) (v : value) : str :=
  match v with
  | VUnit i => match nth_error (d_variants d) i with Some x => v_out x | None => [] end
  | VData i suf => match nth_error (d_variants d) i with Some x => v_out x ++ suf | None => suf end
  | VCustom s => s
  end.

(** * Equality and ordering *)

(** Rust's [Ord for str]: 0 = Less, 1 = Equal, 2 = Greater. *)
Definition str_cmp (a b : str) : N := if str_ltb a b then 0 else if str_eqb a b then 1 else 2.

Definition value_eqb (x y : value) : bool :=
  match x, y with
  | VUnit i, VUnit j => Nat.eqb i j
  | VData i a, VData j b => Nat.eqb i j && str_eqb a b
  | VCustom a, VCustom b => str_eqb a b
  | _, _ => false
  end.

Fixpoint fallback_pos (vs : list variant) (i : nat) : nat :=
  match vs with
  | [] => i
  | v :: r => match v_kind v with VFallback => i | _ => fallback_pos r (S i) end
  end.

(** std's derived [Ord]: variant position first, then the payload. *)
Definition value_pos (d : decl) (v : value) : nat :=
  match v with VUnit i | VData i _ => i | VCustom _ => fallback_pos (d_variants d) 0 end.
Definition value_payload (v : value) : str :=
  match v with VUnit _ => [] | VData _ s | VCustom s => s end.
Definition derived_cmp (d : decl) (x y : value) : N :=
  let i := value_pos d x in let j := value_pos d y in
  if Nat.ltb i j then 0 else if Nat.ltb j i then 2 else str_cmp (value_payload x) (value_payload y).

Definition eq_model (d : decl) (x y : value) : option bool :=
  match d_eq d with
  | NoImpl => None
  | ByStr => Some (str_eqb (as_str d x) (as_str d y))
  | Derived => Some (value_eqb x y)
  end.

Definition cmp_model (d : decl) (x y : value) : option N :=
  match d_ord d with
  | NoImpl => None
  | ByStr => Some (str_cmp (as_str d x) (as_str d y))
  | Derived => Some (derived_cmp d x y)
  end.

(** * The decidable side condition on a declaration ([wf_decl]) *)

(** [arm_conflict x y]: arm [x] can capture a string meant for arm [y]. *)
Definition arm_conflict (x y : arm) : bool :=
  match x, y with
  | (VExact, a, i), (VExact, b, j) => str_eqb a b && negb (Nat.eqb i j)
  | (VPrefix, p, _), (VExact, b, _) => starts_with p b
  | (VPrefix, p, i), (VPrefix, q, j) => starts_with p q && negb (Nat.eqb i j && str_eqb p q)
  | _, _ => false
  end.

Definition arms_ok (l : list arm) : bool :=
  forallb (fun x => forallb (fun y => negb (arm_conflict x y)) l) l.

Definition vkind_eqb (a b : vkind) : bool :=
  match a, b with VExact, VExact | VPrefix, VPrefix | VFallback, VFallback => true | _, _ => false end.

Definition arm_eqb (x y : arm) : bool :=
  let '(k, a, i) := x in let '(k', b, j) := y in vkind_eqb k k' && str_eqb a b && Nat.eqb i j.

(** every variant's own spelling is one of the strings its [From] arms accept *)
Fixpoint outs_ok (l : list arm) (vs : list variant) (i : nat) : bool :=
  match vs with
  | [] => true
  | v :: r =>
      (match v_kind v with
       | VFallback => true
       | k => existsb (arm_eqb (k, v_out v, i)) l
       end) && outs_ok l r (S i)
  end.

Definition wf_declb (d : decl) : bool :=
  arms_ok (arms d) && outs_ok (arms d) (d_variants d) 0.

Definition cmp_impl_eqb (a b : cmp_impl) : bool :=
  match a, b with NoImpl, NoImpl | ByStr, ByStr | Derived, Derived => true | _, _ => false end.

(** [==] may be structural (it agrees with the string form on reachable values, theorem
    [C19_eq_agrees]); [cmp] must go through the string form. *)
Definition ord_by_string (d : decl) : bool := negb (cmp_impl_eqb (d_ord d) Derived).
