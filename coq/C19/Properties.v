(** C19.Properties — the theorems that decide C19, and nothing else.
    [all_decls] = every string-enum declaration found in ruma's source (generated on every
    run: the configuration compiled into the harness and the one with all cargo features on)
    after the macros' string computation ([decl_of_src], [apply_rule]), plus the seven
    [*EventType] declarations [event_enum!] generates.  [table_of d] is the specification
    table [d] stands for (canonical spelling / aliases / wildcard flag per dedicated variant). *)
From Base Require Import Prelude Sx EnumDecl.
From Gen Require Import StringEnums.
From C19 Require Import Model Spec Bridge Proofs SpecSpellings.

(** The per-declaration obligation: in every declaration no arm can capture a string meant
    for another arm (spellings pairwise distinct, no spelling below a wildcard prefix, no
    nested wildcard prefixes) and every variant's own spelling is accepted by its arms. *)
Theorem C19_all_decls_wf : forallb wf_declb all_decls = true.
Proof. exact all_decls_wf. Qed.
Eval compute in "PA:C19_all_decls_wf"%string.
Print Assumptions C19_all_decls_wf.

(** Lossless and forward compatible: string -> enum -> string returns [Spec.canon], ... *)
Theorem C19_roundtrip :
  forall d s, In d all_decls -> as_str d (from_str d s) = canon (table_of d) s.
Proof. intros d s H. exact (roundtrip d (In_all_wf d H) s). Qed.
Eval compute in "PA:C19_roundtrip"%string.
Print Assumptions C19_roundtrip.

(** ... which is the identity on every string that is not a declared (non-canonical) alias;
    this holds for any table. *)
Theorem C19_canon_identity_unless_alias :
  forall t s, ~ is_alias t s -> canon t s = s.
Proof. exact canon_id_unless_alias. Qed.
Eval compute in "PA:C19_canon_identity_unless_alias"%string.
Print Assumptions C19_canon_identity_unless_alias.

(** Conversion is idempotent: on strings and on values. *)
Theorem C19_idempotent :
  forall d s, In d all_decls ->
  canon (table_of d) (canon (table_of d) s) = canon (table_of d) s /\
  from_str d (as_str d (from_str d s)) = from_str d s.
Proof. intros d s H. split; [exact (canon_idempotent d (In_all_wf d H) s)|exact (from_as_from d (In_all_wf d H) s)]. Qed.
Eval compute in "PA:C19_idempotent"%string.
Print Assumptions C19_idempotent.

(** Each specified spelling (canonical or alias) maps to its dedicated variant, whose string
    form is the canonical spelling. *)
Theorem C19_own_variant :
  forall d i v a, In d all_decls -> nth_error (d_variants d) i = Some v -> v_kind v = VExact ->
  (a = v_out v \/ In a (v_arms v)) ->
  from_str d a = VUnit i /\ as_str d (VUnit i) = v_out v.
Proof. intros d i v a H. exact (own_variant d (In_all_wf d H) i v a). Qed.
Eval compute in "PA:C19_own_variant"%string.
Print Assumptions C19_own_variant.

(** The same, read from the specification side. *)
Theorem C19_dedicated_variant :
  forall d s i, In d all_decls -> dedicated (table_of d) s = Some i ->
  from_str d s = VUnit i \/ exists suf, from_str d s = VData i suf.
Proof. intros d s i H. exact (dedicated_variant d (In_all_wf d H) s i). Qed.
Eval compute in "PA:C19_dedicated_variant"%string.
Print Assumptions C19_dedicated_variant.

(** Wildcard event types keep their suffix (an aliased prefix is replaced by the canonical one). *)
Theorem C19_wildcard_keeps_suffix :
  forall d i v p suf, In d all_decls -> nth_error (d_variants d) i = Some v -> v_kind v = VPrefix ->
  (p = v_out v \/ In p (v_arms v)) ->
  from_str d (p ++ suf) = VData i suf /\ as_str d (VData i suf) = v_out v ++ suf.
Proof. intros d i v p suf H. exact (wildcard_keeps_suffix d (In_all_wf d H) i v p suf). Qed.
Eval compute in "PA:C19_wildcard_keeps_suffix"%string.
Print Assumptions C19_wildcard_keeps_suffix.

(** Two strings convert to the same value exactly when their canonical forms coincide ... *)
Theorem C19_injective_up_to_canon :
  forall d a b, In d all_decls ->
  (from_str d a = from_str d b <-> canon (table_of d) a = canon (table_of d) b).
Proof. intros d a b H. exact (from_str_injective d (In_all_wf d H) a b). Qed.
Eval compute in "PA:C19_injective_up_to_canon"%string.
Print Assumptions C19_injective_up_to_canon.

(** ... hence [==] on converted values agrees with the string form, whether it is derived
    structurally or through [as_ref] ... *)
Theorem C19_eq_agrees :
  forall d a b r, In d all_decls -> eq_model d (from_str d a) (from_str d b) = Some r ->
  r = str_eqb (canon (table_of d) a) (canon (table_of d) b).
Proof. intros d a b r H. exact (eq_agrees d (In_all_wf d H) a b r). Qed.
Eval compute in "PA:C19_eq_agrees"%string.
Print Assumptions C19_eq_agrees.

(** No declaration orders its values structurally (std's derived [Ord]: by variant position,
    fallback last): [cmp] goes through the string form.  Read off the derive lists (and the
    generated impl of the [*EventType] enums) on every run; proved by computation here so that
    its failure does not hide the theorems above. *)
Theorem C19_all_decls_ord_by_string : forallb ord_by_string all_decls = true.
Proof. vm_compute. reflexivity. Qed.
Eval compute in "PA:C19_all_decls_ord_by_string"%string.
Print Assumptions C19_all_decls_ord_by_string.

(** ... and so does [cmp]. *)
Theorem C19_cmp_agrees :
  forall d a b r, In d all_decls -> cmp_model d (from_str d a) (from_str d b) = Some r ->
  r = str_cmp3 (canon (table_of d) a) (canon (table_of d) b).
Proof.
  intros d a b r H.
  exact (cmp_agrees d (In_all_wf d H) a b r (In_all_ord d C19_all_decls_ord_by_string H)).
Qed.
Eval compute in "PA:C19_cmp_agrees"%string.
Print Assumptions C19_cmp_agrees.

(** Every spelling the specification defines (hand transcription per enumeration, [SpecSpellings]) selects
    a dedicated unit variant of the declaration regenerated from ruma's source, distinct spellings select
    distinct variants, and the variant prints as that spelling. *)
Theorem C19_specified_spellings_dedicated :
  all_specified_dedicated (List.map decl_of_src string_enums) = true.
Proof. vm_compute. reflexivity. Qed.
Eval compute in "PA:C19_specified_spellings_dedicated"%string.
Print Assumptions C19_specified_spellings_dedicated.

Theorem C19_specified_spelling_roundtrip :
  forall name ss d s,
  In (name, ss) spec_spellings -> find_decl_named (List.map decl_of_src string_enums) name = Some d -> In s ss ->
  exists i, from_str d s = VUnit i /\ as_str d (from_str d s) = s.
Proof.
  intros name ss d s Hin Hd Hs.
  pose proof C19_specified_spellings_dedicated as A. unfold all_specified_dedicated in A.
  rewrite forallb_forall in A. specialize (A _ Hin). unfold spellings_ok in A. cbn [fst snd] in A.
  rewrite Hd in A. apply andb_true_iff in A as [A _]. rewrite forallb_forall in A. specialize (A _ Hs).
  unfold dedicated_spelling in A. destruct (from_str d s) as [i| |] eqn:E; try discriminate.
  exists i. split; [reflexivity|]. now apply str_eqb_eq.
Qed.
Eval compute in "PA:C19_specified_spelling_roundtrip"%string.
Print Assumptions C19_specified_spelling_roundtrip.

(** ... and every event type the specification defines selects a dedicated variant of the generated
    `*EventType` enumeration of its kind. *)
Theorem C19_specified_event_types_dedicated : all_event_types_dedicated event_type_enums = true.
Proof. vm_compute. reflexivity. Qed.
Eval compute in "PA:C19_specified_event_types_dedicated"%string.
Print Assumptions C19_specified_event_types_dedicated.

(** ... and the legacy names listed in [spec_aliases] read as the standard event type they stand for. *)
Theorem C19_legacy_names_read_as_standard : all_aliases_ok event_type_enums = true.
Proof. vm_compute. reflexivity. Qed.
Eval compute in "PA:C19_legacy_names_read_as_standard"%string.
Print Assumptions C19_legacy_names_read_as_standard.
