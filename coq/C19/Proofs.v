(** C19.Proofs — the model of the generated conversions meets [Spec], for every declaration
    satisfying the decidable side condition [wf_declb]; the side condition is then
    discharged on the generated declarations by computation. *)
From Base Require Import Prelude Sx EnumDecl.
From Gen Require Import StringEnums.
From C19 Require Import Model Spec Bridge.
Local Open Scope nat_scope.

(** * Strings *)

Lemma starts_with_refl p : starts_with p p = true.
Proof. induction p as [|x p IH]; cbn [starts_with]; [reflexivity|]. now rewrite N.eqb_refl. Qed.

Lemma skipn_len_app (p r : str) : skipn (List.length p) (p ++ r) = r.
Proof. induction p as [|x p IH]; cbn [List.length skipn app]; [reflexivity|exact IH]. Qed.

Lemma starts_with_skipn p s : starts_with p s = true -> p ++ skipn (List.length p) s = s.
Proof.
  intros H. apply starts_with_spec in H as [r Hr]. subst s. now rewrite skipn_len_app.
Qed.

Lemma prefix_comparable p q s :
  starts_with p s = true -> starts_with q s = true ->
  starts_with p q = true \/ starts_with q p = true.
Proof.
  revert q s; induction p as [|x p IH]; intros q s Hp Hq; [now left|].
  destruct q as [|y q]; [now right|].
  destruct s as [|z s]; cbn [starts_with] in Hp, Hq; [discriminate|].
  apply andb_true_iff in Hp as [Hx Hp]. apply andb_true_iff in Hq as [Hy Hq].
  apply N.eqb_eq in Hx. apply N.eqb_eq in Hy. subst x y.
  cbn [starts_with]. rewrite N.eqb_refl. cbn [andb]. eapply IH; eassumption.
Qed.

Lemma starts_with_both p q : starts_with p q = true -> starts_with q p = true -> p = q.
Proof.
  revert q; induction p as [|x p IH]; intros [|y q] H1 H2; cbn [starts_with] in *; try discriminate; [reflexivity|].
  apply andb_true_iff in H1 as [Hx H1]. apply andb_true_iff in H2 as [_ H2].
  apply N.eqb_eq in Hx. subst y. f_equal. now apply IH.
Qed.

Lemma str_cmp_cmp3 a b : str_cmp a b = str_cmp3 a b.
Proof.
  unfold str_cmp, str_cmp3. destruct (str_ltb a b) eqn:E1; [reflexivity|].
  dse a b.
  - now rewrite str_ltb_irrefl.
  - destruct (str_ltb b a) eqn:E2; [reflexivity|].
    exfalso. apply Hne. now apply str_ltb_total.
Qed.

Lemma vkind_eqb_eq a b : vkind_eqb a b = true <-> a = b.
Proof. destruct a, b; cbn; split; congruence. Qed.

(** * The flattened arm list *)

Lemma flat_arms_In vs : forall n k a i,
  In (k, a, i) (flat_arms vs n) <->
  exists v, nth_error vs (i - n) = Some v /\ n <= i /\ v_kind v = k /\ k <> VFallback /\ In a (v_arms v).
Proof.
  induction vs as [|v r IH]; intros n k a i; cbn [flat_arms].
  - split; [intros []|]. intros (v & H & _). destruct (i - n)%nat; discriminate.
  - assert (Hr : In (k, a, i) (flat_arms r (S n)) <->
                 exists v0, nth_error (v :: r) (i - n) = Some v0 /\ n < i /\ v_kind v0 = k /\ k <> VFallback /\ In a (v_arms v0)).
    { rewrite IH. split.
      - intros (v0 & H1 & H2 & H3). exists v0. split; [|split; [lia|exact H3]].
        replace (i - n)%nat with (S (i - S n)) by lia. exact H1.
      - intros (v0 & H1 & H2 & H3). exists v0. split; [|split; [lia|exact H3]].
        replace (i - n)%nat with (S (i - S n)) in H1 by lia. exact H1. }
    assert (Hh : forall kk,
                 (In (k, a, i) (List.map (fun a0 => (kk, a0, n)) (v_arms v)) <->
                  i = n /\ k = kk /\ In a (v_arms v))).
    { intros kk. rewrite in_map_iff. split.
      - intros (a0 & E & Hin). inversion E; subst. auto.
      - intros (-> & -> & Hin). exists a. auto. }
    destruct (v_kind v) eqn:Ek.
    1,2: rewrite in_app_iff, Hr, Hh; split.
    1,3: intros [(-> & -> & Hin)|(v0 & H1 & H2 & H3)];
         [exists v; rewrite Nat.sub_diag; cbn [nth_error]; repeat split; auto; discriminate
         |exists v0; repeat split; try tauto; lia].
    1,2: intros (v0 & H1 & H2 & H3 & H4 & H5);
         destruct (Nat.eq_dec i n) as [->|Hne];
         [left; rewrite Nat.sub_diag in H1; cbn [nth_error] in H1; inversion H1; subst v0; rewrite Ek in H3; auto
         |right; exists v0; repeat split; auto; lia].
    rewrite Hr. split.
    + intros (v0 & H1 & H2 & H3). exists v0. repeat split; try tauto; lia.
    + intros (v0 & H1 & H2 & H3 & H4 & H5). exists v0.
      destruct (Nat.eq_dec i n) as [->|Hne].
      * rewrite Nat.sub_diag in H1. cbn [nth_error] in H1. inversion H1; subst v0. congruence.
      * repeat split; auto; lia.
Qed.

Lemma arms_In d k a i :
  In (k, a, i) (arms d) <->
  exists v, nth_error (d_variants d) i = Some v /\ v_kind v = k /\ k <> VFallback /\ In a (v_arms v).
Proof.
  unfold arms. rewrite flat_arms_In. rewrite Nat.sub_0_r. split.
  - intros (v & H1 & _ & H3). exists v; tauto.
  - intros (v & H1 & H3). exists v; repeat split; try tauto; lia.
Qed.

(** * [match_arms]: what a result tells (no side condition) *)

Lemma match_arms_sound l s :
  match match_arms l s with
  | VUnit i => In (VExact, s, i) l
  | VData i suf => exists p, In (VPrefix, p, i) l /\ s = p ++ suf
  | VCustom s' => s' = s /\ (forall i, ~ In (VExact, s, i) l) /\
                  (forall p i, In (VPrefix, p, i) l -> starts_with p s = false)
  end.
Proof.
  induction l as [|[[k a] i] r IH]; cbn [match_arms].
  - split; [reflexivity|]. split; [intros i []|intros p i []].
  - destruct k.
    + dse s a.
      * now left.
      * destruct (match_arms r s) as [j|j suf|s'].
        -- now right.
        -- destruct IH as (p & Hp & E). exists p. split; [now right|exact E].
        -- destruct IH as (E & H1 & H2). split; [exact E|]. split.
           ++ intros j [Hj|Hj]; [inversion Hj; congruence|exact (H1 j Hj)].
           ++ intros p j [Hj|Hj]; [discriminate|exact (H2 p j Hj)].
    + destruct (starts_with a s) eqn:Es.
      * exists a. split; [now left|]. symmetry. now apply starts_with_skipn.
      * destruct (match_arms r s) as [j|j suf|s'].
        -- now right.
        -- destruct IH as (p & Hp & E). exists p. split; [now right|exact E].
        -- destruct IH as (E & H1 & H2). split; [exact E|]. split.
           ++ intros j [Hj|Hj]; [discriminate|exact (H1 j Hj)].
           ++ intros p j [Hj|Hj]; [inversion Hj; subst; exact Es|exact (H2 p j Hj)].
    + destruct (match_arms r s) as [j|j suf|s'].
      * now right.
      * destruct IH as (p & Hp & E). exists p. split; [now right|exact E].
      * destruct IH as (E & H1 & H2). split; [exact E|]. split.
        -- intros j [Hj|Hj]; [discriminate|exact (H1 j Hj)].
        -- intros p j [Hj|Hj]; [discriminate|exact (H2 p j Hj)].
Qed.

(** * The side condition, as propositions *)

Definition arms_wf (l : list arm) : Prop :=
  forall x y, In x l -> In y l -> arm_conflict x y = false.

Lemma arms_ok_wf l : arms_ok l = true -> arms_wf l.
Proof.
  unfold arms_ok. intros H x y Hx Hy. rewrite forallb_forall in H.
  specialize (H x Hx). rewrite forallb_forall in H. specialize (H y Hy).
  now apply negb_true_iff in H.
Qed.

Lemma arms_wf_tail x l : arms_wf (x :: l) -> arms_wf l.
Proof. intros H a b Ha Hb. apply H; now right. Qed.

(** with the side condition, a declared arm decides the result *)
Lemma match_arms_exact l0 : arms_wf l0 -> forall l s i,
  (forall x, In x l -> In x l0) -> In (VExact, s, i) l -> match_arms l s = VUnit i.
Proof.
  intros W l; induction l as [|[[k a] j] r IH]; intros s i Sub Hin; [destruct Hin|].
  assert (Sub' : forall x, In x r -> In x l0) by (intros x Hx; apply Sub; now right).
  cbn [match_arms]. destruct k.
  - dse s a.
    + (* the head accepts s: same variant *)
      pose proof (W (VExact, a, j) (VExact, a, i) (Sub _ (or_introl eq_refl)) (Sub _ Hin)) as C.
      cbn [arm_conflict] in C. rewrite str_eqb_refl in C. cbn [andb] in C.
      apply negb_false_iff in C. apply Nat.eqb_eq in C. now subst.
    + destruct Hin as [E|Hin]; [inversion E; congruence|]. now apply IH.
  - destruct (starts_with a s) eqn:Es.
    + pose proof (W (VPrefix, a, j) (VExact, s, i) (Sub _ (or_introl eq_refl)) (Sub _ Hin)) as C.
      cbn [arm_conflict] in C. congruence.
    + destruct Hin as [E|Hin]; [discriminate|]. now apply IH.
  - destruct Hin as [E|Hin]; [discriminate|]. now apply IH.
Qed.

Lemma match_arms_prefix l0 : arms_wf l0 -> forall l p suf i,
  (forall x, In x l -> In x l0) -> In (VPrefix, p, i) l ->
  match_arms l (p ++ suf) = VData i suf.
Proof.
  intros W l; induction l as [|[[k a] j] r IH]; intros p suf i Sub Hin; [destruct Hin|].
  assert (Sub' : forall x, In x r -> In x l0) by (intros x Hx; apply Sub; now right).
  assert (Hp : starts_with p (p ++ suf) = true) by apply starts_with_app.
  cbn [match_arms]. destruct k.
  - dse (p ++ suf) a.
    + pose proof (W (VPrefix, p, i) (VExact, p ++ suf, j) (Sub _ Hin) (Sub _ (or_introl eq_refl))) as C.
      cbn [arm_conflict] in C. congruence.
    + destruct Hin as [E|Hin]; [discriminate|]. now apply IH.
  - destruct (starts_with a (p ++ suf)) eqn:Es.
    + assert (E : j = i /\ a = p).
      { destruct (prefix_comparable _ _ _ Es Hp) as [C|C].
        - pose proof (W (VPrefix, a, j) (VPrefix, p, i) (Sub _ (or_introl eq_refl)) (Sub _ Hin)) as K.
          cbn [arm_conflict] in K. rewrite C in K. cbn [andb] in K.
          apply negb_false_iff, andb_true_iff in K as [K1 K2].
          apply Nat.eqb_eq in K1. apply str_eqb_eq in K2. auto.
        - pose proof (W (VPrefix, p, i) (VPrefix, a, j) (Sub _ Hin) (Sub _ (or_introl eq_refl))) as K.
          cbn [arm_conflict] in K. rewrite C in K. cbn [andb] in K.
          apply negb_false_iff, andb_true_iff in K as [K1 K2].
          apply Nat.eqb_eq in K1. apply str_eqb_eq in K2. auto. }
      destruct E as [-> ->]. now rewrite skipn_len_app.
    + destruct Hin as [E|Hin]; [inversion E; subst; congruence|]. now apply IH.
  - destruct Hin as [E|Hin]; [discriminate|]. now apply IH.
Qed.

Definition outs_wf (d : decl) : Prop :=
  forall i v, nth_error (d_variants d) i = Some v -> v_kind v <> VFallback ->
  In (v_kind v, v_out v, i) (arms d).

Lemma arm_eqb_eq x y : arm_eqb x y = true <-> x = y.
Proof.
  destruct x as [[k a] i], y as [[k' b] j]. cbn [arm_eqb].
  rewrite !andb_true_iff, vkind_eqb_eq, str_eqb_eq, Nat.eqb_eq. split.
  - intros [[-> ->] ->]. reflexivity.
  - intros E. inversion E. auto.
Qed.

Lemma outs_ok_spec l vs : forall n, outs_ok l vs n = true ->
  forall i v, nth_error vs i = Some v -> v_kind v <> VFallback -> In (v_kind v, v_out v, (n + i)%nat) l.
Proof.
  induction vs as [|v0 r IH]; intros n H i v Hn Hk; [destruct i; discriminate|].
  cbn [outs_ok] in H. apply andb_true_iff in H as [H0 Hr].
  destruct i as [|i]; cbn [nth_error] in Hn.
  - inversion Hn; subst v0. rewrite Nat.add_0_r.
    destruct (v_kind v) eqn:Ek; try congruence;
      apply existsb_exists in H0 as (x & Hx & E); apply arm_eqb_eq in E; now subst x.
  - replace (n + S i)%nat with (S n + i)%nat by lia. now apply IH.
Qed.

Definition wf_decl (d : decl) : Prop := wf_declb d = true.

Lemma wf_decl_arms d : wf_decl d -> arms_wf (arms d).
Proof. unfold wf_decl, wf_declb. intros H. apply andb_true_iff in H as [H _]. now apply arms_ok_wf. Qed.

Lemma wf_decl_outs d : wf_decl d -> outs_wf d.
Proof.
  unfold wf_decl, wf_declb. intros H. apply andb_true_iff in H as [_ H].
  intros i v Hn Hk. exact (outs_ok_spec _ _ 0%nat H i v Hn Hk).
Qed.

(** * The specification table of a declaration *)

Lemma table_go_In vs : forall n e,
  In e (table_go vs n) <->
  exists v, nth_error vs (sp_index e - n) = Some v /\ n <= sp_index e /\ v_kind v <> VFallback /\
            sp_canon e = v_out v /\ sp_aliases e = v_arms v /\ sp_wild e = vkind_eqb (v_kind v) VPrefix.
Proof.
  induction vs as [|v r IH]; intros n e; cbn [table_go].
  - split; [intros []|]. intros (v & H & _). destruct (sp_index e - n)%nat; discriminate.
  - assert (Hr : In e (table_go r (S n)) <->
                 exists v0, nth_error (v :: r) (sp_index e - n) = Some v0 /\ n < sp_index e /\ v_kind v0 <> VFallback /\
                   sp_canon e = v_out v0 /\ sp_aliases e = v_arms v0 /\ sp_wild e = vkind_eqb (v_kind v0) VPrefix).
    { rewrite IH. split.
      - intros (v0 & H1 & H2 & H3). exists v0. split; [|split; [lia|exact H3]].
        replace (sp_index e - n)%nat with (S (sp_index e - S n)) by lia. exact H1.
      - intros (v0 & H1 & H2 & H3). exists v0. split; [|split; [lia|exact H3]].
        replace (sp_index e - n)%nat with (S (sp_index e - S n)) in H1 by lia. exact H1. }
    destruct (v_kind v) eqn:Ek.
    1,2: cbn [In]; rewrite Hr; split.
    1,3: intros [<-|(v0 & H1 & H2 & H3)];
         [exists v; cbn [sp_index sp_canon sp_aliases sp_wild]; rewrite Nat.sub_diag; cbn [nth_error];
          rewrite Ek; repeat split; auto; discriminate
         |exists v0; repeat split; try tauto; lia].
    1,2: intros (v0 & H1 & H2 & H3 & H4 & H5 & H6);
         destruct (Nat.eq_dec (sp_index e) n) as [En|Hne];
         [left; rewrite En, Nat.sub_diag in H1; cbn [nth_error] in H1; inversion H1; subst v0;
          destruct e as [ei ec ea ew]; cbn [sp_index sp_canon sp_aliases sp_wild] in *; subst; rewrite Ek; reflexivity
         |right; exists v0; repeat split; auto; lia].
    rewrite Hr. split.
    + intros (v0 & H1 & H2 & H3). exists v0. repeat split; try tauto; lia.
    + intros (v0 & H1 & H2 & H3 & H4). exists v0.
      destruct (Nat.eq_dec (sp_index e) n) as [En|Hne].
      * rewrite En, Nat.sub_diag in H1. cbn [nth_error] in H1. inversion H1; subst v0. congruence.
      * repeat split; try tauto; lia.
Qed.

Lemma table_of_In d e :
  In e (table_of d) <->
  exists v, nth_error (d_variants d) (sp_index e) = Some v /\ v_kind v <> VFallback /\
            sp_canon e = v_out v /\ sp_aliases e = v_arms v /\ sp_wild e = vkind_eqb (v_kind v) VPrefix.
Proof.
  unfold table_of. rewrite table_go_In. rewrite Nat.sub_0_r. split.
  - intros (v & H1 & _ & H3). exists v; tauto.
  - intros (v & H1 & H3). exists v; repeat split; try tauto; lia.
Qed.

(** soundness / completeness of the two look-ups of [Spec], on any table *)
Lemma find_exact_some t s e : find_exact t s = Some e ->
  In e t /\ sp_wild e = false /\ (s = sp_canon e \/ In s (sp_aliases e)).
Proof.
  induction t as [|e0 r IH]; cbn [find_exact]; [discriminate|].
  destruct (negb (sp_wild e0) && (str_eqb s (sp_canon e0) || mem_str s (sp_aliases e0))) eqn:E.
  - intros H; inversion H; subst e0. apply andb_true_iff in E as [E1 E2].
    apply negb_true_iff in E1. apply orb_true_iff in E2.
    split; [now left|]. split; [exact E1|].
    destruct E2 as [E2|E2]; [left; now apply str_eqb_eq|right; now apply mem_str_In].
  - intros H. destruct (IH H) as (H1 & H2). split; [now right|exact H2].
Qed.

Lemma find_exact_none t s : find_exact t s = None ->
  forall e, In e t -> sp_wild e = false -> s <> sp_canon e /\ ~ In s (sp_aliases e).
Proof.
  induction t as [|e0 r IH]; cbn [find_exact]; intros H e Hin Hw; [destruct Hin|].
  destruct (negb (sp_wild e0) && (str_eqb s (sp_canon e0) || mem_str s (sp_aliases e0))) eqn:E; [discriminate|].
  destruct Hin as [->|Hin]; [|now apply IH].
  rewrite Hw in E. cbn [negb andb] in E. apply orb_false_iff in E as [E1 E2].
  split; [now apply str_eqb_neq|]. rewrite <- mem_str_In. congruence.
Qed.

Lemma first_prefix_some ps s p : first_prefix ps s = Some p -> In p ps /\ starts_with p s = true.
Proof.
  induction ps as [|q r IH]; cbn [first_prefix]; [discriminate|].
  destruct (starts_with q s) eqn:E.
  - intros H; inversion H; subst. split; [now left|exact E].
  - intros H. destruct (IH H). split; [now right|assumption].
Qed.

Lemma first_prefix_none ps s : first_prefix ps s = None -> forall p, In p ps -> starts_with p s = false.
Proof.
  induction ps as [|q r IH]; cbn [first_prefix]; intros H p Hin; [destruct Hin|].
  destruct (starts_with q s) eqn:E; [discriminate|].
  destruct Hin as [->|Hin]; [exact E|now apply IH].
Qed.

Lemma find_wild_some t s e suf : find_wild t s = Some (e, suf) ->
  In e t /\ sp_wild e = true /\
  exists p, (p = sp_canon e \/ In p (sp_aliases e)) /\ starts_with p s = true /\ suf = skipn (List.length p) s.
Proof.
  induction t as [|e0 r IH]; cbn [find_wild]; [discriminate|].
  destruct (sp_wild e0) eqn:Ew.
  - destruct (first_prefix (sp_canon e0 :: sp_aliases e0) s) as [p|] eqn:Ep.
    + intros H; inversion H; subst. apply first_prefix_some in Ep as [Hin Hs].
      split; [now left|]. split; [exact Ew|]. exists p. repeat split; auto.
      destruct Hin as [<-|Hin]; auto.
    + intros H. destruct (IH H) as (H1 & H2). split; [now right|exact H2].
  - intros H. destruct (IH H) as (H1 & H2). split; [now right|exact H2].
Qed.

Lemma find_wild_none t s : find_wild t s = None ->
  forall e p, In e t -> sp_wild e = true -> (p = sp_canon e \/ In p (sp_aliases e)) -> starts_with p s = false.
Proof.
  induction t as [|e0 r IH]; cbn [find_wild]; intros H e p Hin Hw Hp; [destruct Hin|].
  destruct (sp_wild e0) eqn:Ew.
  - destruct (first_prefix (sp_canon e0 :: sp_aliases e0) s) as [q|] eqn:Eq; [discriminate|].
    destruct Hin as [->|Hin]; [|now apply (IH H e)].
    apply (first_prefix_none _ _ Eq). destruct Hp as [->|Hp]; [now left|now right].
  - destruct Hin as [->|Hin]; [congruence|now apply (IH H e)].
Qed.

(** * [Spec.canon] is the identity except on declared aliases (any table) *)
Lemma canon_id_unless_alias t s : ~ is_alias t s -> canon t s = s.
Proof.
  intros NA. unfold canon.
  destruct (find_exact t s) as [e|] eqn:E1.
  - apply find_exact_some in E1 as (Hin & Hw & [->|Ha]); [reflexivity|].
    dse s (sp_canon e); [reflexivity|]. exfalso. apply NA.
    exists e, s. rewrite Hw. auto.
  - destruct (find_wild t s) as [[e suf]|] eqn:E2; [|reflexivity].
    apply find_wild_some in E2 as (Hin & Hw & p & Hp & Hs & ->).
    destruct Hp as [->|Hp]; [now apply starts_with_skipn|].
    dse p (sp_canon e); [now apply starts_with_skipn|].
    exfalso. apply NA. exists e, p. rewrite Hw. auto.
Qed.

(** * The model meets the specification *)

Section Decl.
Variable d : decl.
Hypothesis W : wf_decl d.
Let t := table_of d.

(** full description of [from_str] in terms of the specification's look-ups *)
Lemma from_str_spec s :
  match from_str d s with
  | VUnit i => exists e v, find_exact t s = Some e /\ sp_index e = i /\
                           nth_error (d_variants d) i = Some v /\ v_kind v = VExact /\ sp_canon e = v_out v
  | VData i suf => find_exact t s = None /\
                   exists e v, find_wild t s = Some (e, suf) /\ sp_index e = i /\
                           nth_error (d_variants d) i = Some v /\ v_kind v = VPrefix /\ sp_canon e = v_out v
  | VCustom s' => s' = s /\ find_exact t s = None /\ find_wild t s = None
  end.
Proof.
  pose proof (wf_decl_arms d W) as WA. pose proof (wf_decl_outs d W) as WO.
  (* every accepted spelling of a table entry is an arm of the declaration *)
  assert (EntryArm : forall e a, In e t -> (a = sp_canon e \/ In a (sp_aliases e)) ->
            exists v, nth_error (d_variants d) (sp_index e) = Some v /\ sp_canon e = v_out v /\
                      v_kind v = (if sp_wild e then VPrefix else VExact) /\
                      In (v_kind v, a, sp_index e) (arms d)).
  { intros e a Hin Ha. apply table_of_In in Hin as (v & Hn & Hk & Hc & Hal & Hw).
    exists v. split; [exact Hn|]. split; [exact Hc|]. split.
    - rewrite Hw. destruct (v_kind v); cbn; congruence.
    - destruct Ha as [->|Ha].
      + rewrite Hc. now apply WO.
      + apply arms_In. exists v. rewrite Hal in Ha. auto. }
  (* absence of an exact entry for s *)
  assert (NoExact : (forall i, ~ In (VExact, s, i) (arms d)) -> find_exact t s = None).
  { intros NE. destruct (find_exact t s) as [e|] eqn:E; [|reflexivity]. exfalso.
    apply find_exact_some in E as (Hin & Hw & Ha).
    destruct (EntryArm e s Hin Ha) as (v & _ & _ & Hk & Harm). rewrite Hw in Hk. rewrite Hk in Harm.
    exact (NE _ Harm). }
  pose proof (match_arms_sound (arms d) s) as S. fold (from_str d s) in S.
  destruct (from_str d s) as [i|i suf|s'] eqn:F.
  - (* unit variant *)
    apply arms_In in S as (v & Hn & Hk & _ & Ha).
    destruct (find_exact t s) as [e|] eqn:E.
    + pose proof E as E'. apply find_exact_some in E' as (Hin & Hw & Hs).
      destruct (EntryArm e s Hin Hs) as (v' & Hn' & Hc' & Hk' & Harm). rewrite Hw in Hk'. rewrite Hk' in Harm.
      pose proof (match_arms_exact _ WA (arms d) s _ (fun x H => H) Harm) as F'.
      fold (from_str d s) in F'. rewrite F in F'. inversion F'; subst i.
      exists e, v'. repeat split; auto.
    + exfalso. assert (Hin : In {| sp_index := i; sp_canon := v_out v; sp_aliases := v_arms v; sp_wild := false |} t).
      { apply table_of_In. exists v. cbn [sp_index sp_canon sp_aliases sp_wild]. rewrite Hk. repeat split; auto. discriminate. }
      destruct (find_exact_none _ _ E _ Hin eq_refl) as [_ N]. now apply N.
  - (* data variant *)
    destruct S as (p & Harm & ->).
    assert (NE : forall j, ~ In (VExact, p ++ suf, j) (arms d)).
    { intros j Hj. pose proof (WA _ _ Harm Hj) as C. cbn [arm_conflict] in C.
      now rewrite starts_with_app in C. }
    split; [now apply NoExact|].
    pose proof Harm as Harm'. apply arms_In in Harm' as (v & Hn & Hk & _ & Ha).
    destruct (find_wild t (p ++ suf)) as [[e suf']|] eqn:E.
    + pose proof E as E'. apply find_wild_some in E' as (Hin & Hw & q & Hq & Hs & Hsuf).
      destruct (EntryArm e q Hin Hq) as (v' & Hn' & Hc' & Hk' & Harm'). rewrite Hw in Hk'. rewrite Hk' in Harm'.
      apply starts_with_spec in Hs as [r Hr].
      pose proof (match_arms_prefix _ WA (arms d) q r _ (fun x H => H) Harm') as F'.
      rewrite <- Hr in F'. fold (from_str d (p ++ suf)) in F'. rewrite F in F'. inversion F'; subst.
      exists e, v'. rewrite Hr, skipn_len_app. repeat split; auto.
    + exfalso. assert (Hin : In {| sp_index := i; sp_canon := v_out v; sp_aliases := v_arms v; sp_wild := true |} t).
      { apply table_of_In. exists v. cbn [sp_index sp_canon sp_aliases sp_wild]. rewrite Hk. repeat split; auto. discriminate. }
      pose proof (find_wild_none _ _ E _ p Hin eq_refl (or_intror Ha)) as N.
      now rewrite starts_with_app in N.
  - (* fallback *)
    destruct S as (-> & NE & NP). split; [reflexivity|]. split; [now apply NoExact|].
    destruct (find_wild t s) as [[e suf]|] eqn:E; [|reflexivity]. exfalso.
    apply find_wild_some in E as (Hin & Hw & q & Hq & Hs & _).
    destruct (EntryArm e q Hin Hq) as (v' & _ & _ & Hk' & Harm'). rewrite Hw in Hk'. rewrite Hk' in Harm'.
    rewrite (NP _ _ Harm') in Hs. discriminate.
Qed.

(** string -> enum -> string is [Spec.canon] *)
Theorem roundtrip s : as_str d (from_str d s) = canon t s.
Proof.
  pose proof (from_str_spec s) as H. unfold canon.
  destruct (from_str d s) as [i|i suf|s']; cbn [as_str].
  - destruct H as (e & v & -> & _ & -> & _ & ->). reflexivity.
  - destruct H as (-> & e & v & -> & _ & -> & _ & ->). reflexivity.
  - destruct H as (-> & -> & ->). reflexivity.
Qed.

(** a specified spelling selects its dedicated variant *)
Theorem dedicated_variant s i : dedicated t s = Some i ->
  from_str d s = VUnit i \/ exists suf, from_str d s = VData i suf.
Proof.
  pose proof (from_str_spec s) as H. unfold dedicated.
  destruct (from_str d s) as [j|j suf|s'].
  - destruct H as (e & v & -> & <- & _). intros E; inversion E. now left.
  - destruct H as (-> & e & v & -> & <- & _). intros E; inversion E. right. now exists suf.
  - destruct H as (_ & -> & ->). discriminate.
Qed.

(** each declared spelling (canonical or alias) maps to its own variant, and back to the
    canonical spelling *)
Theorem own_variant i v a : nth_error (d_variants d) i = Some v -> v_kind v = VExact ->
  (a = v_out v \/ In a (v_arms v)) ->
  from_str d a = VUnit i /\ as_str d (VUnit i) = v_out v.
Proof.
  intros Hn Hk Ha. split; [|cbn [as_str]; now rewrite Hn].
  apply (match_arms_exact _ (wf_decl_arms d W) (arms d) a i (fun x H => H)).
  destruct Ha as [->|Ha].
  - rewrite <- Hk. apply (wf_decl_outs d W); [exact Hn|congruence].
  - apply arms_In. exists v. repeat split; auto. discriminate.
Qed.

(** wildcard types keep their suffix *)
Theorem wildcard_keeps_suffix i v p suf : nth_error (d_variants d) i = Some v -> v_kind v = VPrefix ->
  (p = v_out v \/ In p (v_arms v)) ->
  from_str d (p ++ suf) = VData i suf /\ as_str d (VData i suf) = v_out v ++ suf.
Proof.
  intros Hn Hk Hp. split; [|cbn [as_str]; now rewrite Hn].
  apply (match_arms_prefix _ (wf_decl_arms d W) (arms d) p suf i (fun x H => H)).
  destruct Hp as [->|Hp].
  - rewrite <- Hk. apply (wf_decl_outs d W); [exact Hn|congruence].
  - apply arms_In. exists v. repeat split; auto. discriminate.
Qed.

(** converting the string form again gives the same value (conversion is idempotent) *)
Theorem from_as_from s : from_str d (as_str d (from_str d s)) = from_str d s.
Proof.
  pose proof (from_str_spec s) as H.
  destruct (from_str d s) as [i|i suf|s'] eqn:F; cbn [as_str].
  - destruct H as (e & v & _ & _ & Hn & Hk & _). rewrite Hn.
    exact (proj1 (own_variant i v (v_out v) Hn Hk (or_introl eq_refl))).
  - destruct H as (_ & e & v & _ & _ & Hn & Hk & _). rewrite Hn.
    exact (proj1 (wildcard_keeps_suffix i v (v_out v) suf Hn Hk (or_introl eq_refl))).
  - destruct H as (-> & _). exact F.
Qed.

Theorem canon_idempotent s : canon t (canon t s) = canon t s.
Proof. rewrite <- !roundtrip. now rewrite from_as_from. Qed.

(** two strings give the same value exactly when their canonical forms coincide *)
Theorem from_str_injective a b : from_str d a = from_str d b <-> canon t a = canon t b.
Proof.
  split.
  - intros E. rewrite <- !roundtrip. now rewrite E.
  - intros E. rewrite <- (from_as_from a), <- (from_as_from b). rewrite !roundtrip. now rewrite E.
Qed.

Lemma value_eqb_eq x y : value_eqb x y = true <-> x = y.
Proof.
  destruct x, y; cbn [value_eqb]; try (split; [discriminate|congruence]).
  - rewrite Nat.eqb_eq. split; congruence.
  - rewrite andb_true_iff, Nat.eqb_eq, str_eqb_eq. split; [intros [-> ->]; reflexivity|intros E; inversion E; auto].
  - rewrite str_eqb_eq. split; congruence.
Qed.

(** [==] agrees with the string form, however it is implemented *)
Theorem eq_agrees a b r : eq_model d (from_str d a) (from_str d b) = Some r ->
  r = str_eqb (canon t a) (canon t b).
Proof.
  unfold eq_model. destruct (d_eq d); [discriminate| |]; intros E; inversion E; subst r; clear E.
  - now rewrite !roundtrip.
  - destruct (value_eqb (from_str d a) (from_str d b)) eqn:V.
    + apply value_eqb_eq, from_str_injective in V. rewrite V. now rewrite str_eqb_refl.
    + symmetry. apply str_eqb_neq. intros C. apply from_str_injective in C.
      apply value_eqb_eq in C. congruence.
Qed.

(** [cmp] agrees with the string form when it is implemented through it *)
Theorem cmp_agrees a b r : ord_by_string d = true ->
  cmp_model d (from_str d a) (from_str d b) = Some r ->
  r = str_cmp3 (canon t a) (canon t b).
Proof.
  unfold ord_by_string, cmp_model. destruct (d_ord d); cbn; try discriminate.
  intros _ E; inversion E. now rewrite !roundtrip, str_cmp_cmp3.
Qed.

End Decl.

(** * The obligations on ruma's declarations, re-evaluated on every run *)

Definition all_decls : list decl :=
  List.map decl_of_src (string_enums ++ string_enums_all_features)
  ++ event_type_enums ++ event_type_enums_all_features.

Lemma all_decls_wf : forallb wf_declb all_decls = true.
Proof. vm_compute. reflexivity. Qed.

Lemma In_all_wf d : In d all_decls -> wf_decl d.
Proof. intros H. pose proof all_decls_wf as A. rewrite forallb_forall in A. exact (A d H). Qed.


Lemma In_all_ord d : forallb ord_by_string all_decls = true -> In d all_decls -> ord_by_string d = true.
Proof. intros A H. rewrite forallb_forall in A. exact (A d H). Qed.
