(** C19.Bridge — the specification table a declaration stands for: one entry per dedicated
    (non-fallback) variant, canonical spelling = the variant's own string, accepted spellings =
    the strings of its [From] arms.  Used by [Run] (to evaluate [Spec] on the implementation's
    output) and by [Proofs] (to state that the model meets [Spec]). *)
From Base Require Import Prelude EnumDecl.
From C19 Require Import Model Spec.

Fixpoint table_go (vs : list variant) (i : nat) : table :=
  match vs with
  | [] => []
  | v :: r =>
      match v_kind v with
      | VFallback => table_go r (S i)
      | k => {| sp_index := i; sp_canon := v_out v; sp_aliases := v_arms v;
                sp_wild := vkind_eqb k VPrefix |} :: table_go r (S i)
      end
  end.

Definition table_of (d : decl) : table := table_go (d_variants d) 0.
