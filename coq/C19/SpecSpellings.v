(** C19.SpecSpellings — the spellings the Matrix specification (v1.14) defines for the string-valued
    protocol enumerations, transcribed by hand per enumeration, and the decidable check that each of them
    selects a dedicated (non-fallback) variant whose string form is that very spelling.  Independent
    of ruma's declarations: an edit of a `rename`, of a `rename_all` rule or of a variant name that
    changes or drops a specified spelling makes [all_specified_dedicated] compute to [false]. *)
From Base Require Import Prelude EnumDecl.
From C19 Require Import Model.

Definition spec_spellings : list (str * list str) := [
  (s!"ruma_client_api::error::ErrorCode",
   [s!"M_FORBIDDEN"; s!"M_UNKNOWN_TOKEN"; s!"M_MISSING_TOKEN"; s!"M_USER_LOCKED"; s!"M_USER_SUSPENDED";
    s!"M_BAD_JSON"; s!"M_NOT_JSON"; s!"M_NOT_FOUND"; s!"M_LIMIT_EXCEEDED"; s!"M_UNRECOGNIZED"; s!"M_UNKNOWN";
    s!"M_UNAUTHORIZED"; s!"M_USER_DEACTIVATED"; s!"M_USER_IN_USE"; s!"M_INVALID_USERNAME"; s!"M_ROOM_IN_USE";
    s!"M_INVALID_ROOM_STATE"; s!"M_THREEPID_IN_USE"; s!"M_THREEPID_NOT_FOUND"; s!"M_THREEPID_AUTH_FAILED";
    s!"M_THREEPID_DENIED"; s!"M_SERVER_NOT_TRUSTED"; s!"M_UNSUPPORTED_ROOM_VERSION";
    s!"M_INCOMPATIBLE_ROOM_VERSION"; s!"M_BAD_STATE"; s!"M_GUEST_ACCESS_FORBIDDEN"; s!"M_CAPTCHA_NEEDED";
    s!"M_CAPTCHA_INVALID"; s!"M_MISSING_PARAM"; s!"M_INVALID_PARAM"; s!"M_TOO_LARGE"; s!"M_EXCLUSIVE";
    s!"M_RESOURCE_LIMIT_EXCEEDED"; s!"M_CANNOT_LEAVE_SERVER_NOTICE_ROOM"; s!"M_THREEPID_MEDIUM_NOT_SUPPORTED";
    s!"M_WEAK_PASSWORD"; s!"M_UNABLE_TO_AUTHORISE_JOIN"; s!"M_UNABLE_TO_GRANT_JOIN"; s!"M_BAD_ALIAS";
    s!"M_DUPLICATE_ANNOTATION"; s!"M_NOT_YET_UPLOADED"; s!"M_CANNOT_OVERWRITE_MEDIA";
    s!"M_WRONG_ROOM_KEYS_VERSION"; s!"M_URL_NOT_SET"; s!"M_BAD_STATUS"; s!"M_CONNECTION_FAILED";
    s!"M_CONNECTION_TIMEOUT"]);
  (s!"ruma_events::room::member::MembershipState", [s!"invite"; s!"join"; s!"knock"; s!"leave"; s!"ban"]);
  (s!"ruma_state_res::events::JoinRule",
   [s!"public"; s!"invite"; s!"knock"; s!"restricted"; s!"knock_restricted"]);
  (s!"ruma_events::room::history_visibility::HistoryVisibility",
   [s!"invited"; s!"joined"; s!"shared"; s!"world_readable"]);
  (s!"ruma_events::room::guest_access::GuestAccess", [s!"can_join"; s!"forbidden"]);
  (s!"ruma_common::presence::PresenceState", [s!"online"; s!"offline"; s!"unavailable"]);
  (s!"ruma_common::room::RoomType", [s!"m.space"]);
  (s!"ruma_events::relation::RelationType", [s!"m.annotation"; s!"m.replace"; s!"m.thread"; s!"m.reference"]);
  (s!"ruma_events::receipt::ReceiptType", [s!"m.read"; s!"m.read.private"]);
  (s!"ruma_client_api::receipt::create_receipt::v3::ReceiptType", [s!"m.read"; s!"m.read.private"; s!"m.fully_read"]);
  (s!"ruma_events::room::message::MessageFormat", [s!"org.matrix.custom.html"]);
  (s!"ruma_client_api::room::Visibility", [s!"public"; s!"private"]);
  (s!"ruma_client_api::room::create_room::v3::RoomPreset", [s!"private_chat"; s!"public_chat"; s!"trusted_private_chat"]);
  (s!"ruma_common::thirdparty::Medium", [s!"email"; s!"msisdn"]);
  (s!"ruma_common::EventEncryptionAlgorithm", [s!"m.olm.v1.curve25519-aes-sha2"; s!"m.megolm.v1.aes-sha2"]);
  (s!"ruma_common::DeviceKeyAlgorithm", [s!"ed25519"; s!"curve25519"]);
  (s!"ruma_common::SigningKeyAlgorithm", [s!"ed25519"]);
  (s!"ruma_common::OneTimeKeyAlgorithm", [s!"signed_curve25519"]);
  (s!"ruma_events::key::verification::VerificationMethod",
   [s!"m.sas.v1"; s!"m.qr_code.scan.v1"; s!"m.qr_code.show.v1"; s!"m.reciprocate.v1"]);
  (s!"ruma_events::key::verification::cancel::CancelCode",
   [s!"m.user"; s!"m.timeout"; s!"m.unknown_transaction"; s!"m.unknown_method"; s!"m.unexpected_message";
    s!"m.key_mismatch"; s!"m.user_mismatch"; s!"m.invalid_message"; s!"m.accepted";
    s!"m.mismatched_commitment"; s!"m.mismatched_sas"]);
  (s!"ruma_events::key::verification::HashAlgorithm", [s!"sha256"]);
  (s!"ruma_events::key::verification::KeyAgreementProtocol", [s!"curve25519-hkdf-sha256"]);
  (s!"ruma_events::key::verification::MessageAuthenticationCode", [s!"hkdf-hmac-sha256.v2"]);
  (s!"ruma_events::key::verification::ShortAuthenticationString", [s!"decimal"; s!"emoji"]);
  (s!"ruma_client_api::uiaa::AuthType",
   [s!"m.login.password"; s!"m.login.recaptcha"; s!"m.login.sso"; s!"m.login.email.identity"; s!"m.login.msisdn";
    s!"m.login.dummy"; s!"m.login.registration_token"; s!"m.login.terms"]);
  (s!"ruma_common::push::RuleKind", [s!"override"; s!"underride"; s!"sender"; s!"room"; s!"content"]);
  (s!"ruma_common::push::PushFormat", [s!"event_id_only"]);
  (s!"ruma_common::encryption::KeyUsage", [s!"master"; s!"self_signing"; s!"user_signing"]);
  (s!"ruma_common::media::Method", [s!"crop"; s!"scale"]);
  (s!"ruma_push_gateway_api::send_event_notification::v1::NotificationPriority", [s!"high"; s!"low"]);
  (s!"ruma_common::directory::PublicRoomJoinRule", [s!"public"; s!"knock"]);
  (s!"ruma_events::policy::rule::Recommendation", [s!"m.ban"]);
  (s!"ruma_events::secret::request::SecretName",
   [s!"m.cross_signing.master"; s!"m.cross_signing.user_signing"; s!"m.cross_signing.self_signing";
    s!"m.megolm_backup.v1"]);
  (s!"ruma_events::room_key_request::Action", [s!"request"; s!"request_cancellation"]);
  (s!"ruma_events::call::hangup::Reason",
   [s!"ice_failed"; s!"invite_timeout"; s!"ice_timeout"; s!"user_hangup"; s!"user_media_failed"; s!"user_busy";
    s!"unknown_error"]);
  (s!"ruma_client_api::filter::EventFormat", [s!"client"; s!"federation"]);
  (s!"ruma_client_api::search::search_events::v3::OrderBy", [s!"recent"; s!"rank"]);
  (s!"ruma_client_api::search::search_events::v3::SearchKeys", [s!"content.body"; s!"content.name"; s!"content.topic"]);
  (s!"ruma_client_api::search::search_events::v3::GroupingKey", [s!"room_id"; s!"sender"]);
  (s!"ruma_client_api::membership::get_member_events::v3::MembershipEventFilter",
   [s!"join"; s!"invite"; s!"leave"; s!"ban"; s!"knock"]);
  (s!"ruma_client_api::account::ThirdPartyIdRemovalStatus", [s!"success"; s!"no-support"]);
  (s!"ruma_client_api::discovery::get_capabilities::RoomVersionStability", [s!"stable"; s!"unstable"]);
  (s!"ruma_client_api::threads::get_threads::v1::IncludeThreads", [s!"all"; s!"participated"]);
  (s!"ruma_federation_api::query::get_profile_information::v1::ProfileField", [s!"displayname"; s!"avatar_url"]);
  (s!"ruma_identity_service_api::lookup::IdentifierHashingAlgorithm", [s!"sha256"; s!"none"]);
  (s!"ruma_common::push::PredefinedOverrideRuleId",
   [s!".m.rule.master"; s!".m.rule.suppress_notices"; s!".m.rule.invite_for_me"; s!".m.rule.member_event";
    s!".m.rule.is_user_mention"; s!".m.rule.contains_display_name"; s!".m.rule.is_room_mention";
    s!".m.rule.roomnotif"; s!".m.rule.tombstone"; s!".m.rule.reaction"; s!".m.rule.room.server_acl";
    s!".m.rule.suppress_edits"]);
  (s!"ruma_common::push::PredefinedUnderrideRuleId",
   [s!".m.rule.call"; s!".m.rule.encrypted_room_one_to_one"; s!".m.rule.room_one_to_one"; s!".m.rule.message";
    s!".m.rule.encrypted"]);
  (s!"ruma_common::push::PredefinedContentRuleId", [s!".m.rule.contains_user_name"]) ].

(** the event types the specification defines (client-server API v1.14), per generated `*EventType`
    enumeration (the `.*` family m.secret_storage.key.* is a prefix arm and not listed) *)
Definition spec_event_types : list (str * list str) := [
  (s!"ruma_events::StateEventType",
   [s!"m.room.aliases"; s!"m.room.avatar"; s!"m.room.canonical_alias"; s!"m.room.create"; s!"m.room.encryption"; s!"m.room.guest_access"; s!"m.room.history_visibility"; s!"m.room.join_rules"; s!"m.room.member"; s!"m.room.name"; s!"m.room.pinned_events"; s!"m.room.power_levels"; s!"m.room.server_acl"; s!"m.room.third_party_invite"; s!"m.room.tombstone"; s!"m.room.topic"; s!"m.space.child"; s!"m.space.parent"; s!"m.policy.rule.room"; s!"m.policy.rule.server"; s!"m.policy.rule.user"]);
  (s!"ruma_events::MessageLikeEventType",
   [s!"m.call.answer"; s!"m.call.invite"; s!"m.call.hangup"; s!"m.call.candidates"; s!"m.call.negotiate"; s!"m.call.reject"; s!"m.call.select_answer"; s!"m.key.verification.ready"; s!"m.key.verification.start"; s!"m.key.verification.cancel"; s!"m.key.verification.accept"; s!"m.key.verification.key"; s!"m.key.verification.mac"; s!"m.key.verification.done"; s!"m.reaction"; s!"m.room.encrypted"; s!"m.room.message"; s!"m.room.redaction"; s!"m.sticker"]);
  (s!"ruma_events::TimelineEventType",
   [s!"m.room.aliases"; s!"m.room.avatar"; s!"m.room.canonical_alias"; s!"m.room.create"; s!"m.room.encryption"; s!"m.room.guest_access"; s!"m.room.history_visibility"; s!"m.room.join_rules"; s!"m.room.member"; s!"m.room.name"; s!"m.room.pinned_events"; s!"m.room.power_levels"; s!"m.room.server_acl"; s!"m.room.third_party_invite"; s!"m.room.tombstone"; s!"m.room.topic"; s!"m.space.child"; s!"m.space.parent"; s!"m.policy.rule.room"; s!"m.policy.rule.server"; s!"m.policy.rule.user"; s!"m.call.answer"; s!"m.call.invite"; s!"m.call.hangup"; s!"m.call.candidates"; s!"m.call.negotiate"; s!"m.call.reject"; s!"m.call.select_answer"; s!"m.key.verification.ready"; s!"m.key.verification.start"; s!"m.key.verification.cancel"; s!"m.key.verification.accept"; s!"m.key.verification.key"; s!"m.key.verification.mac"; s!"m.key.verification.done"; s!"m.reaction"; s!"m.room.encrypted"; s!"m.room.message"; s!"m.room.redaction"; s!"m.sticker"]);
  (s!"ruma_events::ToDeviceEventType",
   [s!"m.dummy"; s!"m.room_key"; s!"m.room_key_request"; s!"m.forwarded_room_key"; s!"m.key.verification.request"; s!"m.key.verification.ready"; s!"m.key.verification.start"; s!"m.key.verification.cancel"; s!"m.key.verification.accept"; s!"m.key.verification.key"; s!"m.key.verification.mac"; s!"m.key.verification.done"; s!"m.room.encrypted"; s!"m.secret.request"; s!"m.secret.send"]);
  (s!"ruma_events::GlobalAccountDataEventType",
   [s!"m.direct"; s!"m.ignored_user_list"; s!"m.push_rules"; s!"m.secret_storage.default_key"; s!"m.identity_server"]);
  (s!"ruma_events::RoomAccountDataEventType",
   [s!"m.fully_read"; s!"m.tag"; s!"m.marked_unread"]);
  (s!"ruma_events::EphemeralRoomEventType",
   [s!"m.receipt"; s!"m.typing"]) ].

(** legacy names that must keep reading as their standard event type (the pre-standard VoIP name still sent
    by older clients): (enumeration, legacy name, standard name) *)
Definition spec_aliases : list (str * str * str) := [
  (s!"ruma_events::MessageLikeEventType", s!"org.matrix.call.sdp_stream_metadata_changed", s!"m.call.sdp_stream_metadata_changed");
  (s!"ruma_events::TimelineEventType", s!"org.matrix.call.sdp_stream_metadata_changed", s!"m.call.sdp_stream_metadata_changed") ].

Fixpoint find_decl_named (l : list decl) (name : str) : option decl :=
  match l with
  | [] => None
  | d :: r => if str_eqb name (d_name d) then Some d else find_decl_named r name
  end.

(** the spelling selects a unit variant (not the fallback, not a prefix arm) that prints as itself *)
Definition dedicated_spelling (d : decl) (s : str) : bool :=
  match from_str d s with
  | VUnit i => str_eqb (as_str d (VUnit i)) s
  | _ => false
  end.

(** two different specified spellings of one enumeration never share a variant *)
Fixpoint distinct_variants (d : decl) (ss : list str) : bool :=
  match ss with
  | [] => true
  | s :: r => forallb (fun s' => negb (value_eqb (from_str d s) (from_str d s'))) r && distinct_variants d r
  end.

Definition spellings_ok (decls : list decl) (e : str * list str) : bool :=
  match find_decl_named decls (fst e) with
  | Some d => forallb (dedicated_spelling d) (snd e) && distinct_variants d (snd e)
  | None => false
  end.

Definition all_specified_dedicated (decls : list decl) : bool := forallb (spellings_ok decls) spec_spellings.
Definition alias_ok (decls : list decl) (e : str * str * str) : bool :=
  match e with
  | (name, legacy, standard) =>
      match find_decl_named decls name with
      | Some d => value_eqb (from_str d legacy) (from_str d standard) && str_eqb (as_str d (from_str d legacy)) standard
                  && dedicated_spelling d standard
      | None => false
      end
  end.
Definition all_aliases_ok (decls : list decl) : bool := forallb (alias_ok decls) spec_aliases.

Definition all_event_types_dedicated (decls : list decl) : bool := forallb (spellings_ok decls) spec_event_types.

Definition failing (decls : list decl) : list (str * list str) :=
  List.map (fun e => (fst e, match find_decl_named decls (fst e) with
                            | Some d => List.filter (fun s => negb (dedicated_spelling d s)) (snd e)
                            | None => [s!"<enum not found>"]
                            end))
           (List.filter (fun e => negb (spellings_ok decls e)) spec_spellings).
