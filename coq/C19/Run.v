(** C19.Run — case decoding, model run, and the [Spec] predicates evaluated on the
    implementation's outcome (the failing-input search).  Cases: see harness/src/c19.rs. *)
From Base Require Import Prelude Sx EnumDecl.
From Gen Require Import StringEnums.
From C19 Require Import Model Spec Bridge SpecSpellings.

(** the declarations compiled into the harness; [true] = the type has [AsRef<str>] *)
Definition run_decls : list (decl * bool) :=
  List.map (fun e => (decl_of_src e, true)) string_enums
  ++ List.map (fun d => (d, false)) event_type_enums.

Fixpoint find_decl (l : list (decl * bool)) (name : str) : option (decl * bool) :=
  match l with
  | [] => None
  | (d, b) :: r => if str_eqb name (d_name d) then Some (d, b) else find_decl r name
  end.

Definition sx_nat (n : nat) : sx := sx_N (N.of_nat n).
Definition obs (d : decl) (v : value) : sx := SL [sx_nat (value_pos d v); SS (as_str d v)].

Definition model_one (d : decl) (has_as_ref : bool) (s : str) : sx :=
  let v := from_str d s in
  let out := as_str d v in
  SL [SN 0; SL [ sx_nat (value_pos d v); SS out;
                 (if has_as_ref then SL [SS out] else SL []);
                 sx_bool true;
                 SL [SS out];
                 SL [obs d v]; SL [obs d v];
                 obs d (from_str d out);
                 sx_opt sx_bool (eq_model d v v) ]].

Definition model_pair (d : decl) (a b : str) : sx :=
  let x := from_str d a in let y := from_str d b in
  SL [SN 0; SL [ sx_opt sx_bool (eq_model d x y); sx_opt sx_N (cmp_model d x y);
                 sx_opt sx_bool (eq_model d y x); sx_opt sx_N (cmp_model d y x) ]].

Definition model_variant (d : decl) (i : nat) : sx :=
  match nth_error (d_variants d) i with
  | None => SL [SN 1; SN 0]
  | Some v => match v_kind v with
              | VFallback => SL [SN 0; SL []]
              | _ => SL [SN 0; SL [SS (v_out v); sx_nat (value_pos d (from_str d (v_out v)))]]
              end
  end.

Definition model_shape (d : decl) : sx :=
  SL [SN 0; SL [sx_nat (List.length (d_variants d)); sx_nat (fallback_pos (d_variants d) 0)]].

(** * The specification evaluated on what the implementation returned *)

Definition as_nat (x : sx) : option nat := match as_N x with Some n => Some (N.to_nat n) | None => None end.

Definition obs_is (x : sx) (idx : nat) (out : str) : bool :=
  match x with
  | SL [i; SS o] => match as_nat i with Some i => Nat.eqb i idx && str_eqb o out | None => false end
  | _ => false
  end.

Definition spec_one (t : table) (s : str) (impl : sx) : bool :=
  match impl with
  | SL [SN 0; SL [idx; SS disp; asref; dbg; ser; de1; de2; again; ceq]] =>
      match as_nat idx with
      | None => false
      | Some i =>
          roundtrip_ok t s disp                      (* string -> enum -> string = canon *)
          && dedicated_ok t s i                      (* specified spelling -> its variant *)
          && (match asref with SL [] => true | SL [SS a] => str_eqb a disp | _ => false end)
          && (match dbg with SN 1 => true | _ => false end)
          && (match ser with SL [SS x] => str_eqb x disp | _ => false end)     (* Serialize = string form *)
          && (match de1 with SL [o] => obs_is o i disp | _ => false end)       (* Deserialize = From<&str> *)
          && (match de2 with SL [o] => obs_is o i disp | _ => false end)
          && obs_is again i disp                                               (* idempotent *)
          && (match ceq with SL [] => true | SL [SN 1] => true | _ => false end)
      end
  | _ => false
  end.

Definition spec_pair (t : table) (a b : str) (impl : sx) : bool :=
  match impl with
  | SL [SN 0; SL [e1; c1; e2; c2]] =>
      (match e1 with SL [] => true | SL [x] => match as_bool x with Some r => eq_ok t a b r | None => false end | _ => false end)
      && (match c1 with SL [] => true | SL [x] => match as_N x with Some r => cmp_ok t a b r | None => false end | _ => false end)
      && (match e2 with SL [] => true | SL [x] => match as_bool x with Some r => eq_ok t b a r | None => false end | _ => false end)
      && (match c2 with SL [] => true | SL [x] => match as_N x with Some r => cmp_ok t b a r | None => false end | _ => false end)
  | _ => false
  end.

Fixpoint entry_of (t : table) (i : nat) : option spelling :=
  match t with [] => None | e :: r => if Nat.eqb (sp_index e) i then Some e else entry_of r i end.

Definition spec_variant (t : table) (i : nat) (impl : sx) : bool :=
  match entry_of t i, impl with
  | Some e, SL [SN 0; SL [SS o; back]] =>
      (* the variant prints its canonical spelling, and that spelling selects the variant *)
      str_eqb o (sp_canon e) && (match as_nat back with Some j => Nat.eqb j i | None => false end)
  | Some _, _ => false
  | None, SL [SN 2] => false
  | None, _ => true
  end.

(** a spelling the specification defines (hand table [SpecSpellings.spec_spellings]) must come out as a
    dedicated variant - not the fallback - that prints as that spelling *)
Fixpoint spellings_of (name : str) (l : list (str * list str)) : list str :=
  match l with [] => [] | (n, ss) :: r => if str_eqb n name then ss else spellings_of name r end.

Fixpoint standard_of (name s : str) (l : list (str * str * str)) : option str :=
  match l with
  | [] => None
  | (n, legacy, standard) :: r => if str_eqb n name && str_eqb legacy s then Some standard else standard_of name s r
  end.

(** a legacy name of [SpecSpellings.spec_aliases] prints as its standard name *)
Definition legacy_ok (d : decl) (s : str) (impl : sx) : bool :=
  match standard_of (d_name d) s spec_aliases with
  | Some standard => match impl with SL [SN 0; SL (_ :: SS disp :: _)] => str_eqb disp standard | _ => false end
  | None => true
  end.

Definition specified_ok (d : decl) (s : str) (impl : sx) : bool :=
  if mem_str s (spellings_of (d_name d) (spec_spellings ++ spec_event_types)) then
    match impl with
    | SL [SN 0; SL (idx :: SS disp :: _)] =>
        match as_nat idx with
        | Some i => negb (Nat.eqb i (fallback_pos (d_variants d) 0)) && str_eqb disp s
        | None => false
        end
    | _ => false
    end
  else true.

Definition run (x : sx) : sx :=
  match x with
  | SL [SL (SS name :: SN k :: args); impl] =>
      match find_decl run_decls name with
      | None => sx_bad
      | Some (d, has_as_ref) =>
          let t := table_of d in
          match k, args with
          | 0%Z, [SS s] => SL [model_one d has_as_ref s; sx_bool (spec_one t s impl && specified_ok d s impl && legacy_ok d s impl)]
          | 1%Z, [SS a; SS b] => SL [model_pair d a b; sx_bool (spec_pair t a b impl)]
          | 2%Z, [i] => match as_nat i with
                        | Some i => SL [model_variant d i; sx_bool (spec_variant t i impl)]
                        | None => sx_bad
                        end
          | 3%Z, [] => SL [model_shape d; sx_bool (match impl with SL [SN 0; _] => true | _ => false end)]
          | _, _ => sx_bad
          end
      end
  | _ => sx_bad
  end.
