(** C01.Properties — the theorems that decide C01, and nothing else. *)
From Base Require Import Prelude Sx Json JsonText.
From Coq Require Import Permutation.
From C01 Require Import Spec Model Proofs.
From C01 Require Roundtrip.
From Gen Require Import SigConsts.

(** The compact serializer applied to the stored form (UTF-8 strings, BTreeMap objects) of any
    representable value emits exactly the specification's canonical encoding: members in
    code-point order at every depth, minimal escapes, shortest decimal integers. *)
Theorem C01_print_is_spec :
  forall u, uwfb u = true -> print (to_json u) = canonical_spec u.
Proof. exact print_is_spec. Qed.
Eval compute in "PA:C01_print_is_spec"%string.
Print Assumptions C01_print_is_spec.

(** Byte order of UTF-8 encodings is code-point order (what makes a BTreeMap<String,_>
    iterate in the order the specification prescribes), for all scalar strings. *)
Theorem C01_utf8_order_is_codepoint_order :
  forall a b, cps_ok a -> cps_ok b -> str_ltb (enc_str a) (enc_str b) = cp_ltb a b.
Proof. exact enc_str_ltb. Qed.
Eval compute in "PA:C01_utf8_order_is_codepoint_order"%string.
Print Assumptions C01_utf8_order_is_codepoint_order.

(** The canonical value of an object text depends only on the final binding of each key:
    not on member order, not on shadowed duplicates. *)
Theorem C01_object_depends_on_bindings_only :
  forall m1 m2, (forall k, last_assoc k m1 = last_assoc k m2) ->
  to_canonical (RObj m1) = to_canonical (RObj m2).
Proof. exact object_depends_on_bindings_only. Qed.
Eval compute in "PA:C01_object_depends_on_bindings_only"%string.
Print Assumptions C01_object_depends_on_bindings_only.

Theorem C01_key_order_irrelevant :
  forall m1 m2, Permutation m1 m2 -> NoDup (List.map fst m1) ->
  to_canonical (RObj m1) = to_canonical (RObj m2).
Proof. exact key_order_irrelevant. Qed.
Eval compute in "PA:C01_key_order_irrelevant"%string.
Print Assumptions C01_key_order_irrelevant.

Theorem C01_duplicate_last_wins :
  forall m k x1 x2,
  to_canonical (RObj (m ++ [(k, x1); (k, x2)])) = to_canonical (RObj (m ++ [(k, x2)])).
Proof. exact duplicate_last_wins. Qed.
Eval compute in "PA:C01_duplicate_last_wins"%string.
Print Assumptions C01_duplicate_last_wins.

(** A number literal is accepted exactly when it has no fraction and no exponent, is not
    negative zero and lies within [-(2^53-1), 2^53-1]; the accepted value is the literal's
    value (never altered). *)
Theorem C01_numbers_exact :
  forall n z, classify_number n = Some z <->
  (nl_frac n = None /\ nl_exp n = None /\ z = lit_value n /\ int_ok z = true /\
   ~ (nl_neg n = true /\ digits_value (nl_int n) 0 = 0)).
Proof. exact classify_number_spec. Qed.
Eval compute in "PA:C01_numbers_exact"%string.
Print Assumptions C01_numbers_exact.

(** Parsing the canonical string back gives an equal value: for every well-formed value with
    representable integers and nesting below serde_json's recursion limit, the text parser
    accepts [print j], and conversion returns [j] with the same canonical string. *)
Theorem C01_canon_roundtrip :
  forall j, wf j -> Roundtrip.ints_ok j = true -> Roundtrip.jdepth j < 128 ->
  canon_text (print j) = Some (j, print j).
Proof. exact Roundtrip.canon_roundtrip. Qed.
Eval compute in "PA:C01_canon_roundtrip"%string.
Print Assumptions C01_canon_roundtrip.

(** Hence the canonical string determines the value (distinct values never share a string). *)
Theorem C01_print_injective :
  forall j1 j2, wf j1 -> wf j2 -> Roundtrip.ints_ok j1 = true -> Roundtrip.ints_ok j2 = true ->
  Roundtrip.jdepth j1 < 128 -> Roundtrip.jdepth j2 < 128 -> print j1 = print j2 -> j1 = j2.
Proof. exact Roundtrip.print_injective. Qed.
Eval compute in "PA:C01_print_injective"%string.
Print Assumptions C01_print_injective.

(** ruma_signatures::canonical_json is the canonical encoding of the object without exactly
    `signatures` and `unsigned`, with no size limit (table and wiring read from functions.rs on every
    run; the harness compares its output with the encoding of the object minus these two members). *)
Theorem C01_signatures_canonical_json_leaves_out_exactly :
  src_canonical_json_fields = [s!"signatures"; s!"unsigned"] /\
  src_canonical_json_size_checked = false /\ src_helper_size_checked = false.
Proof. repeat split; vm_compute; reflexivity. Qed.
Eval compute in "PA:C01_signatures_canonical_json_leaves_out_exactly"%string.
Print Assumptions C01_signatures_canonical_json_leaves_out_exactly.
