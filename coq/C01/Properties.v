(** C01.Properties — the theorems that decide C01, and nothing else. *)
From Base Require Import Prelude Sx Json JsonText.
From C01 Require Import Spec Model Proofs.

(** A number literal is accepted exactly when it has no fraction and no exponent, is not
    negative zero and lies within [-(2^53-1), 2^53-1]; the accepted value is the literal's
    value (never altered). *)
Theorem C01_numbers_exact :
  forall n z, classify_number n = Some z <->
  (nl_frac n = None /\ nl_exp n = None /\ z = lit_value n /\ int_ok z = true /\
   ~ (nl_neg n = true /\ digits_value (nl_int n) 0 = 0)).
Proof. exact classify_number_spec. Qed.
Eval compute in "PA:C01_numbers_exact"%string.
Print Assumptions C01_numbers_exact.
