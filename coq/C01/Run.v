(** C01.Run — case = ( text ); outcome = ok( value canonical-bytes ) | err 0. *)
From Base Require Import Prelude Sx Json JsonText.
From C01 Require Import Spec Model.

(** Read an implementation value back as a spec-level value (strings must be valid UTF-8). *)
Fixpoint of_json (j : json) : option ujson :=
  match j with
  | JNull => Some UNull
  | JBool b => Some (UBool b)
  | JInt z => Some (UInt z)
  | JStr s => option_map UStr (utf8_decode (List.length s) s)
  | JArr l =>
      option_map UArr
        ((fix go (l : list json) : option (list ujson) :=
            match l with
            | [] => Some []
            | x :: l' => match of_json x, go l' with
                         | Some v, Some vs => Some (v :: vs)
                         | _, _ => None
                         end
            end) l)
  | JObj m =>
      option_map UObj
        ((fix go (m : list (str * json)) : option (list (list N * ujson)) :=
            match m with
            | [] => Some []
            | (k, x) :: m' => match utf8_decode (List.length k) k, of_json x, go m' with
                              | Some k', Some v, Some vs => Some ((k', v) :: vs)
                              | _, _, _ => None
                              end
            end) m)
  end.

(** The spec predicate on the implementation's outcome: the canonical string is the spec's
    encoding of the value the implementation reports, and that value is representable. *)
Definition spec_ok (t : str) (impl : sx) : bool :=
  match impl with
  | SL [SN 0; SL [jv; SS c]] =>
      match json_of_sx jv with
      | Some j => match of_json j with
                  | Some u => uwfb u && str_eqb c (canonical_spec u) &&
                              (* the reported value is the value of the text (RFC 8259 reading):
                                 nothing unrepresentable was silently altered into it *)
                              match parse_text t with
                              | Some r => match to_canonical r with
                                          | Some v => json_eqb v j
                                          | None => false
                                          end
                              | None => false
                              end
                  | None => false
                  end
      | None => false
      end
  | SL [SN 1; _] => true
  | _ => false
  end.

Definition model_out (t : str) : sx :=
  match canon_text t with
  | Some (v, c) => SL [SN 0; SL [sx_of_json v; SS c]]
  | None => SL [SN 1; SN 0]
  end.

Definition run (x : sx) : sx :=
  match x with
  | SL [SL [SS t]; impl] => SL [model_out t; sx_bool (spec_ok t impl)]
  | _ => sx_bad
  end.
