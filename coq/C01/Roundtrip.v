(** C01.Roundtrip — parsing the canonical string gives back the value:
    [parse_text (print j)] succeeds and [to_canonical] of the result is [j], for every
    well-formed value with representable integers and nesting below serde_json's limit. *)
From Base Require Import Prelude Sx Json JsonText.
From Coq Require Import ZifyBool ZifyNat ZifyN.
Ltac Zify.zify_post_hook ::= Z.div_mod_to_equations.

(** * Strings *)
Lemma hexval_hexdigit n : n < 16 -> hexval (hexdigit n) = Some n.
Proof.
  intros H. unfold hexdigit, hexval. destruct (N.ltb_spec n 10).
  - replace ((48 <=? 48 + n) && (48 + n <=? 57)) with true by lia. f_equal. lia.
  - replace ((48 <=? 87 + n) && (87 + n <=? 57)) with false by lia.
    replace ((97 <=? 87 + n) && (87 + n <=? 102)) with true by lia. f_equal. lia.
Qed.

Lemma pstring_escape_byte b : forall f r acc,
  pstring (S f) (escape_byte b ++ r) acc = pstring f r (b :: acc).
Proof.
  intros f r acc. unfold escape_byte.
  destruct (N.eqb_spec b 34) as [->|N34]; [reflexivity|].
  destruct (N.eqb_spec b 92) as [->|N92]; [reflexivity|].
  destruct (N.eqb_spec b 8) as [->|N8]; [reflexivity|].
  destruct (N.eqb_spec b 9) as [->|N9]; [reflexivity|].
  destruct (N.eqb_spec b 10) as [->|N10]; [reflexivity|].
  destruct (N.eqb_spec b 12) as [->|N12]; [reflexivity|].
  destruct (N.eqb_spec b 13) as [->|N13]; [reflexivity|].
  destruct (N.ltb_spec b 32) as [L|L].
  - cbn [app pstring]. change (92 =? 34) with false. change (92 =? 92) with true.
    change (117 =? 117) with true. cbv beta iota.
    unfold hex4. change (hexval 48) with (Some 0).
    rewrite !hexval_hexdigit by lia.
    replace (0 * 4096 + 0 * 256 + b / 16 * 16 + b mod 16) with b by lia.
    replace ((56320 <=? b) && (b <=? 57343)) with false by lia.
    replace ((55296 <=? b) && (b <=? 56319)) with false by lia.
    unfold utf8_encode. replace (b <? 128) with true by lia. reflexivity.
  - cbn [app pstring].
    replace (b =? 34) with false by lia. replace (b =? 92) with false by lia.
    replace (b <? 32) with false by lia. reflexivity.
Qed.

Lemma pstring_print s : forall fuel acc rest,
  (List.length s < fuel)%nat ->
  pstring fuel (flat_map escape_byte s ++ 34 :: rest) acc = Some (rev acc ++ s, rest).
Proof.
  induction s as [|b s IH]; intros fuel acc rest Hf; cbn [flat_map app].
  - destruct fuel; [cbn in Hf; lia|]. cbn [pstring]. rewrite N.eqb_refl, app_nil_r. reflexivity.
  - destruct fuel; [cbn in Hf; lia|]. rewrite <- app_assoc, pstring_escape_byte.
    rewrite IH by (cbn [List.length] in Hf; lia). cbn [rev]. now rewrite <- app_assoc.
Qed.

Lemma escaped_length s : (List.length s <= List.length (flat_map escape_byte s))%nat.
Proof.
  induction s as [|b s IH]; cbn [flat_map List.length]; [lia|]. rewrite app_length.
  assert (1 <= List.length (escape_byte b))%nat.
  { unfold escape_byte. repeat destruct (_ =? _); try (cbn; lia). destruct (_ <? _); cbn; lia. }
  lia.
Qed.

(** * Numbers *)
Fixpoint dd (fuel : nat) (n : N) (acc : list N) : list N :=
  match fuel with
  | O => acc
  | S f => if n <? 10 then n :: acc else dd f (n / 10) (n mod 10 :: acc)
  end.

Definition ch (d : N) : N := 48 + d.

Lemma dec_digits_dd fuel : forall n acc, dec_digits fuel n (List.map ch acc) = List.map ch (dd fuel n acc).
Proof.
  induction fuel as [|f IH]; intros n acc; cbn [dec_digits dd]; [reflexivity|].
  destruct (n <? 10); [reflexivity|]. apply (IH (n / 10) (n mod 10 :: acc)).
Qed.

Lemma dd_length fuel : forall n acc, (List.length (dd fuel n acc) <= fuel + List.length acc)%nat.
Proof.
  induction fuel as [|f IH]; intros n acc; cbn [dd]; [lia|].
  destruct (n <? 10); [cbn; lia|]. specialize (IH (n / 10) (n mod 10 :: acc)). cbn [List.length] in IH. lia.
Qed.

Lemma log2_div10 n : 10 <= n -> N.log2 (n / 10) < N.log2 n.
Proof.
  intros H. assert (H2 : n / 10 <= n / 2) by (apply N.div_le_compat_l; lia).
  assert (N.log2 (n / 2) < N.log2 n).
  { rewrite <- N.div2_div, N.div2_spec, N.log2_shiftr. assert (0 < N.log2 n) by (apply N.log2_pos; lia). lia. }
  eapply N.le_lt_trans; [apply N.log2_le_mono, H2|assumption].
Qed.

Lemma dd_spec fuel : forall n acc,
  (N.to_nat (N.log2 n) < fuel)%nat ->
  exists ds, dd fuel n acc = ds ++ acc /\ ds <> [] /\ Forall (fun d => d < 10) ds /\
             (forall a, digits_value (ds ++ acc) a = digits_value acc (a * 10 ^ N.of_nat (List.length ds) + n)) /\
             (0 < n -> exists d r, ds = d :: r /\ 0 < d).
Proof.
  induction fuel as [|f IH]; intros n acc Hf; [lia|]. cbn [dd].
  destruct (N.ltb_spec n 10) as [L|L].
  - exists [n]. split; [|split; [|split; [|split]]].
    + reflexivity.
    + discriminate.
    + repeat constructor; exact L.
    + intros a. cbn [app digits_value List.length]. f_equal.
    + intros Hn. exists n, []. split; [reflexivity|exact Hn].
  - assert (Hf' : (N.to_nat (N.log2 (n / 10)) < f)%nat) by (pose proof (log2_div10 n L); lia).
    destruct (IH (n / 10) (n mod 10 :: acc) Hf') as (ds & E & Hne & Hall & Hval & Hpos).
    exists (ds ++ [n mod 10]). rewrite E, <- app_assoc. split; [|split; [|split; [|split]]].
    + reflexivity.
    + destruct ds; discriminate.
    + apply Forall_app. split; [exact Hall|]. repeat constructor. lia.
    + intros a. cbn [app]. rewrite Hval. cbn [digits_value].
      f_equal. rewrite app_length. cbn [List.length].
      replace (N.of_nat (List.length ds + 1)) with (N.succ (N.of_nat (List.length ds))) by lia.
      rewrite N.pow_succ_r'. lia.
    + intros _. destruct Hpos as (d & r & -> & Hd); [lia|]. exists d, (r ++ [n mod 10]). split; [reflexivity|exact Hd].
Qed.

Definition rest_ok (rest : str) : Prop :=
  match rest with
  | [] => True
  | c :: _ => is_digit c = false /\ c <> 46 /\ c <> 101 /\ c <> 69
  end.

Lemma take_digits_map ds rest :
  Forall (fun d => d < 10) ds -> rest_ok rest -> take_digits (List.map ch ds ++ rest) = (ds, rest).
Proof.
  intros Hall Hr. induction Hall as [|d ds Hd Hall IH]; cbn [List.map app take_digits].
  - destruct rest as [|c rest]; [reflexivity|]. cbn [take_digits]. destruct Hr as [-> _]. reflexivity.
  - change (ch d) with (48 + d). unfold is_digit at 1.
    replace ((48 <=? 48 + d) && (48 + d <=? 57)) with true by lia.
    rewrite IH. replace (48 + d - 48) with d by lia. reflexivity.
Qed.

Definition lit_of_Z (z : Z) : numlit :=
  {| nl_neg := (z <? 0)%Z; nl_int := dd (S (N.to_nat (N.log2 (Z.abs_N z)))) (Z.abs_N z) [];
     nl_frac := None; nl_exp := None |}.

Definition int_okb (z : Z) : bool := (- max_int <=? z)%Z && (z <=? max_int)%Z.

Lemma strip_zeros_pos d r : 0 < d -> strip_zeros (d :: r) = d :: r.
Proof. intros H. destruct d; [lia|reflexivity]. Qed.

Lemma hd_is_same c r : hd_is c (c :: r) = Some r.
Proof. unfold hd_is. now rewrite N.eqb_refl. Qed.
Lemma hd_is_diff c b r : b <> c -> hd_is c (b :: r) = None.
Proof. intros H. unfold hd_is. destruct (N.eqb_spec b c); congruence. Qed.
Lemma hd_is_nil c : hd_is c [] = None.
Proof. reflexivity. Qed.

Lemma rest_ok_hd rest c : rest_ok rest -> (c = 46 \/ c = 101 \/ c = 69 \/ is_digit c = true) -> hd_is c rest = None.
Proof.
  intros Hr Hc. destruct rest as [|b rest]; [reflexivity|]. apply hd_is_diff.
  destruct Hr as (H1 & H2 & H3 & H4). intros ->. destruct Hc as [->|[->|[->|Hd]]]; congruence.
Qed.

Lemma pnumber_body_digits n rest neg :
  0 < n -> n <= 9007199254740991 -> rest_ok rest ->
  pnumber_body neg (print_N n ++ rest) =
  Some ({| nl_neg := neg; nl_int := dd (S (N.to_nat (N.log2 n))) n []; nl_frac := None; nl_exp := None |}, rest).
Proof.
  intros Hn Hmax Hr. unfold print_N.
  change (dec_digits (S (N.to_nat (N.log2 n))) n []) with (dec_digits (S (N.to_nat (N.log2 n))) n (List.map ch [])).
  rewrite dec_digits_dd.
  destruct (dd_spec (S (N.to_nat (N.log2 n))) n [] ltac:(lia)) as (ds & E & Hne & Hall & Hval & Hpos).
  rewrite app_nil_r in E. rewrite E.
  destruct (Hpos Hn) as (d & r & -> & Hd).
  inversion Hall as [|? ? Hd10 Hall']; subst.
  assert (Hlen : (List.length (d :: r) <= 54)%nat).
  { rewrite <- E. pose proof (dd_length (S (N.to_nat (N.log2 n))) n []) as Hl. cbn [List.length] in Hl.
    assert (N.log2 n < 53). { apply N.log2_lt_pow2; [lia|]. change (2 ^ 53) with 9007199254740992. lia. }
    lia. }
  unfold pnumber_body. cbn [List.map app]. change (ch d) with (48 + d).
  replace (48 + d =? 48) with false by lia.
  unfold is_digit at 1. replace ((48 <=? 48 + d) && (48 + d <=? 57)) with true by lia.
  rewrite (take_digits_map r rest Hall' Hr). replace (48 + d - 48) with d by lia.
  rewrite (rest_ok_hd rest 46 Hr) by auto.
  assert (Hexp : match rest with
                 | e :: r3 => if (e =? 101) || (e =? 69) then
                       let '(eneg, r4) := match hd_is 43 r3 with Some r' => (false, r')
                                          | None => match hd_is 45 r3 with Some r' => (true, r') | None => (false, r3) end end in
                       let '(ed, r5) := take_digits r4 in match ed with [] => None | _ => Some (Some (eneg, ed), r5) end
                     else Some (None, rest)
                 | [] => Some (None, rest) end = Some (None, rest)).
  { destruct rest as [|c rest']; [reflexivity|]. destruct Hr as (_ & _ & H101 & H69).
    replace ((c =? 101) || (c =? 69)) with false by lia. reflexivity. }
  rewrite Hexp.
  unfold num_overflows. cbn [nl_int nl_frac nl_exp]. rewrite app_nil_r.
  rewrite (strip_zeros_pos d r Hd).
  replace (308 <? Z.of_nat (List.length (d :: r)) - 1 + 0)%Z with false by lia.
  replace (Z.of_nat (List.length (d :: r)) - 1 + 0 =? 308)%Z with false by lia. reflexivity.
Qed.

(** * Structure *)
Fixpoint raw_of (j : json) : raw :=
  match j with
  | JNull => RNull | JBool b => RBool b | JInt z => RNum (lit_of_Z z) | JStr s => RStr s
  | JArr l => RArr (List.map raw_of l)
  | JObj m => RObj (List.map (fun kv => (fst kv, raw_of (snd kv))) m)
  end.

Fixpoint jdepth (j : json) : N :=
  match j with
  | JArr l => 1 + fold_right (fun x a => N.max (jdepth x) a) 0 l
  | JObj m => 1 + fold_right (fun kv a => N.max (jdepth (snd kv)) a) 0 m
  | _ => 0
  end.

Fixpoint fneed (j : json) : nat :=
  match j with
  | JArr l => 1 + fold_right (fun x a => S (fneed x) + a)%nat O l
  | JObj m => 1 + fold_right (fun kv a => S (fneed (snd kv)) + a)%nat O m
  | _ => 1
  end.

Fixpoint ints_ok (j : json) : bool :=
  match j with
  | JInt z => int_okb z
  | JArr l => forallb ints_ok l
  | JObj m => forallb (fun kv => ints_ok (snd kv)) m
  | _ => true
  end.

Definition term_ok (j : json) (rest : str) : Prop :=
  match j with JInt _ => rest_ok rest | _ => True end.

Definition starter (c : N) : Prop := is_ws c = false /\ c <> 93 /\ c <> 125 /\ c <> 44.

Lemma print_N_first n : 0 < n -> exists d t, print_N n = ch d :: t /\ 0 < d /\ d < 10.
Proof.
  intros Hn. unfold print_N.
  change (dec_digits (S (N.to_nat (N.log2 n))) n []) with (dec_digits (S (N.to_nat (N.log2 n))) n (List.map ch [])).
  rewrite dec_digits_dd.
  destruct (dd_spec (S (N.to_nat (N.log2 n))) n [] ltac:(lia)) as (ds & E & _ & Hall & _ & Hpos).
  rewrite app_nil_r in E. rewrite E. destruct (Hpos Hn) as (d & r & -> & Hd).
  inversion Hall; subst. exists d, (List.map ch r). repeat split; assumption.
Qed.

Lemma print_first j : exists c t, print j = c :: t /\ starter c.
Proof.
  unfold starter. destruct j as [|[|]|z|s|l|m]; cbn [print].
  - eexists _, _; split; [reflexivity|]. repeat split; discriminate.
  - eexists _, _; split; [reflexivity|]. repeat split; discriminate.
  - eexists _, _; split; [reflexivity|]. repeat split; discriminate.
  - destruct z as [|p|p]; cbn [print_Z].
    + eexists _, _; split; [reflexivity|]. repeat split; discriminate.
    + destruct (print_N_first (Npos p) ltac:(lia)) as (d & t & -> & H1 & H2).
      exists (ch d), t. split; [reflexivity|]. unfold ch, is_ws. repeat split; lia.
    + eexists _, _; split; [reflexivity|]. repeat split; discriminate.
  - unfold print_string. eexists _, _; split; [reflexivity|]. repeat split; discriminate.
  - eexists _, _; split; [reflexivity|]. repeat split; discriminate.
  - eexists _, _; split; [reflexivity|]. repeat split; discriminate.
Qed.

Lemma skip_ws_starter c t : is_ws c = false -> skip_ws (c :: t) = c :: t.
Proof. intros H. cbn [skip_ws]. now rewrite H. Qed.

Lemma pvalue_number f depth b r :
  (b = 45 \/ is_digit b = true) ->
  pvalue (S f) depth (b :: r) =
  match pnumber (b :: r) with Some (n, r') => Some (RNum n, r') | None => None end.
Proof.
  intros Hb. cbn [pvalue]. unfold is_digit in *.
  replace (b =? 110) with false by lia. replace (b =? 116) with false by lia.
  replace (b =? 102) with false by lia. replace (b =? 34) with false by lia.
  replace (b =? 91) with false by lia. replace (b =? 123) with false by lia.
  replace ((b =? 45) || ((48 <=? b) && (b <=? 57))) with true by lia. reflexivity.
Qed.

Lemma pvalue_int z depth rest f :
  int_okb z = true -> rest_ok rest ->
  pvalue (S f) depth (print_Z z ++ rest) = Some (RNum (lit_of_Z z), rest).
Proof.
  intros Hz Hr. unfold int_okb, max_int in Hz. destruct z as [|p|p]; cbn [print_Z].
  - cbn [app]. rewrite pvalue_number by (right; reflexivity).
    unfold pnumber. rewrite hd_is_diff by discriminate.
    destruct rest as [|c rest']; [vm_compute; reflexivity|].
    destruct Hr as (Hdg & H46 & H101 & H69).
    unfold pnumber_body. change (48 =? 48) with true. cbv beta iota. rewrite Hdg.
    rewrite (hd_is_diff 46 c rest' H46).
    replace ((c =? 101) || (c =? 69)) with false by lia. reflexivity.
  - destruct (print_N_first (Npos p) ltac:(lia)) as (d & t & E & H1 & H2).
    pose proof (pnumber_body_digits (Npos p) rest false ltac:(lia) ltac:(lia) Hr) as Hb.
    rewrite E in *. cbn [app] in *. rewrite pvalue_number by (right; unfold is_digit, ch; lia).
    unfold pnumber. rewrite hd_is_diff by (unfold ch; lia). rewrite Hb. reflexivity.
  - pose proof (pnumber_body_digits (Npos p) rest true ltac:(lia) ltac:(lia) Hr) as Hb.
    cbn [app]. rewrite pvalue_number by (left; reflexivity).
    unfold pnumber. rewrite hd_is_same, Hb. reflexivity.
Qed.

Lemma pvalue_string s depth rest f :
  pvalue (S f) depth (print_string s ++ rest) = Some (RStr s, rest).
Proof.
  unfold print_string. cbn [app pvalue]. change (34 =? 110) with false. change (34 =? 116) with false.
  change (34 =? 102) with false. change (34 =? 34) with true. cbv beta iota.
  rewrite <- app_assoc. cbn [app]. rewrite pstring_print.
  - reflexivity.
  - rewrite app_length. cbn [List.length]. pose proof (escaped_length s). lia.
Qed.

Lemma rest_ok_sep c t : c = 44 \/ c = 93 \/ c = 125 -> rest_ok (c :: t).
Proof. intros H. cbn. unfold is_digit. repeat split; lia. Qed.

Lemma term_ok_sep j c t : c = 44 \/ c = 93 \/ c = 125 -> term_ok j (c :: t).
Proof. intros H. destruct j; cbn [term_ok]; auto. now apply rest_ok_sep. Qed.

Definition Pv (j : json) : Prop :=
  ints_ok j = true -> forall depth rest fuel,
  jdepth j < depth -> (fneed j <= fuel)%nat -> term_ok j rest ->
  pvalue fuel depth (print j ++ rest) = Some (raw_of j, rest).

Lemma parr_print l : Forall Pv l -> forall acc depth rest fuel,
  l <> [] -> forallb ints_ok l = true ->
  (forall x, In x l -> jdepth x < depth) ->
  (fold_right (fun x a => S (fneed x) + a)%nat O l <= fuel)%nat ->
  parr fuel depth (join_with 44 (List.map print l) ++ 93 :: rest) acc =
  Some (RArr (rev acc ++ List.map raw_of l), rest).
Proof.
  induction 1 as [|x l Hx Hl IH]; intros acc depth rest fuel Hne Hints Hd Hf; [congruence|].
  cbn [forallb] in Hints. apply andb_true_iff in Hints as [Hix Hil].
  cbn [fold_right] in Hf. destruct fuel as [|f]; [lia|]. cbn [parr List.map].
  destruct l as [|y l'].
  - cbn [join_with List.map]. 
    rewrite (Hx Hix depth (93 :: rest) f (Hd x (or_introl eq_refl)) ltac:(cbn [fold_right] in Hf; lia) (term_ok_sep x 93 rest ltac:(auto))).
    rewrite skip_ws_starter by reflexivity. rewrite hd_is_diff by discriminate. rewrite hd_is_same.
    cbn [rev List.map]. reflexivity.
  - change (join_with 44 (print x :: List.map print (y :: l'))) with (print x ++ 44 :: join_with 44 (List.map print (y :: l'))).
    rewrite <- app_assoc. cbn [app].
    rewrite (Hx Hix depth _ f (Hd x (or_introl eq_refl)) ltac:(lia) (term_ok_sep x 44 _ ltac:(auto))).
    rewrite skip_ws_starter by reflexivity. rewrite hd_is_same.
    destruct (print_first y) as (c & t & Ey & Hws & _).
    assert (Esk : skip_ws (join_with 44 (List.map print (y :: l')) ++ 93 :: rest) =
                  join_with 44 (List.map print (y :: l')) ++ 93 :: rest).
    { cbn [List.map]. destruct l' as [|z l'']; cbn [join_with List.map]; rewrite Ey; cbn [app];
        apply skip_ws_starter, Hws. }
    rewrite Esk. rewrite IH.
    + cbn [rev List.map]. rewrite <- app_assoc. reflexivity.
    + discriminate.
    + exact Hil.
    + intros z Hz. apply Hd. now right.
    + lia.
Qed.

Lemma pobj_print m : Forall (fun kv => Pv (snd kv)) m -> forall acc depth rest fuel,
  m <> [] -> forallb (fun kv => ints_ok (snd kv)) m = true ->
  (forall kv, In kv m -> jdepth (snd kv) < depth) ->
  (fold_right (fun kv a => S (fneed (snd kv)) + a)%nat O m <= fuel)%nat ->
  pobj fuel depth (join_with 44 (List.map (fun kv => print_string (fst kv) ++ 58 :: print (snd kv)) m) ++ 125 :: rest) acc =
  Some (RObj (rev acc ++ List.map (fun kv => (fst kv, raw_of (snd kv))) m), rest).
Proof.
  induction 1 as [|[k x] m Hx Hm IH]; intros acc depth rest fuel Hne Hints Hd Hf; [congruence|].
  cbn [forallb snd] in Hints. apply andb_true_iff in Hints as [Hix Hil]. cbn [snd] in Hx.
  cbn [fold_right snd] in Hf. destruct fuel as [|f]; [lia|]. cbn [pobj List.map fst snd].
  assert (Hkey : forall tail,
     hd_is 34 ((print_string k ++ 58 :: print x) ++ tail) = Some (flat_map escape_byte k ++ 34 :: 58 :: print x ++ tail)).
  { intros tail. unfold print_string. cbn [app]. rewrite hd_is_same. f_equal.
    rewrite <- !app_assoc. cbn [app]. reflexivity. }
  destruct m as [|[k2 y] m'].
  - cbn [join_with List.map]. rewrite Hkey. rewrite pstring_print
      by (rewrite app_length; cbn [List.length]; pose proof (escaped_length k); lia).
    cbn [rev app]. rewrite skip_ws_starter by reflexivity. rewrite hd_is_same.
    destruct (print_first x) as (c & t & Ex & Hws & _).
    assert (Esk : skip_ws (print x ++ 125 :: rest) = print x ++ 125 :: rest)
      by (rewrite Ex; cbn [app]; apply skip_ws_starter, Hws).
    rewrite Esk.
    rewrite (Hx Hix depth (125 :: rest) f (Hd (k, x) (or_introl eq_refl)) ltac:(lia) (term_ok_sep x 125 rest ltac:(auto))).
    rewrite skip_ws_starter by reflexivity. rewrite hd_is_diff by discriminate. rewrite hd_is_same.
    reflexivity.
  - change (join_with 44 ((print_string k ++ 58 :: print x) :: List.map (fun kv => print_string (fst kv) ++ 58 :: print (snd kv)) ((k2, y) :: m')))
      with ((print_string k ++ 58 :: print x) ++ 44 :: join_with 44 (List.map (fun kv => print_string (fst kv) ++ 58 :: print (snd kv)) ((k2, y) :: m'))).
    rewrite <- app_assoc. rewrite Hkey. rewrite pstring_print
      by (rewrite app_length; cbn [List.length]; pose proof (escaped_length k); lia).
    cbn [rev app]. rewrite skip_ws_starter by reflexivity. rewrite hd_is_same.
    destruct (print_first x) as (c & t & Ex & Hws & _).
    set (TAIL := 44 :: join_with 44 (List.map (fun kv => print_string (fst kv) ++ 58 :: print (snd kv)) ((k2, y) :: m')) ++ 125 :: rest).
    assert (Esk : skip_ws (print x ++ TAIL) = print x ++ TAIL)
      by (rewrite Ex; cbn [app]; apply skip_ws_starter, Hws).
    rewrite Esk.
    rewrite (Hx Hix depth TAIL f (Hd (k, x) (or_introl eq_refl)) ltac:(lia) (term_ok_sep x 44 _ ltac:(auto))).
    unfold TAIL. rewrite skip_ws_starter by reflexivity. rewrite hd_is_same.
    assert (Esk2 : forall tl, skip_ws (join_with 44 (List.map (fun kv => print_string (fst kv) ++ 58 :: print (snd kv)) ((k2, y) :: m')) ++ tl) =
                   join_with 44 (List.map (fun kv => print_string (fst kv) ++ 58 :: print (snd kv)) ((k2, y) :: m')) ++ tl).
    { intros tl. cbn [List.map fst snd]. unfold print_string at 1.
      destruct m' as [|z m'']; cbn [join_with List.map app]; apply skip_ws_starter; reflexivity. }
    rewrite Esk2. rewrite IH.
    + cbn [rev List.map fst snd]. rewrite <- app_assoc. reflexivity.
    + discriminate.
    + exact Hil.
    + intros z Hz. apply Hd. now right.
    + lia.
Qed.

Lemma max_fold_lt {A} (f : A -> N) l d :
  fold_right (fun x a => N.max (f x) a) 0 l < d -> forall x, In x l -> f x < d.
Proof.
  induction l as [|y l IH]; cbn [fold_right In]; [tauto|]. intros H x [->|Hin]; [lia|apply IH; [lia|exact Hin]].
Qed.

Theorem pvalue_print j : Pv j.
Proof.
  induction j as [| b | z | s | l IH | m IH] using json_ind'; unfold Pv; intros Hi depth rest fuel Hd Hf Ht;
    cbn [print raw_of].
  - destruct fuel as [|f]; [cbn in Hf; lia|]. vm_compute. reflexivity.
  - destruct fuel as [|f]; [cbn in Hf; lia|]. destruct b; vm_compute; reflexivity.
  - destruct fuel as [|f]; [cbn in Hf; lia|]. apply pvalue_int; assumption.
  - destruct fuel as [|f]; [cbn in Hf; lia|]. apply pvalue_string.
  - cbn [ints_ok] in Hi. cbn [jdepth] in Hd. cbn [fneed] in Hf.
    destruct fuel as [|f]; [lia|]. cbn [app pvalue].
    change (91 =? 110) with false. change (91 =? 116) with false. change (91 =? 102) with false.
    change (91 =? 34) with false. change (91 =? 91) with true. cbv beta iota.
    replace (depth <=? 1) with false by lia.
    destruct l as [|x l'].
    + cbn [List.map join_with app]. rewrite skip_ws_starter by reflexivity. rewrite hd_is_same. reflexivity.
    + destruct (print_first x) as (c & t & Ex & Hws & H93 & _).
      assert (Esk : skip_ws ((join_with 44 (List.map print (x :: l')) ++ [93]) ++ rest) =
                    join_with 44 (List.map print (x :: l')) ++ 93 :: rest).
      { rewrite <- app_assoc. cbn [app List.map]. destruct l' as [|z l'']; cbn [join_with List.map]; rewrite Ex; cbn [app];
          apply skip_ws_starter, Hws. }
      rewrite Esk.
      assert (Hhd : hd_is 93 (join_with 44 (List.map print (x :: l')) ++ 93 :: rest) = None).
      { cbn [List.map]. destruct l' as [|z l'']; cbn [join_with List.map]; rewrite Ex; cbn [app];
          apply hd_is_diff, H93. }
      rewrite Hhd. rewrite (parr_print (x :: l') IH [] (depth - 1) rest f).
      * reflexivity.
      * discriminate.
      * exact Hi.
      * intros y Hy. pose proof (max_fold_lt jdepth (x :: l') (depth - 1) ltac:(lia) y Hy). lia.
      * cbn [fold_right] in *. lia.
  - cbn [ints_ok] in Hi. cbn [jdepth] in Hd. cbn [fneed] in Hf.
    destruct fuel as [|f]; [lia|]. cbn [app pvalue].
    change (123 =? 110) with false. change (123 =? 116) with false. change (123 =? 102) with false.
    change (123 =? 34) with false. change (123 =? 91) with false. change (123 =? 123) with true. cbv beta iota.
    replace (depth <=? 1) with false by lia.
    destruct m as [|[k x] m'].
    + cbn [List.map join_with app]. rewrite skip_ws_starter by reflexivity. rewrite hd_is_same. reflexivity.
    + set (F := fun kv : str * json => print_string (fst kv) ++ 58 :: print (snd kv)).
      assert (Hst : forall tl, exists t, join_with 44 (List.map F ((k, x) :: m')) ++ tl = 34 :: t).
      { intros tl. cbn [List.map]. unfold F at 1. cbn [fst snd]. unfold print_string.
        destruct m' as [|z m'']; cbn [join_with List.map app]; eexists; reflexivity. }
      rewrite <- app_assoc. cbn [app].
      destruct (Hst (125 :: rest)) as [t Et]. rewrite Et.
      rewrite skip_ws_starter by reflexivity. rewrite hd_is_diff by discriminate. rewrite <- Et.
      subst F.
      rewrite (pobj_print ((k, x) :: m') IH [] (depth - 1) rest f).
      * reflexivity.
      * discriminate.
      * exact Hi.
      * intros kv Hkv. pose proof (max_fold_lt (fun kv => jdepth (snd kv)) ((k, x) :: m') (depth - 1) ltac:(lia) kv Hkv). lia.
      * cbn [fold_right] in *. lia.
Qed.

(** * Fuel: the text is long enough to pay for its own parse. *)
Lemma join_length c l :
  (fold_right (fun x a => S (List.length x) + a) O l <= S (List.length (join_with c l)))%nat.
Proof.
  induction l as [|x l IH]; cbn [fold_right join_with List.length]; [lia|].
  destruct l as [|y l']; [cbn [fold_right]; lia|].
  change (join_with c (x :: y :: l')) with (x ++ c :: join_with c (y :: l')).
  rewrite app_length. cbn [List.length]. lia.
Qed.

Lemma print_nonempty j : (1 <= List.length (print j))%nat.
Proof. destruct (print_first j) as (c & t & -> & _). cbn. lia. Qed.

Lemma fneed_le_length j : (fneed j <= List.length (print j))%nat.
Proof.
  induction j as [| b | z | s | l IH | m IH] using json_ind'; cbn [fneed];
    try apply print_nonempty.
  - cbn [print List.length]. rewrite app_length. cbn [List.length].
    pose proof (join_length 44 (List.map print l)) as Hj.
    assert (fold_right (fun x a => S (fneed x) + a) O l <=
            fold_right (fun x a => S (List.length x) + a) O (List.map print l))%nat.
    { clear Hj. induction IH as [|x l Hx _ IHl]; cbn [fold_right List.map]; lia. }
    lia.
  - cbn [print List.length]. rewrite app_length. cbn [List.length].
    set (F := fun kv : str * json => print_string (fst kv) ++ 58 :: print (snd kv)).
    pose proof (join_length 44 (List.map F m)) as Hj.
    assert (fold_right (fun kv a => S (fneed (snd kv)) + a) O m <=
            fold_right (fun x a => S (List.length x) + a) O (List.map F m))%nat.
    { clear Hj. induction IH as [|[k x] m' Hx _ IHm]; cbn [fold_right List.map]; [lia|].
      unfold F at 1. cbn [fst snd] in *. rewrite app_length. cbn [List.length]. lia. }
    lia.
Qed.

(** * Conversion back *)
Lemma classify_lit_of_Z z : int_okb z = true -> classify_number (lit_of_Z z) = Some z.
Proof.
  intros Hz. unfold int_okb, max_int in Hz. unfold classify_number, lit_of_Z. cbn [nl_frac nl_exp nl_neg nl_int].
  destruct (dd_spec (S (N.to_nat (N.log2 (Z.abs_N z)))) (Z.abs_N z) [] ltac:(lia)) as (ds & E & _ & _ & Hval & _).
  rewrite E. specialize (Hval 0). rewrite Hval. cbn [digits_value]. rewrite N.mul_0_l, N.add_0_l.
  unfold max_int. destruct z as [|p|p]; cbn [Z.ltb Z.compare Z.abs_N].
  - reflexivity.
  - change (Z.of_N (N.pos p)) with (Z.pos p).
    assert (H : (Z.pos p <=? 9007199254740991)%Z = true) by (clear -Hz; lia).
    rewrite H. reflexivity.
  - change (Z.of_N (N.pos p)) with (Z.pos p). change (Z.pos p =? 0)%Z with false.
    assert (H : (Z.pos p <=? 9007199254740991)%Z = true) by (clear -Hz; lia).
    rewrite H. reflexivity.
Qed.

Lemma all_some_map (m : obj) : all_some (List.map (fun kv => (fst kv, Some (snd kv))) m) = Some m.
Proof.
  induction m as [|[k v] m IH]; cbn [List.map all_some fst snd]; [reflexivity|]. now rewrite IH.
Qed.

Theorem to_canonical_raw_of j : wf j -> ints_ok j = true -> to_canonical (raw_of j) = Some j.
Proof.
  unfold wf. induction j as [| b | z | s | l IH | m IH] using json_ind'; cbn [wfb ints_ok raw_of to_canonical];
    intros Hwf Hi; try reflexivity.
  - now rewrite classify_lit_of_Z.
  - assert (E : (fix go (l0 : list raw) : option (list json) :=
                   match l0 with
                   | [] => Some []
                   | x :: l' => match to_canonical x, go l' with Some v, Some vs => Some (v :: vs) | _, _ => None end
                   end) (List.map raw_of l) = Some l).
    { induction IH as [|x l' Hx _ IHl]; cbn [List.map]; [reflexivity|].
      cbn [forallb] in Hwf, Hi. apply andb_true_iff in Hwf as [W1 W2]. apply andb_true_iff in Hi as [I1 I2].
      rewrite (Hx W1 I1), (IHl W2 I2). reflexivity. }
    rewrite E. reflexivity.
  - apply andb_true_iff in Hwf as [Hs Hall].
    assert (E : (fix go (m0 : list (str * raw)) : list (str * option json) :=
                   match m0 with [] => [] | (k, x) :: m' => (k, to_canonical x) :: go m' end)
                (List.map (fun kv => (fst kv, raw_of (snd kv))) m) =
                List.map (fun kv => (fst kv, Some (snd kv))) m).
    { clear Hs. induction IH as [|[k x] m' Hx _ IHm]; cbn [List.map fst snd]; [reflexivity|].
      cbn [forallb snd] in Hall, Hi, Hx. apply andb_true_iff in Hall as [W1 W2]. apply andb_true_iff in Hi as [I1 I2].
      rewrite (Hx W1 I1), (IHm W2 I2). reflexivity. }
    rewrite E.
    assert (Hsorted : sorted (List.map (fun kv : str * json => (fst kv, Some (snd kv))) m)).
    { apply sortedb_sorted in Hs. clear -Hs. induction m as [|[k v] m IHm]; cbn [List.map sorted fst snd] in *; [exact I|].
      destruct Hs as [G S]. split; [|auto]. intros k' v' Hin. apply in_map_iff in Hin as [[k2 v2] [Eq Hin]].
      cbn [fst snd] in Eq. inversion Eq; subst. eapply G; eauto. }
    pose proof (rebuild_sorted_id _ Hsorted) as Hr. unfold rebuild in Hr. rewrite Hr.
    rewrite all_some_map. reflexivity.
Qed.

(** * The round trip *)
Theorem parse_print j :
  ints_ok j = true -> jdepth j < 128 -> parse_text (print j) = Some (raw_of j).
Proof.
  intros Hi Hd. unfold parse_text.
  destruct (print_first j) as (c & t & E & Hws & _).
  assert (Esk : skip_ws (print j) = print j) by (rewrite E; apply skip_ws_starter, Hws).
  rewrite Esk.
  pose proof (pvalue_print j Hi 128 [] (S (S (List.length (print j)))) Hd) as Hp.
  rewrite app_nil_r in Hp. rewrite Hp.
  - reflexivity.
  - pose proof (fneed_le_length j). lia.
  - destruct j; cbn [term_ok]; exact I.
Qed.

Theorem canon_roundtrip j :
  wf j -> ints_ok j = true -> jdepth j < 128 -> canon_text (print j) = Some (j, print j).
Proof.
  intros Hwf Hi Hd. unfold canon_text. now rewrite (parse_print j Hi Hd), (to_canonical_raw_of j Hwf Hi).
Qed.

(** The canonical string determines the value. *)
Theorem print_injective j1 j2 :
  wf j1 -> wf j2 -> ints_ok j1 = true -> ints_ok j2 = true -> jdepth j1 < 128 -> jdepth j2 < 128 ->
  print j1 = print j2 -> j1 = j2.
Proof.
  intros W1 W2 I1 I2 D1 D2 E.
  pose proof (canon_roundtrip j1 W1 I1 D1) as H1. pose proof (canon_roundtrip j2 W2 I2 D2) as H2.
  rewrite E in H1. rewrite H1 in H2. now injection H2.
Qed.
