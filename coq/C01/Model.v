(** C01.Model — ruma's canonical JSON pipeline is [Base.JsonText]: text -> serde_json::Value
    ([parse_text]) -> CanonicalJsonValue ([to_canonical]) -> compact string ([print]); plus the
    embedding of spec-level values into the Rust representation (UTF-8 [String]s, [BTreeMap]
    objects built by insertion). *)
From Base Require Import Prelude Sx Json JsonText.
From C01 Require Import Spec.

Definition enc_str (s : list N) : str := flat_map enc_cp s.

(** The CanonicalJsonValue a spec-level value is stored as: strings UTF-8 encoded, objects
    inserted member by member into a BTreeMap (byte order). *)
Fixpoint to_json (u : ujson) : json :=
  match u with
  | UNull => JNull
  | UBool b => JBool b
  | UInt z => JInt z
  | UStr s => JStr (enc_str s)
  | UArr l => JArr (List.map to_json l)
  | UObj m => JObj (fold_right (fun kv acc => insert (enc_str (fst kv)) (to_json (snd kv)) acc) [] m)
  end.

(** ruma_signatures::canonical_json: drop `signatures` and `unsigned`, serialize. *)
Definition canonical_json_signing (o : obj) : str :=
  print (JObj (remove s!"unsigned" (remove s!"signatures" o))).
