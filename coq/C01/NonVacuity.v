(** C01.NonVacuity — representable values with astral, BMP-high and control characters, duplicate-
    free objects; the theorems' hypotheses hold and the canonical strings are the expected ones. *)
From Base Require Import Prelude Sx Json JsonText.
From C01 Require Import Spec Model Proofs Roundtrip.

(** An object with keys U+1F600, U+FFFF, a and the empty key; values 1, 2, the array
    [true, null, -9007199254740991] and the string LF U+0001 quote backslash. *)
Definition sample : ujson :=
  UObj [([128512], UInt 1); ([65535], UInt 2);
        (s!"a", UArr [UBool true; UNull; UInt (-9007199254740991)]);
        ([], UStr [10; 1; 34; 92])].

Example sample_representable : uwfb sample = true.
Proof. vm_compute. reflexivity. Qed.

(** U+FFFF sorts before U+1F600 (code-point order; UTF-16 order would put it after). *)
Example sample_canonical :
  canonical_spec sample =
  s!"{" ++ [34; 34] ++ s!":" ++ [34; 92; 110; 92; 117; 48; 48; 48; 49; 92; 34; 92; 92; 34] ++ s!","
  ++ s!"""a"":[true,null,-9007199254740991]," ++ [34; 239; 191; 191; 34] ++ s!":2,"
  ++ [34; 240; 159; 152; 128; 34] ++ s!":1}".
Proof. vm_compute. reflexivity. Qed.

Example sample_roundtrip_hypotheses :
  wfb (to_json sample) = true /\ ints_ok (to_json sample) = true /\ jdepth (to_json sample) < 128.
Proof. vm_compute. repeat split; reflexivity. Qed.

Example rejects_fraction_exponent_negzero_big :
  List.map (fun t => match canon_text t with Some _ => true | None => false end)
    [s!"1.0"; s!"1e2"; s!"-0"; s!"9007199254740992"; s!"9007199254740991"; s!"-9007199254740991"]
  = [false; false; false; false; true; true].
Proof. vm_compute. reflexivity. Qed.
