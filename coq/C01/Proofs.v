(** C01.Proofs *)
From Base Require Import Prelude Sx Json JsonText.
From C01 Require Import Spec Model.
From Coq Require Import ZifyBool ZifyNat ZifyN Permutation.

(** * Numbers: accepted exactly when representable, and never altered. *)
Definition lit_value (n : numlit) : Z :=
  let m := Z.of_N (digits_value (nl_int n) 0) in if nl_neg n then (- m)%Z else m.

Lemma classify_number_spec n z :
  classify_number n = Some z <->
  (nl_frac n = None /\ nl_exp n = None /\ z = lit_value n /\ int_ok z = true /\
   ~ (nl_neg n = true /\ digits_value (nl_int n) 0 = 0)).
Proof.
  unfold classify_number, lit_value, int_ok, max_int.
  destruct (nl_frac n), (nl_exp n); try (split; [discriminate|intros (?&?&?); discriminate]).
  destruct (nl_neg n).
  - destruct (Z.eqb_spec (Z.of_N (digits_value (nl_int n) 0)) 0) as [E|E].
    + split; [discriminate|]. intros (_&_&_&_&H). exfalso. apply H. split; [reflexivity|lia].
    + destruct (Z.leb_spec (Z.of_N (digits_value (nl_int n) 0)) 9007199254740991).
      * split; [intros [= <-]; repeat split; try lia; intros [_ ?]; lia|].
        intros (_&_&->&_&_). reflexivity.
      * split; [discriminate|]. intros (_&_&->&H1&_). lia.
  - destruct (Z.leb_spec (Z.of_N (digits_value (nl_int n) 0)) 9007199254740991).
    + split; [intros [= <-]; repeat split; try lia; intros [? _]; discriminate|].
      intros (_&_&->&_&_). reflexivity.
    + split; [discriminate|]. intros (_&_&->&H1&_). lia.
Qed.

(** * UTF-8: byte order of encodings is code-point order. *)
Ltac Zify.zify_post_hook ::= Z.div_mod_to_equations.

Ltac decide_if :=
  match goal with
  | |- context [if ?b then _ else _] =>
      first [ replace b with true by lia | replace b with false by lia ]
  end.

Lemma enc_cp_lt c d x y :
  c < d -> d < 1114112 -> str_ltb (enc_cp c ++ x) (enc_cp d ++ y) = true.
Proof.
  intros Hlt Hd. unfold enc_cp.
  destruct (N.ltb_spec c 128); destruct (N.ltb_spec d 128);
  destruct (N.ltb_spec c 2048); destruct (N.ltb_spec d 2048);
  destruct (N.ltb_spec c 65536); destruct (N.ltb_spec d 65536); try lia;
  cbn [app str_ltb]; repeat decide_if; try reflexivity;
  repeat match goal with |- context [if ?b then _ else _] => destruct b eqn:? end;
  try reflexivity; exfalso; lia.
Qed.

Lemma str_ltb_app_same p x y : str_ltb (p ++ x) (p ++ y) = str_ltb x y.
Proof.
  induction p as [|b p IH]; cbn [app str_ltb]; [reflexivity|].
  now rewrite N.ltb_irrefl, N.eqb_refl.
Qed.

Lemma enc_cp_nonempty c : exists b r, enc_cp c = b :: r.
Proof. unfold enc_cp. destruct (c <? 128), (c <? 2048), (c <? 65536); eauto. Qed.

Definition cps_ok (s : list N) : Prop := Forall (fun c => c < 1114112) s.

Lemma scalar_lt c : scalar c = true -> c < 1114112.
Proof. unfold scalar. lia. Qed.

Lemma forallb_scalar_ok s : forallb scalar s = true -> cps_ok s.
Proof.
  intros H. apply Forall_forall. intros c Hc. rewrite forallb_forall in H. apply scalar_lt, H, Hc.
Qed.

Lemma enc_str_ltb a : forall b, cps_ok a -> cps_ok b ->
  str_ltb (enc_str a) (enc_str b) = cp_ltb a b.
Proof.
  unfold cp_ltb, enc_str.
  induction a as [|c a IH]; intros [|d b] Ha Hb; cbn [flat_map str_ltb].
  - reflexivity.
  - destruct (enc_cp_nonempty d) as [x [r ->]]. reflexivity.
  - destruct (enc_cp_nonempty c) as [x [r ->]]. reflexivity.
  - inversion Ha as [|? ? Hc Ha']; inversion Hb as [|? ? Hd Hb']; subst.
    destruct (N.ltb_spec c d) as [Hlt|Hge].
    + apply enc_cp_lt; assumption.
    + destruct (N.eqb_spec c d) as [->|Hne].
      * rewrite str_ltb_app_same. apply IH; assumption.
      * apply str_ltb_asym. apply enc_cp_lt; [lia|assumption].
Qed.

Lemma enc_str_inj a b : cps_ok a -> cps_ok b -> enc_str a = enc_str b -> a = b.
Proof.
  intros Ha Hb E. apply str_ltb_total.
  - change (cp_ltb a b = false). rewrite <- (enc_str_ltb a b Ha Hb), E. apply str_ltb_irrefl.
  - change (cp_ltb b a = false). rewrite <- (enc_str_ltb b a Hb Ha), E. apply str_ltb_irrefl.
Qed.

Lemma enc_str_eqb a b : cps_ok a -> cps_ok b -> str_eqb (enc_str a) (enc_str b) = str_eqb a b.
Proof.
  intros Ha Hb. destruct (str_eqb_spec a b) as [->|Hne]; [apply str_eqb_refl|].
  apply str_eqb_neq. intros E. apply Hne. now apply enc_str_inj.
Qed.

(** * Strings: the byte-level escaper on UTF-8 equals the spec's per-scalar escaping. *)
Lemma hexdigit_hexd n : hexdigit n = hexd n.
Proof. reflexivity. Qed.

Lemma escape_enc_cp c : c < 1114112 -> flat_map escape_byte (enc_cp c) = spec_escape c.
Proof.
  intros Hc. unfold spec_escape, enc_cp.
  destruct (N.ltb_spec c 128) as [H1|H1].
  - cbn [flat_map]. rewrite app_nil_r. unfold escape_byte. reflexivity.
  - replace (c =? 34) with false by lia. replace (c =? 92) with false by lia.
    replace (c =? 8) with false by lia. replace (c =? 9) with false by lia.
    replace (c =? 10) with false by lia. replace (c =? 12) with false by lia.
    replace (c =? 13) with false by lia. replace (c <? 32) with false by lia.
    assert (Hb : forall b, 128 <= b -> escape_byte b = [b]).
    { intros b Hb. unfold escape_byte.
      replace (b =? 34) with false by lia. replace (b =? 92) with false by lia.
      replace (b =? 8) with false by lia. replace (b =? 9) with false by lia.
      replace (b =? 10) with false by lia. replace (b =? 12) with false by lia.
      replace (b =? 13) with false by lia. replace (b <? 32) with false by lia. reflexivity. }
    destruct (c <? 2048); [|destruct (c <? 65536)]; cbn [flat_map];
      rewrite ?Hb by lia; reflexivity.
Qed.

Lemma print_string_spec s : cps_ok s -> print_string (enc_str s) = spec_string s.
Proof.
  intros Hs. unfold print_string, spec_string, enc_str. f_equal. f_equal.
  induction Hs as [|c s Hc Hs IH]; cbn [flat_map]; [reflexivity|].
  rewrite flat_map_app, IH. f_equal. apply escape_enc_cp, Hc.
Qed.

(** * Integers *)
Lemma dec_digits_spec fuel : forall n acc, dec_digits fuel n acc = spec_digits fuel n ++ acc.
Proof.
  induction fuel as [|f IH]; intros n acc; cbn [dec_digits spec_digits]; [reflexivity|].
  destruct (n <? 10); [reflexivity|]. rewrite IH, <- app_assoc. reflexivity.
Qed.

Lemma print_Z_spec z : print_Z z = spec_int z.
Proof.
  destruct z; cbn [print_Z spec_int]; [reflexivity| |]; unfold print_N;
    rewrite dec_digits_spec, app_nil_r; reflexivity.
Qed.

(** * Objects: BTreeMap insertion order = the spec's code-point sort. *)
Section UInd.
  Variable P : ujson -> Prop.
  Hypothesis Hnull : P UNull.
  Hypothesis Hbool : forall b, P (UBool b).
  Hypothesis Hint : forall z, P (UInt z).
  Hypothesis Hstr : forall s, P (UStr s).
  Hypothesis Harr : forall l, Forall P l -> P (UArr l).
  Hypothesis Hobj : forall m, Forall (fun kv => P (snd kv)) m -> P (UObj m).
  Fixpoint ujson_ind' (u : ujson) : P u :=
    match u with
    | UNull => Hnull | UBool b => Hbool b | UInt z => Hint z | UStr s => Hstr s
    | UArr l => Harr l ((fix go (l : list ujson) : Forall P l :=
                  match l with [] => Forall_nil _ | x :: l' => Forall_cons _ (ujson_ind' x) (go l') end) l)
    | UObj m => Hobj m ((fix go (m : list (list N * ujson)) : Forall (fun kv => P (snd kv)) m :=
                  match m with [] => Forall_nil _ | kv :: m' => Forall_cons _ (ujson_ind' (snd kv)) (go m') end) m)
    end.
End UInd.

Lemma join_sjoin l : join_with 44 l = sjoin l.
Proof.
  induction l as [|x l IH]; [reflexivity|].
  destruct l as [|y l]; [reflexivity|].
  change (join_with 44 (x :: y :: l)) with (x ++ 44 :: join_with 44 (y :: l)).
  change (sjoin (x :: y :: l)) with (x ++ 44 :: sjoin (y :: l)). now rewrite IH.
Qed.

Lemma cp_insert_map {A B} (f : A -> B) k v (m : list (list N * A)) :
  cp_insert k (f v) (List.map (fun kv => (fst kv, f (snd kv))) m) =
  List.map (fun kv => (fst kv, f (snd kv))) (cp_insert k v m).
Proof.
  induction m as [|[k' v'] m IH]; cbn [List.map cp_insert fst snd]; [reflexivity|].
  destruct (cp_ltb k k'); cbn [List.map fst snd]; [reflexivity|]. now rewrite IH.
Qed.

Lemma cp_sort_map {A B} (f : A -> B) (m : list (list N * A)) :
  cp_sort (List.map (fun kv => (fst kv, f (snd kv))) m) =
  List.map (fun kv => (fst kv, f (snd kv))) (cp_sort m).
Proof.
  induction m as [|[k v] m IH]; cbn [List.map cp_sort fold_right fst snd]; [reflexivity|].
  fold (cp_sort m). fold (cp_sort (List.map (fun kv => (fst kv, f (snd kv))) m)).
  rewrite IH. apply cp_insert_map.
Qed.

Lemma cp_insert_keys {A} k (v : A) m k' :
  In k' (List.map fst (cp_insert k v m)) <-> k' = k \/ In k' (List.map fst m).
Proof.
  induction m as [|[k2 v2] m IH]; cbn [cp_insert List.map fst In].
  - intuition.
  - destruct (cp_ltb k k2); cbn [List.map fst In]; [intuition|]. rewrite IH. intuition.
Qed.

Lemma cp_sort_keys {A} (m : list (list N * A)) k' :
  In k' (List.map fst (cp_sort m)) <-> In k' (List.map fst m).
Proof.
  induction m as [|[k v] m IH]; cbn [cp_sort fold_right List.map fst In]; [tauto|].
  fold (cp_sort m). rewrite cp_insert_keys, IH. intuition.
Qed.

Definition G (kv : list N * ujson) : str * json := (enc_str (fst kv), to_json (snd kv)).

Lemma insert_cp_insert k v (S : list (list N * ujson)) :
  cps_ok k -> Forall (fun kv => cps_ok (fst kv)) S -> ~ In k (List.map fst S) ->
  insert (enc_str k) (to_json v) (List.map G S) = List.map G (cp_insert k v S).
Proof.
  intros Hk HS Hnin. induction S as [|[k2 v2] S IH]; cbn [List.map insert cp_insert G fst snd]; [reflexivity|].
  inversion HS as [|? ? Hk2 HS']; subst. cbn [fst] in Hk2.
  rewrite (enc_str_ltb k k2 Hk Hk2). destruct (cp_ltb k k2); [reflexivity|].
  rewrite (enc_str_eqb k k2 Hk Hk2).
  destruct (str_eqb_spec k k2) as [->|Hne]; [exfalso; apply Hnin; now left|].
  cbn [List.map G fst snd]. f_equal. apply IH; [assumption|]. intros Hin. apply Hnin. now right.
Qed.

Lemma cp_insert_ok {A} k (v : A) S :
  cps_ok k -> Forall (fun kv => cps_ok (fst kv)) S -> Forall (fun kv => cps_ok (fst kv)) (cp_insert k v S).
Proof.
  intros Hk HS. induction HS as [|[k2 v2] S H2 HS IH]; cbn [cp_insert]; [repeat constructor; exact Hk|].
  destruct (cp_ltb k k2); repeat constructor; assumption.
Qed.

Lemma nodupb_spec l : nodupb l = true -> NoDup l.
Proof.
  induction l as [|x l IH]; cbn [nodupb]; [constructor|]. intros H.
  apply andb_true_iff in H as [H1 H2]. constructor; [|auto].
  intros Hin. apply mem_str_In in Hin. now rewrite Hin in H1.
Qed.

Lemma fold_insert_is_sort (m : list (list N * ujson)) :
  Forall (fun kv => cps_ok (fst kv)) m -> NoDup (List.map fst m) ->
  fold_right (fun kv acc => insert (enc_str (fst kv)) (to_json (snd kv)) acc) [] m =
  List.map G (cp_sort m) /\ Forall (fun kv => cps_ok (fst kv)) (cp_sort m).
Proof.
  induction m as [|[k v] m IH]; intros Hok Hnd; cbn [fold_right cp_sort List.map fst snd].
  - split; [reflexivity|constructor].
  - inversion Hok as [|? ? Hk Hok']; inversion Hnd as [|? ? Hnin Hnd']; subst. cbn [fst] in Hk.
    destruct (IH Hok' Hnd') as [E Hs]. fold (cp_sort m). rewrite E. split.
    + apply insert_cp_insert; [assumption|assumption|]. now rewrite cp_sort_keys.
    + apply cp_insert_ok; assumption.
Qed.

Lemma In_cp_insert {A} (x : list N * A) k v S : In x (cp_insert k v S) -> x = (k, v) \/ In x S.
Proof.
  induction S as [|[k3 v3] S IHS]; cbn [cp_insert].
  - intros [H|[]]; auto.
  - destruct (cp_ltb k k3); cbn [In].
    + intros [H|[H|H]]; auto.
    + intros [H|H]; [auto|]. destruct (IHS H); auto.
Qed.

Lemma In_cp_sort {A} (x : list N * A) m : In x (cp_sort m) -> In x m.
Proof.
  induction m as [|[k2 v2] m IHm]; cbn [cp_sort fold_right]; [tauto|].
  fold (cp_sort m). cbn [fst snd]. intros Hin.
  destruct (In_cp_insert _ _ _ _ Hin) as [H|H]; [left; congruence|right; auto].
Qed.

(** The serializer applied to the stored form of a representable value is the spec's
    canonical encoding of that value. *)
Theorem print_is_spec u : uwfb u = true -> print (to_json u) = canonical_spec u.
Proof.
  induction u as [| b | z | s | l IH | m IH] using ujson_ind'; cbn [uwfb to_json print canonical_spec]; intros Hwf.
  - reflexivity.
  - destruct b; reflexivity.
  - apply print_Z_spec.
  - apply print_string_spec, forallb_scalar_ok, Hwf.
  - f_equal. f_equal. rewrite join_sjoin. f_equal. rewrite map_map.
    rewrite forallb_forall in Hwf. rewrite Forall_forall in IH.
    apply map_ext_in. intros x Hx. apply IH; [exact Hx|apply Hwf, Hx].
  - apply andb_true_iff in Hwf as [Hnd Hall]. rewrite forallb_forall in Hall.
    assert (Hok : Forall (fun kv => cps_ok (fst kv)) m).
    { apply Forall_forall. intros kv Hin. specialize (Hall kv Hin).
      apply andb_true_iff in Hall as [Hk _]. apply forallb_scalar_ok, Hk. }
    destruct (fold_insert_is_sort m Hok (nodupb_spec _ Hnd)) as [E Hs]. rewrite E.
    f_equal. f_equal. rewrite join_sjoin. f_equal.
    rewrite (cp_sort_map canonical_spec m), !map_map.
    apply map_ext_in. intros [k v] Hin. cbn [G fst snd].
    assert (Hk : cps_ok k) by (rewrite Forall_forall in Hs; exact (Hs _ Hin)).
    rewrite (print_string_spec k Hk). f_equal. f_equal.
    (* v is a member of m *)
    assert (Hin' : In (k, v) m) by (apply In_cp_sort; exact Hin).
    rewrite Forall_forall in IH. apply (IH _ Hin').
    specialize (Hall _ Hin'). apply andb_true_iff in Hall as [_ Hv]. exact Hv.
Qed.

(** * Objects depend on the member *set* only: order irrelevant, last duplicate wins. *)
Fixpoint last_assoc {A} (k : str) (m : list (str * A)) : option A :=
  match m with
  | [] => None
  | (k', v) :: m' => match last_assoc k m' with
                     | Some x => Some x
                     | None => if str_eqb k k' then Some v else None
                     end
  end.

Lemma fold_left_insert_sorted {A} (m : list (str * A)) acc :
  sorted acc -> sorted (fold_left (fun a kv => insert (fst kv) (snd kv) a) m acc).
Proof. revert acc; induction m as [|[k v] m IH]; intros acc H; cbn [fold_left]; [exact H|]. apply IH, sorted_insert, H. Qed.

Lemma lookup_fold_left_insert {A} (m : list (str * A)) : forall acc k,
  lookup k (fold_left (fun a kv => insert (fst kv) (snd kv) a) m acc) =
  match last_assoc k m with Some x => Some x | None => lookup k acc end.
Proof.
  induction m as [|[k2 v2] m IH]; intros acc k; cbn [fold_left last_assoc fst snd]; [reflexivity|].
  rewrite IH, lookup_insert. destruct (last_assoc k m); [reflexivity|].
  destruct (str_eqb k k2); reflexivity.
Qed.

Definition conv_members :=
  fix go (m : list (str * raw)) : list (str * option json) :=
    match m with [] => [] | (k, x) :: m' => (k, to_canonical x) :: go m' end.

Lemma conv_members_last k m :
  last_assoc k (conv_members m) = option_map to_canonical (last_assoc k m).
Proof.
  induction m as [|[k2 x2] m IH]; cbn [conv_members last_assoc]; [reflexivity|].
  rewrite IH. destruct (last_assoc k m); cbn [option_map]; [reflexivity|].
  destruct (str_eqb k k2); reflexivity.
Qed.

(** Two object texts with the same final binding for every key (any member order, any
    shadowed duplicates) convert to the same canonical value. *)
Theorem object_depends_on_bindings_only m1 m2 :
  (forall k, last_assoc k m1 = last_assoc k m2) ->
  to_canonical (RObj m1) = to_canonical (RObj m2).
Proof.
  intros H. cbn [to_canonical]. fold conv_members. f_equal. f_equal.
  apply sorted_ext; try (apply fold_left_insert_sorted; exact I).
  intros k. rewrite !lookup_fold_left_insert, !conv_members_last, H. reflexivity.
Qed.

Lemma last_assoc_perm {A} (m1 m2 : list (str * A)) k :
  Permutation m1 m2 -> NoDup (List.map fst m1) -> last_assoc k m1 = last_assoc k m2.
Proof.
  intros Hp Hnd.
  assert (Hchar : forall (m : list (str * A)), NoDup (List.map fst m) ->
            forall v, last_assoc k m = Some v <-> In (k, v) m).
  { clear. induction m as [|[k2 v2] m IH]; intros Hnd v; cbn [last_assoc In]; [split; [discriminate|tauto]|].
    cbn [List.map fst] in Hnd. inversion Hnd as [|? ? Hnin Hnd']; subst.
    pose proof (IH Hnd') as IHm. destruct (last_assoc k m) as [x|].
    - split.
      + intros [= <-]. right. now apply IHm.
      + intros [Eq|Hin]; [|f_equal; apply IHm in Hin; congruence].
        assert (Hx : In (k, x) m) by (apply IHm; reflexivity).
        apply (in_map fst) in Hx. cbn [fst] in Hx.
        inversion Eq; subst. exfalso. exact (Hnin Hx).
    - dse k k2.
      + split; [intros [= <-]; now left|]. intros [Eq|Hin]; [congruence|].
        apply IHm in Hin. congruence.
      + split; [discriminate|]. intros [Eq|Hin]; [congruence|]. apply IHm in Hin. congruence. }
  assert (Hnd2 : NoDup (List.map fst m2)).
  { eapply Permutation_NoDup; [apply Permutation_map; exact Hp|exact Hnd]. }
  destruct (last_assoc k m1) as [v|] eqn:E1.
  - apply (Hchar _ Hnd) in E1. symmetry. apply (Hchar _ Hnd2). eapply Permutation_in; eauto.
  - destruct (last_assoc k m2) as [v|] eqn:E2; [|reflexivity].
    apply (Hchar _ Hnd2) in E2. apply Permutation_sym in Hp.
    pose proof (Permutation_in _ Hp E2) as Hin. apply (Hchar _ Hnd) in Hin. congruence.
Qed.

Theorem key_order_irrelevant m1 m2 :
  Permutation m1 m2 -> NoDup (List.map fst m1) ->
  to_canonical (RObj m1) = to_canonical (RObj m2).
Proof.
  intros Hp Hnd. apply object_depends_on_bindings_only. intros k. now apply last_assoc_perm.
Qed.

Theorem duplicate_last_wins m k x1 x2 :
  to_canonical (RObj (m ++ [(k, x1); (k, x2)])) = to_canonical (RObj (m ++ [(k, x2)])).
Proof.
  apply object_depends_on_bindings_only. intros k'.
  induction m as [|[k3 v3] m IH]; cbn [app last_assoc].
  - destruct (str_eqb k' k); reflexivity.
  - now rewrite IH.
Qed.
