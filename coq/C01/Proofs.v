(** C01.Proofs *)
From Base Require Import Prelude Sx Json JsonText.
From C01 Require Import Spec Model.
From Coq Require Import ZifyBool ZifyNat ZifyN Permutation.

(** * Numbers: accepted exactly when representable, and never altered. *)
Definition lit_value (n : numlit) : Z :=
  let m := Z.of_N (digits_value (nl_int n) 0) in if nl_neg n then (- m)%Z else m.

Lemma classify_number_spec n z :
  classify_number n = Some z <->
  (nl_frac n = None /\ nl_exp n = None /\ z = lit_value n /\ int_ok z = true /\
   ~ (nl_neg n = true /\ digits_value (nl_int n) 0 = 0)).
Proof.
  unfold classify_number, lit_value, int_ok, max_int.
  destruct (nl_frac n), (nl_exp n); try (split; [discriminate|intros (?&?&?); discriminate]).
  destruct (nl_neg n).
  - destruct (Z.eqb_spec (Z.of_N (digits_value (nl_int n) 0)) 0) as [E|E].
    + split; [discriminate|]. intros (_&_&_&_&H). exfalso. apply H. split; [reflexivity|lia].
    + destruct (Z.leb_spec (Z.of_N (digits_value (nl_int n) 0)) 9007199254740991).
      * split; [intros [= <-]; repeat split; try lia; intros [_ ?]; lia|].
        intros (_&_&->&_&_). reflexivity.
      * split; [discriminate|]. intros (_&_&->&H1&_). lia.
  - destruct (Z.leb_spec (Z.of_N (digits_value (nl_int n) 0)) 9007199254740991).
    + split; [intros [= <-]; repeat split; try lia; intros [? _]; discriminate|].
      intros (_&_&->&_&_). reflexivity.
    + split; [discriminate|]. intros (_&_&->&H1&_). lia.
Qed.
