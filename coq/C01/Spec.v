(** C01.Spec — Matrix canonical JSON as the specification states it (DESIGN.md A.1), over
    JSON values whose strings are sequences of Unicode scalar values and whose objects are
    unordered collections of members with distinct keys:
    UTF-8; members sorted by key in code-point order at every depth; `,` and `:` with no
    whitespace; strings escape only the quote, the backslash and U+0000..U+001F (short forms for
    \b \t \n \f \r, \u00xx otherwise); integers in shortest decimal form. *)
From Base Require Import Prelude Sx Json.

Inductive ujson : Type :=
| UNull | UBool (b : bool) | UInt (z : Z) | UStr (s : list N)
| UArr (l : list ujson) | UObj (m : list (list N * ujson)).

(** Code-point order on scalar strings = lexicographic order of the scalar values. *)
Definition cp_ltb (a b : list N) : bool := str_ltb a b.

(** UTF-8 (RFC 3629) encoding of one scalar value. *)
Definition enc_cp (c : N) : list N :=
  if c <? 128 then [c]
  else if c <? 2048 then [192 + c / 64; 128 + c mod 64]
  else if c <? 65536 then [224 + c / 4096; 128 + (c / 64) mod 64; 128 + c mod 64]
  else [240 + c / 262144; 128 + (c / 4096) mod 64; 128 + (c / 64) mod 64; 128 + c mod 64].

Definition hexd (n : N) : N := if n <? 10 then 48 + n else 87 + n.

Definition spec_escape (c : N) : list N :=
  if c =? 34 then [92; 34] else if c =? 92 then [92; 92]
  else if c =? 8 then [92; 98] else if c =? 9 then [92; 116] else if c =? 10 then [92; 110]
  else if c =? 12 then [92; 102] else if c =? 13 then [92; 114]
  else if c <? 32 then [92; 117; 48; 48; hexd (c / 16); hexd (c mod 16)]
  else enc_cp c.

Definition spec_string (s : list N) : list N := 34 :: flat_map spec_escape s ++ [34].

(** Shortest decimal: no sign for non-negatives, no leading zeros. *)
Fixpoint spec_digits (fuel : nat) (n : N) : list N :=
  match fuel with
  | O => []
  | S f => if n <? 10 then [48 + n] else spec_digits f (n / 10) ++ [48 + n mod 10]
  end.
Definition spec_int (z : Z) : list N :=
  match z with
  | Z0 => [48]
  | Zpos p => spec_digits (S (N.to_nat (N.log2 (Npos p)))) (Npos p)
  | Zneg p => 45 :: spec_digits (S (N.to_nat (N.log2 (Npos p)))) (Npos p)
  end.

(** Insertion sort of members by code-point order of the keys. *)
Fixpoint cp_insert {A} (k : list N) (v : A) (m : list (list N * A)) : list (list N * A) :=
  match m with
  | [] => [(k, v)]
  | (k', v') :: m' => if cp_ltb k k' then (k, v) :: m else (k', v') :: cp_insert k v m'
  end.
Definition cp_sort {A} (m : list (list N * A)) : list (list N * A) :=
  fold_right (fun kv acc => cp_insert (fst kv) (snd kv) acc) [] m.

Fixpoint sjoin (l : list (list N)) : list N :=
  match l with [] => [] | [x] => x | x :: l' => x ++ 44 :: sjoin l' end.

Fixpoint canonical_spec (u : ujson) : list N :=
  match u with
  | UNull => [110; 117; 108; 108]
  | UBool true => [116; 114; 117; 101]
  | UBool false => [102; 97; 108; 115; 101]
  | UInt z => spec_int z
  | UStr s => spec_string s
  | UArr l => 91 :: sjoin (List.map canonical_spec l) ++ [93]
  | UObj m =>
      123 :: sjoin (List.map (fun kv => spec_string (fst kv) ++ 58 :: snd kv)
                      (cp_sort (List.map (fun kv => (fst kv, canonical_spec (snd kv))) m))) ++ [125]
  end.

(** Representable values: scalar values only (no surrogates, <= U+10FFFF), integers within
    [-(2^53-1), 2^53-1], distinct keys in every object. *)
Definition scalar (c : N) : bool := (c <? 55296) || ((57344 <=? c) && (c <? 1114112)).
Definition int_ok (z : Z) : bool := (-9007199254740991 <=? z)%Z && (z <=? 9007199254740991)%Z.

Fixpoint nodupb (l : list (list N)) : bool :=
  match l with [] => true | x :: l' => negb (mem_str x l') && nodupb l' end.

Fixpoint uwfb (u : ujson) : bool :=
  match u with
  | UInt z => int_ok z
  | UStr s => forallb scalar s
  | UArr l => forallb uwfb l
  | UObj m => nodupb (List.map fst m) && forallb (fun kv => forallb scalar (fst kv) && uwfb (snd kv)) m
  | _ => true
  end.

(** Decoding UTF-8 (used by the runner to read the implementation's strings as scalar
    strings; strict: shortest form, no surrogates, <= U+10FFFF). *)
Definition cont (b : N) : bool := (128 <=? b) && (b <? 192).
Fixpoint utf8_decode (fuel : nat) (s : str) : option (list N) :=
  match fuel with
  | O => match s with [] => Some [] | _ => None end
  | S f =>
      match s with
      | [] => Some []
      | a :: r =>
          if a <? 128 then option_map (cons a) (utf8_decode f r)
          else if a <? 192 then None
          else if a <? 224 then
            match r with
            | b :: r' =>
                let c := (a - 192) * 64 + (b - 128) in
                if cont b && (128 <=? c) then option_map (cons c) (utf8_decode f r') else None
            | _ => None
            end
          else if a <? 240 then
            match r with
            | b :: c0 :: r' =>
                let c := (a - 224) * 4096 + (b - 128) * 64 + (c0 - 128) in
                if cont b && cont c0 && (2048 <=? c) && scalar c
                then option_map (cons c) (utf8_decode f r') else None
            | _ => None
            end
          else if a <? 248 then
            match r with
            | b :: c0 :: d :: r' =>
                let c := (a - 240) * 262144 + (b - 128) * 4096 + (c0 - 128) * 64 + (d - 128) in
                if cont b && cont c0 && cont d && (65536 <=? c) && (c <? 1114112)
                then option_map (cons c) (utf8_decode f r') else None
            | _ => None
            end
          else None
      end
  end.
