(** C05.SourceTie — the constants and wiring the model hard-codes are the ones the source has
    today (Gen/SigConsts.v is regenerated from functions.rs on every run). *)
From Base Require Import Prelude Json.
From Gen Require Import SigConsts.
From C05 Require Import Model.

Lemma source_constants :
  src_max_pdu_bytes = max_pdu_bytes /\
  src_content_hash_fields = [k_hashes; k_signatures; k_unsigned] /\
  src_reference_hash_fields = [k_signatures; k_unsigned] /\
  src_content_hash_refuses_above_only = true /\
  src_reference_hash_refuses_above_only = true /\
  src_helper_size_checked = false.
Proof. repeat split; vm_compute; reflexivity. Qed.
