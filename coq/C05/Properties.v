(** C05.Properties — the theorems that decide C05, and nothing else.  [H] is an arbitrary
    hash function (SHA-256 in ruma and in the correspondence runs). *)
From Base Require Import Prelude Sx Json JsonText Rules Base64.
From Gen Require Import RoomRules.
From C04 Require Import Model Spec.
From C05 Require Import Model Spec Proofs SourceTie.
From Gen Require Import SigConsts.

(** The content hash is the hash of the canonical JSON of the event without `unsigned`,
    `signatures` and `hashes`, refused exactly when that string exceeds 65535 bytes. *)
Theorem C05_content_hash_eq_spec :
  forall H o, sorted o ->
  content_hash H o = match spec_content_hash H o with Some h => Ok h | None => Err 1 end.
Proof. exact content_hash_eq_spec. Qed.
Eval compute in "PA:C05_content_hash_eq_spec"%string.
Print Assumptions C05_content_hash_eq_spec.

Theorem C05_content_hash_ignores_uncovered :
  forall H o k v, sorted o -> mem_str k [k_hashes; k_signatures; k_unsigned] = true ->
  content_hash H (insert k v o) = content_hash H o /\ content_hash H (remove k o) = content_hash H o.
Proof. exact content_hash_ignores_uncovered. Qed.
Eval compute in "PA:C05_content_hash_ignores_uncovered"%string.
Print Assumptions C05_content_hash_ignores_uncovered.

(** For every room version 1-11 the reference hash is the hash of the canonical JSON of the
    spec-redacted event without `signatures` and `unsigned`, in the standard alphabet up to
    v3 and the URL-safe alphabet from v4, with the same size limit. *)
Theorem C05_reference_hash_eq_spec :
  forall H v R o, rules_of v = Some R -> wf_obj o -> well_typed v o = true ->
  reference_hash H R o = match spec_reference_hash H v o with Some s => Ok s | None => Err 1 end.
Proof. exact reference_hash_eq_spec. Qed.
Eval compute in "PA:C05_reference_hash_eq_spec"%string.
Print Assumptions C05_reference_hash_eq_spec.

Theorem C05_reference_hash_ill_typed :
  forall H v R o, rules_of v = Some R -> wf_obj o -> well_typed v o = false ->
  reference_hash H R o = Err 2.
Proof. exact reference_hash_ill_typed. Qed.
Eval compute in "PA:C05_reference_hash_ill_typed"%string.
Print Assumptions C05_reference_hash_ill_typed.

Theorem C05_reference_hash_redact_invariant :
  forall H v R o o', rules_of v = Some R -> wf_obj o -> redact (redaction R) o None = Ok o' ->
  reference_hash H R o' = reference_hash H R o.
Proof. exact reference_hash_redact_invariant. Qed.
Eval compute in "PA:C05_reference_hash_redact_invariant"%string.
Print Assumptions C05_reference_hash_redact_invariant.

Theorem C05_reference_hash_ignores_uncovered :
  forall H v R o k x, rules_of v = Some R -> wf_obj o -> wf x -> well_typed v o = true ->
  mem_str k [s!"signatures"; s!"unsigned"] = true ->
  reference_hash H R (insert k x o) = reference_hash H R o.
Proof. exact reference_hash_ignores_uncovered. Qed.
Eval compute in "PA:C05_reference_hash_ignores_uncovered"%string.
Print Assumptions C05_reference_hash_ignores_uncovered.

Theorem C05_alphabet_by_version :
  forall v R, rules_of v = Some R -> url_alphabet R = spec_url_safe v.
Proof. exact alphabet_by_version. Qed.
Eval compute in "PA:C05_alphabet_by_version"%string.
Print Assumptions C05_alphabet_by_version.

Theorem C05_b64_roundtrip :
  forall url s, bytes_ok s -> b64_decode url (b64_encode url s) = Some s.
Proof. exact b64_roundtrip. Qed.
Eval compute in "PA:C05_b64_roundtrip"%string.
Print Assumptions C05_b64_roundtrip.

Theorem C05_b64_alphabets_differ_only_in_62_63 :
  forall v, v < 62 -> b64_char true v = b64_char false v.
Proof. exact b64_alphabets_differ_only_in_62_63. Qed.
Eval compute in "PA:C05_b64_alphabets_differ_only_in_62_63"%string.
Print Assumptions C05_b64_alphabets_differ_only_in_62_63.

(** Every change to a covered member changes the hashed byte string (the digest itself then
    differs unless SHA-256 collides — collision resistance is not a theorem). *)
Theorem C05_covered_change_changes_preimage :
  forall ks o o', wf_obj o -> wf_obj o' ->
  C01.Roundtrip.ints_ok (JObj o) = true -> C01.Roundtrip.ints_ok (JObj o') = true ->
  C01.Roundtrip.jdepth (JObj o) < 128 -> C01.Roundtrip.jdepth (JObj o') < 128 ->
  remove_keys ks o <> remove_keys ks o' ->
  canonical_without ks o <> canonical_without ks o'.
Proof. exact covered_change_changes_preimage. Qed.
Eval compute in "PA:C05_covered_change_changes_preimage"%string.
Print Assumptions C05_covered_change_changes_preimage.

(** The size limit, the members left out of each hash and the place of the size check are those of
    the source as it is now (regenerated from functions.rs on every run): the model above is about
    these constants. *)
Theorem C05_model_constants_are_the_sources :
  src_max_pdu_bytes = max_pdu_bytes /\
  src_content_hash_fields = [k_hashes; k_signatures; k_unsigned] /\
  src_reference_hash_fields = [k_signatures; k_unsigned] /\
  src_content_hash_refuses_above_only = true /\
  src_reference_hash_refuses_above_only = true /\
  src_helper_size_checked = false.
Proof. exact source_constants. Qed.
Eval compute in "PA:C05_model_constants_are_the_sources"%string.
Print Assumptions C05_model_constants_are_the_sources.
