(** C05.Spec — the hashes as the server-server specification defines them (DESIGN.md A.3),
    per room version number.  "Canonical JSON" is [JsonText.print], which C01 proves to be the
    specification's canonical encoding. *)
From Base Require Import Prelude Sx Json JsonText Base64.
From C04 Require Import Spec.

Section Hash.
Variable H : str -> str.

Definition without (ks : list str) (o : obj) : obj :=
  kfilter (fun k _ => negb (mem_str k ks)) o.

Definition spec_content_hash (o : obj) : option str :=
  let j := print (JObj (without [s!"unsigned"; s!"signatures"; s!"hashes"] o)) in
  if 65535 <? N.of_nat (List.length j) then None else Some (H j).

(** Event ids: v1-v2 are not hashes (the reference hash still uses the standard alphabet);
    v3 standard alphabet; v4 and later URL-safe. *)
Definition spec_url_safe (v : N) : bool := 4 <=? v.

Definition spec_reference_hash (v : N) (o : obj) : option str :=
  let j := print (JObj (without [s!"signatures"; s!"unsigned"] (spec_redact v o))) in
  if 65535 <? N.of_nat (List.length j) then None
  else Some (b64_encode (spec_url_safe v) (H j)).
End Hash.
