(** C05.NonVacuity — the hypotheses of the C05 theorems are met by non-trivial events, and the
    theorems say something on them.  The hash is the real SHA-256 of Base/Sha256.v. *)
From Base Require Import Prelude Sx Json JsonText Rules Base64 Sha256.
From Gen Require Import RoomRules.
From C04 Require Import Model Spec NonVacuity.
From C05 Require Import Model Spec Proofs.
From C01 Require Roundtrip.

Definition H : str -> str := sha256.

(** A restricted join with hashes, signatures and unsigned: the three room-version families
    hash it differently. *)
Definition ev : obj :=
  insert s!"hashes" (JObj [(s!"sha256", JStr s!"c3RhbGU")])
    (insert s!"signatures" (JObj [(s!"b", JObj [(s!"ed25519:1", JStr s!"AAAA")])])
       (insert s!"depth" (JInt 7) member_event)).

Example ev_meets_the_hypotheses :
  sorted ev /\ wf_obj ev /\ forallb (fun v => well_typed v ev) all_versions = true /\
  C01.Roundtrip.ints_ok (JObj ev) = true /\ (C01.Roundtrip.jdepth (JObj ev) < 128)%N.
Proof.
  split; [apply sortedb_sorted; vm_compute; reflexivity|].
  repeat split; vm_compute; reflexivity.
Qed.

(** The content hash is defined (not the size error) and ignores the uncovered members. *)
Example content_hash_defined :
  match content_hash H ev, content_hash H (remove s!"unsigned" (remove s!"hashes" ev)) with
  | Ok a, Ok b => str_eqb a b && (N.of_nat (List.length a) =? 32)%N
  | _, _ => false
  end = true.
Proof. vm_compute. reflexivity. Qed.

(** ... and a covered member changes it. *)
Example covered_member_changes_the_hash :
  match content_hash H ev, content_hash H (insert s!"depth" (JInt 8) ev) with
  | Ok a, Ok b => negb (str_eqb a b)
  | _, _ => false
  end = true.
Proof. vm_compute. reflexivity. Qed.

Example covered_change_hypothesis :
  remove_keys [k_hashes; k_signatures; k_unsigned] ev <>
  remove_keys [k_hashes; k_signatures; k_unsigned] (insert s!"depth" (JInt 8) ev).
Proof. vm_compute. discriminate. Qed.

(** Reference hashes: v8 drops the authorising user, v9 keeps it, v11 redacts differently again;
    v3 and v4 have the same preimage but different alphabets, so the strings can only differ in
    '+' '/' versus '-' '_'. *)
Example reference_hash_by_family :
  match reference_hash H rules_v8 ev, reference_hash H rules_v9 ev, reference_hash H rules_v11 ev with
  | Ok a, Ok b, Ok c => negb (str_eqb a b) && negb (str_eqb b c) && (N.of_nat (List.length a) =? 43)%N
  | _, _, _ => false
  end = true.
Proof. vm_compute. reflexivity. Qed.

Example reference_hash_redaction_invariant_applies :
  match redact (redaction rules_v9) ev None with
  | Ok e' => negb (json_eqb (JObj e') (JObj ev)) &&
             match reference_hash H rules_v9 e', reference_hash H rules_v9 ev with
             | Ok a, Ok b => str_eqb a b | _, _ => false end
  | _ => false
  end = true.
Proof. vm_compute. reflexivity. Qed.

(** The ill-typed and the oversized branches are inhabited. *)
Example ill_typed_event :
  well_typed 11 [(s!"content", JInt 1); (s!"type", JStr s!"m.room.member")] = false /\
  reference_hash H rules_v11 [(s!"content", JInt 1); (s!"type", JStr s!"m.room.member")] = Err 2.
Proof. split; vm_compute; reflexivity. Qed.

Definition big_event (n : N) : obj :=
  [(s!"content", JObj [(s!"body", JStr (repeat 97%N (N.to_nat n)))]); (s!"type", JStr s!"m")].

(** {"content":{"body":"..."},"type":"m"} has 34 bytes around the body: 65501 bytes of body make
    65535 (accepted), one more is refused. *)
Example size_limit_is_sharp :
  (match content_hash H (big_event 65501) with Ok _ => true | _ => false end) = true /\
  content_hash H (big_event 65502) = Err 1.
Proof. split; vm_compute; reflexivity. Qed.

(** The reference hash measures the redacted event: the big body above is redacted away, a big
    protected member is not.  {"room_id":"...","type":"m"} has 25 bytes around the room id. *)
Definition big_kept (n : N) : obj := [(s!"room_id", JStr (repeat 97%N (N.to_nat n))); (s!"type", JStr s!"m")].
Example reference_size_limit_is_sharp :
  (match reference_hash H rules_v11 (big_event 65502) with Ok _ => true | _ => false end) = true /\
  (match reference_hash H rules_v11 (big_kept 65510) with Ok _ => true | _ => false end) = true /\
  reference_hash H rules_v11 (big_kept 65511) = Err 1.
Proof. repeat split; vm_compute; reflexivity. Qed.

Example bytes_ok_example : bytes_ok [0; 255; 16; 131]%N /\ b64_encode false [251; 255]%N <> b64_encode true [251; 255]%N.
Proof. split; [repeat constructor | vm_compute; discriminate]. Qed.
