(** C05.Model — [ruma_signatures::{content_hash, reference_hash}] (functions.rs) over an
    abstract hash function [H] (SHA-256 in the runs). *)
From Base Require Import Prelude Sx Json JsonText Rules Base64.
From Gen Require Import RoomRules.
From C04 Require Import Model.

Definition k_hashes : str := s!"hashes".
Definition k_signatures : str := s!"signatures".
Definition k_unsigned : str := s!"unsigned".

(** canonical_json_with_fields_to_remove: clone, remove each field, compact-serialize. *)
Definition remove_keys (ks : list str) (o : obj) : obj := fold_left (fun o k => remove k o) ks o.
Definition canonical_without (ks : list str) (o : obj) : str := print (JObj (remove_keys ks o)).

Definition max_pdu_bytes : N := 65535.
Definition too_big (j : str) : bool := max_pdu_bytes <? N.of_nat (List.length j).

Section Hash.
Variable H : str -> str.

(** Error codes: 1 = PduSize, 2 = redaction error. *)
Definition content_hash (o : obj) : outcome str :=
  let j := canonical_without [k_hashes; k_signatures; k_unsigned] o in
  if too_big j then Err 1 else Ok (H j).

(** EventIdFormatVersion::V1 | V2 => standard alphabet, otherwise URL-safe. *)
Definition url_alphabet (R : room_rules) : bool :=
  match event_id_format R with EidV1 | EidV2 => false | EidV3 => true end.

Definition reference_hash (R : room_rules) (o : obj) : outcome str :=
  match redact (redaction R) o None with
  | Ok r =>
      let j := canonical_without [k_signatures; k_unsigned] r in
      if too_big j then Err 1 else Ok (b64_encode (url_alphabet R) (H j))
  | Err _ => Err 2
  | Panic s => Panic s
  end.

(** The `hashes.sha256` string that hash_and_sign_event stores. *)
Definition content_hash_b64 (o : obj) : outcome str :=
  match content_hash o with Ok h => Ok (b64_encode false h) | Err e => Err e | Panic s => Panic s end.
End Hash.
