(** C05.Run — case = ( op version object ); op 0 content_hash (raw digest bytes),
    1 reference_hash (string), 2 content hash as stored in hashes.sha256 (string). *)
From Base Require Import Prelude Sx Json JsonText Rules Base64 Sha256.
From Gen Require Import RoomRules.
From C04 Require Import Spec.
From C05 Require Import Model Spec.

Definition sx_res (o : outcome str) : sx := sx_outcome SS o.

Definition model_out (op v : N) (o : obj) : outcome str :=
  if op =? 0 then content_hash sha256 o
  else if op =? 2 then content_hash_b64 sha256 o
  else match rules_of v with
       | Some R => reference_hash sha256 R o
       | None => Panic 0
       end.

(** Spec predicate on the implementation's outcome.  For ill-typed events (redaction
    undefined) any error is accepted. *)
Definition spec_ok (op v : N) (o : obj) (impl : sx) : bool :=
  let expect (e : option str) :=
    match e, impl with
    | Some h, SL [SN 0; SS x] => str_eqb h x
    | None, SL [SN 1; SN 1] => true
    | _, _ => false
    end in
  if op =? 0 then expect (spec_content_hash sha256 o)
  else if op =? 2 then expect (option_map (b64_encode false) (spec_content_hash sha256 o))
  else if well_typed v o then expect (spec_reference_hash sha256 v o)
  else match impl with SL [SN 1; _] => true | _ => false end.

Definition run_b64 (url : bool) (t : str) (impl : sx) : sx :=
  let m := match b64_decode url t with Some b => SL [SN 0; SS b] | None => SL [SN 1; SN 0] end in
  (* spec: whatever is accepted re-encodes (unpadded) to the input without its padding, up to
     the trailing bits the configuration tolerates: checked as decode (encode b) = b *)
  let ok := match impl with
            | SL [SN 0; SS b] => match b64_decode url (b64_encode url b) with
                                 | Some b' => str_eqb b b'
                                 | None => false
                                 end
            | _ => true
            end in
  SL [m; sx_bool ok].

Definition run (x : sx) : sx :=
  match x with
  | SL [SL [SN 3; _; SS t]; impl] => run_b64 false t impl
  | SL [SL [SN 4; _; SS t]; impl] => run_b64 true t impl
  | SL [SL [op; v; o]; impl] =>
      match as_N op, as_N v, obj_of_sx o with
      | Some op, Some v, Some o => SL [sx_res (model_out op v o); sx_bool (spec_ok op v o impl)]
      | _, _, _ => sx_bad
      end
  | _ => sx_bad
  end.
