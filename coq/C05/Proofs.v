(** C05.Proofs *)
From Base Require Import Prelude Sx Json JsonText Rules Base64.
From Gen Require Import RoomRules.
From C04 Require Import Model Spec Proofs.
From C05 Require Import Model Spec.
From Coq Require Import ZifyBool ZifyNat ZifyN.

Lemma alphabet_by_version v R : rules_of v = Some R -> url_alphabet R = spec_url_safe v.
Proof.
  unfold rules_of. intros H.
  repeat match type of H with
         | (if ?v =? ?n then _ else _) = _ =>
             destruct (N.eqb_spec v n) as [->|_]; [injection H as <-; reflexivity|]
         end.
  discriminate.
Qed.

(** * Removing members *)
Lemma remove_keys_sorted ks : forall o, sorted o -> sorted (remove_keys ks o).
Proof.
  unfold remove_keys. induction ks as [|k ks IH]; intros o Hs; cbn [fold_left]; [exact Hs|].
  apply IH, sorted_remove, Hs.
Qed.

Lemma lookup_remove_keys ks : forall o k, sorted o ->
  lookup k (remove_keys ks o) = if mem_str k ks then None else lookup k o.
Proof.
  unfold remove_keys. induction ks as [|k0 ks IH]; intros o k Hs; cbn [fold_left mem_str]; [reflexivity|].
  rewrite IH by (apply sorted_remove, Hs). rewrite lookup_remove by exact Hs.
  destruct (str_eqb k k0); cbn [orb]; [now destruct (mem_str k ks)|reflexivity].
Qed.

Lemma remove_keys_without ks o : sorted o -> remove_keys ks o = without ks o.
Proof.
  intros Hs. apply sorted_ext; [apply remove_keys_sorted, Hs|apply sorted_kfilter, Hs|].
  intros k. unfold without. rewrite lookup_remove_keys, lookup_kfilter by exact Hs.
  destruct (lookup k o); destruct (mem_str k ks); reflexivity.
Qed.

Lemma mem_str_perm k (l1 l2 : list str) :
  (forall x, In x l1 <-> In x l2) -> mem_str k l1 = mem_str k l2.
Proof.
  intros H. destruct (mem_str k l1) eqn:E1, (mem_str k l2) eqn:E2; try reflexivity.
  - apply mem_str_In, H, mem_str_In in E1. congruence.
  - apply mem_str_In, H, mem_str_In in E2. congruence.
Qed.

(** Uncovered members never influence the hashed bytes. *)
Lemma remove_keys_insert_uncovered ks k v o :
  sorted o -> mem_str k ks = true -> remove_keys ks (insert k v o) = remove_keys ks o.
Proof.
  intros Hs Hk. apply sorted_ext; try (apply remove_keys_sorted; try apply sorted_insert; exact Hs).
  intros k'. rewrite !lookup_remove_keys by (try apply sorted_insert; exact Hs).
  destruct (mem_str k' ks) eqn:E; [reflexivity|]. rewrite lookup_insert.
  dse k' k; [congruence|reflexivity].
Qed.

Lemma remove_keys_remove_uncovered ks k o :
  sorted o -> mem_str k ks = true -> remove_keys ks (remove k o) = remove_keys ks o.
Proof.
  intros Hs Hk. apply sorted_ext; try (apply remove_keys_sorted; try apply sorted_remove; exact Hs).
  intros k'. rewrite !lookup_remove_keys by (try apply sorted_remove; exact Hs).
  destruct (mem_str k' ks) eqn:E; [reflexivity|]. rewrite lookup_remove by exact Hs.
  dse k' k; [congruence|reflexivity].
Qed.

Section Hash.
Variable H : str -> str.

(** * Content hash *)
Theorem content_hash_eq_spec o :
  sorted o ->
  content_hash H o = match spec_content_hash H o with Some h => Ok h | None => Err 1 end.
Proof.
  intros Hs. unfold content_hash, spec_content_hash, canonical_without, too_big, max_pdu_bytes.
  rewrite (remove_keys_without _ _ Hs).
  assert (E : without [k_hashes; k_signatures; k_unsigned] o =
              without [s!"unsigned"; s!"signatures"; s!"hashes"] o).
  { unfold without, kfilter. apply filter_ext. intros [k x]. cbn [fst snd]. f_equal.
    apply mem_str_perm. intros y. cbn [In]. unfold k_hashes, k_signatures, k_unsigned. tauto. }
  rewrite E. destruct (65535 <? _); reflexivity.
Qed.

Theorem content_hash_ignores_uncovered o k v :
  sorted o -> mem_str k [k_hashes; k_signatures; k_unsigned] = true ->
  content_hash H (insert k v o) = content_hash H o /\ content_hash H (remove k o) = content_hash H o.
Proof.
  intros Hs Hk. unfold content_hash, canonical_without.
  now rewrite (remove_keys_insert_uncovered _ _ _ _ Hs Hk), (remove_keys_remove_uncovered _ _ _ Hs Hk).
Qed.

(** * Reference hash *)
Theorem reference_hash_eq_spec v R o :
  rules_of v = Some R -> wf_obj o -> well_typed v o = true ->
  reference_hash H R o = match spec_reference_hash H v o with Some s => Ok s | None => Err 1 end.
Proof.
  intros HR Hwf Hwt. unfold reference_hash, spec_reference_hash.
  rewrite (redact_eq_spec v R o HR Hwf Hwt).
  pose proof (wf_obj_sorted _ (spec_redact_wf v o Hwf)) as Hs.
  unfold canonical_without, too_big, max_pdu_bytes. rewrite (remove_keys_without _ _ Hs).
  rewrite (alphabet_by_version v R HR).
  change [k_signatures; k_unsigned] with [s!"signatures"; s!"unsigned"].
  destruct (65535 <? _); reflexivity.
Qed.

Theorem reference_hash_ill_typed v R o :
  rules_of v = Some R -> wf_obj o -> well_typed v o = false -> reference_hash H R o = Err 2.
Proof.
  intros HR Hwf Hwt. unfold reference_hash.
  destruct (redact_ill_typed v R o None HR Hwf Hwt) as [e ->]. reflexivity.
Qed.

(** The reference hash (hence the event id from v3) is unchanged by redaction. *)
Theorem reference_hash_redact_invariant v R o o' :
  rules_of v = Some R -> wf_obj o -> redact (redaction R) o None = Ok o' ->
  reference_hash H R o' = reference_hash H R o.
Proof.
  intros HR Hwf Hr. unfold reference_hash. rewrite Hr, (redact_idem v R o o' HR Hwf Hr). reflexivity.
Qed.

Theorem reference_hash_ignores_uncovered v R o k x :
  rules_of v = Some R -> wf_obj o -> wf x -> well_typed v o = true ->
  mem_str k [s!"signatures"; s!"unsigned"] = true ->
  reference_hash H R (insert k x o) = reference_hash H R o.
Proof.
  intros HR Hwf Hwx Hwt Hk.
  pose proof (wf_obj_sorted _ Hwf) as Hs.
  assert (Hk' : k <> s!"type" /\ k <> s!"content").
  { cbn [mem_str] in Hk. split; intros ->; discriminate. }
  destruct Hk' as [Hk1 Hk2].
  assert (Hwt' : well_typed v (insert k x o) = true).
  { unfold well_typed in *. rewrite !lookup_insert.
    destruct (str_eqb_spec s!"type" k) as [E|_]; [congruence|].
    destruct (str_eqb_spec s!"content" k) as [E|_]; [congruence|]. exact Hwt. }
  rewrite (reference_hash_eq_spec v R (insert k x o) HR (wf_obj_insert k x o Hwf Hwx) Hwt'),
          (reference_hash_eq_spec v R o HR Hwf Hwt).
  unfold spec_reference_hash.
  assert (E : without [s!"signatures"; s!"unsigned"] (spec_redact v (insert k x o)) =
              without [s!"signatures"; s!"unsigned"] (spec_redact v o)).
  { pose proof (wf_obj_sorted _ (spec_redact_wf v _ (wf_obj_insert k x o Hwf Hwx))) as S1.
    pose proof (wf_obj_sorted _ (spec_redact_wf v o Hwf)) as S2.
    apply sorted_ext; try (apply sorted_kfilter; assumption).
    intros k'. unfold without. rewrite !lookup_kfilter by assumption.
    unfold spec_redact. rewrite lookup_insert.
    destruct (str_eqb_spec s!"type" k) as [E|_]; [congruence|].
    destruct (lookup s!"type" o) as [[| | |ty| |]|]; try reflexivity.
    rewrite !lookup_fmap_obj by (try apply sorted_insert; exact Hs). rewrite lookup_insert.
    dse k' k; [|reflexivity].
    (* the inserted key itself is filtered out on both sides *)
    rewrite Hk.
    destruct (keeps_top v k); [|now destruct (lookup k o)].
    destruct (str_eqb_spec k s!"content") as [E|_]; [congruence|].
    cbn [negb]. destruct (lookup k o) as [y|]; reflexivity. }
  now rewrite E.
Qed.
End Hash.

(** * Base64 *)
Ltac Zify.zify_post_hook ::= Z.div_mod_to_equations.

Lemma b64_val_char url v : v < 64 -> b64_val url (b64_char url v) = Some v.
Proof.
  intros Hv. unfold b64_char, b64_val.
  destruct (N.ltb_spec v 26); [replace ((65 <=? 65 + v) && (65 + v <=? 90)) with true by lia; f_equal; lia|].
  destruct (N.ltb_spec v 52).
  { replace ((65 <=? 97 + (v - 26)) && (97 + (v - 26) <=? 90)) with false by lia.
    replace ((97 <=? 97 + (v - 26)) && (97 + (v - 26) <=? 122)) with true by lia. f_equal; lia. }
  destruct (N.ltb_spec v 62).
  { replace ((65 <=? 48 + (v - 52)) && (48 + (v - 52) <=? 90)) with false by lia.
    replace ((97 <=? 48 + (v - 52)) && (48 + (v - 52) <=? 122)) with false by lia.
    replace ((48 <=? 48 + (v - 52)) && (48 + (v - 52) <=? 57)) with true by lia. f_equal; lia. }
  destruct (N.eqb_spec v 62) as [->|Hne]; destruct url; cbn; try reflexivity;
    assert (v = 63) by lia; subst; reflexivity.
Qed.

Definition bytes_ok (s : list N) : Prop := Forall (fun b => b < 256) s.

Lemma list_ind3 {A} (P : list A -> Prop) :
  P [] -> (forall a, P [a]) -> (forall a b, P [a; b]) ->
  (forall a b c r, P r -> P (a :: b :: c :: r)) -> forall l, P l.
Proof.
  intros H0 H1 H2 H3. fix IH 1. intros [|a [|b [|c r]]]; [exact H0|exact (H1 a)|exact (H2 a b)|exact (H3 a b c r (IH r))].
Qed.

Lemma b64_quads_encode url : forall s fuel,
  bytes_ok s -> (List.length (b64_encode url s) <= fuel)%nat ->
  exists pre tail, s = pre ++ tail /\ (List.length tail < 3)%nat /\
    b64_quads fuel url (b64_encode url s) = Some (pre, b64_encode url tail).
Proof.
  intros s. induction s as [|a|a b|a b c r IH] using list_ind3; intros fuel Hs Hf.
  - exists [], []. repeat split; [cbn; lia|]. destruct fuel; reflexivity.
  - exists [], [a]. repeat split; [cbn; lia|]. destruct fuel; [reflexivity|]. reflexivity.
  - exists [], [a; b]. repeat split; [cbn; lia|]. destruct fuel; [reflexivity|]. reflexivity.
  - inversion Hs as [|? ? Ha Hs1]; subst. inversion Hs1 as [|? ? Hb Hs2]; subst.
    inversion Hs2 as [|? ? Hc Hr]; subst.
    cbn [b64_encode] in Hf |- *. cbn [List.length] in Hf.
    destruct fuel as [|fuel]; [lia|].
    destruct (IH fuel Hr ltac:(lia)) as [pre [tail [-> [Ht E]]]].
    exists (a :: b :: c :: pre), tail. repeat split; [exact Ht|].
    cbn [b64_quads]. rewrite !b64_val_char by lia. rewrite E.
    f_equal. f_equal. f_equal; [lia|]. f_equal; [lia|]. f_equal. lia.
Qed.

Theorem b64_roundtrip url s : bytes_ok s -> b64_decode url (b64_encode url s) = Some s.
Proof.
  intros Hs. unfold b64_decode.
  destruct (b64_quads_encode url s _ Hs (le_n _)) as [pre [tail [-> [Ht ->]]]].
  assert (Htl : bytes_ok tail) by (apply Forall_app in Hs; tauto).
  destruct tail as [|a [|b [|c r]]]; cbn [List.length] in Ht; try lia.
  - now rewrite app_nil_r.
  - inversion Htl as [|? ? Ha _]; subst. cbn [b64_encode].
    assert (E1 : b64_char url (a mod 4 * 16) <> 61) by (unfold b64_char; destruct url; repeat destruct (_ <? _); try destruct (_ =? _); lia).
    rewrite !b64_val_char by lia. repeat f_equal. lia.
  - inversion Htl as [|? ? Ha Ht1]; subst. inversion Ht1 as [|? ? Hb _]; subst. cbn [b64_encode].
    destruct (N.eqb_spec (b64_char url (b mod 16 * 4)) 61) as [E|E].
    { exfalso. unfold b64_char in E. destruct url; repeat destruct (_ <? _); try destruct (_ =? _); lia. }
    assert (Hm : forall x y z : N, z <> 61 ->
       match [x; y; z] with
       | [a0; b0] | [a0; b0; 61] | [a0; b0; 61; 61] =>
           match b64_val url a0, b64_val url b0 with
           | Some a1, Some b1 => Some (pre ++ [a1 * 4 + b1 / 16]) | _, _ => None end
       | [a0; b0; c0] | [a0; b0; c0; 61] =>
           match b64_val url a0, b64_val url b0, b64_val url c0 with
           | Some a1, Some b1, Some c1 => Some (pre ++ [a1 * 4 + b1 / 16; (b1 mod 16) * 16 + c1 / 4])
           | _, _, _ => None end
       | _ => None
       end = match b64_val url x, b64_val url y, b64_val url z with
             | Some a1, Some b1, Some c1 => Some (pre ++ [a1 * 4 + b1 / 16; (b1 mod 16) * 16 + c1 / 4])
             | _, _, _ => None end).
    { intros x y z Hz. destruct z as [|p]; [reflexivity|].
      do 6 (destruct p as [p|p|]; try reflexivity). congruence. }
    rewrite Hm by exact E. rewrite !b64_val_char by lia. repeat f_equal; lia.
Qed.

Theorem b64_alphabets_differ_only_in_62_63 v :
  v < 62 -> b64_char true v = b64_char false v.
Proof.
  intros Hv. unfold b64_char.
  destruct (N.ltb_spec v 26); [reflexivity|]. destruct (N.ltb_spec v 52); [reflexivity|].
  destruct (N.ltb_spec v 62); [reflexivity|lia].
Qed.

(** * A change of a covered member changes the hashed byte string. *)
From C01 Require Roundtrip.

Lemma remove_keys_wf ks : forall x, wf_obj x -> wf_obj (remove_keys ks x).
Proof.
  unfold remove_keys. induction ks as [|k ks IH]; intros x Hx; cbn [fold_left]; [exact Hx|].
  apply IH, wf_obj_remove, Hx.
Qed.

Lemma remove_keys_sub ks : forall x k v, In (k, v) (remove_keys ks x) -> In (k, v) x.
Proof.
  unfold remove_keys. induction ks as [|k0 ks IH]; intros x k v Hin; cbn [fold_left] in Hin; [exact Hin|].
  apply IH in Hin. eapply In_remove; eauto.
Qed.

Theorem covered_change_changes_preimage ks o o' :
  wf_obj o -> wf_obj o' ->
  Roundtrip.ints_ok (JObj o) = true -> Roundtrip.ints_ok (JObj o') = true ->
  Roundtrip.jdepth (JObj o) < 128 -> Roundtrip.jdepth (JObj o') < 128 ->
  remove_keys ks o <> remove_keys ks o' ->
  canonical_without ks o <> canonical_without ks o'.
Proof.
  intros W W' I I' D D' Hne E. apply Hne. unfold canonical_without in E.
  pose proof (remove_keys_wf ks) as Hwf. pose proof (remove_keys_sub ks) as Hsub.
  assert (Hints : forall x, Roundtrip.ints_ok (JObj x) = true -> Roundtrip.ints_ok (JObj (remove_keys ks x)) = true).
  { intros x Hx. cbn [Roundtrip.ints_ok] in *. rewrite forallb_forall in *. intros [k v] Hin. apply Hx. eapply Hsub; eauto. }
  assert (Hdep : forall x, Roundtrip.jdepth (JObj x) < 128 -> Roundtrip.jdepth (JObj (remove_keys ks x)) < 128).
  { intros x Hx. cbn [Roundtrip.jdepth] in *.
    assert (Hm : forall (m : list (str * json)) d, (forall kv, In kv m -> Roundtrip.jdepth (snd kv) < d) -> 0 < d ->
                 fold_right (fun kv a => N.max (Roundtrip.jdepth (snd kv)) a) 0 m < d).
    { induction m as [|kv m IHm]; intros d Hd Hpos; cbn [fold_right]; [exact Hpos|].
      apply N.max_lub_lt; [apply Hd; now left|apply IHm; [intros; apply Hd; now right|exact Hpos]]. }
    assert (Hx' : fold_right (fun kv a => N.max (Roundtrip.jdepth (snd kv)) a) 0 x < 127) by lia.
    pose proof (Roundtrip.max_fold_lt (fun kv : str * json => Roundtrip.jdepth (snd kv)) x 127 Hx') as Hf.
    assert (Hlt : fold_right (fun kv a => N.max (Roundtrip.jdepth (snd kv)) a) 0 (remove_keys ks x) < 127).
    { apply Hm; [|reflexivity]. intros [k v] Hin. apply Hsub in Hin. exact (Hf (k, v) Hin). }
    lia. }
  assert (J : JObj (remove_keys ks o) = JObj (remove_keys ks o')).
  { apply Roundtrip.print_injective; auto; try (apply Hwf; assumption). }
  now injection J.
Qed.
