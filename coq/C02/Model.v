(** C02.Model — [ruma_signatures::{sign_json, verify_json}] and the per-entity check
    (functions.rs:96-319), over abstract signing/verification functions.

    [sign_json] mutates its argument; the model returns the outcome together with the
    object as the caller sees it afterwards, so that atomicity is expressible. *)
From Base Require Import Prelude Sx Json JsonText Base64.

Definition k_signatures : str := s!"signatures".
Definition k_unsigned : str := s!"unsigned".
Definition ed25519_prefix : str := s!"ed25519:".

(** canonical JSON for signing: without `signatures` and `unsigned`. *)
Definition strip (o : obj) : obj := remove k_unsigned (remove k_signatures o).
Definition signing_bytes (o : obj) : str := print (JObj (strip o)).

(** [SigningKeyId<AnyKeyName>] parsing as far as verification needs it: the id must contain
    a colon at a non-zero index; the algorithm is the text before the first colon and only
    `ed25519` has a verifier. *)
Fixpoint find_colon (s : str) (i : N) : option N :=
  match s with
  | [] => None
  | b :: r => if b =? 58 then Some i else find_colon r (i + 1)
  end.

Definition supported_key_id (kid : str) : bool :=
  match find_colon kid 0 with
  | Some i => negb (i =? 0) && str_eqb (firstn (N.to_nat i) kid) s!"ed25519"
  | None => false
  end.

Section Sig.
Variable key : Type.
Variable sign : key -> str -> str.          (* KeyPair::sign: the raw signature bytes *)
Variable key_version : key -> str.          (* the key pair's version *)
Variable verify : str -> str -> str -> bool. (* public key, message, signature *)

Definition key_id_of (k : key) : str := ed25519_prefix ++ key_version k.

(** functions.rs:96-143 with the pre-checks of the repaired version: both type errors are
    detected before anything is taken out of the object. *)
Definition sign_json (entity : str) (k : key) (o : obj) : outcome obj * obj :=
  let sigs :=
    match lookup k_signatures o with
    | Some (JObj m) => Ok m
    | Some _ => Err 0
    | None => Ok []
    end in
  match sigs with
  | Err e => (Err e, o)
  | Panic s => (Panic s, o)
  | Ok m =>
      let slot :=
        match lookup entity m with
        | Some (JObj set) => Ok set
        | Some _ => Err 0
        | None => Ok []
        end in
      match slot with
      | Err e => (Err e, o)
      | Panic s => (Panic s, o)
      | Ok set =>
          let sig := b64_encode false (sign k (signing_bytes o)) in
          let set' := insert (key_id_of k) (JStr sig) set in
          let m' := insert entity (JObj set') m in
          let o1 := insert k_signatures (JObj m') (strip o) in
          let o2 := match lookup k_unsigned o with
                    | Some u => insert k_unsigned u o1
                    | None => o1
                    end in
          (Ok o2, o2)
      end
  end.

Definition pkmap := amap (amap str).

(** verify_canonical_json_for_entity (functions.rs:236-296).  All failures are [Err 0]. *)
Fixpoint check_set (pks : amap str) (msg : str) (set : obj) (checked : bool) : outcome bool :=
  match set with
  | [] => Ok checked
  | (kid, sg) :: rest =>
      if supported_key_id kid then
        match lookup kid pks with
        | None => Err 0
        | Some pk =>
            match sg with
            | JStr s =>
                match b64_decode false s with
                | None => Err 0
                | Some raw => if verify pk msg raw then check_set pks msg rest true else Err 0
                end
            | _ => Err 0
            end
        end
      else check_set pks msg rest checked
  end.

Definition verify_entity (pkm : pkmap) (sigmap : obj) (msg : str) (entity : str) : outcome unit :=
  match lookup entity sigmap with
  | Some (JObj set) =>
      match lookup entity pkm with
      | None => Err 0
      | Some pks =>
          match check_set pks msg set false with
          | Ok true => Ok tt
          | Ok false => Err 0
          | Err e => Err e
          | Panic s => Panic s
          end
      end
  | _ => Err 0
  end.

Fixpoint verify_all (pkm : pkmap) (sigmap : obj) (msg : str) (entities : list str) : outcome unit :=
  match entities with
  | [] => Ok tt
  | e :: rest => match verify_entity pkm sigmap msg e with
                 | Ok _ => verify_all pkm sigmap msg rest
                 | Err x => Err x
                 | Panic s => Panic s
                 end
  end.

Definition verify_json (pkm : pkmap) (o : obj) : outcome unit :=
  match lookup k_signatures o with
  | Some (JObj sigmap) => verify_all pkm sigmap (signing_bytes o) (keys sigmap)
  | _ => Err 0
  end.
End Sig.
