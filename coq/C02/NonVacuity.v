(** C02.NonVacuity — the hypotheses of the C02 theorems can be met: a (toy, insecure) signature
    scheme satisfies [verify_sign] and [sign_bytes], and on concrete objects signing, verifying,
    tampering and the `unsigned` exemption all behave as the theorems say. *)
From Base Require Import Prelude Sx Json JsonText Base64.
From C02 Require Import Model Proofs.
From C05 Require Import Proofs.
From C01 Require Roundtrip.

(** key = its own public key; the signature is the key followed by the message, bytewise mod 256. *)
Definition toy_sign (k m : str) : str := map (fun b => b mod 256) (k ++ m).
Definition toy_pk (k : str) : str := k.
Definition toy_verify (p m s : str) : bool := str_eqb s (toy_sign p m).
Definition toy_version (_ : str) : str := s!"1".

Lemma toy_verify_sign : forall k m, toy_verify (toy_pk k) m (toy_sign k m) = true.
Proof. intros k m. unfold toy_verify, toy_pk. apply str_eqb_refl. Qed.

Lemma toy_sign_bytes : forall k m, bytes_ok (toy_sign k m).
Proof.
  intros k m. unfold bytes_ok, toy_sign. apply Forall_forall. intros x Hx.
  apply in_map_iff in Hx as (b & <- & _). apply N.mod_lt. discriminate.
Qed.

Definition o0 : obj :=
  insert s!"unsigned" (JObj [(s!"age", JInt 5)])
    (insert s!"b" (JArr [JInt 1; JStr s!"x"; JNull]) (insert s!"a" (JInt 1) [])).

Definition ka : str := s!"key-of-a".
Definition kb : str := s!"key-of-b".
Definition pkm_ab : pkmap := insert s!"a.org" [(s!"ed25519:1", ka)] (insert s!"b.org" [(s!"ed25519:1", kb)] []).
Definition pkm_a : pkmap := [(s!"a.org", [(s!"ed25519:1", ka)])].

Definition signed_by (e k : str) (o : obj) : obj :=
  match sign_json str toy_sign toy_version e k o with (Ok o', _) => o' | _ => [] end.

Definition oa := signed_by s!"a.org" ka o0.
Definition oab := signed_by s!"b.org" kb oa.

Example o0_meets_the_hypotheses :
  sorted o0 /\ wf_obj oab /\ C01.Roundtrip.ints_ok (JObj oab) = true /\ (C01.Roundtrip.jdepth (JObj oab) < 128)%N.
Proof. split; [apply sortedb_sorted; vm_compute; reflexivity|]. repeat split; vm_compute; reflexivity. Qed.

(** one signer, then a second one on top: both verify with the matching keys *)
Example sign_then_verify_twice :
  verify_json toy_verify pkm_a oa = Ok tt /\ verify_json toy_verify pkm_ab oab = Ok tt.
Proof. split; vm_compute; reflexivity. Qed.

(** every entity named in `signatures` needs keys: b.org's signature cannot be checked with a's keys alone *)
Example every_named_entity_is_checked : verify_json toy_verify pkm_a oab = Err 0.
Proof. vm_compute. reflexivity. Qed.

(** a change to signed content fails; a change to `unsigned` does not *)
Example tamper_fails_unsigned_does_not :
  verify_json toy_verify pkm_ab (insert s!"a" (JInt 2) oab) = Err 0 /\
  verify_json toy_verify pkm_ab (insert s!"unsigned" (JStr s!"anything") oab) = Ok tt /\
  verify_json toy_verify pkm_ab (remove s!"unsigned" oab) = Ok tt /\
  strip (insert s!"a" (JInt 2) oab) <> strip oab.
Proof. repeat split; vm_compute; try reflexivity. discriminate. Qed.

(** a wrong key, a truncated signature, an object without signatures *)
Example other_failures :
  verify_json toy_verify (insert s!"a.org" [(s!"ed25519:1", kb)] pkm_ab) oab = Err 0 /\
  verify_json toy_verify pkm_ab o0 = Err 0 /\
  verify_json toy_verify pkm_ab (insert s!"signatures" (JObj [(s!"a.org", JObj [(s!"ed25519:1", JStr s!"AAAA")])]) o0) = Err 0.
Proof. repeat split; vm_compute; reflexivity. Qed.

(** the error branch of signing (signatures not an object) leaves the object alone *)
Example sign_error_branch :
  sign_json str toy_sign toy_version s!"a.org" ka (insert s!"signatures" (JInt 1) o0)
  = (Err 0, insert s!"signatures" (JInt 1) o0).
Proof. vm_compute. reflexivity. Qed.
