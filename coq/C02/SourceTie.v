(** C02.SourceTie — verify_json rebuilds the signed bytes through ruma_signatures::canonical_json:
    its table and the absence of a size limit are read from the source on every run. *)
From Base Require Import Prelude Json.
From Gen Require Import SigConsts.
From C02 Require Import Model.

Lemma source_constants :
  src_canonical_json_fields = [k_signatures; k_unsigned] /\
  src_canonical_json_size_checked = false /\
  src_helper_size_checked = false.
Proof. repeat split; vm_compute; reflexivity. Qed.
