(** C02.Properties — the theorems that decide C02, and nothing else.  Ed25519 enters only
    through the parameters [sign], [verify], [pk] and the hypotheses [verify_sign] (signing
    then verifying with the matching public key succeeds) and [sign_bytes]. *)
From Base Require Import Prelude Sx Json JsonText Base64.
From C02 Require Import Model Proofs SourceTie.
From Gen Require Import SigConsts.
From C05 Require Import Proofs.
From C01 Require Roundtrip.

(** A signing call that reports an error leaves the object as it was. *)
Theorem C02_sign_error_atomic :
  forall key sign key_version e k o r o2,
  sign_json key sign key_version e k o = (r, o2) -> (forall x, r <> Ok x) -> o2 = o.
Proof. exact sign_error_atomic. Qed.
Eval compute in "PA:C02_sign_error_atomic"%string.
Print Assumptions C02_sign_error_atomic.

(** On success: signatures[entity]["ed25519:"version] holds the unpadded standard base64 of
    the signature over the canonical JSON without signatures/unsigned; every other signature,
    `unsigned` and every other member are intact; the signing bytes are unchanged. *)
Theorem C02_sign_layout :
  forall key sign key_version e k o o' o2,
  sorted o -> sign_json key sign key_version e k o = (Ok o', o2) ->
  o2 = o' /\
  lookup k_signatures o' = Some (JObj (new_sigmap key sign key_version e k o)) /\
  lookup k_unsigned o' = lookup k_unsigned o /\
  (forall x, x <> k_signatures -> x <> k_unsigned -> lookup x o' = lookup x o) /\
  signing_bytes o' = signing_bytes o.
Proof. exact sign_layout. Qed.
Eval compute in "PA:C02_sign_layout"%string.
Print Assumptions C02_sign_layout.

(** Signing and then verifying with the matching public key succeeds, also on top of earlier
    signatures by other entities (which must themselves verify) — by induction this covers any
    sequence of signing calls. *)
Theorem C02_sign_then_verify :
  forall key sign key_version verify pk,
  (forall k m, verify (pk k) m (sign k m) = true) -> (forall k m, bytes_ok (sign k m)) ->
  forall e k o o' o2 pkm pks,
  sorted o -> sorted (sigs_of o) -> sorted (set_of e (sigs_of o)) ->
  sign_json key sign key_version e k o = (Ok o', o2) ->
  lookup e pkm = Some pks -> lookup (key_id_of key key_version k) pks = Some (pk k) ->
  forallb (entry_ok verify pks (signing_bytes o))
          (remove (key_id_of key key_version k) (set_of e (sigs_of o))) = true ->
  (forall e', In e' (keys (sigs_of o)) -> e' <> e ->
              entity_ok verify pkm (sigs_of o) (signing_bytes o) e' = true) ->
  verify_json verify pkm o' = Ok tt.
Proof. exact sign_then_verify. Qed.
Eval compute in "PA:C02_sign_then_verify"%string.
Print Assumptions C02_sign_then_verify.

(** Verification succeeds exactly when every entity named in `signatures` has at least one
    supported (ed25519) signature and all of its supported signatures verify, under the supplied
    keys, over the object's current signing bytes. *)
Theorem C02_verify_json_spec :
  forall verify pkm o,
  verify_json verify pkm o =
  match lookup k_signatures o with
  | Some (JObj sigmap) =>
      if forallb (entity_ok verify pkm sigmap (signing_bytes o)) (keys sigmap) then Ok tt else Err 0
  | _ => Err 0
  end.
Proof. exact verify_json_spec. Qed.
Eval compute in "PA:C02_verify_json_spec"%string.
Print Assumptions C02_verify_json_spec.

Theorem C02_verify_sound :
  forall verify pkm o,
  verify_json verify pkm o = Ok tt ->
  exists sigmap, lookup k_signatures o = Some (JObj sigmap) /\
  forall e, In e (keys sigmap) ->
    exists set pks, lookup e sigmap = Some (JObj set) /\ lookup e pkm = Some pks /\
      (exists kid s raw p, In (kid, JStr s) set /\ supported_key_id kid = true /\
          lookup kid pks = Some p /\ b64_decode false s = Some raw /\
          verify p (signing_bytes o) raw = true) /\
      (forall kid sg, In (kid, sg) set -> supported_key_id kid = true ->
          exists s raw p, sg = JStr s /\ lookup kid pks = Some p /\ b64_decode false s = Some raw /\
            verify p (signing_bytes o) raw = true).
Proof. exact verify_sound. Qed.
Eval compute in "PA:C02_verify_sound"%string.
Print Assumptions C02_verify_sound.

(** The verdict is a function of `signatures`, the key map and the signing bytes only; in
    particular `unsigned` never matters. *)
Theorem C02_verify_depends_only_on_signed_content :
  forall verify pkm o1 o2,
  lookup k_signatures o1 = lookup k_signatures o2 -> signing_bytes o1 = signing_bytes o2 ->
  verify_json verify pkm o1 = verify_json verify pkm o2.
Proof. exact verify_depends_only_on_signed_content. Qed.
Eval compute in "PA:C02_verify_depends_only_on_signed_content"%string.
Print Assumptions C02_verify_depends_only_on_signed_content.

Theorem C02_verify_ignores_unsigned :
  forall verify pkm o u, sorted o ->
  verify_json verify pkm (insert k_unsigned u o) = verify_json verify pkm o /\
  verify_json verify pkm (remove k_unsigned o) = verify_json verify pkm o.
Proof. exact verify_ignores_unsigned. Qed.
Eval compute in "PA:C02_verify_ignores_unsigned"%string.
Print Assumptions C02_verify_ignores_unsigned.

(** With ideal signatures (whatever verifies was honestly signed), a change to the signed
    content makes verification fail; changes confined to `unsigned` do not (above). *)
Theorem C02_tamper_detected :
  forall verify (Signed : str -> str -> str -> Prop),
  (forall p m s, verify p m s = true -> Signed p m s) ->
  forall pkm o o' sigmap e,
  wf_obj o -> wf_obj o' ->
  C01.Roundtrip.ints_ok (JObj o) = true -> C01.Roundtrip.ints_ok (JObj o') = true ->
  C01.Roundtrip.jdepth (JObj o) < 128 -> C01.Roundtrip.jdepth (JObj o') < 128 ->
  (forall p m s, Signed p m s -> m = signing_bytes o) ->
  strip o' <> strip o ->
  lookup k_signatures o' = Some (JObj sigmap) -> In e (keys sigmap) ->
  verify_json verify pkm o' = Err 0.
Proof. exact tamper_detected. Qed.
Eval compute in "PA:C02_tamper_detected"%string.
Print Assumptions C02_tamper_detected.

(** The signed bytes leave out exactly `signatures` and `unsigned`, and verification has no size
    limit of its own: read from functions.rs on every run. *)
Theorem C02_signing_bytes_constants_are_the_sources :
  src_canonical_json_fields = [k_signatures; k_unsigned] /\
  src_canonical_json_size_checked = false /\
  src_helper_size_checked = false.
Proof. exact SourceTie.source_constants. Qed.
Eval compute in "PA:C02_signing_bytes_constants_are_the_sources"%string.
Print Assumptions C02_signing_bytes_constants_are_the_sources.
