(** C02.Proofs *)
From Base Require Import Prelude Sx Json JsonText Base64.
From C02 Require Import Model.
From C05 Require Import Proofs.
From C01 Require Roundtrip.

Lemma k_sig_neq_unsigned : k_signatures <> k_unsigned.
Proof. discriminate. Qed.

Definition sigs_of (o : obj) : obj :=
  match lookup k_signatures o with Some (JObj m) => m | _ => [] end.
Definition set_of (e : str) (m : obj) : obj :=
  match lookup e m with Some (JObj s) => s | _ => [] end.

Lemma strip_sorted o : sorted o -> sorted (strip o).
Proof. intros H. unfold strip. now apply sorted_remove, sorted_remove. Qed.

Lemma lookup_strip o k : sorted o ->
  lookup k (strip o) = if str_eqb k k_unsigned || str_eqb k k_signatures then None else lookup k o.
Proof.
  intros Hs. unfold strip. rewrite lookup_remove by (apply sorted_remove, Hs).
  destruct (str_eqb k k_unsigned); cbn [orb]; [reflexivity|]. now rewrite lookup_remove.
Qed.

Lemma strip_ext o1 o2 : sorted o1 -> sorted o2 ->
  (forall k, k <> k_unsigned -> k <> k_signatures -> lookup k o1 = lookup k o2) ->
  strip o1 = strip o2.
Proof.
  intros H1 H2 H. apply sorted_ext; try now apply strip_sorted.
  intros k. rewrite !lookup_strip by assumption.
  dse k k_unsigned; cbn [orb]; [reflexivity|]. dse k k_signatures; cbn [orb]; [reflexivity|]. now apply H.
Qed.

Lemma remove_none {A} k (m : amap A) : lookup k m = None -> remove k m = m.
Proof.
  induction m as [|[k2 v2] m IH]; cbn [lookup remove]; [reflexivity|].
  destruct (str_eqb k k2); [discriminate|]. intros H. now rewrite IH.
Qed.

Lemma remove_lt {A} k k2 (m : amap A) : str_ltb k k2 = true -> all_gt k2 m -> remove k m = m.
Proof.
  intros Hlt G. apply remove_none, lookup_all_gt. intros k' v' Hin.
  eapply str_ltb_trans; [exact Hlt|eauto].
Qed.

Lemma forallb_insert {A} (f : str * A -> bool) k v (m : amap A) :
  sorted m -> forallb f (insert k v m) = f (k, v) && forallb f (remove k m).
Proof.
  induction m as [|[k2 v2] m IH]; cbn [insert remove forallb sorted]; [reflexivity|].
  intros [G S]. destruct (str_ltb k k2) eqn:Elt.
  - cbn [forallb]. dse k k2; [now rewrite str_ltb_irrefl in Elt|].
    cbn [forallb]. now rewrite (remove_lt _ _ _ Elt G).
  - dse k k2; cbn [forallb]; [reflexivity|]. rewrite (IH S).
    destruct (f (k2, v2)), (f (k, v)); reflexivity.
Qed.

Lemma existsb_insert {A} (f : str * A -> bool) k v (m : amap A) :
  sorted m -> existsb f (insert k v m) = f (k, v) || existsb f (remove k m).
Proof.
  induction m as [|[k2 v2] m IH]; cbn [insert remove existsb sorted]; [reflexivity|].
  intros [G S]. destruct (str_ltb k k2) eqn:Elt.
  - cbn [existsb]. dse k k2; [now rewrite str_ltb_irrefl in Elt|].
    cbn [existsb]. now rewrite (remove_lt _ _ _ Elt G).
  - dse k k2; cbn [existsb]; [reflexivity|]. rewrite (IH S).
    destruct (f (k2, v2)), (f (k, v)); reflexivity.
Qed.

Section Sig.
Variable key : Type.
Variable sign : key -> str -> str.
Variable key_version : key -> str.
Variable verify : str -> str -> str -> bool.
Variable pk : key -> str.
Hypothesis verify_sign : forall k m, verify (pk k) m (sign k m) = true.
Hypothesis sign_bytes : forall k m, bytes_ok (sign k m).

Notation sign_json := (sign_json key sign key_version).
Notation verify_json := (verify_json verify).
Notation verify_entity := (verify_entity verify).
Notation check_set := (check_set verify).
Notation key_id_of := (key_id_of key key_version).

(** * Signing *)
Theorem sign_error_atomic e k o r o2 :
  sign_json e k o = (r, o2) -> (forall x, r <> Ok x) -> o2 = o.
Proof.
  unfold Model.sign_json. intros H Hr.
  destruct (lookup k_signatures o) as [[| | | | |m]|];
    try (injection H as <- <-; reflexivity);
    destruct (lookup e _) as [[| | | | |set]|]; injection H as <- <-;
    try reflexivity; exfalso; eapply Hr; reflexivity.
Qed.

Definition new_sig (k : key) (o : obj) : json := JStr (b64_encode false (sign k (signing_bytes o))).
Definition new_sigmap (e : str) (k : key) (o : obj) : obj :=
  insert e (JObj (insert (key_id_of k) (new_sig k o) (set_of e (sigs_of o)))) (sigs_of o).

Theorem sign_layout e k o o' o2 :
  sorted o -> sign_json e k o = (Ok o', o2) ->
  o2 = o' /\
  lookup k_signatures o' = Some (JObj (new_sigmap e k o)) /\
  lookup k_unsigned o' = lookup k_unsigned o /\
  (forall x, x <> k_signatures -> x <> k_unsigned -> lookup x o' = lookup x o) /\
  signing_bytes o' = signing_bytes o.
Proof.
  intros Hs H. unfold Model.sign_json in H.
  assert (Hgen : forall m set,
      sigs_of o = m -> set_of e m = set ->
      let o1 := insert k_signatures (JObj (insert e (JObj (insert (key_id_of k) (new_sig k o) set)) m)) (strip o) in
      let o2' := match lookup k_unsigned o with Some u => insert k_unsigned u o1 | None => o1 end in
      (Ok o2', o2') = (Ok o', o2) ->
      o2 = o' /\ lookup k_signatures o' = Some (JObj (new_sigmap e k o)) /\
      lookup k_unsigned o' = lookup k_unsigned o /\
      (forall x, x <> k_signatures -> x <> k_unsigned -> lookup x o' = lookup x o) /\
      signing_bytes o' = signing_bytes o).
  { intros m set Em Eset o1 o2' E. injection E as <- <-. subst o2'.
    pose proof (strip_sorted _ Hs) as Hss.
    assert (Hs1 : sorted o1) by (apply sorted_insert, Hss).
    assert (L1 : forall x, lookup x o1 = if str_eqb x k_signatures then Some (JObj (new_sigmap e k o))
                                         else lookup x (strip o)).
    { intros x. unfold o1. rewrite lookup_insert. unfold new_sigmap. now rewrite Em, Eset. }
    destruct (lookup k_unsigned o) as [u|] eqn:Eu.
    - assert (Hs2 : sorted (insert k_unsigned u o1)) by (apply sorted_insert, Hs1).
      split; [reflexivity|]. split; [|split; [|split]].
      + rewrite lookup_insert, L1. reflexivity.
      + rewrite lookup_insert, str_eqb_refl. reflexivity.
      + intros x Hx1 Hx2. rewrite lookup_insert, L1, lookup_strip by exact Hs.
        dse x k_unsigned; [congruence|]. dse x k_signatures; [congruence|]. reflexivity.
      + unfold signing_bytes. f_equal. f_equal. apply strip_ext; [exact Hs2|exact Hs|].
        intros x Hx1 Hx2. rewrite lookup_insert, L1, lookup_strip by exact Hs.
        dse x k_unsigned; [congruence|]. dse x k_signatures; [congruence|]. reflexivity.
    - split; [reflexivity|]. split; [|split; [|split]].
      + rewrite L1. reflexivity.
      + rewrite L1, lookup_strip by exact Hs. cbn. reflexivity.
      + intros x Hx1 Hx2. rewrite L1, lookup_strip by exact Hs.
        dse x k_signatures; [congruence|]. dse x k_unsigned; [congruence|]. reflexivity.
      + unfold signing_bytes. f_equal. f_equal. apply strip_ext; [exact Hs1|exact Hs|].
        intros x Hx1 Hx2. rewrite L1, lookup_strip by exact Hs.
        dse x k_signatures; [congruence|]. dse x k_unsigned; [congruence|]. reflexivity. }
  unfold sigs_of, set_of in Hgen.
  destruct (lookup k_signatures o) as [[| | | | |m]|] eqn:Esig; try discriminate.
  - destruct (lookup e m) as [[| | | | |set]|] eqn:Ee; try discriminate.
    + apply (Hgen m set eq_refl); [now rewrite Ee|exact H].
    + apply (Hgen m [] eq_refl); [now rewrite Ee|exact H].
  - cbn [lookup] in H. apply (Hgen [] [] eq_refl eq_refl). exact H.
Qed.

(** * Verification *)
Definition entry_ok (pks : amap str) (msg : str) (kv : str * json) : bool :=
  if supported_key_id (fst kv) then
    match lookup (fst kv) pks, snd kv with
    | Some p, JStr s => match b64_decode false s with
                        | Some raw => verify p msg raw
                        | None => false
                        end
    | _, _ => false
    end
  else true.

Lemma check_set_spec pks msg set : forall c,
  check_set pks msg set c =
  if forallb (entry_ok pks msg) set
  then Ok (c || existsb (fun kv => supported_key_id (fst kv)) set)
  else Err 0.
Proof.
  induction set as [|[kid sg] set IH]; intros c; cbn [Model.check_set forallb existsb fst snd].
  - now rewrite orb_false_r.
  - unfold entry_ok at 1. cbn [fst snd]. destruct (supported_key_id kid); cbn [orb andb].
    + destruct (lookup kid pks) as [p|]; [|reflexivity].
      destruct sg; try reflexivity. destruct (b64_decode false s) as [raw|]; [|reflexivity].
      destruct (verify p msg raw); [|reflexivity]. rewrite IH. cbn [andb].
      destruct (forallb _ set); [|reflexivity]. now rewrite orb_true_r.
    + apply IH.
Qed.

Definition entity_ok (pkm : pkmap) (sigmap : obj) (msg : str) (e : str) : bool :=
  match lookup e sigmap, lookup e pkm with
  | Some (JObj set), Some pks =>
      forallb (entry_ok pks msg) set && existsb (fun kv => supported_key_id (fst kv)) set
  | _, _ => false
  end.

Lemma verify_entity_spec pkm sigmap msg e :
  verify_entity pkm sigmap msg e = if entity_ok pkm sigmap msg e then Ok tt else Err 0.
Proof.
  unfold Model.verify_entity, entity_ok.
  destruct (lookup e sigmap) as [[| | | | |set]|]; try reflexivity.
  destruct (lookup e pkm) as [pks|]; [|reflexivity].
  rewrite check_set_spec. cbn [orb].
  destruct (forallb _ set); cbn [andb]; [|reflexivity]. destruct (existsb _ set); reflexivity.
Qed.

Lemma verify_all_spec pkm sigmap msg es :
  verify_all verify pkm sigmap msg es = if forallb (entity_ok pkm sigmap msg) es then Ok tt else Err 0.
Proof.
  induction es as [|e es IH]; cbn [verify_all forallb]; [reflexivity|].
  rewrite verify_entity_spec. destruct (entity_ok pkm sigmap msg e); cbn [andb]; [exact IH|reflexivity].
Qed.

(** verify_json = Ok exactly when every entity named in `signatures` has at least one
    supported signature and all its supported signatures verify over the signing bytes. *)
Theorem verify_json_spec pkm o :
  verify_json pkm o =
  match lookup k_signatures o with
  | Some (JObj sigmap) =>
      if forallb (entity_ok pkm sigmap (signing_bytes o)) (keys sigmap) then Ok tt else Err 0
  | _ => Err 0
  end.
Proof.
  unfold Model.verify_json. destruct (lookup k_signatures o) as [[| | | | |m]|]; try reflexivity.
  apply verify_all_spec.
Qed.

Theorem verify_sound pkm o :
  verify_json pkm o = Ok tt ->
  exists sigmap, lookup k_signatures o = Some (JObj sigmap) /\
  forall e, In e (keys sigmap) ->
    exists set pks, lookup e sigmap = Some (JObj set) /\ lookup e pkm = Some pks /\
      (exists kid s raw p, In (kid, JStr s) set /\ supported_key_id kid = true /\
          lookup kid pks = Some p /\ b64_decode false s = Some raw /\
          verify p (signing_bytes o) raw = true) /\
      (forall kid sg, In (kid, sg) set -> supported_key_id kid = true ->
          exists s raw p, sg = JStr s /\ lookup kid pks = Some p /\ b64_decode false s = Some raw /\
            verify p (signing_bytes o) raw = true).
Proof.
  rewrite verify_json_spec.
  destruct (lookup k_signatures o) as [[| | | | |sigmap]|]; try discriminate.
  destruct (forallb _ (keys sigmap)) eqn:Hall; [|discriminate]. intros _.
  exists sigmap. split; [reflexivity|]. intros e He.
  rewrite forallb_forall in Hall. specialize (Hall e He). unfold entity_ok in Hall.
  destruct (lookup e sigmap) as [[| | | | |set]|]; try discriminate.
  destruct (lookup e pkm) as [pks|]; [|discriminate].
  apply andb_true_iff in Hall as [Hf Hex]. exists set, pks. repeat split.
  - apply existsb_exists in Hex as [[kid sg] [Hin Hsup]]. cbn [fst] in Hsup.
    rewrite forallb_forall in Hf. specialize (Hf _ Hin). unfold entry_ok in Hf. cbn [fst snd] in Hf.
    rewrite Hsup in Hf. destruct (lookup kid pks) as [p|] eqn:Ep; [|discriminate].
    destruct sg; try discriminate. destruct (b64_decode false s) as [raw|] eqn:Ed; [|discriminate].
    exists kid, s, raw, p. repeat split; assumption.
  - intros kid sg Hin Hsup. rewrite forallb_forall in Hf. specialize (Hf _ Hin).
    unfold entry_ok in Hf. cbn [fst snd] in Hf. rewrite Hsup in Hf.
    destruct (lookup kid pks) as [p|] eqn:Ep; [|discriminate]. destruct sg; try discriminate.
    destruct (b64_decode false s) as [raw|] eqn:Ed; [|discriminate]. exists s, raw, p.
    repeat split; try reflexivity; assumption.
Qed.

(** The verdict depends only on `signatures`, the key map and the signing bytes. *)
Theorem verify_depends_only_on_signed_content pkm o1 o2 :
  lookup k_signatures o1 = lookup k_signatures o2 -> signing_bytes o1 = signing_bytes o2 ->
  verify_json pkm o1 = verify_json pkm o2.
Proof. intros H1 H2. rewrite !verify_json_spec, H1, H2. reflexivity. Qed.

Theorem verify_ignores_unsigned pkm o u :
  sorted o -> verify_json pkm (insert k_unsigned u o) = verify_json pkm o /\
              verify_json pkm (remove k_unsigned o) = verify_json pkm o.
Proof.
  intros Hs. split; apply verify_depends_only_on_signed_content.
  - rewrite lookup_insert. reflexivity.
  - unfold signing_bytes. f_equal. f_equal. apply strip_ext; [apply sorted_insert, Hs|exact Hs|].
    intros k H1 H2. rewrite lookup_insert. dse k k_unsigned; [congruence|reflexivity].
  - rewrite lookup_remove by exact Hs. reflexivity.
  - unfold signing_bytes. f_equal. f_equal. apply strip_ext; [apply sorted_remove, Hs|exact Hs|].
    intros k H1 H2. rewrite lookup_remove by exact Hs. dse k k_unsigned; [congruence|reflexivity].
Qed.

(** * Sign, then verify *)
Lemma find_colon_prefix (p : str) : forall i,
  (forall b, In b p -> b <> 58) -> forall r, find_colon (p ++ 58 :: r) i = Some (i + N.of_nat (List.length p)).
Proof.
  induction p as [|b p IH]; intros i Hp r; cbn [app find_colon List.length].
  - rewrite N.eqb_refl. f_equal. lia.
  - destruct (N.eqb_spec b 58) as [E|_]; [exfalso; eapply Hp; [left; reflexivity|exact E]|].
    rewrite IH by (intros; apply Hp; now right). f_equal. lia.
Qed.

Lemma key_id_supported k : supported_key_id (key_id_of k) = true.
Proof. unfold supported_key_id, Model.key_id_of. vm_compute. reflexivity. Qed.

Theorem sign_then_verify e k o o' o2 pkm pks :
  sorted o -> sorted (sigs_of o) -> sorted (set_of e (sigs_of o)) ->
  sign_json e k o = (Ok o', o2) ->
  lookup e pkm = Some pks -> lookup (key_id_of k) pks = Some (pk k) ->
  (* the entity's other supported signatures verify, and so do the other entities *)
  forallb (entry_ok pks (signing_bytes o)) (remove (key_id_of k) (set_of e (sigs_of o))) = true ->
  (forall e', In e' (keys (sigs_of o)) -> e' <> e -> entity_ok pkm (sigs_of o) (signing_bytes o) e' = true) ->
  verify_json pkm o' = Ok tt.
Proof.
  intros Hs Hsm Hsset H Hpks Hpk Hrest Hothers.
  destruct (sign_layout e k o o' o2 Hs H) as (_ & Lsig & _ & _ & Lbytes).
  rewrite verify_json_spec, Lsig, Lbytes.
  assert (Hall : forallb (entity_ok pkm (new_sigmap e k o) (signing_bytes o)) (keys (new_sigmap e k o)) = true).
  { apply forallb_forall. intros e' He'. unfold entity_ok, new_sigmap. rewrite lookup_insert.
    dse e' e.
    - rewrite Hpks. rewrite forallb_insert, existsb_insert by exact Hsset.
      cbn [fst]. rewrite key_id_supported. cbn [orb]. rewrite andb_true_r. rewrite Hrest, andb_true_r.
      unfold entry_ok. cbn [fst snd]. rewrite key_id_supported, Hpk. unfold new_sig.
      rewrite b64_roundtrip by apply sign_bytes. apply verify_sign.
    - assert (Hin : In e' (keys (sigs_of o))).
      { unfold keys, new_sigmap in He'. apply in_map_iff in He' as [[k2 v2] [<- Hin]]. cbn [fst] in *.
        apply In_insert in Hin as [[-> _]|Hin]; [congruence|]. apply (in_map fst) in Hin. exact Hin. }
      specialize (Hothers e' Hin Hne). unfold entity_ok in Hothers. exact Hothers. }
  now rewrite Hall.
Qed.

(** * Tampering is detected (ideal signatures). *)
Variable Signed : str -> str -> str -> Prop.   (* (public key, message, signature) triples honestly produced *)
Hypothesis ideal : forall p m s, verify p m s = true -> Signed p m s.

Theorem verified_content_was_signed pkm o :
  verify_json pkm o = Ok tt ->
  forall sigmap e, lookup k_signatures o = Some (JObj sigmap) -> In e (keys sigmap) ->
  exists p raw, Signed p (signing_bytes o) raw.
Proof.
  intros Hv sigmap e Hl He. destruct (verify_sound pkm o Hv) as (sm & Hl' & Hall).
  rewrite Hl in Hl'. injection Hl' as <-.
  destruct (Hall e He) as (set & pks & _ & _ & (kid & s0 & raw & p & _ & _ & _ & _ & Hver) & _).
  exists p, raw. apply ideal, Hver.
Qed.

(** If the only message ever signed is the signing bytes of [o], an object whose signed
    content differs from [o]'s and that names at least one entity cannot verify. *)
Theorem tamper_detected pkm o o' sigmap e :
  wf_obj o -> wf_obj o' ->
  C01.Roundtrip.ints_ok (JObj o) = true -> C01.Roundtrip.ints_ok (JObj o') = true ->
  C01.Roundtrip.jdepth (JObj o) < 128 -> C01.Roundtrip.jdepth (JObj o') < 128 ->
  (forall p m s, Signed p m s -> m = signing_bytes o) ->
  strip o' <> strip o ->
  lookup k_signatures o' = Some (JObj sigmap) -> In e (keys sigmap) ->
  verify_json pkm o' = Err 0.
Proof.
  intros W W' I I' D D' Honly Hne Hl He.
  destruct (verify_json pkm o') as [[]| |] eqn:Ev.
  - exfalso. destruct (verified_content_was_signed pkm o' Ev sigmap e Hl He) as (p & raw & Hs).
    apply Honly in Hs.
    apply (covered_change_changes_preimage [k_signatures; k_unsigned] o' o W' W I' I D' D); [exact Hne|exact Hs].
  - rewrite verify_json_spec in Ev. destruct (lookup k_signatures o') as [[| | | | |m]|]; try (injection Ev as <-; reflexivity).
    destruct (forallb _ _); [discriminate|injection Ev as <-; reflexivity].
  - rewrite verify_json_spec in Ev. destruct (lookup k_signatures o') as [[| | | | |m]|]; try discriminate.
    destruct (forallb _ _); discriminate.
Qed.
End Sig.
