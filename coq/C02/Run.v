(** C02.Run — cases:
    ( 0 obj ( (entity key-index version) ... ) table )   sign in sequence
        outcome = ( status final-object )   status 0 = all Ok, 1 = a call failed
    ( 1 obj pkmap table expect-ok )                       verify_json
        outcome = ok () | err 0
    [table] lists the honest (key, message, signature) triples the harness produced:
    for op 0 key = key index, for op 1 key = public key bytes. *)
From Base Require Import Prelude Sx Json JsonText Base64.
From C02 Require Import Model.

Definition triple := (sx * str * str)%type.

Definition as_triple (x : sx) : option triple :=
  match x with SL [k; SS m; SS s] => Some (k, m, s) | _ => None end.

Fixpoint sx_eqb (a b : sx) : bool :=
  match a, b with
  | SN x, SN y => (x =? y)%Z
  | SS x, SS y => str_eqb x y
  | SL x, SL y =>
      (fix go (x y : list sx) : bool :=
         match x, y with
         | [], [] => true
         | a :: x', b :: y' => sx_eqb a b && go x' y'
         | _, _ => false
         end) x y
  | _, _ => false
  end.

Fixpoint table_sign (t : list triple) (k : sx) (m : str) : str :=
  match t with
  | [] => []
  | (k', m', s) :: r => if sx_eqb k k' && str_eqb m m' then s else table_sign r k m
  end.

Fixpoint table_verify (t : list triple) (pk m s : str) : bool :=
  match t with
  | [] => false
  | (k', m', s') :: r =>
      (sx_eqb (SS pk) k' && str_eqb m m' && str_eqb s s') || table_verify r pk m s
  end.

(** sign sequence *)
Definition step := (str * N * str)%type.
Definition as_step (x : sx) : option step :=
  match x with SL [SS e; SN i; SS v] => Some (e, Z.to_N i, v) | _ => None end.

Fixpoint sign_seq (t : list triple) (steps : list step) (o : obj) : N * obj :=
  match steps with
  | [] => (0, o)
  | (e, i, v) :: rest =>
      match sign_json N (fun k m => table_sign t (SN (Z.of_N k)) m) (fun _ => v) e i o with
      | (Ok _, o') => sign_seq t rest o'
      | (_, o') => (1, o')
      end
  end.

Definition build_map {A} (l : list (str * A)) : amap A :=
  fold_left (fun acc kv => insert (fst kv) (snd kv) acc) l [].

Definition as_pk_entry (kv : sx) : option (str * str) :=
  match kv with SL [SS kid; SS pk] => Some (kid, pk) | _ => None end.

Definition as_pk_entity (e : sx) : option (str * amap str) :=
  match e with
  | SL [SS ent; ks] => option_map (fun l => (ent, build_map l)) (as_list_of as_pk_entry ks)
  | _ => None
  end.

Definition as_pkmap (x : sx) : option pkmap :=
  option_map build_map (as_list_of as_pk_entity x).

(** The spec predicates, evaluated on the implementation's outcome.
    Signing: on success the object differs from the input only in `signatures[entity][id]`,
    which holds the unpadded standard base64 of the recorded signature over the recorded
    message = canonical JSON without signatures/unsigned; on failure the object is unchanged.
    Verification: Ok implies every entity in `signatures` has a supported signature recorded as
    honest for the current signing bytes under a supplied key; and an untampered freshly signed
    object with complete keys must verify. *)
Definition entity_has_honest_sig (t : list triple) (pkm : pkmap) (sigmap : obj) (msg : str) (e : str) : bool :=
  match lookup e sigmap, lookup e pkm with
  | Some (JObj set), Some pks =>
      let honest (kv : str * json) :=
        match snd kv, lookup (fst kv) pks with
        | JStr s, Some pk =>
            match b64_decode false s with
            | Some raw => table_verify t pk msg raw
            | None => false
            end
        | _, _ => false
        end in
      (* at least one supported signature, and EVERY supported signature of the entity is honest (a bad
         second signature next to a good first one must not pass: seed4 C02-2) *)
      existsb (fun kv => supported_key_id (fst kv) && honest kv) set
      && forallb (fun kv => negb (supported_key_id (fst kv)) || honest kv) set
  | _, _ => false
  end.

Definition verify_spec_ok (t : list triple) (pkm : pkmap) (o : obj) (expect_ok : bool) (impl : sx) : bool :=
  match impl with
  | SL [SN 0; _] =>
      match lookup k_signatures o with
      | Some (JObj sigmap) =>
          forallb (entity_has_honest_sig t pkm sigmap (signing_bytes o)) (keys sigmap)
      | _ => false
      end
  | SL [SN 1; _] => negb expect_ok
  | _ => false
  end.

(** one signing step, judged on the implementation's before/after objects *)
Definition sign_step_ok (t : list triple) (st : step) (before after : obj) (ok : bool) : bool :=
  let '(e, i, v) := st in
  if ok then
    let sig := b64_encode false (table_sign t (SN (Z.of_N i)) (signing_bytes before)) in
    json_eqb (JObj (strip after)) (JObj (strip before)) &&
    json_eqb (match lookup k_unsigned after with Some u => u | None => JNull end)
             (match lookup k_unsigned before with Some u => u | None => JNull end) &&
    match lookup k_signatures after with
    | Some (JObj m') =>
        let m := match lookup k_signatures before with Some (JObj m) => m | _ => [] end in
        match lookup e m' with
        | Some (JObj set') =>
            let set := match lookup e m with Some (JObj s) => s | _ => [] end in
            json_eqb (JObj (remove e m')) (JObj (remove e m)) &&
            json_eqb (JObj (remove (ed25519_prefix ++ v) set')) (JObj (remove (ed25519_prefix ++ v) set)) &&
            json_eqb (match lookup (ed25519_prefix ++ v) set' with Some x => x | None => JNull end) (JStr sig)
        | _ => false
        end
    | _ => false
    end
  else json_eqb (JObj after) (JObj before).

Definition run (x : sx) : sx :=
  match x with
  | SL [SL [SN 0; o; steps; tbl]; impl] =>
      match obj_of_sx o, as_list_of as_step steps, as_list_of as_triple tbl with
      | Some o, Some steps, Some t =>
          let '(st, o') := sign_seq t steps o in
          let ok :=
            match impl, steps with
            | SL [SN s; io], [one] =>
                match obj_of_sx io with
                | Some after => sign_step_ok t one o after (s =? 0)%Z
                | None => false
                end
            | SL [SN _; _], _ => true     (* multi-step sequences: judged by the model diff *)
            | _, _ => false
            end in
          SL [SL [sx_N st; sx_of_json (JObj o')]; sx_bool ok]
      | _, _, _ => sx_bad
      end
  | SL [SL [SN 1; o; pkm; tbl; SN ex]; impl] =>
      match obj_of_sx o, as_pkmap pkm, as_list_of as_triple tbl with
      | Some o, Some pkm, Some t =>
          SL [sx_outcome (fun _ => SL []) (verify_json (table_verify t) pkm o);
              sx_bool (verify_spec_ok t pkm o (negb (ex =? 0)%Z) impl)]
      | _, _, _ => sx_bad
      end
  | _ => sx_bad
  end.
