(** C03.Spec — which servers must have signed an event, per room version number
    (DESIGN.md A.3), and what verification must report. *)
From Base Require Import Prelude Sx Json.

Section Spec.
Variable user_server : str -> option str.
Variable event_server : str -> option str.

Definition content_of (o : obj) : obj :=
  match lookup s!"content" o with Some (JObj c) => c | _ => [] end.
Definition is_type (o : obj) (t : str) : bool :=
  match lookup s!"type" o with Some (JStr ty) => str_eqb ty t | _ => false end.
Definition membership_is (o : obj) (m : str) : bool :=
  match lookup s!"membership" (content_of o) with Some (JStr x) => str_eqb x m | _ => false end.

(** An invite created from a third-party invite. *)
Definition third_party_invite (o : obj) : bool :=
  is_type o s!"m.room.member" && membership_is o s!"invite" &&
  match lookup s!"third_party_invite" (content_of o) with Some _ => true | None => false end.

Definition opt_list {A} (x : option A) : list A := match x with Some a => [a] | None => [] end.

(** The servers the specification requires (as a list; order and duplicates irrelevant). *)
Definition required_servers (v : N) (o : obj) : list str :=
  (if third_party_invite o then []
   else match lookup s!"sender" o with Some (JStr s) => opt_list (user_server s) | _ => [] end)
  ++ (if v <=? 2 then
        match lookup s!"event_id" o with Some (JStr s) => opt_list (event_server s) | _ => [] end
      else [])
  ++ (if (8 <=? v) && is_type o s!"m.room.member" && membership_is o s!"join" then
        match lookup s!"join_authorised_via_users_server" (content_of o) with
        | Some (JStr u) => opt_list (user_server u)
        | _ => []
        end
      else []).

(** ruma additionally demands the authorising user's server whenever the content carries
    `join_authorised_via_users_server`, whatever the event type or membership (from v8). *)
Definition extra_servers (v : N) (o : obj) : list str :=
  if (8 <=? v) && negb (is_type o s!"m.room.member" && membership_is o s!"join") then
    match lookup s!"join_authorised_via_users_server" (content_of o) with
    | Some (JStr u) => opt_list (user_server u)
    | _ => []
    end
  else [].
End Spec.
