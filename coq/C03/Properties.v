(** C03.Properties — the theorems that decide C03, and nothing else. *)
From Base Require Import Prelude Sx Json JsonText Rules Base64.
From Gen Require Import RoomRules.
From C02 Require Import Model Proofs.
From C05 Require Import Proofs.
From C03 Require Import Model Spec Proofs.

(** For every room version 1-11 the servers whose signatures verify_event checks are exactly
    those the specification demands (sender's server unless the event is an invite from a
    third-party invite; the event-id's server in v1-v2; the authorising user's server for
    restricted joins from v8) plus the characterised extra demand. *)
Theorem C03_servers_eq_spec :
  forall user_server event_server v R o l,
  rules_of v = Some R ->
  servers_to_check user_server event_server (signatures R) o = Ok l ->
  forall s, In s l <-> In s (required_servers user_server event_server v o) \/
                       In s (extra_servers user_server v o).
Proof. exact servers_eq_spec. Qed.
Eval compute in "PA:C03_servers_eq_spec"%string.
Print Assumptions C03_servers_eq_spec.

Theorem C03_sig_rules_by_version :
  forall v R, rules_of v = Some R ->
  check_event_id_server (signatures R) = (v <=? 2) /\
  check_join_authorised_via_users_server (signatures R) = (8 <=? v).
Proof. exact sig_rules_by_version. Qed.
Eval compute in "PA:C03_sig_rules_by_version"%string.
Print Assumptions C03_sig_rules_by_version.

(** After an event is hashed and signed (room version 1-11, Ed25519 correct), verifying it
    reports both the signatures and the content hash valid. *)
Theorem C03_signed_event_verifies_all :
  forall user_server event_server H, (forall j, bytes_ok (H j)) ->
  forall key sign key_version verify pk,
  (forall k m, verify (pk k) m (sign k m) = true) -> (forall k m, bytes_ok (sign k m)) ->
  forall v R e k o o' pkm pks,
  rules_of v = Some R -> wf_obj o ->
  hash_and_sign_event H key sign key_version e k o (redaction R) = Ok o' ->
  lookup s!"signatures" o = None ->
  (forall l, servers_to_check user_server event_server (signatures R) o = Ok l -> forall s, In s l -> s = e) ->
  (exists l, servers_to_check user_server event_server (signatures R) o = Ok l) ->
  lookup e pkm = Some pks -> lookup (key_id_of key key_version k) pks = Some (pk k) ->
  verify_event user_server event_server H verify pkm o' R = Ok VAll.
Proof. exact signed_event_verifies_all. Qed.
Eval compute in "PA:C03_signed_event_verifies_all"%string.
Print Assumptions C03_signed_event_verifies_all.
