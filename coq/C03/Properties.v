(** C03.Properties — the theorems that decide C03, and nothing else. *)
From Base Require Import Prelude Sx Json JsonText Rules Base64.
From Gen Require Import RoomRules.
From C02 Require Import Model Proofs.
From C05 Require Import Proofs.
From C04 Require Import Model.
From C04 Require Spec.
From C05 Require Import Model.
From C03 Require Import Model Spec Proofs.

(** For every room version 1-11 the servers whose signatures verify_event checks are exactly
    those the specification demands (sender's server unless the event is an invite from a
    third-party invite; the event-id's server in v1-v2; the authorising user's server for
    restricted joins from v8) plus the characterised extra demand. *)
Theorem C03_servers_eq_spec :
  forall user_server event_server v R o l,
  rules_of v = Some R ->
  servers_to_check user_server event_server (signatures R) o = Ok l ->
  forall s, In s l <-> In s (required_servers user_server event_server v o) \/
                       In s (extra_servers user_server v o).
Proof. exact servers_eq_spec. Qed.
Eval compute in "PA:C03_servers_eq_spec"%string.
Print Assumptions C03_servers_eq_spec.

Theorem C03_sig_rules_by_version :
  forall v R, rules_of v = Some R ->
  check_event_id_server (signatures R) = (v <=? 2) /\
  check_join_authorised_via_users_server (signatures R) = (8 <=? v).
Proof. exact sig_rules_by_version. Qed.
Eval compute in "PA:C03_sig_rules_by_version"%string.
Print Assumptions C03_sig_rules_by_version.

(** After an event is hashed and signed (room version 1-11, Ed25519 correct), verifying it
    reports both the signatures and the content hash valid. *)
Theorem C03_signed_event_verifies_all :
  forall user_server event_server H, (forall j, bytes_ok (H j)) ->
  forall key sign key_version verify pk,
  (forall k m, verify (pk k) m (sign k m) = true) -> (forall k m, bytes_ok (sign k m)) ->
  forall v R e k o o' pkm pks,
  rules_of v = Some R -> wf_obj o ->
  hash_and_sign_event H key sign key_version e k o (redaction R) = Ok o' ->
  lookup s!"signatures" o = None ->
  (forall l, servers_to_check user_server event_server (signatures R) o = Ok l -> forall s, In s l -> s = e) ->
  (exists l, servers_to_check user_server event_server (signatures R) o = Ok l) ->
  lookup e pkm = Some pks -> lookup (key_id_of key key_version k) pks = Some (pk k) ->
  verify_event user_server event_server H verify pkm o' R = Ok VAll.
Proof. exact signed_event_verifies_all. Qed.
Eval compute in "PA:C03_signed_event_verifies_all"%string.
Print Assumptions C03_signed_event_verifies_all.

(** verify_event succeeds exactly when redaction is defined, `hashes.sha256` is a string,
    `signatures` an object, the required servers computable, every checked server has a supported
    signature and all its supported signatures verify over the redacted event's signing bytes, and
    the content hash is within the size limit; the verdict is All iff the stored hash decodes to
    the computed one. *)
Theorem C03_verify_event_spec :
  forall user_server event_server H verify pkm o R red hash sigmap servers calc,
  redact (redaction R) o None = Ok red -> stored_hash o = Ok hash ->
  lookup s!"signatures" o = Some (JObj sigmap) ->
  servers_to_check user_server event_server (signatures R) o = Ok servers ->
  content_hash H o = Ok calc ->
  verify_event user_server event_server H verify pkm o R =
  if forallb (entity_ok verify pkm sigmap (signing_bytes red)) servers
  then Ok (verdict_of hash calc) else Err 0.
Proof. exact verify_event_spec. Qed.
Eval compute in "PA:C03_verify_event_spec"%string.
Print Assumptions C03_verify_event_spec.

Theorem C03_verify_event_ok_inv :
  forall user_server event_server H verify pkm o R vd,
  verify_event user_server event_server H verify pkm o R = Ok vd ->
  exists red hash sigmap servers calc,
    redact (redaction R) o None = Ok red /\ stored_hash o = Ok hash /\
    lookup s!"signatures" o = Some (JObj sigmap) /\
    servers_to_check user_server event_server (signatures R) o = Ok servers /\
    content_hash H o = Ok calc /\
    forallb (entity_ok verify pkm sigmap (signing_bytes red)) servers = true /\
    vd = verdict_of hash calc.
Proof. exact verify_event_ok_inv. Qed.
Eval compute in "PA:C03_verify_event_ok_inv"%string.
Print Assumptions C03_verify_event_ok_inv.

(** Verification fails when a server the room version demands lacks a valid signature. *)
Theorem C03_missing_required_signature_fails :
  forall user_server event_server H verify pkm o R s,
  (exists servers, servers_to_check user_server event_server (signatures R) o = Ok servers /\ In s servers) ->
  (forall red sigmap, redact (redaction R) o None = Ok red -> lookup s!"signatures" o = Some (JObj sigmap) ->
      entity_ok verify pkm sigmap (signing_bytes red) s = false) ->
  forall vd, verify_event user_server event_server H verify pkm o R <> Ok vd.
Proof. exact missing_required_signature_fails. Qed.
Eval compute in "PA:C03_missing_required_signature_fails"%string.
Print Assumptions C03_missing_required_signature_fails.

(** Changing a hashed field that redaction strips (same redacted signing bytes, same stored
    hash, signatures and required servers, different digest) downgrades All to Signatures. *)
Theorem C03_stripped_field_downgrades :
  forall user_server event_server H verify pkm o o' R red red' calc calc' hash,
  redact (redaction R) o None = Ok red -> redact (redaction R) o' None = Ok red' ->
  signing_bytes red' = signing_bytes red ->
  stored_hash o' = stored_hash o -> lookup s!"signatures" o' = lookup s!"signatures" o ->
  servers_to_check user_server event_server (signatures R) o' =
  servers_to_check user_server event_server (signatures R) o ->
  verify_event user_server event_server H verify pkm o R = Ok VAll ->
  stored_hash o = Ok hash -> content_hash H o = Ok calc -> content_hash H o' = Ok calc' ->
  calc' <> calc ->
  verify_event user_server event_server H verify pkm o' R = Ok VSignatures.
Proof. exact stripped_field_downgrades. Qed.
Eval compute in "PA:C03_stripped_field_downgrades"%string.
Print Assumptions C03_stripped_field_downgrades.

(** Changes confined to `unsigned` change nothing, for every room version 1-11. *)
Theorem C03_unsigned_irrelevant :
  forall user_server event_server H verify pkm v R o u,
  rules_of v = Some R -> wf_obj o -> wf u -> C04.Spec.well_typed v o = true ->
  verify_event user_server event_server H verify pkm (insert s!"unsigned" u o) R =
  verify_event user_server event_server H verify pkm o R.
Proof. exact unsigned_irrelevant. Qed.
Eval compute in "PA:C03_unsigned_irrelevant"%string.
Print Assumptions C03_unsigned_irrelevant.

(** Verifying the redacted copy of a verified event (same room version 1-11) again reports
    valid signatures, provided the redacted copy demands no additional server and is within
    the size limit; its hash status is recomputed from the redacted content. *)
Theorem C03_redacted_copy_verifies :
  forall user_server event_server H verify pkm v R o vd red servers' calc',
  rules_of v = Some R -> wf_obj o ->
  verify_event user_server event_server H verify pkm o R = Ok vd ->
  redact (redaction R) o None = Ok red ->
  servers_to_check user_server event_server (signatures R) red = Ok servers' ->
  (forall l, servers_to_check user_server event_server (signatures R) o = Ok l -> forall s, In s servers' -> In s l) ->
  content_hash H red = Ok calc' ->
  exists hash, stored_hash o = Ok hash /\
    verify_event user_server event_server H verify pkm red R = Ok (verdict_of hash calc').
Proof. exact redacted_copy_verifies. Qed.
Eval compute in "PA:C03_redacted_copy_verifies"%string.
Print Assumptions C03_redacted_copy_verifies.
