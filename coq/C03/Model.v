(** C03.Model — [ruma_signatures::{hash_and_sign_event, verify_event}] and
    [servers_to_check_signatures] / [is_invite_via_third_party_id] (functions.rs:470-815).
    Identifier parsing is a parameter: [user_server s] is the server name of the user id [s]
    when [<&UserId>::try_from(s)] succeeds, [event_server s] that of the event id [s] when it
    parses and has one (C10 is about the parsers themselves). *)
From Base Require Import Prelude Sx Json JsonText Rules Base64.
From C02 Require Import Model.
From C04 Require Import Model.
From C05 Require Import Model.

Inductive verified := VAll | VSignatures.

Definition k_type := s!"type".
Definition k_content := s!"content".
Definition k_sender := s!"sender".
Definition k_event_id := s!"event_id".
Definition k_membership := s!"membership".
Definition k_tpi := s!"third_party_invite".
Definition k_jav := s!"join_authorised_via_users_server".
Definition k_sha256 := s!"sha256".

(** BTreeSet<OwnedServerName>::insert *)
Fixpoint set_insert (x : str) (l : list str) : list str :=
  match l with
  | [] => [x]
  | y :: l' => if str_ltb x y then x :: l else if str_eqb x y then l else y :: set_insert x l'
  end.

Definition is_invite_via_third_party_id (o : obj) : outcome bool :=
  match lookup k_type o with
  | Some (JStr ty) =>
      if negb (str_eqb ty s!"m.room.member") then Ok false
      else match lookup k_content o with
           | Some (JObj c) =>
               match lookup k_membership c with
               | Some (JStr m) =>
                   if negb (str_eqb m s!"invite") then Ok false
                   else match lookup k_tpi c with
                        | Some (JObj _) => Ok true
                        | None => Ok false
                        | Some _ => Err 0
                        end
               | _ => Err 0
               end
           | _ => Err 0
           end
  | _ => Err 0
  end.

Section Ev.
Variable user_server : str -> option str.
Variable event_server : str -> option str.

Definition servers_to_check (sr : sig_rules) (o : obj) : outcome (list str) :=
  obind (is_invite_via_third_party_id o) (fun tpi =>
  obind (if tpi then Ok []
         else match lookup k_sender o with
              | Some (JStr s) => match user_server s with Some srv => Ok [srv] | None => Err 0 end
              | _ => Err 0
              end) (fun s1 =>
  obind (if check_event_id_server sr then
           match lookup k_event_id o with
           | Some (JStr s) => match event_server s with Some srv => Ok (set_insert srv s1) | None => Err 0 end
           | _ => Err 0
           end
         else Ok s1) (fun s2 =>
  if check_join_authorised_via_users_server sr then
    match lookup k_content o with
    | Some (JObj c) =>
        match lookup k_jav c with
        | Some (JStr u) => match user_server u with Some srv => Ok (set_insert srv s2) | None => Err 0 end
        | Some _ => Err 0
        | None => Ok s2
        end
    | _ => Ok s2
    end
  else Ok s2))).

Variable H : str -> str.
Variable verify : str -> str -> str -> bool.

Definition stored_hash (o : obj) : outcome str :=
  match lookup k_hashes o with
  | Some (JObj h) => match lookup k_sha256 h with Some (JStr s) => Ok s | _ => Err 0 end
  | _ => Err 0
  end.

Definition verify_event (pkm : pkmap) (o : obj) (R : room_rules) : outcome verified :=
  match redact (redaction R) o None with
  | Ok red =>
      obind (stored_hash o) (fun hash =>
      match lookup k_signatures o with
      | Some (JObj sigmap) =>
          obind (servers_to_check (signatures R) o) (fun servers =>
          obind (verify_all verify pkm sigmap (signing_bytes red) servers) (fun _ =>
          match content_hash H o with
          | Ok calc =>
              match b64_decode false hash with
              | Some h => if str_eqb h calc then Ok VAll else Ok VSignatures
              | None => Ok VSignatures
              end
          | Err e => Err 0
          | Panic s => Panic s
          end))
      | _ => Err 0
      end)
  | Err _ => Err 0
  | Panic s => Panic s
  end.

Variable key : Type.
Variable sign : key -> str -> str.
Variable key_version : key -> str.

(** Returns the outcome and the object as the caller sees it afterwards. *)
Definition hash_and_sign_event (entity : str) (k : key) (o : obj) (rr : redaction_rules)
  : outcome obj :=
  match content_hash H o with
  | Ok h =>
      let hashes := match lookup k_hashes o with
                    | None => Ok []
                    | Some (JObj m) => Ok m
                    | Some _ => Err 0
                    end in
      obind hashes (fun m =>
        let o1 := insert k_hashes (JObj (insert k_sha256 (JStr (b64_encode false h)) m)) o in
        match redact rr o1 None with
        | Ok red =>
            match sign_json key sign key_version entity k red with
            | (Ok red', _) =>
                match lookup k_signatures red' with
                | Some sg => Ok (insert k_signatures sg o1)
                | None => Panic 1
                end
            | (Err e, _) => Err 0
            | (Panic s, _) => Panic s
            end
        | Err _ => Err 0
        | Panic s => Panic s
        end)
  | Err e => Err 0
  | Panic s => Panic s
  end.
End Ev.
