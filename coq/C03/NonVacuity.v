(** C03.NonVacuity — the hypotheses of the C03 theorems are met by concrete events, with the real
    SHA-256, a toy signature scheme that satisfies the two Ed25519 hypotheses, and server-name
    extraction by splitting at the first colon. *)
From Base Require Import Prelude Sx Json JsonText Rules Base64 Sha256.
From Gen Require Import RoomRules.
From C02 Require Import Model Proofs NonVacuity.
From C05 Require Import Proofs.
From C04 Require Import Model.
From C04 Require Spec.
From C05 Require Import Model.
From C03 Require Import Model Spec Proofs.

Definition H : str -> str := sha256.

Fixpoint after_colon (s : str) : option str :=
  match s with
  | [] => None
  | b :: r => if (b =? 58)%N then Some r else after_colon r
  end.
Definition user_server (s : str) : option str := match s with 64%N :: _ => after_colon s | _ => None end.
Definition event_server (s : str) : option str := match s with 36%N :: _ => after_colon s | _ => None end.

Definition mk (kvs : list (str * json)) : obj := fold_right (fun kv acc => insert (fst kv) (snd kv) acc) [] kvs.

(** a restricted join: from room version 8 the authorising user's server must sign as well *)
Definition join_ev : obj :=
  mk [(s!"type", JStr s!"m.room.member"); (s!"sender", JStr s!"@alice:a.org"); (s!"state_key", JStr s!"@alice:a.org");
      (s!"event_id", JStr s!"$e:a.org"); (s!"room_id", JStr s!"!r:a.org"); (s!"depth", JInt 3);
      (s!"unsigned", JObj [(s!"age", JInt 1)]);
      (s!"content", JObj (mk [(s!"membership", JStr s!"join"); (s!"displayname", JStr s!"Alice");
                              (s!"join_authorised_via_users_server", JStr s!"@bob:b.org")]))].

Definition hs (e k : str) (R : room_rules) (o : obj) : obj :=
  match hash_and_sign_event H str toy_sign toy_version e k o (redaction R) with Ok o' => o' | _ => [] end.

Definition ka : str := s!"key-of-a".
Definition kb : str := s!"key-of-b".
Definition pkm_a : pkmap := [(s!"a.org", [(s!"ed25519:1", ka)])].
Definition pkm_ab : pkmap := insert s!"b.org" [(s!"ed25519:1", kb)] pkm_a.

Definition ve (pkm : pkmap) (o : obj) (R : room_rules) := verify_event user_server event_server H toy_verify pkm o R.

Example join_ev_meets_the_hypotheses :
  wf_obj join_ev /\ forallb (fun v => C04.Spec.well_typed v join_ev) all_versions = true /\
  lookup s!"signatures" join_ev = None.
Proof. repeat split; vm_compute; reflexivity. Qed.

(** the required servers by family: v1-v2 sender + event-id server (the same here), v3-v7 the sender's,
    v8+ also the authorising user's *)
Example servers_by_version :
  servers_to_check user_server event_server (signatures rules_v1) join_ev = Ok [s!"a.org"] /\
  servers_to_check user_server event_server (signatures rules_v6) join_ev = Ok [s!"a.org"] /\
  servers_to_check user_server event_server (signatures rules_v9) join_ev = Ok [s!"a.org"; s!"b.org"].
Proof. repeat split; vm_compute; reflexivity. Qed.

(** v6: signed by a.org alone verifies All; the premise "every required server is the signer" holds *)
Example v6_signed_event_verifies_all :
  ve pkm_a (hs s!"a.org" ka rules_v6 join_ev) rules_v6 = Ok VAll.
Proof. vm_compute. reflexivity. Qed.

(** v9: a.org's signature alone is not enough, with b.org's on top it is *)
Example v9_needs_the_authorising_server :
  (match ve pkm_ab (hs s!"a.org" ka rules_v9 join_ev) rules_v9 with Ok _ => false | _ => true end) = true /\
  ve pkm_ab (hs s!"b.org" kb rules_v9 (hs s!"a.org" ka rules_v9 join_ev)) rules_v9 = Ok VAll.
Proof. split; vm_compute; reflexivity. Qed.

(** a field redaction strips (displayname) changed after signing: signatures still valid, hash not;
    `unsigned` changed: nothing happens; a protected field (depth) changed: verification fails *)
Definition signed6 := hs s!"a.org" ka rules_v6 join_ev.
Definition edit_content (k : str) (v : json) (o : obj) : obj :=
  match lookup s!"content" o with Some (JObj c) => insert s!"content" (JObj (insert k v c)) o | _ => o end.

Example stripped_field_downgrades_protected_field_fails :
  ve pkm_a (edit_content s!"displayname" (JStr s!"Mallory") signed6) rules_v6 = Ok VSignatures /\
  ve pkm_a (insert s!"unsigned" (JStr s!"x") signed6) rules_v6 = Ok VAll /\
  (match ve pkm_a (insert s!"depth" (JInt 4) signed6) rules_v6 with Ok _ => false | _ => true end) = true.
Proof. repeat split; vm_compute; reflexivity. Qed.

(** the redacted copy of a verified event verifies again (signatures; the hash of the redacted content
    differs from the stored one) *)
Example redacted_copy :
  match redact (redaction rules_v6) signed6 None with
  | Ok red => negb (json_eqb (JObj red) (JObj signed6)) &&
              match ve pkm_a red rules_v6 with Ok VSignatures => true | _ => false end
  | _ => false
  end = true.
Proof. vm_compute. reflexivity. Qed.

(** an invite created from a third-party invite does not need the sender's server *)
Definition tpi_invite : obj :=
  mk [(s!"type", JStr s!"m.room.member"); (s!"sender", JStr s!"@alice:a.org"); (s!"state_key", JStr s!"@carol:c.org");
      (s!"event_id", JStr s!"$e:a.org");
      (s!"content", JObj (mk [(s!"membership", JStr s!"invite");
                              (s!"third_party_invite", JObj [(s!"signed", JObj [(s!"token", JStr s!"t")])])]))].
Example third_party_invite_exempts_the_sender :
  servers_to_check user_server event_server (signatures rules_v6) tpi_invite = Ok [] /\
  servers_to_check user_server event_server (signatures rules_v1) tpi_invite = Ok [s!"a.org"] /\
  servers_to_check user_server event_server (signatures rules_v6)
    (edit_content s!"membership" (JStr s!"join") tpi_invite) = Ok [s!"a.org"].
Proof. repeat split; vm_compute; reflexivity. Qed.
