(** C03.Proofs *)
From Base Require Import Prelude Sx Json JsonText Rules Base64.
From Gen Require Import RoomRules.
From C04 Require Import Model Spec Proofs.
From C05 Require Import Model Spec Proofs.
From C02 Require Import Model Proofs.
From C03 Require Import Model Spec.

(** * Which servers are checked: model = specification, for every room version. *)
Lemma sig_rules_by_version v R :
  rules_of v = Some R ->
  check_event_id_server (signatures R) = (v <=? 2) /\
  check_join_authorised_via_users_server (signatures R) = (8 <=? v).
Proof.
  unfold rules_of. intros H.
  repeat match type of H with
         | (if ?v =? ?n then _ else _) = _ =>
             destruct (N.eqb_spec v n) as [->|_]; [injection H as <-; split; reflexivity|]
         end.
  discriminate.
Qed.

Lemma In_set_insert x y l : In x (set_insert y l) <-> x = y \/ In x l.
Proof.
  induction l as [|z l IH]; cbn [set_insert In].
  - split; [intros [->|[]]; now left|intros [->|[]]; now left].
  - destruct (str_ltb y z); cbn [In].
    + split; [intros [->|H]; auto|intros [->|H]; auto].
    + dse y z; cbn [In].
      * split; [auto|intros [->|H]; auto].
      * rewrite IH. split; [intros [H|[H|H]]; auto|intros [H|[H|H]]; auto].
Qed.

Section Ev.
Variable user_server : str -> option str.
Variable event_server : str -> option str.

Lemma tpi_model_spec o b :
  is_invite_via_third_party_id o = Ok b -> third_party_invite o = b.
Proof.
  unfold is_invite_via_third_party_id, third_party_invite, is_type, membership_is, content_of.
  change C03.Model.k_type with s!"type". change C03.Model.k_content with s!"content".
  change k_membership with s!"membership". change k_tpi with s!"third_party_invite".
  destruct (lookup s!"type" o) as [[| | |ty| |]|]; try discriminate.
  destruct (str_eqb ty s!"m.room.member"); cbn [negb andb]; [|intros [= <-]; reflexivity].
  destruct (lookup s!"content" o) as [[| | | | |c]|]; try discriminate.
  destruct (lookup s!"membership" c) as [[| | |m| |]|]; try discriminate.
  destruct (str_eqb m s!"invite"); cbn [negb andb]; [|intros [= <-]; reflexivity].
  destruct (lookup s!"third_party_invite" c) as [[| | | | |t]|]; try discriminate; intros [= <-]; reflexivity.
Qed.

(** For every room version 1-11: the servers whose signatures are checked are exactly the
    servers the specification requires, plus the characterised extra demand. *)
Theorem servers_eq_spec v R o l :
  rules_of v = Some R ->
  servers_to_check user_server event_server (signatures R) o = Ok l ->
  forall s, In s l <-> In s (required_servers user_server event_server v o) \/
                       In s (extra_servers user_server v o).
Proof.
  intros HR. destruct (sig_rules_by_version v R HR) as [E1 E2].
  unfold servers_to_check. rewrite E1, E2.
  destruct (is_invite_via_third_party_id o) as [tpi| |] eqn:Etpi; try discriminate. cbn [obind].
  pose proof (tpi_model_spec o tpi Etpi) as Htpi.
  unfold required_servers, extra_servers. rewrite Htpi.
  change k_sender with s!"sender". change k_event_id with s!"event_id".
  change C03.Model.k_content with s!"content". change k_jav with s!"join_authorised_via_users_server".
  (* sender part *)
  set (S1 := if tpi then Ok [] else
               match lookup s!"sender" o with
               | Some (JStr s0) => match user_server s0 with Some srv => Ok [srv] | None => Err 0 end
               | _ => Err 0 end).
  destruct S1 as [s1| |] eqn:ES1; try discriminate. cbn [obind].
  assert (H1 : forall s, In s s1 <->
             In s (if tpi then [] else match lookup s!"sender" o with
                                       | Some (JStr s0) => opt_list (user_server s0) | _ => [] end)).
  { subst S1. destruct tpi; [injection ES1 as <-; tauto|].
    destruct (lookup s!"sender" o) as [[| | |s0| |]|]; try discriminate.
    destruct (user_server s0) as [srv|]; [injection ES1 as <-; cbn; tauto|discriminate]. }
  (* event id part *)
  set (S2 := if v <=? 2 then
               match lookup s!"event_id" o with
               | Some (JStr s0) => match event_server s0 with Some srv => Ok (set_insert srv s1) | None => Err 0 end
               | _ => Err 0 end
             else Ok s1).
  destruct S2 as [s2| |] eqn:ES2; try discriminate. cbn [obind].
  assert (H2 : forall s, In s s2 <-> In s s1 \/
             In s (if v <=? 2 then match lookup s!"event_id" o with
                                   | Some (JStr s0) => opt_list (event_server s0) | _ => [] end else [])).
  { subst S2. destruct (v <=? 2); [|injection ES2 as <-; cbn; tauto].
    destruct (lookup s!"event_id" o) as [[| | |s0| |]|]; try discriminate.
    destruct (event_server s0) as [srv|]; [|discriminate]. injection ES2 as <-.
    intros s. rewrite In_set_insert. cbn. intuition. }
  unfold content_of, is_type, membership_is, content_of.
  intros Hl s.
  assert (H3 : In s l <-> In s s2 \/
             In s (if 8 <=? v then match lookup s!"content" o with
                     | Some (JObj c) => match lookup s!"join_authorised_via_users_server" c with
                                        | Some (JStr u) => opt_list (user_server u) | _ => [] end
                     | _ => [] end else [])).
  { destruct (8 <=? v); [|injection Hl as <-; cbn; tauto].
    destruct (lookup s!"content" o) as [[| | | | |c]|]; try (injection Hl as <-; cbn; tauto).
    destruct (lookup s!"join_authorised_via_users_server" c) as [[| | |u| |]|]; try discriminate;
      try (injection Hl as <-; cbn; tauto).
    destruct (user_server u) as [srv|]; [|discriminate]. injection Hl as <-.
    rewrite In_set_insert. cbn. intuition. }
  rewrite H3, H2, H1. rewrite !in_app_iff.
  destruct (8 <=? v); cbn [andb negb]; [|cbn; tauto].
  destruct (lookup s!"content" o) as [[| | | | |c]|];
    match goal with |- context [if ?b && ?c then _ else _] => destruct (b && c) end;
    cbn [negb In]; tauto.
Qed.

(** * A hashed-and-signed event verifies with status All. *)
Variable H : str -> str.
Hypothesis H_bytes : forall j, bytes_ok (H j).
Variable key : Type.
Variable sign : key -> str -> str.
Variable key_version : key -> str.
Variable verify : str -> str -> str -> bool.
Variable pk : key -> str.
Hypothesis verify_sign : forall k m, verify (pk k) m (sign k m) = true.
Hypothesis sign_bytes : forall k m, bytes_ok (sign k m).

Lemma spec_redact_insert_signatures v o x :
  sorted o -> keeps_top v s!"signatures" = true ->
  spec_redact v (insert s!"signatures" x o) = insert s!"signatures" x (spec_redact v o)
  \/ (match lookup s!"type" o with Some (JStr _) => False | _ => True end).
Proof.
  intros Hs Hk. unfold spec_redact. rewrite lookup_insert.
  destruct (str_eqb_spec s!"type" s!"signatures") as [E|_]; [discriminate E|].
  destruct (lookup s!"type" o) as [[| | |ty| |]|]; try (right; exact I). left.
  apply sorted_ext.
  - apply sorted_fmap_obj, sorted_insert, Hs.
  - apply sorted_insert, sorted_fmap_obj, Hs.
  - intros k. rewrite lookup_insert, !lookup_fmap_obj by (try apply sorted_insert; exact Hs).
    rewrite lookup_insert. dse k s!"signatures"; [|reflexivity].
    rewrite Hk. reflexivity.
Qed.

Lemma servers_ignore k x o sr :
  k <> s!"type" -> k <> s!"content" -> k <> s!"sender" -> k <> s!"event_id" ->
  servers_to_check user_server event_server sr (insert k x o) =
  servers_to_check user_server event_server sr o.
Proof.
  intros H1 H2 H3 H4. unfold servers_to_check, is_invite_via_third_party_id.
  change C03.Model.k_type with s!"type". change C03.Model.k_content with s!"content".
  change k_sender with s!"sender". change k_event_id with s!"event_id".
  rewrite !lookup_insert.
  destruct (str_eqb_spec s!"type" k); [congruence|].
  destruct (str_eqb_spec s!"content" k); [congruence|].
  destruct (str_eqb_spec s!"sender" k); [congruence|].
  destruct (str_eqb_spec s!"event_id" k); [congruence|]. reflexivity.
Qed.

Theorem signed_event_verifies_all v R e k o o' pkm pks :
  rules_of v = Some R -> wf_obj o ->
  hash_and_sign_event H key sign key_version e k o (redaction R) = Ok o' ->
  (* the event carried no signatures yet *)
  lookup s!"signatures" o = None ->
  (* every server the room version demands is the signing entity, whose key is supplied *)
  (forall l, servers_to_check user_server event_server (signatures R) o = Ok l -> forall s, In s l -> s = e) ->
  (exists l, servers_to_check user_server event_server (signatures R) o = Ok l) ->
  lookup e pkm = Some pks -> lookup (key_id_of key key_version k) pks = Some (pk k) ->
  verify_event user_server event_server H verify pkm o' R = Ok VAll.
Proof.
  intros HR Hwf Hsign Hnosig Hsrv [l Hl] Hpks Hpk.
  pose proof (wf_obj_sorted _ Hwf) as Hs.
  unfold hash_and_sign_event in Hsign.
  destruct (content_hash H o) as [h| |] eqn:Ech; try discriminate.
  set (hashes := match lookup k_hashes o with None => Ok [] | Some (JObj m) => Ok m | Some _ => Err 0 end) in Hsign.
  destruct hashes as [m| |] eqn:Eh; try discriminate. cbn [obind] in Hsign.
  set (o1 := insert k_hashes (JObj (insert C03.Model.k_sha256 (JStr (b64_encode false h)) m)) o) in *.
  destruct (redact (redaction R) o1 None) as [red| |] eqn:Ered; try discriminate.
  destruct (Model.sign_json key sign key_version e k red) as [[red'| |] o2] eqn:Esj; try discriminate.
  change C05.Model.k_signatures with s!"signatures" in Hsign.
  destruct (lookup s!"signatures" red') as [sg|] eqn:Esg; [|discriminate].
  injection Hsign as <-.
  (* well-formedness of o1 *)
  assert (Hwm : wf_obj m).
  { subst hashes. destruct (lookup k_hashes o) as [[| | | | |m0]|] eqn:E0; try discriminate; injection Eh as <-.
    - eapply (wf_obj_lookup o); eauto.
    - reflexivity. }
  assert (Hwf1 : wf_obj o1).
  { apply wf_obj_insert; [exact Hwf|]. apply (wf_obj_insert _ _ m Hwm). reflexivity. }
  pose proof (wf_obj_sorted _ Hwf1) as Hs1.
  (* redaction is defined on o1, hence equals the spec *)
  destruct (well_typed v o1) eqn:Hwt1;
    [|destruct (redact_ill_typed v R o1 None HR Hwf1 Hwt1) as [x Hx]; congruence].
  rewrite (redact_eq_spec v R o1 HR Hwf1 Hwt1) in Ered. injection Ered as <-.
  pose proof (wf_obj_sorted _ (spec_redact_wf v o1 Hwf1)) as Hsr.
  destruct (sign_layout key sign key_version e k _ red' o2 Hsr Esj) as (_ & Lsig & _ & _ & _).
  change C02.Model.k_signatures with s!"signatures" in *.
  rewrite Lsig in Esg. injection Esg as <-.
  set (SG := JObj (new_sigmap key sign key_version e k (spec_redact v o1))).
  (* signatures of the redacted o1: none *)
  assert (Hnosig1 : lookup s!"signatures" o1 = None).
  { unfold o1. rewrite lookup_insert. destruct (str_eqb_spec s!"signatures" k_hashes) as [E|_]; [discriminate E|exact Hnosig]. }
  assert (Hsigs_red : sigs_of (spec_redact v o1) = []).
  { unfold sigs_of. change C02.Model.k_signatures with s!"signatures".
    unfold spec_redact. destruct (lookup s!"type" o1) as [[| | |ty| |]|]; try reflexivity.
    rewrite lookup_fmap_obj by exact Hs1. rewrite Hnosig1. reflexivity. }
  (* now the verification *)
  assert (Hkt : keeps_top v s!"signatures" = true) by reflexivity.
  assert (Hwt' : well_typed v (insert s!"signatures" SG o1) = true).
  { unfold well_typed in *. rewrite !lookup_insert.
    destruct (str_eqb_spec s!"type" s!"signatures") as [E|_]; [discriminate E|].
    destruct (str_eqb_spec s!"content" s!"signatures") as [E|_]; [discriminate E|]. exact Hwt1. }
  assert (Hwf' : wf_obj (insert s!"signatures" SG o1)).
  { apply wf_obj_insert; [exact Hwf1|]. unfold SG, new_sigmap. rewrite Hsigs_red. reflexivity. }
  unfold verify_event.
  rewrite (redact_eq_spec v R _ HR Hwf' Hwt'). 
  destruct (spec_redact_insert_signatures v o1 SG Hs1 Hkt) as [Ered2|Hbad];
    [|unfold well_typed in Hwt1; destruct (lookup s!"type" o1) as [[| | |ty| |]|]; try discriminate; contradiction].
  rewrite Ered2.
  (* stored hash *)
  assert (Hst : stored_hash (insert s!"signatures" SG o1) = Ok (b64_encode false h)).
  { unfold stored_hash. rewrite lookup_insert.
    destruct (str_eqb_spec k_hashes s!"signatures") as [E|_]; [discriminate E|].
    unfold o1. rewrite lookup_insert, str_eqb_refl, lookup_insert, str_eqb_refl. reflexivity. }
  rewrite Hst. cbn [obind].
  change C02.Model.k_signatures with s!"signatures". rewrite lookup_insert, str_eqb_refl.
  unfold SG at 1.
  (* servers *)
  rewrite (servers_ignore s!"signatures" SG o1 (signatures R)) by discriminate.
  unfold o1 at 1. rewrite (servers_ignore k_hashes _ o (signatures R)) by discriminate.
  rewrite Hl. cbn [obind].
  (* signing bytes of the redacted event *)
  assert (Hbytes : signing_bytes (insert s!"signatures" SG (spec_redact v o1)) = signing_bytes (spec_redact v o1)).
  { unfold signing_bytes. f_equal. f_equal. apply strip_ext; [apply sorted_insert, Hsr|exact Hsr|].
    intros x Hx1 Hx2. rewrite lookup_insert. dse x s!"signatures"; [exfalso; apply Hx2; reflexivity|reflexivity]. }
  rewrite Hbytes.
  (* every demanded server is e, whose fresh signature verifies *)
  assert (Hent : entity_ok verify pkm (new_sigmap key sign key_version e k (spec_redact v o1))
                   (signing_bytes (spec_redact v o1)) e = true).
  { unfold entity_ok, new_sigmap. rewrite lookup_insert, str_eqb_refl, Hpks.
    rewrite Hsigs_red. unfold set_of. cbn [lookup insert forallb existsb fst snd].
    unfold entry_ok. cbn [fst snd]. rewrite key_id_supported, Hpk. unfold new_sig.
    rewrite b64_roundtrip by apply sign_bytes. rewrite verify_sign. reflexivity. }
  rewrite verify_all_spec.
  assert (Hall : forallb (entity_ok verify pkm (new_sigmap key sign key_version e k (spec_redact v o1))
                   (signing_bytes (spec_redact v o1))) l = true).
  { apply forallb_forall. intros s Hin. rewrite (Hsrv l Hl s Hin). exact Hent. }
  rewrite Hall. cbn [obind].
  (* content hash *)
  assert (Hch : content_hash H (insert s!"signatures" SG o1) = Ok h).
  { destruct (content_hash_ignores_uncovered H o1 s!"signatures" SG Hs1 eq_refl) as [-> _].
    unfold o1. destruct (content_hash_ignores_uncovered H o k_hashes
       (JObj (insert C03.Model.k_sha256 (JStr (b64_encode false h)) m)) Hs eq_refl) as [-> _]. exact Ech. }
  rewrite Hch, b64_roundtrip, str_eqb_refl by (unfold content_hash in Ech; destruct (too_big _); [discriminate|injection Ech as <-; apply H_bytes]).
  reflexivity.
Qed.

(** * verify_event, characterised. *)
Definition verdict_of (hash calc : str) : verified :=
  match b64_decode false hash with
  | Some h => if str_eqb h calc then VAll else VSignatures
  | None => VSignatures
  end.

Theorem verify_event_spec pkm o R red hash sigmap servers calc :
  redact (redaction R) o None = Ok red -> stored_hash o = Ok hash ->
  lookup s!"signatures" o = Some (JObj sigmap) ->
  servers_to_check user_server event_server (signatures R) o = Ok servers ->
  content_hash H o = Ok calc ->
  verify_event user_server event_server H verify pkm o R =
  if forallb (entity_ok verify pkm sigmap (signing_bytes red)) servers
  then Ok (verdict_of hash calc) else Err 0.
Proof.
  intros E1 E2 E3 E4 E5. unfold verify_event. change C05.Model.k_signatures with s!"signatures".
  rewrite E1, E2. cbn [obind]. rewrite E3, E4. cbn [obind]. rewrite verify_all_spec.
  destruct (forallb _ servers); cbn [obind]; [|reflexivity]. rewrite E5. unfold verdict_of.
  destruct (b64_decode false hash) as [h|]; [|reflexivity]. destruct (str_eqb h calc); reflexivity.
Qed.

(** A success needs all five ingredients. *)
Theorem verify_event_ok_inv pkm o R vd :
  verify_event user_server event_server H verify pkm o R = Ok vd ->
  exists red hash sigmap servers calc,
    redact (redaction R) o None = Ok red /\ stored_hash o = Ok hash /\
    lookup s!"signatures" o = Some (JObj sigmap) /\
    servers_to_check user_server event_server (signatures R) o = Ok servers /\
    content_hash H o = Ok calc /\
    forallb (entity_ok verify pkm sigmap (signing_bytes red)) servers = true /\
    vd = verdict_of hash calc.
Proof.
  intros Hv. unfold verify_event in Hv. change C05.Model.k_signatures with s!"signatures" in Hv.
  destruct (redact (redaction R) o None) as [red| |] eqn:E1; try discriminate.
  destruct (stored_hash o) as [hash| |] eqn:E2; cbn [obind] in Hv; try discriminate.
  destruct (lookup s!"signatures" o) as [[| | | | |sigmap]|] eqn:E3; try discriminate.
  destruct (servers_to_check user_server event_server (signatures R) o) as [servers| |] eqn:E4;
    cbn [obind] in Hv; try discriminate.
  rewrite verify_all_spec in Hv.
  destruct (forallb _ servers) eqn:E6; cbn [obind] in Hv; [|discriminate].
  destruct (content_hash H o) as [calc| |] eqn:E5; try discriminate.
  exists red, hash, sigmap, servers, calc. repeat split; try reflexivity; try assumption.
  unfold verdict_of. destruct (b64_decode false hash) as [h|]; [|congruence].
  destruct (str_eqb h calc); congruence.
Qed.

(** Verification fails when a checked server lacks a valid supported signature. *)
Theorem missing_required_signature_fails pkm o R s :
  (exists servers, servers_to_check user_server event_server (signatures R) o = Ok servers /\ In s servers) ->
  (forall red sigmap, redact (redaction R) o None = Ok red -> lookup s!"signatures" o = Some (JObj sigmap) ->
      entity_ok verify pkm sigmap (signing_bytes red) s = false) ->
  forall vd, verify_event user_server event_server H verify pkm o R <> Ok vd.
Proof.
  intros (servers & Es & Hin) Hbad vd Hv.
  destruct (verify_event_ok_inv pkm o R vd Hv) as (red & hash & sigmap & servers' & calc & E1 & _ & E3 & E4 & _ & Hall & _).
  rewrite Es in E4. injection E4 as <-. rewrite forallb_forall in Hall.
  specialize (Hall s Hin). rewrite (Hbad red sigmap E1 E3) in Hall. discriminate.
Qed.

(** The verdict depends only on: the redacted event's signing bytes, the stored hash, the
    signatures, the servers to check, and the content hash.  Consequences: a change confined to
    a hashed field that redaction strips keeps the signature verdict and turns All into
    Signatures when the digest differs. *)
Theorem verify_event_frame pkm o o' R red red' :
  redact (redaction R) o None = Ok red -> redact (redaction R) o' None = Ok red' ->
  signing_bytes red' = signing_bytes red ->
  stored_hash o' = stored_hash o -> lookup s!"signatures" o' = lookup s!"signatures" o ->
  servers_to_check user_server event_server (signatures R) o' =
  servers_to_check user_server event_server (signatures R) o ->
  forall vd calc calc', verify_event user_server event_server H verify pkm o R = Ok vd ->
  content_hash H o = Ok calc -> content_hash H o' = Ok calc' ->
  exists hash, stored_hash o = Ok hash /\
    verify_event user_server event_server H verify pkm o' R = Ok (verdict_of hash calc').
Proof.
  intros E1 E1' Eb Eh Es Esrv vd calc calc' Hv Ec Ec'.
  destruct (verify_event_ok_inv pkm o R vd Hv) as (r0 & hash & sigmap & servers & c0 & F1 & F2 & F3 & F4 & F5 & Hall & _).
  rewrite E1 in F1. injection F1 as <-. exists hash. split; [exact F2|].
  rewrite (verify_event_spec pkm o' R red' hash sigmap servers calc' E1'); try congruence.
  now rewrite Eb, Hall.
Qed.

Corollary stripped_field_downgrades pkm o o' R red red' calc calc' hash :
  redact (redaction R) o None = Ok red -> redact (redaction R) o' None = Ok red' ->
  signing_bytes red' = signing_bytes red ->
  stored_hash o' = stored_hash o -> lookup s!"signatures" o' = lookup s!"signatures" o ->
  servers_to_check user_server event_server (signatures R) o' =
  servers_to_check user_server event_server (signatures R) o ->
  verify_event user_server event_server H verify pkm o R = Ok VAll ->
  stored_hash o = Ok hash -> content_hash H o = Ok calc -> content_hash H o' = Ok calc' ->
  calc' <> calc ->
  verify_event user_server event_server H verify pkm o' R = Ok VSignatures.
Proof.
  intros E1 E1' Eb Eh Es Esrv Hv Hh Ec Ec' Hne.
  destruct (verify_event_frame pkm o o' R red red' E1 E1' Eb Eh Es Esrv VAll calc calc' Hv Ec Ec') as (hash' & Hh' & ->).
  rewrite Hh in Hh'. injection Hh' as <-.
  destruct (verify_event_ok_inv pkm o R VAll Hv) as (r0 & h0 & sm & sv & c0 & _ & F2 & _ & _ & F5 & _ & Hvd).
  rewrite Hh in F2. injection F2 as <-. rewrite Ec in F5. injection F5 as <-.
  unfold verdict_of in *. destruct (b64_decode false hash) as [h|]; [|discriminate].
  destruct (str_eqb_spec h calc) as [Eh'|_]; [|discriminate]. subst h.
  destruct (str_eqb_spec calc calc') as [E|_]; [congruence|reflexivity].
Qed.

(** Changes confined to `unsigned` change nothing (room versions 1-11). *)
Theorem unsigned_irrelevant pkm v R o u :
  rules_of v = Some R -> wf_obj o -> wf u -> well_typed v o = true ->
  verify_event user_server event_server H verify pkm (insert s!"unsigned" u o) R =
  verify_event user_server event_server H verify pkm o R.
Proof.
  intros HR Hwf Hwu Hwt. pose proof (wf_obj_sorted _ Hwf) as Hs.
  assert (Hwt' : well_typed v (insert s!"unsigned" u o) = true).
  { unfold well_typed in *. rewrite !lookup_insert.
    destruct (str_eqb_spec s!"type" s!"unsigned") as [E|_]; [discriminate E|].
    destruct (str_eqb_spec s!"content" s!"unsigned") as [E|_]; [discriminate E|]. exact Hwt. }
  assert (Hred : spec_redact v (insert s!"unsigned" u o) = spec_redact v o).
  { unfold spec_redact. rewrite lookup_insert.
    destruct (str_eqb_spec s!"type" s!"unsigned") as [E|_]; [discriminate E|].
    destruct (lookup s!"type" o) as [[| | |ty| |]|]; try reflexivity.
    apply sorted_ext; try (apply sorted_fmap_obj; try apply sorted_insert; exact Hs).
    intros k. rewrite !lookup_fmap_obj by (try apply sorted_insert; exact Hs). rewrite lookup_insert.
    dse k s!"unsigned"; [|reflexivity].
    assert (Hk : keeps_top v s!"unsigned" = false).
    { unfold keeps_top. replace (mem_str s!"unsigned" top_always) with false by (vm_compute; reflexivity).
      replace (mem_str s!"unsigned" top_until_v10) with false by (vm_compute; reflexivity).
      now destruct (v <=? 10). }
    rewrite Hk. now destruct (lookup s!"unsigned" o). }
  unfold verify_event.
  rewrite (redact_eq_spec v R _ HR (wf_obj_insert _ _ _ Hwf Hwu) Hwt'), (redact_eq_spec v R o HR Hwf Hwt), Hred.
  assert (Hst : stored_hash (insert s!"unsigned" u o) = stored_hash o).
  { unfold stored_hash. rewrite lookup_insert. destruct (str_eqb_spec k_hashes s!"unsigned") as [E|_]; [discriminate E|reflexivity]. }
  rewrite Hst. change C05.Model.k_signatures with s!"signatures". rewrite lookup_insert.
  destruct (str_eqb_spec s!"signatures" s!"unsigned") as [E|_]; [discriminate E|].
  rewrite (servers_ignore s!"unsigned" u o (signatures R)) by discriminate.
  destruct (content_hash_ignores_uncovered H o s!"unsigned" u Hs eq_refl) as [-> _]. reflexivity.
Qed.

(** * A redacted copy still has valid signatures. *)
Lemma spec_redact_lookup_kept v o k :
  sorted o -> keeps_top v k = true -> k <> s!"content" ->
  (exists ty, lookup s!"type" o = Some (JStr ty)) ->
  lookup k (spec_redact v o) = lookup k o.
Proof.
  intros Hs Hk Hc [ty Hty]. unfold spec_redact. rewrite Hty, lookup_fmap_obj by exact Hs.
  destruct (lookup k o) as [x|]; [|reflexivity]. rewrite Hk.
  destruct (str_eqb_spec k s!"content"); [congruence|reflexivity].
Qed.

Theorem redacted_copy_verifies pkm v R o vd red servers' calc' :
  rules_of v = Some R -> wf_obj o ->
  verify_event user_server event_server H verify pkm o R = Ok vd ->
  redact (redaction R) o None = Ok red ->
  (* the redacted copy demands no server the original did not (see the third-party-invite
     boundary in DESIGN.md section 8) and is itself within the size limit *)
  servers_to_check user_server event_server (signatures R) red = Ok servers' ->
  (forall l, servers_to_check user_server event_server (signatures R) o = Ok l -> forall s, In s servers' -> In s l) ->
  content_hash H red = Ok calc' ->
  exists hash, stored_hash o = Ok hash /\
    verify_event user_server event_server H verify pkm red R = Ok (verdict_of hash calc').
Proof.
  intros HR Hwf Hv Hred Hsrv' Hsub Hc'.
  destruct (verify_event_ok_inv pkm o R vd Hv) as (r0 & hash & sigmap & servers & calc & E1 & E2 & E3 & E4 & E5 & Hall & _).
  rewrite Hred in E1. injection E1 as <-.
  pose proof (wf_obj_sorted _ Hwf) as Hs.
  destruct (well_typed v o) eqn:Hwt;
    [|destruct (redact_ill_typed v R o None HR Hwf Hwt) as [x Hx]; congruence].
  rewrite (redact_eq_spec v R o HR Hwf Hwt) in Hred. injection Hred as <-.
  assert (Hty : exists ty, lookup s!"type" o = Some (JStr ty)).
  { unfold well_typed in Hwt. destruct (lookup s!"type" o) as [[| | |ty| |]|]; try discriminate. eauto. }
  exists hash. split; [exact E2|].
  assert (Hidem : redact (redaction R) (spec_redact v o) None = Ok (spec_redact v o)).
  { apply (redact_idem v R o); [exact HR|exact Hwf|]. apply (redact_eq_spec v R o HR Hwf Hwt). }
  rewrite (verify_event_spec pkm (spec_redact v o) R (spec_redact v o) hash sigmap servers' calc' Hidem).
  - assert (Hall' : forallb (entity_ok verify pkm sigmap (signing_bytes (spec_redact v o))) servers' = true).
    { apply forallb_forall. intros s Hin. rewrite forallb_forall in Hall. apply Hall. exact (Hsub servers E4 s Hin). }
    now rewrite Hall'.
  - unfold stored_hash in *. change k_hashes with s!"hashes" in *.
    rewrite (spec_redact_lookup_kept v o s!"hashes" Hs eq_refl ltac:(discriminate) Hty). exact E2.
  - rewrite (spec_redact_lookup_kept v o s!"signatures" Hs eq_refl ltac:(discriminate) Hty). exact E3.
  - exact Hsrv'.
  - exact Hc'.
Qed.
End Ev.
