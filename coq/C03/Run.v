(** C03.Run —
    ( 0 version event pkmap table idtable expect )  verify_event -> ok 0 (All) | ok 1 (Signatures) | err 0
        expect: 0 nothing known, 1 must be All, 2 must be Ok (any verdict)
    ( 1 version event entity key-index key-version table idtable ) hash_and_sign_event
        -> ok event' | err 0
    table: honest (key, message, signature) triples; idtable: ( kind string (server)? ) the real
    parse results for the identifiers occurring in the event (kind 0 user id, 1 event id). *)
From Base Require Import Prelude Sx Json JsonText Rules Base64 Sha256.
From Gen Require Import RoomRules.
From C02 Require Import Model.
From C02 Require Run.
From C04 Require Import Spec.
From C05 Require Import Spec.
From C03 Require Import Model Spec.

Definition identry := (N * str * option str)%type.
Definition as_identry (x : sx) : option identry :=
  match x with
  | SL [SN k; SS s; o] => match as_opt as_str o with Some r => Some (Z.to_N k, s, r) | None => None end
  | _ => None
  end.
Fixpoint id_lookup (t : list identry) (kind : N) (s : str) : option str :=
  match t with
  | [] => None
  | (k, s', r) :: t' => if (k =? kind) && str_eqb s s' then r else id_lookup t' kind s
  end.

Definition sx_verdict (o : outcome verified) : sx :=
  sx_outcome (fun v => match v with VAll => SN 0 | VSignatures => SN 1 end) o.

(** Spec predicate on the implementation's verdict. *)
Definition verify_spec_ok (v : N) (t : list C02.Run.triple) (idt : list identry) (pkm : pkmap)
           (o : obj) (expect : Z) (impl : sx) : bool :=
  let us := id_lookup idt 0 in
  let es := id_lookup idt 1 in
  match impl with
  | SL [SN 0; SN verdict] =>
      well_typed v o &&
      match lookup s!"signatures" o with
      | Some (JObj sigmap) =>
          let msg := print (JObj (without [s!"signatures"; s!"unsigned"] (spec_redact v o))) in
          forallb (C02.Run.entity_has_honest_sig t pkm sigmap msg) (required_servers us es v o) &&
          (* hash status *)
          let matches :=
            match lookup s!"hashes" o with
            | Some (JObj h) =>
                match lookup s!"sha256" h, spec_content_hash sha256 o with
                | Some (JStr s), Some calc =>
                    match b64_decode false s with Some x => str_eqb x calc | None => false end
                | _, _ => false
                end
            | _ => false
            end in
          Bool.eqb matches (verdict =? 0)%Z && negb ((expect =? 1)%Z && negb (verdict =? 0)%Z)
      | _ => false
      end
  | SL [SN 1; _] => (expect =? 0)%Z
  | _ => false
  end.

Definition run (x : sx) : sx :=
  match x with
  | SL [SL [SN 0; SN v; o; pkm; tbl; idt; SN expect]; impl] =>
      match obj_of_sx o, C02.Run.as_pkmap pkm, as_list_of C02.Run.as_triple tbl, as_list_of as_identry idt,
            rules_of (Z.to_N v) with
      | Some o, Some pkm, Some t, Some idt, Some R =>
          SL [sx_verdict (verify_event (id_lookup idt 0) (id_lookup idt 1) sha256 (C02.Run.table_verify t) pkm o R);
              sx_bool (verify_spec_ok (Z.to_N v) t idt pkm o expect impl)]
      | _, _, _, _, _ => sx_bad
      end
  | SL [SL [SN 1; SN v; o; SS e; SN ki; SS kv; tbl; idt]; impl] =>
      match obj_of_sx o, as_list_of C02.Run.as_triple tbl, rules_of (Z.to_N v) with
      | Some o, Some t, Some R =>
          let res := hash_and_sign_event sha256 N (fun k m => C02.Run.table_sign t (SN (Z.of_N k)) m)
                       (fun _ => kv) e (Z.to_N ki) o (redaction R) in
          SL [sx_outcome (fun o' => sx_of_json (JObj o')) res; sx_bool true]
      | _, _, _ => sx_bad
      end
  | _ => sx_bad
  end.
