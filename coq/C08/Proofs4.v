(** C08.Proofs4 — the generated rules table against the per-version facts; the assembled
    theorem; the known deviation classes (soundness inside the class, witnesses). *)
From Base Require Import Prelude Sx Json Rules.
From Gen Require Import RoomRules TypeAliases.
From C08 Require Import Types Model Spec Known Proofs1 Proofs2 Proofs3.
From Coq Require Import ZifyBool ZifyN.

(** The obligation that re-checks when ruma's AuthorizationRules constants change. *)
Lemma all_versions_ok :
  forallb (fun v => match rules_of v with
                    | Some R => rules_match v (authorization R)
                    | None => false
                    end) all_versions = true.
Proof. vm_compute. reflexivity. Qed.

Lemma rules_of_versions v R : rules_of v = Some R -> In v all_versions.
Proof.
  unfold rules_of, all_versions.
  repeat match goal with
         | |- (if ?x =? ?k then _ else _) = _ -> _ =>
             destruct (N.eqb_spec x k) as [->|_]; [intros _; cbn [In]; tauto|]
         end.
  discriminate.
Qed.

Lemma rules_table v R : rules_of v = Some R -> rules_agree v (authorization R).
Proof.
  intros H. apply rules_match_agree.
  pose proof all_versions_ok as Hall. rewrite forallb_forall in Hall.
  specialize (Hall v (rules_of_versions _ _ H)). now rewrite H in Hall.
Qed.

Section Final.
Variable uid_ok : str -> bool.
Variable sn_ok : str -> bool.
Variable verify : str -> str -> str -> obj -> bool.

Theorem auth_eq_spec_versions v R ev st :
  rules_of v = Some R -> wf_inputs v ev st -> known_deviation v ev st = false ->
  auth_check uid_ok sn_ok verify (authorization R) ev st = spec_auth uid_ok sn_ok verify v ev st.
Proof. intros H. apply auth_eq_spec. now apply rules_table. Qed.

(** Inside the class [pl_strict] ruma only ever rejects (it is stricter than the rules, never
    more permissive). *)
Lemma pl_strict_rejected v R ev st :
  rules_of v = Some R -> pl_strict v ev = true ->
  auth_check uid_ok sn_ok verify (authorization R) ev st = false.
Proof.
  intros HR Hc. pose proof (rules_table _ _ HR) as A. set (r := authorization R) in *.
  unfold pl_strict in Hc. apply andb_true_iff in Hc as [Hc Hty]. apply andb_true_iff in Hc as [Hv Hp].
  apply str_eqb_eq in Hp.
  assert (Hbad : forall cur sl, check_room_power_levels uid_ok r ev cur sl = false).
  { intros cur sl. unfold check_room_power_levels.
    rewrite (own_levels_typed_spec v r A) in Hty.
    destruct (forallb (fun f => is_some (get_as_int r ev f)) all_fields) eqn:Ef.
    - destruct (int_fields_map_some r _ Ef) as [nif [-> _]]. cbn [andb] in Hty.
      destruct (pl_events r ev); cbn [is_some andb] in Hty; [|reflexivity].
      destruct (pl_notifications r ev); cbn [is_some] in Hty; [discriminate|reflexivity].
    - now rewrite (int_fields_map_none r _ Ef). }
  unfold auth_check, auth_prog. rewrite Hp.
  change (str_eqb t_power t_create) with false. cbv iota.
  change (str_eqb t_power t_aliases) with false.
  change (str_eqb t_power t_member) with false.
  change (str_eqb t_power t_tpi) with false.
  change (str_eqb t_power t_power) with true.
  rewrite andb_false_r. cbv iota.
  cbn [run]. destruct (st k_create) as [ce|]; [|reflexivity].
  destruct (negb (existsb _ _)); [reflexivity|].
  destruct (federate ce) as [fed|]; [|reflexivity].
  destruct (negb fed && _); [reflexivity|].
  rewrite run_read_membership. destruct (membership_of st (e_sender ev)) as [m|]; [|reflexivity].
  destruct (negb (is m s!"join")); [reflexivity|].
  destruct (creator uid_ok r ce); [|reflexivity]. cbn [run].
  destruct (user_power_level _ _ _ _ _); [|reflexivity].
  destruct (event_power_level _ _ _ _); [|reflexivity].
  destruct (_ <? _)%Z; [reflexivity|].
  destruct (_ && _); [reflexivity|]. cbn [run]. apply Hbad.
Qed.

(** The repaired knock rule, stated on its own: in v7-v9 a knock is rejected unless the join
    rule is [knock]; from v10 unless it is [knock] or [knock_restricted]. *)
Lemma knock_needs_knock_rule v R ev target st jr :
  rules_of v = Some R -> join_rule_of st = Some jr ->
  str_eqb jr s!"knock" = false -> (10 <=? v) && str_eqb jr s!"knock_restricted" = false ->
  run (check_room_member_knock (authorization R) ev target) st = false.
Proof.
  intros HR Hjr H1 H2. rewrite (knock_eq v _ (rules_table _ _ HR)).
  unfold rule_knock. now rewrite Hjr, H1, H2.
Qed.

End Final.

(** ** Witnesses of the known deviation classes *)
Definition w_create : event :=
  {| e_id := s!"$create"; e_room := s!"!room:s1"; e_sender := s!"@alice:s1"; e_type := t_create;
     e_skey := Some []; e_content := [(s!"creator", JStr s!"@alice:s1")]; e_prev := [];
     e_auth := []; e_redacts := None |}.
Definition w_member : event :=
  {| e_id := s!"$m"; e_room := s!"!room:s1"; e_sender := s!"@alice:s1"; e_type := t_member;
     e_skey := Some s!"@alice:s1"; e_content := [(s!"membership", JStr s!"join")]; e_prev := [];
     e_auth := []; e_redacts := None |}.
Definition w_state (extra : list (key * event)) : state :=
  fun k => if key_eqb k k_create then Some w_create
           else if key_eqb k (k_member s!"@alice:s1") then Some w_member
           else (fix go (l : list (key * event)) :=
                   match l with [] => None | (k', e) :: l' => if key_eqb k k' then Some e else go l' end) extra.

(** v9: the first power-levels event of a room with an ill-typed [ban]: the rules allow it
    (only [users] is validated before "no current power-levels event: allow"), ruma rejects. *)
Definition w_pl : event :=
  {| e_id := s!"$pl"; e_room := s!"!room:s1"; e_sender := s!"@alice:s1"; e_type := t_power;
     e_skey := Some []; e_content := [(s!"ban", JBool true)]; e_prev := [s!"$m"];
     e_auth := [s!"$create"]; e_redacts := None |}.

Lemma pl_strict_witness :
  let ok := fun _ : str => true in let vf := fun (_ _ _ : str) (_ : obj) => false in
  pl_strict 9 w_pl = true /\ wf_inputs 9 w_pl (w_state []) /\
  spec_auth ok ok vf 9 w_pl (w_state []) = true /\
  auth_check ok ok vf (authorization rules_v9) w_pl (w_state []) = false.
Proof. vm_compute. repeat split; reflexivity. Qed.

(** A third-party invite given in serde's sequence form [[signed]] instead of [{"signed": ..}]:
    the rules find no [signed] property and reject; ruma reads the array as the struct. *)
Definition w_signed : obj :=
  [(s!"mxid", JStr s!"@bob:s1");
   (s!"signatures", JObj [(s!"id.s1", JObj [(s!"ed25519:0", JStr s!"sig")])]);
   (s!"token", JStr s!"tok")].
Definition w_invite : event :=
  {| e_id := s!"$inv"; e_room := s!"!room:s1"; e_sender := s!"@alice:s1"; e_type := t_member;
     e_skey := Some s!"@bob:s1";
     e_content := [(s!"membership", JStr s!"invite"); (s!"third_party_invite", JArr [JObj w_signed])];
     e_prev := [s!"$m"]; e_auth := [s!"$create"]; e_redacts := None |}.
Definition w_tpi : event :=
  {| e_id := s!"$tpi"; e_room := s!"!room:s1"; e_sender := s!"@alice:s1"; e_type := t_tpi;
     e_skey := Some s!"tok"; e_content := [(s!"public_key", JStr s!"key")]; e_prev := [];
     e_auth := []; e_redacts := None |}.

Lemma serde_shapes_witness :
  let ok := fun _ : str => true in let vf := fun (_ _ _ : str) (_ : obj) => true in
  let st := w_state [(k_tpi s!"tok", w_tpi)] in
  serde_shapes w_invite st = true /\
  spec_auth ok ok vf 9 w_invite st = false /\
  auth_check ok ok vf (authorization rules_v9) w_invite st = true.
Proof. vm_compute. repeat split; reflexivity. Qed.

(** For every alias of the generated table: with [events: {alias: 50}] a joined user of level
    49 may send an event of the standard type by the rules ([events_default] applies); ruma
    reads the key as the standard type and rejects. *)
Definition w_alias_pl (alias : str) : event :=
  {| e_id := s!"$pl"; e_room := s!"!room:s1"; e_sender := s!"@alice:s1"; e_type := t_power;
     e_skey := Some [];
     e_content := [(s!"events", JObj [(alias, JInt 50)]); (s!"users", JObj [(s!"@alice:s1", JInt 49)])];
     e_prev := []; e_auth := []; e_redacts := None |}.
Definition w_alias_msg (ty : str) : event :=
  {| e_id := s!"$msg"; e_room := s!"!room:s1"; e_sender := s!"@alice:s1"; e_type := ty;
     e_skey := None; e_content := []; e_prev := [s!"$m"]; e_auth := [s!"$create"]; e_redacts := None |}.

Definition alias_witness_ok (at_ : str * str) : bool :=
  let ok := fun _ : str => true in let vf := fun (_ _ _ : str) (_ : obj) => false in
  let st := w_state [(k_power, w_alias_pl (fst at_))] in
  let ev := w_alias_msg (snd at_) in
  type_alias ev st && wf_inputsb 9 ev st
  && spec_auth ok ok vf 9 ev st
  && negb (auth_check ok ok vf (authorization rules_v9) ev st).

Lemma type_alias_witness : forallb alias_witness_ok type_aliases = true.
Proof. vm_compute. reflexivity. Qed.
