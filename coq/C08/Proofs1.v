(** C08.Proofs1 — level values: ruma's parser of string-typed power levels equals the
    specification's "string that is an integer"; the version booleans of [auth_rules] against the
    version number. *)
From Base Require Import Prelude Sx Json Rules.
From C08 Require Import Types Model Spec.
From Coq Require Import ZifyBool ZifyN.

(** The per-version facts the proofs use, as a decidable condition on a rules record. *)
Definition rules_match (v : N) (r : auth_rules) : bool :=
  Bool.eqb (special_case_room_redaction r) (v <=? 2)
  && Bool.eqb (special_case_room_aliases r) (v <=? 5)
  && Bool.eqb (limit_notifications_power_levels r) (6 <=? v)
  && Bool.eqb (knocking r) (7 <=? v)
  && Bool.eqb (restricted_join_rule r) (8 <=? v)
  && Bool.eqb (knock_restricted_join_rule r) (10 <=? v)
  && Bool.eqb (integer_power_levels r) (10 <=? v)
  && Bool.eqb (use_room_create_sender r) (negb (v <=? 10)).

Record rules_agree (v : N) (r : auth_rules) : Prop := {
  ra_redaction : special_case_room_redaction r = (v <=? 2);
  ra_aliases : special_case_room_aliases r = (v <=? 5);
  ra_notifications : limit_notifications_power_levels r = (6 <=? v);
  ra_knocking : knocking r = (7 <=? v);
  ra_restricted : restricted_join_rule r = (8 <=? v);
  ra_knock_restricted : knock_restricted_join_rule r = (10 <=? v);
  ra_integer : integer_power_levels r = (10 <=? v);
  ra_create_sender : use_room_create_sender r = negb (v <=? 10) }.

Lemma rules_match_agree v r : rules_match v r = true -> rules_agree v r.
Proof.
  unfold rules_match. rewrite !andb_true_iff. intros [[[[[[[H1 H2] H3] H4] H5] H6] H7] H8].
  constructor; now apply eqb_prop.
Qed.

(** ** Digits *)
Lemma digits_val_nonneg s : forall acc, (0 <= acc)%Z -> (0 <= digits_val acc s)%Z.
Proof. induction s as [|b r IH]; intros acc H; cbn [digits_val]; [exact H|]. apply IH. lia. Qed.

Lemma parse_digits_nonneg s z : parse_digits s = Some z -> (0 <= z)%Z.
Proof.
  unfold parse_digits. destruct s as [|b r]; [discriminate|].
  destruct (forallb is_digit (b :: r)); [|discriminate]. intros [= <-].
  apply digits_val_nonneg. lia.
Qed.

Lemma parse_digits_head_not_digit b r : is_digit b = false -> parse_digits (b :: r) = None.
Proof. intros H. unfold parse_digits. cbn [forallb]. now rewrite H. Qed.

Lemma range_nonneg z : (0 <= z)%Z -> in_uint_range z = in_int_range z.
Proof. unfold in_uint_range, in_int_range, int_max. intros H. lia. Qed.

(** ** ruma's string power levels = the specification's integer strings *)
Lemma parse_v1_string_spec s : parse_v1_string s = string_integer s.
Proof.
  unfold parse_v1_string, string_integer. destruct (trim s) as [|b w]; [reflexivity|].
  unfold plus, minus in *.
  destruct (b =? 43) eqn:Eb.
  - (* '+' *)
    assert (Hun : forall w', (match w' with b2 :: _ => b2 =? 43 | [] => false end) = false ->
              check_range in_uint_range (parse_unsigned w') =
              match parse_digits w' with Some z => if in_int_range z then Some z else None | None => None end).
    { intros w' Hw. unfold parse_unsigned, plus. destruct w' as [|b2 r2]; [reflexivity|].
      rewrite Hw. unfold check_range. destruct (parse_digits (b2 :: r2)) eqn:E; [|reflexivity].
      now rewrite (range_nonneg _ (parse_digits_nonneg _ _ E)). }
    destruct w as [|b2 r2]; [apply Hun; reflexivity|].
    destruct (b2 =? 43) eqn:Eb2; [|apply Hun; exact Eb2].
    rewrite parse_digits_head_not_digit; [reflexivity|]. unfold is_digit. lia.
  - unfold parse_signed, plus, minus. rewrite Eb. unfold check_range.
    destruct (b =? 45); reflexivity.
Qed.

Lemma pl_int_spec v r j : rules_agree v r -> pl_int r j = level_value v j.
Proof.
  intros A. unfold pl_int, level_value. destruct j; try reflexivity.
  rewrite (ra_integer _ _ A), parse_v1_string_spec.
  destruct (N.leb_spec 10 v), (N.leb_spec v 9); try reflexivity; lia.
Qed.
