(** C08.Known — the inputs the theorem speaks about: well-formedness of the inputs, and the
    known deviation classes (open findings, known_findings.d/C08.json).  [pl_strict] and
    [serde_shapes] are defined in [Spec]; [type_alias] refers to the generated alias table. *)
From Base Require Import Prelude Sx Json.
From Gen Require Import TypeAliases.
From C08 Require Import Types Spec.

(** [type_alias]: ruma reads the keys of [events] as its event-type enum, which maps each
    alias of [Gen.TypeAliases] (today: org.matrix.call.sdp_stream_metadata_changed) to its
    standard name; the rules compare event types as strings.  The class: an alias occurs as a
    key of [events] in the current or in the new power-levels event. *)
Definition is_alias (k : str) : bool :=
  match lookup k type_aliases with Some _ => true | None => false end.

Definition has_alias_key (e : event) : bool :=
  match lookup s!"events" (e_content e) with
  | Some (JObj m) => existsb (fun kv => is_alias (fst kv)) m
  | _ => false
  end.

Definition type_alias (ev : event) (st : state) : bool :=
  (str_eqb (e_type ev) t_power && has_alias_key ev)
  || match st (t_power, []) with Some p => has_alias_key p | None => false end.

Definition known_deviation (v : N) (ev : event) (st : state) : bool :=
  pl_strict v ev || serde_shapes ev st || type_alias ev st.

(** Well-formed inputs: what the Rust types guarantee.  In v1-v2 event ids have the form
    [$opaque:server]; the [events] objects of the power-levels events involved are JSON objects
    with strictly increasing keys (every parsed JSON object is: serde_json::Map). *)
Definition events_sorted (e : event) : bool :=
  match lookup s!"events" (e_content e) with
  | Some (JObj m) => sortedb m
  | _ => true
  end.

Definition wf_inputsb (v : N) (ev : event) (st : state) : bool :=
  (negb (v <=? 2) || match eid_server (e_id ev) with Some _ => true | None => false end)
  && events_sorted ev
  && match st (t_power, []) with Some p => events_sorted p | None => true end.

Definition wf_inputs (v : N) (ev : event) (st : state) : Prop := wf_inputsb v ev st = true.
