From Base Require Import Prelude.
