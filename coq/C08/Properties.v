(** C08.Properties — the theorems that decide C08, and nothing else.
    [uid_ok], [sn_ok] (identifier grammar, property C10) and [verify] (one third-party-invite
    signature check, property C02) are universally quantified: external behaviour. *)
From Base Require Import Prelude Sx Json Rules.
From Gen Require Import RoomRules TypeAliases.
From C08 Require Import Types Model Spec Known Proofs1 Proofs2 Proofs3 Proofs4.

(** For every room version 1-11 (rules regenerated from the code), every event and every room
    state: the model of ruma's [auth_check] accepts exactly when the specification's
    authorization rules for that version number accept — outside the three known deviation
    classes (open findings C08-pl-strict, C08-serde-shapes, C08-type-alias). *)
Theorem C08_auth_eq_spec :
  forall (uid_ok sn_ok : str -> bool) (verify : str -> str -> str -> obj -> bool)
         (v : N) (R : room_rules) (ev : event) (st : state),
  rules_of v = Some R -> wf_inputs v ev st -> known_deviation v ev st = false ->
  auth_check uid_ok sn_ok verify (authorization R) ev st = spec_auth uid_ok sn_ok verify v ev st.
Proof. exact auth_eq_spec_versions. Qed.
Eval compute in "PA:C08_auth_eq_spec"%string.
Print Assumptions C08_auth_eq_spec.

(** The nine version booleans of ruma's AuthorizationRules are, for each of v1-v11, what the
    specification's "since vN" / "v1-vN" clauses say (re-proved on the generated table). *)
Theorem C08_rules_table :
  forall v R, rules_of v = Some R -> rules_agree v (authorization R).
Proof. exact rules_table. Qed.
Eval compute in "PA:C08_rules_table"%string.
Print Assumptions C08_rules_table.

(** The same equality for any rules record that agrees with a version number: the rule-group
    lemmas do not depend on the table. *)
Theorem C08_auth_eq_spec_generic :
  forall (uid_ok sn_ok : str -> bool) (verify : str -> str -> str -> obj -> bool)
         (v : N) (r : auth_rules), rules_agree v r -> forall (ev : event) (st : state),
  wf_inputs v ev st -> known_deviation v ev st = false ->
  auth_check uid_ok sn_ok verify r ev st = spec_auth uid_ok sn_ok verify v ev st.
Proof. exact auth_eq_spec. Qed.
Eval compute in "PA:C08_auth_eq_spec_generic"%string.
Print Assumptions C08_auth_eq_spec_generic.

(** String-typed power levels (v1-v9): ruma's parser accepts exactly the strings that are
    integers (white space, one optional sign, digits), with the same value. *)
Theorem C08_string_levels : forall s, parse_v1_string s = string_integer s.
Proof. exact parse_v1_string_spec. Qed.
Eval compute in "PA:C08_string_levels"%string.
Print Assumptions C08_string_levels.

(** The repaired knock rule on its own. *)
Theorem C08_knock_needs_knock_rule :
  forall v R ev target st jr,
  rules_of v = Some R -> join_rule_of st = Some jr ->
  str_eqb jr s!"knock" = false -> (10 <=? v) && str_eqb jr s!"knock_restricted" = false ->
  run (check_room_member_knock (authorization R) ev target) st = false.
Proof. exact knock_needs_knock_rule. Qed.
Eval compute in "PA:C08_knock_needs_knock_rule"%string.
Print Assumptions C08_knock_needs_knock_rule.

(** Known class [pl_strict]: there ruma only rejects (never more permissive than the rules) ... *)
Theorem C08_pl_strict_rejected :
  forall (uid_ok sn_ok : str -> bool) (verify : str -> str -> str -> obj -> bool) v R ev st,
  rules_of v = Some R -> pl_strict v ev = true ->
  auth_check uid_ok sn_ok verify (authorization R) ev st = false.
Proof. exact pl_strict_rejected. Qed.
Eval compute in "PA:C08_pl_strict_rejected"%string.
Print Assumptions C08_pl_strict_rejected.

(** ... and the class is not empty: an event of the class that the rules allow. *)
Theorem C08_pl_strict_witness :
  let ok := fun _ : str => true in let vf := fun (_ _ _ : str) (_ : obj) => false in
  pl_strict 9 w_pl = true /\ wf_inputs 9 w_pl (w_state []) /\
  spec_auth ok ok vf 9 w_pl (w_state []) = true /\
  auth_check ok ok vf (authorization rules_v9) w_pl (w_state []) = false.
Proof. exact pl_strict_witness. Qed.
Eval compute in "PA:C08_pl_strict_witness"%string.
Print Assumptions C08_pl_strict_witness.

(** Known class [serde_shapes]: a witness on which model and rules differ. *)
Theorem C08_serde_shapes_witness :
  let ok := fun _ : str => true in let vf := fun (_ _ _ : str) (_ : obj) => true in
  let st := w_state [(k_tpi s!"tok", w_tpi)] in
  serde_shapes w_invite st = true /\
  spec_auth ok ok vf 9 w_invite st = false /\
  auth_check ok ok vf (authorization rules_v9) w_invite st = true.
Proof. exact serde_shapes_witness. Qed.
Eval compute in "PA:C08_serde_shapes_witness"%string.
Print Assumptions C08_serde_shapes_witness.

(** Known class [type_alias]: for every alias of the generated table, a witness on which the
    rules allow and the model of ruma (which reads the key as the standard type) rejects. *)
Theorem C08_type_alias_witness : forallb alias_witness_ok type_aliases = true.
Proof. exact type_alias_witness. Qed.
Eval compute in "PA:C08_type_alias_witness"%string.
Print Assumptions C08_type_alias_witness.
