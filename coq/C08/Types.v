(** C08.Types — the data both the model and the specification talk about: events (PDUs as the
    [Event] trait of ruma-state-res exposes them), state keys, room state, byte-string
    helpers (server part of an identifier, Unicode white space), decimal digits.

    Strings are byte strings (UTF-8), as Rust's [str].  Nothing here mirrors control flow of
    the anchored code; this file is imported by [Model] and by [Spec]. *)
From Base Require Import Prelude Sx Json.

(** ** Events and state *)
Record event := {
  e_id : str;                (* Event::event_id *)
  e_room : str;              (* Event::room_id *)
  e_sender : str;            (* Event::sender *)
  e_type : str;              (* Event::event_type, as its string *)
  e_skey : option str;       (* Event::state_key *)
  e_content : obj;           (* Event::content: a JSON object *)
  e_prev : list str;         (* Event::prev_events *)
  e_auth : list str;         (* Event::auth_events *)
  e_redacts : option str }.  (* Event::redacts *)

(** A state key: (event type, state_key). *)
Definition key := (str * str)%type.
Definition key_eqb (a b : key) : bool := str_eqb (fst a) (fst b) && str_eqb (snd a) (snd b).

Lemma key_eqb_spec a b : reflect (a = b) (key_eqb a b).
Proof.
  destruct a as [a1 a2], b as [b1 b2]; unfold key_eqb; cbn [fst snd].
  destruct (str_eqb_spec a1 b1) as [->|H]; cbn [andb]; [|constructor; congruence].
  destruct (str_eqb_spec a2 b2) as [->|H]; constructor; congruence.
Qed.

Fixpoint mem_key (k : key) (l : list key) : bool :=
  match l with [] => false | x :: l' => key_eqb k x || mem_key k l' end.

Lemma mem_key_In k l : mem_key k l = true <-> In k l.
Proof.
  induction l as [|x l IH]; cbn [mem_key In]; [split; [congruence|tauto]|].
  rewrite orb_true_iff, IH. destruct (key_eqb_spec k x); split; intros [H|H]; auto; congruence.
Qed.

(** The room state the authorization check is run against (the [fetch_state] closure). *)
Definition state := key -> option event.

(** Event types and content keys the rules name. *)
Definition t_create := s!"m.room.create".
Definition t_member := s!"m.room.member".
Definition t_power := s!"m.room.power_levels".
Definition t_join_rules := s!"m.room.join_rules".
Definition t_tpi := s!"m.room.third_party_invite".
Definition t_aliases := s!"m.room.aliases".
Definition t_redaction := s!"m.room.redaction".

Definition k_create : key := (t_create, []).
Definition k_power : key := (t_power, []).
Definition k_join_rules : key := (t_join_rules, []).
Definition k_member (u : str) : key := (t_member, u).
Definition k_tpi (token : str) : key := (t_tpi, token).

(** ** Identifiers *)
Definition colon : N := 58.
Definition at_sign : N := 64.

(** Everything after the first ':' ([None] when there is none). *)
Fixpoint after_colon (s : str) : option str :=
  match s with
  | [] => None
  | b :: r => if b =? colon then Some r else after_colon r
  end.

(** Server name of a user id ([UserId::server_name]); user ids always contain a colon. *)
Definition server_of (s : str) : str := match after_colon s with Some r => r | None => [] end.

(** Server name of an event id, when it has one ([EventId::server_name]). *)
Definition eid_server (s : str) : option str := after_colon s.

(** ** Integers of the JSON data model ([js_int::Int], [js_int::UInt]) *)
Definition int_max : Z := 9007199254740991.
Definition in_int_range (z : Z) : bool := ((- int_max <=? z) && (z <=? int_max))%Z.
Definition in_uint_range (z : Z) : bool := ((0 <=? z) && (z <=? int_max))%Z.

(** Decimal digits: one or more ASCII digits, most significant first. *)
Definition is_digit (b : N) : bool := (48 <=? b) && (b <=? 57).
Fixpoint digits_val (acc : Z) (s : str) : Z :=
  match s with [] => acc | b :: r => digits_val (acc * 10 + Z.of_N (b - 48)) r end.
Definition parse_digits (s : str) : option Z :=
  match s with
  | [] => None
  | _ => if forallb is_digit s then Some (digits_val 0 s) else None
  end.

(** ** Unicode white space (the [White_Space] property, which is what Rust's [str::trim]
    strips), as UTF-8 byte sequences. *)
Definition ws_seqs : list str :=
  [ [9]; [10]; [11]; [12]; [13]; [32];
    [194; 133]; [194; 160];                      (* U+0085 U+00A0 *)
    [225; 154; 128];                             (* U+1680 *)
    [226; 128; 128]; [226; 128; 129]; [226; 128; 130]; [226; 128; 131]; [226; 128; 132];
    [226; 128; 133]; [226; 128; 134]; [226; 128; 135]; [226; 128; 136]; [226; 128; 137];
    [226; 128; 138];                             (* U+2000 .. U+200A *)
    [226; 128; 168]; [226; 128; 169]; [226; 128; 175];   (* U+2028 U+2029 U+202F *)
    [226; 129; 159];                             (* U+205F *)
    [227; 128; 128] ].                           (* U+3000 *)

Fixpoint drop_prefix (p s : str) : option str :=
  match p, s with
  | [], _ => Some s
  | x :: p', y :: s' => if x =? y then drop_prefix p' s' else None
  | _ :: _, [] => None
  end.

Fixpoint first_some {A B} (f : A -> option B) (l : list A) : option B :=
  match l with [] => None | x :: l' => match f x with Some y => Some y | None => first_some f l' end end.

(** Strip one leading white-space character. *)
Definition strip_ws (s : str) : option str := first_some (fun p => drop_prefix p s) ws_seqs.
(** Strip one trailing white-space character of a reversed string. *)
Definition strip_ws_rev (s : str) : option str := first_some (fun p => drop_prefix (rev p) s) ws_seqs.

Fixpoint strip_all (step : str -> option str) (fuel : nat) (s : str) : str :=
  match fuel with
  | O => s
  | S f => match step s with Some r => strip_all step f r | None => s end
  end.

(** [str::trim]: fuel [length s] always suffices (each step removes at least one byte). *)
Definition trim (s : str) : str :=
  let a := strip_all strip_ws (List.length s) s in
  rev (strip_all strip_ws_rev (List.length a) (rev a)).

(** ** Small helpers *)
Definition ostr_eqb (a b : option str) : bool :=
  match a, b with
  | Some x, Some y => str_eqb x y
  | None, None => true
  | _, _ => false
  end.

Definition oZ_eqb (a b : option Z) : bool :=
  match a, b with
  | Some x, Some y => (x =? y)%Z
  | None, None => true
  | _, _ => false
  end.

Definition olookup {A} (k : str) (m : option (amap A)) : option A :=
  match m with Some m => lookup k m | None => None end.
Definition okeys {A} (m : option (amap A)) : list str :=
  match m with Some m => keys m | None => [] end.
